"""C08 — token tables form a consistent, self-inverse code.
Proof: Props/C08.lean over the regenerated Gen.Tables (kernel evaluation, exhaustive).
Tie: translator (dump_tables.c -> Gen/Tables.lean) + correspondence of the real C look-up
functions against the model look-ups on every row and on perturbed names."""
import json, os, random, subprocess
import common, gen_typed
from common import log


def tbl_lines(d, rng, tier):
    """TBL request lines: every row of every language (exhaustive) plus perturbed names."""
    lines = []
    T = d['tables']
    for l in d['langs']:
        lid = l['id']
        if l['tags'] is not None:
            rows = T[str(l['tags'])]['rows']
            pages = sorted({r[1] for r in rows})
            for r in rows:
                lines.append(f'TBL TAGENC {lid} {r[1]} {r[0]}')
                lines.append(f'TBL TAGENC {lid} -1 {r[0]}')
                other = rng.choice(pages)
                lines.append(f'TBL TAGENC {lid} {other} {r[0]}')
                # perturbed: drop last char / append a char / change case
                nm = bytes.fromhex(r[0])
                for v in (nm[:-1], nm + b'x', nm.swapcase()):
                    lines.append(f'TBL TAGENC {lid} {r[1]} {v.hex() or "-"}')
        if l['attrs'] is not None:
            rows = T[str(l['attrs'])]['rows']
            for r in rows:
                nm, val = r[0], r[1]
                v = bytes.fromhex(val) if val is not None else b''
                for vv in (v, v + b'zz', v[:-1] if v else b'q', b'', b'http://www.example.com/'):
                    lines.append(f'TBL ATTRENC {lid} {nm} {vv.hex() or "-"}')
                lines.append(f'TBL ATTRENC {lid} {(bytes.fromhex(nm) + b"x").hex()} {v.hex() or "-"}')
        if l['exts'] is not None:
            for r in T[str(l['exts'])]['rows']:
                lines.append(f'TBL EXTENC {lid} {r[0]}')
                lines.append(f'TBL EXTENC {lid} {(bytes.fromhex(r[0]) + b"x").hex()}')
        if l['ns'] is not None:
            for r in T[str(l['ns'])]['rows']:
                lines.append(f'TBL NSPAGE {lid} {r[0]}')
                lines.append(f'TBL PAGENS {lid} {r[1]}')
            lines.append(f'TBL NSPAGE {lid} {b"no:such".hex()}')
            lines.append(f'TBL PAGENS {lid} 200')
        else:
            lines.append(f'TBL PAGENS {lid} 0')
    return lines


def impl_oracle(d, c_answers):
    """The self-inverse clause evaluated with the *implementation's* look-ups: for every tag row,
    decode (first row with that page/token, read from the dump) then C-encode in that page."""
    bad = []
    T = d['tables']
    for l in d['langs']:
        if l['tags'] is None:
            continue
        rows = T[str(l['tags'])]['rows']
        for r in rows:
            dec = next(x for x in rows if x[1] == r[1] and x[2] == r[2])
            ans = c_answers.get(f'TBL TAGENC {l["id"]} {r[1]} {dec[0]}')
            if ans is None:
                continue
            if ans != f'ROW {r[1]} {r[2]} {dec[0]}' and not ans.startswith(f'ROW {r[1]} {r[2]} '):
                bad.append({'lang': l['id'], 'page': r[1], 'token': r[2], 'decoded_name': dec[0], 'c_encode': ans})
    return bad


def run(res, args):
    rng = random.Random(res.seed)
    b = common.Build('asan')
    with common.lean_lock():
        d, changed = common.regenerate(b)
    with common.lean_lock():
        typed_rows, nprobes, tchanged = gen_typed.regenerate(b, d, common.LEAN)
    res.coverage['typed_probes'] = nprobes
    res.coverage['typed_rows'] = len(typed_rows)
    ok, failing = common.proof_step(res, ['Wbxml.Props.C08', 'Wbxml.Props.C08Typed'], 'Wbxml.Props.C08', extra_targets=['driver', 'c08search'])
    res.coverage['regenerated'] = changed
    known = [k for k in common.load_known()['findings'] if k['property'] == 'C08']

    # item-by-item evaluation of the predicates (also lists the known findings)
    sr = common.run([os.path.join(common.LEAN, '.lake', 'build', 'bin', 'c08search')], stderr=subprocess.PIPE)
    fails, rows_line = [], ''
    for line in sr.stdout.split('\n'):
        if line.startswith('FAIL '):
            kv = dict(x.split('=', 1) for x in line.split()[1:])
            fails.append(kv)
        elif line.startswith('ROWS '):
            rows_line = line
    res.coverage['rows_evaluated'] = rows_line
    res.coverage['exhaustive'] = True
    seen_known, new_items = set(), []
    for f in fails:
        k = next((k for k in known if k['match']['kind'] == f['kind'] and k['match'].get('name') == f['name']
                  and int(k['match'].get('token', -1)) == int(f['token'])), None)
        if k:
            seen_known.add(k['id'])
        else:
            new_items.append(f)
    for k in known:
        if k['id'] in seen_known:
            res.known.append(f"{k['id']}: {k['what']}")

    # correspondence of the real look-up functions with the model look-ups
    lines = tbl_lines(d, rng, res.tier)
    hc = b.harness('tbl.c')
    inp = '\n'.join(lines) + '\n'
    rc = common.run([hc], input=inp, env=b.env(), stderr=subprocess.PIPE)
    rl = common.run([os.path.join(common.LEAN, '.lake', 'build', 'bin', 'driver')], input=inp, stderr=subprocess.PIPE)
    c_out, l_out = rc.stdout.split('\n')[:len(lines)], rl.stdout.split('\n')[:len(lines)]
    if rc.returncode != 0:
        res.violation({'kind': 'sanitizer-or-crash', 'stderr': rc.stderr[-3000:], 'harness': 'tbl.c'}, 'tbl-crash')
    diffs = [(lines[i], c_out[i] if i < len(c_out) else '<missing>', l_out[i] if i < len(l_out) else '<missing>')
             for i in range(len(lines)) if (c_out[i] if i < len(c_out) else None) != (l_out[i] if i < len(l_out) else None)]
    for ln in lines:
        res.add_eval(ln)
    res.samples = [{'request': lines[i], 'impl': c_out[i], 'model': l_out[i]} for i in rng.sample(range(len(lines)), 6)]
    res.coverage['traces_validated_against_impl'] = len(lines) - len(diffs)
    res.coverage['rule'] = ('every row of every language through wbxml_tables_get_tag_from_xml (own page, no page, a random page), '
                            '..._attr_from_xml (exact, extended, truncated, empty, unrelated values), ..._ext_from_xml, '
                            'get_code_page/get_xmlns, plus perturbed names; distinct = distinct request lines')
    c_answers = {lines[i]: c_out[i] for i in range(min(len(lines), len(c_out)))}
    oracle_bad = impl_oracle(d, c_answers)

    # ---- typed content: rows where the encoder's typed form is not what the parser decodes, and
    # pinned typed rows that lost their handling or their name (evaluated on the probe results)
    import json as _json, re as _re
    exp_src = open(os.path.join(common.LEAN, 'Wbxml', 'Model', 'TypedExpected.lean')).read()
    expected = [(m.group(1) == 'true', int(m.group(2)), int(m.group(3)), int(m.group(4)), bytes(int(x) for x in m.group(5).split(',') if x).hex(), int(m.group(6)), int(m.group(7)))
                for m in _re.finditer(r'⟨(true|false), (\d+), (\d+), (\d+), \[([0-9,]*)\], (\d+), (\d+)⟩', exp_src)]
    K = gen_typed.KINDS
    obs = {(r['kind'] == 'attr', r['lang'], r['page'], r['token']): r for r in typed_rows}
    for r in typed_rows:
        if r['enc'] != 'raw' and r['dec'] != r['enc']:
            res.violation({'kind': 'typed-mismatch', 'row': r,
                           'explain': 'the encoder writes this element/attribute in a typed binary form that the parser does not decode with the same type',
                           'replay': f"ENCW 3 0 0 0 <tree with element page {r['page']} token {r['token']} of language {r['lang']} and text 258 / 20010419T063913A>, then PARSE {r['lang']} 0 <result>"},
                          f"typed-{r['lang']}-{r['page']}-{r['token']}")
    for e in expected:
        r = obs.get(e[:4])
        if r is None or r['name'] != e[4] or K.get(r['dec'], 9) != e[5] or (e[6] != 0 and K.get(r['enc'], 9) != e[6]):
            if not any(v[1].startswith(f'typed-{e[1]}-{e[2]}-{e[3]}') for v in res.violations):
                res.violation({'kind': 'typed-handling-lost', 'expected(isAttr,lang,page,token,name,dec,enc)': e, 'observed': r,
                               'explain': 'a (language, page, token) singled out for typed handling no longer gets it, or its table row changed name'},
                              f'typedlost-{e[1]}-{e[2]}-{e[3]}')
    # ---- decide
    for f in new_items:
        res.violation({'kind': 'table-row', 'item': f,
                       'explain': 'predicate of Props/C08 evaluates to false on this row of the regenerated tables',
                       'failing_theorems': failing}, f"row-{f['kind']}-{f['lang']}-{f['page']}-{f['token']}")
    for ob in oracle_bad[:5]:
        if not any(int(f['lang']) == ob['lang'] and int(f['page']) == ob['page'] and int(f['token']) == ob['token'] for f in new_items):
            res.violation({'kind': 'impl-lookup', 'item': ob,
                           'explain': 'decode then encode with the real wbxml_tables_get_tag_from_xml does not return the token'},
                          f"impl-{ob['lang']}-{ob['page']}-{ob['token']}")
    if diffs and not res.violations:
        # model and implementation look-ups disagree but no row violates the property on either side
        res.violation({'kind': 'correspondence', 'stream': 'TBL', 'first_differences': diffs[:5],
                       'explain': 'C look-up functions no longer behave like Model/Tables.lean; the property is no longer shown'},
                      'tbl-correspondence', no_input=True)
    if failing and not res.violations:
        res.violation({'kind': 'proof', 'theorems': failing,
                       'explain': 'proof obligations of Props/C08.lean no longer check against the regenerated tables'},
                      'proof', no_input=True)
    return res.finish('proof', checker_cmd='lake build Wbxml.Props.C08 && #audit Wbxml.Props.C08 (lake env lean)')
