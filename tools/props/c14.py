"""C14 — concurrent conversions do not interfere with each other.

Proof   : Props/C14.lean — schedule independence of the abstract machine (all n, programs, schedules,
          by induction) + the structural premises over the REGENERATED Gen/Globals by kernel evaluation
          (no writable globals / sections, every external re-entrant per POSIX.1-2017 §2.9.1).
Tie     : translator tools/gen_globals.py (readelf/nm on the plain-gcc libwbxml2.a of the current tree)
          + correspondence under ThreadSanitizer: harness/conc.c runs seeded operation sequences on
          2..16 threads concurrently and then the same sequences alone; every operation's status and
          output hash must coincide, and TSan must stay silent.
          The expected outputs are the implementation's OWN sequential results (the byte-level model
          of the conversions belongs to other properties); TSan exploration is validation and
          counter-example search, not proof.
"""
import concurrent.futures, glob, json, os, random, re, shutil, subprocess, sys, time
import common
from common import log

sys.path.insert(0, os.path.join(common.VERIF, 'tools'))
import gen_globals

CORPUS_DIR = os.path.join(common.VERIF, 'corpus', 'c14')
DRIVER = os.path.join(common.LEAN, '.lake', 'build', 'bin', 'driver_conc')

# symbols whose classification is part of the rule; evaluated by the compiled model on every run
SELFTEST_BAD = ['strtok', 'rand', 'localtime', 'gmtime', 'asctime', 'ctime', 'strerror', 'setlocale', 'getenv',
                'readdir', 'putenv', 'srand', 'tmpnam', 'readdir64', '__wctomb_chk', 'not_a_known_function']
SELFTEST_OK = ['strlen', 'memcmp', 'strtok_r', 'localtime_r', 'strerror_r', 'snprintf', '__sprintf_chk',
               '__isoc99_sscanf', 'XML_ParserCreate', '__tsan_read8', '_GLOBAL_OFFSET_TABLE_', 'iconv']


# ------------------------------------------------------------------ inputs

def mutate(rng, data):
    b = bytearray(data)
    if not b:
        return bytes([rng.randrange(256)])
    for _ in range(rng.choice((1, 1, 1, 2, 3))):
        k = rng.randrange(8)
        i = rng.randrange(len(b))
        if k == 0:
            b[i] ^= 1 << rng.randrange(8)
        elif k == 1:
            b[i] = rng.randrange(256)
        elif k == 2:
            del b[i:]
        elif k == 3:
            del b[i:i + rng.randrange(1, 9)]
        elif k == 4:
            j = min(len(b), i + rng.randrange(1, 17)); b[i:i] = b[i:j]
        elif k == 5:
            b[i:i] = bytes(rng.randrange(256) for _ in range(rng.randrange(1, 5)))
        elif k == 6:
            b[i] = rng.choice((0x00, 0x01, 0x02, 0x03, 0x04, 0x40, 0x43, 0x44, 0x80, 0x83, 0xC3, 0xC4, 0xFF, 0x7F))
        else:
            j = rng.randrange(len(b)); b[i], b[j] = b[j], b[i]
        if not b:
            b = bytearray(b'\x00')
    return bytes(b[:20000])


def base_xml():
    docs = []
    for p in sorted(glob.glob(os.path.join(common.REPO, 'test', 'tools', '*', '*.xml'))):
        with open(p, 'rb') as f:
            d = f.read()
        if 0 < len(d) <= 32768:
            docs.append(d)
    return docs


def stored_corpus():
    """Minimised past failures: files of corpus lines ('X <hex>' / 'W <hex>'), run first (lowest indices)."""
    lines = []
    for p in sorted(glob.glob(os.path.join(CORPUS_DIR, '*.txt'))):
        with open(p) as f:
            for ln in f:
                ln = ln.strip()
                if re.fullmatch(r'[XWxw] [0-9a-fA-F]*', ln):
                    lines.append(ln)
    return lines


def write_corpus(path, lines):
    with open(path, 'w') as f:
        f.write('\n'.join(lines) + '\n')


def build_corpus(res, rng, b, conc, scratch):
    """valid XML + the WBXML derived from it + mutated/invalid variants, screened single-threaded."""
    n_xmut, n_wmut = (150, 300) if res.tier == 'quick' else (1000, 2000)
    xml = base_xml()
    if not xml:
        raise common.BuildError('no seed documents under test/tools/*/*.xml')
    p0 = os.path.join(scratch, 'xml.txt')
    write_corpus(p0, ['X ' + d.hex() for d in xml])
    r = common.run([conc, 'derive', p0], env=tsan_env(b), stderr=subprocess.PIPE, timeout=300)
    wb = [bytes.fromhex(l[2:]) for l in r.stdout.split('\n') if l.startswith('W ')]
    if not wb:
        raise common.BuildError('xml2wbxml produced no WBXML from the seed documents: ' + (r.stderr or '')[-500:])
    lines = stored_corpus()
    n_stored = len(lines)
    lines += ['X ' + d.hex() for d in xml] + ['W ' + d.hex() for d in wb]
    # grammar-directed WBXML over every language's tables: the token kinds the project's XML samples never
    # produce (ENTITY, extensions, PI, literals, string-table references, opaque typed content)
    try:
        import wbgen
        tg = wbgen.TableGen(common.dump_only(b), rng)
        n_gen = 150 if res.tier == 'quick' else 1500
        gen = [tg.doc(with_pubid=True)[1] for _ in range(n_gen)]
        ent = bytes([3, 4, 106, 0, 0x7F]) + b''.join(b'\x02' + wbgen.mb(c) for c in (0x41, 0xE9, 0x20AC, 0x1D11E, 0x41, 0x7FF, 0x800)) * 40 + b'\x01'
        lines += ['W ' + d.hex() for d in gen] + ['W ' + ent.hex()] * 4
    except Exception as e:      # the generator needs the table dump; without it the samples above remain
        n_gen = 0
        res.coverage['grammar_directed_inputs_error'] = str(e)[:200]
    lines += ['x ' + mutate(rng, rng.choice(xml)).hex() for _ in range(n_xmut)]     # lower case: malformed stream
    lines += ['w ' + mutate(rng, rng.choice(wb)).hex() for _ in range(n_wmut)]
    # screen: drop inputs on which the library crashes or hangs ALONE (other properties' business)
    dropped, start, cur = [], 0, lines
    for _ in range(200):
        pc = os.path.join(scratch, 'screen.txt')
        write_corpus(pc, cur)
        try:
            r = common.run([conc, 'screen', pc, str(start)], env=tsan_env(b), stderr=subprocess.PIPE, timeout=900)
            out = r.stdout
        except subprocess.TimeoutExpired as e:
            out = (e.stdout or b'').decode() if isinstance(e.stdout, bytes) else (e.stdout or '')
        if 'SCREENED' in out:
            break
        began = [int(x[2:]) for x in out.split('\n') if x.startswith('B ')]
        if not began:
            raise common.BuildError('conc screen produced nothing: ' + (r.stderr or '')[-500:])
        bad = began[-1]
        dropped.append(cur[bad][:80])
        cur = cur[:bad] + cur[bad + 1:]
        start = bad
    else:
        raise common.BuildError('conc screen keeps crashing')
    res.coverage['inputs'] = {'stored': n_stored, 'xml_valid': len(xml), 'wbxml_valid': len(wb), 'wbxml_grammar_directed': n_gen, 'xml_mutated': n_xmut,
                              'wbxml_mutated': n_wmut, 'screened_out_sequential_crash_or_hang': len(dropped),
                              'total': len(cur)}
    if dropped:
        res.coverage['screened_out_samples'] = dropped[:5]
    pc = os.path.join(scratch, 'corpus.txt')
    write_corpus(pc, cur)
    return pc, cur


# ------------------------------------------------------------------ running the harness

def tsan_env(b):
    e = b.env()
    # clang's TSan runtime embeds UBSan and reads UBSAN_OPTIONS too: its exitcode=98 would override ours
    e.pop('UBSAN_OPTIONS', None)
    e.pop('ASAN_OPTIONS', None)
    e['TSAN_OPTIONS'] = 'exitcode=97:halt_on_error=0:second_deadlock_stack=1:report_signal_unsafe=0'
    return e


_R = re.compile(r'^R (par|seq) t=(\d+) k=(\d+) op=(\w+) in=(\d+) o=([0-9a-f]+) st=(-?\d+) len=(\d+) h=([0-9a-f]+)$')


def run_conc(b, conc, corpus, threads, ops, seed, phases='both', timeout=900):
    t0 = time.time()
    try:
        r = subprocess.run([conc, 'run', corpus, str(threads), str(ops), str(seed), phases], env=tsan_env(b),
                           stdout=subprocess.PIPE, stderr=subprocess.PIPE, text=True, errors='replace', timeout=timeout)
        rc, out, err = r.returncode, r.stdout, r.stderr
    except subprocess.TimeoutExpired as e:
        rc = -999
        out = e.stdout.decode(errors='replace') if isinstance(e.stdout, bytes) else (e.stdout or '')
        err = e.stderr.decode(errors='replace') if isinstance(e.stderr, bytes) else (e.stderr or '')
    par, seq = {}, {}
    for ln in out.split('\n'):
        m = _R.match(ln)
        if m:
            (par if m.group(1) == 'par' else seq)[(int(m.group(2)), int(m.group(3)))] = m.groups()[3:]
    return {'rc': rc, 'par': par, 'seq': seq, 'stderr': err, 'done': 'DONE threads=' in out,
            'threads': threads, 'ops': ops, 'seed': seed, 'secs': time.time() - t0}


def tsan_reports(stderr):
    """[{'kind':…, 'global':…, 'functions':[…], 'text':…}] for each ThreadSanitizer report."""
    reps = []
    for blk in re.split(r'(?=WARNING: ThreadSanitizer)', stderr):
        if not blk.startswith('WARNING: ThreadSanitizer'):
            continue
        kind = re.match(r'WARNING: ThreadSanitizer: ([^\n(]*)', blk).group(1).strip()
        g = re.search(r"Location is global '([^']+)'", blk)
        funcs = re.findall(r'#\d+ (\w+) ', blk)
        where = re.findall(r'#\d+ \w+ (\S+?:\d+)', blk)
        reps.append({'kind': kind, 'global': g.group(1) if g else None, 'functions': funcs[:12],
                     'lines': [os.path.basename(w) for w in where[:12]], 'text': blk[:3000]})
    return reps


def sym_matches(sym, tsan_global):
    """gcc calls a function-local static `counter.0`, clang/TSan `wbxml_parser_parse.counter`."""
    if not tsan_global:
        return False
    base = re.sub(r'\.\d+$', '', sym)
    return tsan_global == sym or tsan_global == base or tsan_global.endswith('.' + base)


# ------------------------------------------------------------------ the check

def driver_lines(lines):
    r = common.run([DRIVER], input='\n'.join(lines) + '\n', stderr=subprocess.PIPE)
    return r.stdout.split('\n')[:len(lines)]


def run(res, args):
    if getattr(args, 'replay', None):
        return replay(res, args.replay)
    rng = random.Random(res.seed)
    scratch = common.mkscratch('wbxverif-c14-')
    res.trusted += ['binutils readelf/nm + tools/gen_globals.py (print what the linker will see of libwbxml2.a)',
                    'committed constants Model/Posix.lean (POSIX.1-2017 XSH ch.3 index, §2.9.1 list, toolchain allowlist) — written from the standard',
                    'clang ThreadSanitizer, harness/conc.c (validation layer, not proof)']

    # 1. builds: plain gcc (symbol dump, no sanitizer runtime symbols) and ThreadSanitizer, side by side
    with concurrent.futures.ThreadPoolExecutor(2) as ex:
        f_plain = ex.submit(common.Build, 'plain')
        f_tsan = ex.submit(common.Build, 'tsan')
        bp, bt = f_plain.result(), f_tsan.result()
    conc = bt.harness('conc.c')

    # 2. regenerate Gen/Globals, 3. re-check proofs + audit
    translator_error = None
    with common.lean_lock():
        try:
            dump, changed = gen_globals.regenerate(bp)
        except gen_globals.TranslatorError as e:
            dump, changed, translator_error = None, False, str(e)
    ok, failing = common.proof_step(res, ['Wbxml.Props.C14'], 'Wbxml.Props.C14', extra_targets=['driver_conc'])
    res.coverage['regenerated'] = ['Globals'] if changed else []
    if res.tier == 'thorough' and ok:
        # second opinion: replay the compiled module through the external kernel checker
        with common.lean_lock():
            lc = common.run(['lake', 'env', 'leanchecker', 'Wbxml.Props.C14'], cwd=common.LEAN, timeout=1800)
        res.coverage['leanchecker'] = 'ok' if lc.returncode == 0 else ('FAILED: ' + lc.stdout[-500:])
        if lc.returncode != 0:
            failing.append('<leanchecker>')
    if dump:
        res.coverage['symbols'] = {'members': len(dump['members']), 'objects': len(dump['objects']),
                                   'writable_alloc_sections': len(dump['wsections']), 'undefined': len(dump['undefined'])}
        res.coverage['exhaustive'] = True
    known = [k for k in common.load_known()['findings'] if k['property'] == 'C14']

    # item-by-item evaluation of the predicates by the compiled model (names the failing symbol)
    items, selftest_bad = [], []
    if os.path.exists(DRIVER) and not translator_error:
        req = ['GLOBALS'] + [f'EXT {s}' for s in SELFTEST_BAD + SELFTEST_OK]
        ans = driver_lines(req)
        m = re.match(r'^OK objects=(\d+) wsections=(\d+) undefined=(\d+) fails=(.*)$', ans[0] if ans else '')
        if m:
            res.coverage['model_evaluated'] = {'objects': int(m.group(1)), 'wsections': int(m.group(2)), 'undefined': int(m.group(3))}
            if m.group(4) != '-':
                items = [tuple(x.split(':')) for x in m.group(4).split(';')]
        for s, a in zip(SELFTEST_BAD + SELFTEST_OK, ans[1:]):
            want = 'F' if s in SELFTEST_BAD else 'T'
            res.add_eval(('EXT', s))
            if not a.startswith(want):
                selftest_bad.append((s, a))
        res.samples += [{'request': q, 'model': a} for q, a in list(zip(req, ans))[1:5]]

    # 4. correspondence under ThreadSanitizer
    corpus, lines = build_corpus(res, rng, bt, conc, scratch)
    if res.tier == 'quick':
        plan = [(8, 200)] * 5 + [(2, 200), (16, 200)]
        pool = 2
    else:
        plan = [(2 + (i * 7) % 15, 2000) for i in range(50)]      # every thread count 2..16
        pool = max(1, min(4, common.NCPU // 4))
    jobs = [(t, o, rng.getrandbits(47) + 1) for (t, o) in plan]
    t0 = time.time()
    with concurrent.futures.ThreadPoolExecutor(pool) as ex:
        results = list(ex.map(lambda j: run_conc(bt, conc, corpus, j[0], j[1], j[2]), jobs))
    res.coverage['tsan_wall_s'] = round(time.time() - t0, 1)

    ops_hist, st_hist, n_cmp, mismatches, reports, crashes, seq_crashes = {}, {}, 0, [], [], [], []
    for rr in results:
        reps = tsan_reports(rr['stderr'])
        if rr['rc'] == 97 or reps:
            reports.append((rr, reps))
        elif rr['rc'] != 0 or not rr['done']:
            # crash/hang: is it a concurrency effect?  replay the same sequences alone
            alone = run_conc(bt, conc, corpus, rr['threads'], rr['ops'], rr['seed'], phases='seq')
            (seq_crashes if (alone['rc'] != 0 or not alone['done']) else crashes).append(rr)
            continue
        for key, p in rr['par'].items():
            s = rr['seq'].get(key)
            n_cmp += 1
            ops_hist[p[0]] = ops_hist.get(p[0], 0) + 1
            st_hist[p[3]] = st_hist.get(p[3], 0) + 1
            res.add_eval((p[0], p[1], p[2]), nontrivial=(p[3] == '0'))
            if s is None or p != s:
                mismatches.append((rr, key, p, s))
        if len(rr['par']) != rr['threads'] * rr['ops'] and rr['rc'] in (0, 97):
            mismatches.append((rr, None, ('missing results', len(rr['par'])), None))
    for rr in results[:3]:
        for key in sorted(rr['par'])[:2]:
            p, s = rr['par'][key], rr['seq'].get(key)
            res.samples.append({'request': f'seed={rr["seed"]} threads={rr["threads"]} t={key[0]} k={key[1]} op={p[0]} in={p[1]} o={p[2]}',
                                'impl_concurrent': f'st={p[3]} len={p[4]} h={p[5]}',
                                'impl_alone': f'st={s[3]} len={s[4]} h={s[5]}' if s else '<missing>'})
    res.coverage.update({
        'runs': [{'threads': r['threads'], 'ops': r['ops'], 'seed': r['seed'], 'rc': r['rc'], 'secs': round(r['secs'], 1)} for r in results],
        'operations_compared': n_cmp, 'traces_validated_against_impl': n_cmp - len(mismatches),
        'op_kinds': ops_hist, 'status_codes': dict(sorted(st_hist.items(), key=lambda kv: -kv[1])[:15]),
        'tsan_reports': sum(len(r[1]) or 1 for r in reports),
        'sequential_crashes_out_of_scope': [{'seed': r['seed'], 'threads': r['threads'], 'rc': r['rc']} for r in seq_crashes],
        'rule': ('each thread runs a sequence derived from (seed, thread id): wbxml_conv_wbxml2xml_run / xml2wbxml_run with own '
                 'converter objects and option tuples, wbxml_parser_parse with hashing content handlers, tree+encoder runs to XML '
                 'and WBXML, each on a private copy of its input; (status, length, FNV-64 of output/event stream) of every '
                 'operation must equal the result of the same sequence run alone; ThreadSanitizer must report nothing; '
                 'distinct = distinct (operation, input, option tuple)'),
    })
    res.assumptions += ['expected outputs are the implementation\'s own sequential results (byte-level conversion model: other properties)',
                        'Expat and libc are not TSan-instrumented: races inside them are seen only through interceptors',
                        'ThreadSanitizer exploration is validation / counter-example search, not proof; a data race is not expressible in the interleaving model',
                        'symbols dumped from the plain gcc build of the static library only (tools/attgetopt.c statics belong to the single-threaded tools)']

    # ---- decide
    def is_known(sym):
        k = next((k for k in known if k.get('match', {}).get('symbol') == sym), None)
        if k:
            res.known.append(f"{k['id']}: {k['what']}")
        return k is not None

    all_reps = [(rr, rep) for rr, reps in reports for rep in reps]
    used_reports = set()
    mismatch_reported = False
    for it in items:
        kind = it[0]
        if kind in ('obj', 'kind'):
            member, sym = it[1], it[2]
            if is_known(sym):
                continue
            hit = next(((rr, rep) for rr, rep in all_reps if sym_matches(sym, rep['global'])), None)
            base = {'kind': 'writable-global', 'symbol': sym, 'member': member, 'section': it[3] if kind == 'obj' else None,
                    'symbol_kind': it[-1], 'failing_theorems': failing, 'theorem': 'no_writable_globals' if kind == 'obj' else 'no_common_or_tls_objects',
                    'explain': 'object symbol of the library outside the read-only sections: mutable process-wide state'}
            if hit:
                rr, rep = hit
                used_reports.add(id(rep))
                small = shrink_tsan(bt, conc, corpus, rr, lambda reps: any(sym_matches(sym, x['global']) for x in reps))
                base.update(replay_params(res, small, corpus, lines))
                base.update({'tsan_report': rep['text'], 'tsan_kind': rep['kind'], 'functions': rep['functions']})
                res.violation(base, f'global-{safe(sym)}')
            else:
                mm = next((m for m in mismatches if m[1] is not None), None)
                if mm:
                    base.update(mismatch_replay(res, mm, corpus, lines))
                    mismatch_reported = True
                    res.violation(base, f'global-{safe(sym)}')
                else:
                    base['searched'] = f'{len(results)} ThreadSanitizer runs, {n_cmp} operations: no race on it, no differing result'
                    res.violation(base, f'global-{safe(sym)}', no_input=True)
        elif kind == 'sec':
            # reported through its symbols when it has any; anonymous writable data otherwise
            if any(x[0] == 'obj' and x[1] == it[1] and x[3] == it[2] for x in items):
                continue
            res.violation({'kind': 'writable-section', 'member': it[1], 'section': it[2], 'size': it[3],
                           'theorem': 'no_writable_sections',
                           'explain': 'non-empty writable allocated section without an allow-listed name'},
                          f'section-{safe(it[1])}-{safe(it[2])}', no_input=not all_reps)
        elif kind == 'ext':
            sym, cls = it[1], it[2]
            if is_known(sym):
                continue
            users = sorted(dump.get('undefined_by', {}).get(sym, [])) if dump else []
            base = {'kind': 'non-reentrant-external', 'symbol': sym, 'class': cls, 'referenced_by': users,
                    'theorem': 'externals_reentrant', 'failing_theorems': failing,
                    'explain': 'the library references an external that POSIX.1-2017 §2.9.1 does not require to be thread-safe, '
                               'that mutates process-wide state, or that is not a known re-entrant interface'}
            mm = next((m for m in mismatches if m[1] is not None), None)
            hit = next(((rr, rep) for rr, rep in all_reps if sym in rep['functions']), None)
            if hit:
                rr, rep = hit
                used_reports.add(id(rep))
                base.update(replay_params(res, rr, corpus, lines))
                base.update({'tsan_report': rep['text'], 'tsan_kind': rep['kind']})
                res.violation(base, f'extern-{safe(sym)}')
            elif mm:
                base.update(mismatch_replay(res, mm, corpus, lines))
                mismatch_reported = True
                res.violation(base, f'extern-{safe(sym)}')
            else:
                base['searched'] = (f'{len(results)} ThreadSanitizer runs, {n_cmp} operations compared with their sequential run: '
                                    'no differing result (libc internals are invisible to ThreadSanitizer)')
                res.violation(base, f'extern-{safe(sym)}', no_input=True)

    # ThreadSanitizer reports not explained by a listed symbol
    seen_sig = set()
    for rr, reps in reports:
        for rep in (reps or [{'kind': 'exit code 97 without parsable report', 'global': None, 'functions': [], 'lines': [], 'text': rr['stderr'][-3000:]}]):
            if id(rep) in used_reports or (rep['global'] and any(sym_matches(it[2], rep['global']) for it in items if it[0] in ('obj', 'kind'))):
                continue
            sig = (rep['kind'], rep['global'], tuple(rep['lines'][:2]))
            if sig in seen_sig or len(seen_sig) >= 5:
                continue
            seen_sig.add(sig)
            if rep['global'] and is_known(rep['global']):
                continue
            small = shrink_tsan(bt, conc, corpus, rr, lambda reps: bool(reps))
            v = {'kind': 'tsan', 'tsan_kind': rep['kind'], 'symbol': rep['global'], 'functions': rep['functions'],
                 'source_lines': rep['lines'], 'tsan_report': rep['text'],
                 'explain': 'ThreadSanitizer report while threads convert their own inputs with their own objects'}
            v.update(replay_params(res, small, corpus, lines))
            res.violation(v, f'tsan-{safe(rep["global"] or (rep["lines"] or ["x"])[0])}')
    # results that differ between the concurrent and the sequential run
    if mismatches and not mismatch_reported:
        mm = mismatches[0]
        v = {'kind': 'interference', 'differing_operations': len(mismatches),
             'explain': 'an operation returned a different status or different bytes when other threads were converting at the same time'}
        v.update(mismatch_replay(res, mm, corpus, lines))
        res.violation(v, f'interference-seed{mm[0]["seed"]}')
    for rr in crashes[:3]:
        v = {'kind': 'crash-only-when-concurrent', 'rc': rr['rc'], 'stderr': rr['stderr'][-3000:],
             'explain': 'the harness crashed or hung in the concurrent phase; the same sequences alone complete'}
        v.update(replay_params(res, rr, corpus, lines))
        res.violation(v, f'crash-seed{rr["seed"]}')
    if selftest_bad:
        res.violation({'kind': 'rule-selftest', 'wrong': selftest_bad,
                       'explain': 'the compiled classification of externals no longer separates strtok/rand/localtime… from strlen/memcmp…'},
                      'rule-selftest', no_input=True)
    if translator_error and not res.violations:
        res.violation({'kind': 'translator', 'error': translator_error,
                       'explain': 'readelf/nm output of the fresh library could not be read; no_writable_globals / externals_reentrant are no longer shown'},
                      'translator', no_input=True)
    if failing and not res.violations:
        res.violation({'kind': 'proof', 'theorems': failing,
                       'explain': 'proof obligations of Props/C14.lean no longer check against the regenerated symbol dump'},
                      'proof', no_input=True)
    return res.finish('proof', checker_cmd='lake build Wbxml.Props.C14 && #audit Wbxml.Props.C14 (lake env lean); '
                                           'harness/conc.c under -fsanitize=thread',
                      extra={'level_note': 'proof: schedule independence of the abstract machine + exhaustive structural premises from the '
                                           'binary; validation (not proof): ThreadSanitizer runs and concurrent-vs-alone comparison'})


def safe(s):
    return re.sub(r'[^A-Za-z0-9_.-]', '_', str(s))[:60]


def shrink_tsan(b, conc, corpus, rr, still):
    """Smaller (threads, ops) on which ThreadSanitizer still reports (time-boxed)."""
    best, t_end = rr, time.time() + 40
    for threads, ops in ((2, 50), (2, 10), (2, 3), (2, 1)):
        if time.time() > t_end or (threads > best['threads']) or ops >= best['ops']:
            continue
        for attempt in range(2):
            cand = run_conc(b, conc, corpus, threads, ops, rr['seed'] + attempt, timeout=120)
            if still(tsan_reports(cand['stderr'])):
                best = cand
                break
        else:
            break
    return best


def save_corpus(res, corpus):
    os.makedirs(common.REPLAYS, exist_ok=True)
    dst = os.path.join(common.REPLAYS, f'{res.prop}-corpus-seed{res.seed}-{res.tier}.txt')
    if not os.path.exists(dst) or os.path.getsize(dst) != os.path.getsize(corpus):
        shutil.copyfile(corpus, dst)
    return dst


def replay_params(res, rr, corpus, lines):
    return {'harness': 'harness/conc.c (common.Build("tsan"))', 'corpus_file': save_corpus(res, corpus),
            'threads': rr['threads'], 'ops': rr['ops'], 'schedule_seed': rr['seed'],
            'command': f'conc run <corpus_file> {rr["threads"]} {rr["ops"]} {rr["seed"]} both',
            'how': 'python3 tools/check.py C14 --replay <this file>'}


def mismatch_replay(res, mm, corpus, lines):
    rr, key, p, s = mm
    d = replay_params(res, rr, corpus, lines)
    d['mismatch'] = {'thread': key[0] if key else None, 'k': key[1] if key else None}
    if key:
        idx = int(p[1])
        d['mismatch'].update({'op': p[0], 'input_index': idx, 'input': lines[idx] if idx < len(lines) else None, 'options': p[2],
                              'impl_concurrent': {'status': p[3], 'len': p[4], 'hash': p[5]},
                              'impl_alone': {'status': s[3], 'len': s[4], 'hash': s[5]} if s else None})
    else:
        d['mismatch']['note'] = str(p)
    return d


def replay(res, path):
    """Re-run a stored replay against the current tree."""
    with open(path) as f:
        rp = json.load(f)
    kind = rp.get('kind')
    if rp.get('corpus_file') and os.path.exists(rp['corpus_file']) and 'threads' in rp:
        bt = common.Build('tsan')
        conc = bt.harness('conc.c')
        rr = run_conc(bt, conc, rp['corpus_file'], rp['threads'], rp['ops'], rp['schedule_seed'])
        reps = tsan_reports(rr['stderr'])
        diff = [k for k, p in rr['par'].items() if rr['seq'].get(k) != p]
        print(f'replay: rc={rr["rc"]} tsan_reports={len(reps)} differing_operations={len(diff)}')
        for rep in reps[:3]:
            print(rep['text'][:1500])
        if rr['rc'] != 0 or reps or diff:
            res.violation(dict(rp, reproduced=True), 'replayed-' + safe(os.path.basename(path)))
    elif kind in ('writable-global', 'non-reentrant-external', 'writable-section'):
        bp = common.Build('plain')
        dump = gen_globals.dump(bp.lib)
        sym = rp.get('symbol')
        present = any(o['name'] == sym for o in dump['objects']) or sym in dump['undefined']
        print(f'replay: symbol {sym} {"still present" if present else "no longer present"} in the library')
        if present:
            res.violation(dict(rp, reproduced=True), 'replayed-' + safe(os.path.basename(path)), no_input=True)
    else:
        print('replay: nothing executable in this replay file (structural obligation); run the check itself')
    return res.finish('proof', checker_cmd='replay')
