"""C17 — flow-mode encoding always equals batch encoding of the nodes that remain.

Proof: Props/C17.lean over Model/Flow.lean — for ALL finite histories over {encode node, encode node
without end, raw element start, raw element end, delete last node, get output} and an arbitrary
per-item encoder: `flow_eq_batch`, `pages_track_output`, `delete_restores` (+ the XML instance built
from the validated XML generation model).
Tie: FLOW lines. One line = one whole history on ONE encoder object; harness/flow.c calls
wbxml_encoder_get_output after every step, measures the per-item encoder on a FRESH encoder and
evaluates the property oracle on the implementation's own outputs (fresh encoder fed the surviving
operations only; non-flow batch API on the document the surviving operations denote); the Lean
driver replays the model with the measured per-item encoder as parameter and must produce the same
bytes at every step. The parameter is checked to be a function of (model state, item) across the
whole run."""
import json, os, random, itertools
import common, corr
from common import log

CORPUS = os.path.join(common.VERIF, 'corpus', 'c17')

SYNCML = [2001, 2101, 2201]
ASYNC = [2401, 2402]
WV = [2301, 2302]
EXTRA = [1601, 1202]          # two attribute code pages (PROV, WTA-WML): attribute-space SWITCH_PAGE


# ------------------------------------------------------------------ generators

def hx(b):
    return b.hex() or '-'


SPECIAL_NAMES = {b'Type', b'Data', b'NextNonce', b'Code', b'ContentSize', b'MessageCount', b'Validity', b'KeepAliveTime', b'TimeToLive',
                 b'DateTime', b'DeliveryTime', b'AcceptedContentLength', b'MultiTrans', b'ParserSize', b'ServerPollMin', b'TCPPort', b'UDPPort'}


class FlowGen:
    def __init__(self, d, rng):
        self.d, self.rng = d, rng
        self.T = d['tables']
        self.lang = {l['id']: l for l in d['langs']}
        self.pages_hit = set()

    def rows(self, lid, k):
        l = self.lang[lid]
        return self.T[str(l[k])]['rows'] if l[k] is not None else []

    TEXTS = [b'hello', b' x ', b'   ', b'\n', b'a<b&c>"d\'', b'123', b'0', b'4294967296', b'20240101T120000Z', b'2024',
             b'application/vnd.syncml-devinf+wbxml', b'application/vnd.syncml.dmtnds+wbxml', b'text/x-vcard',
             b'\r\n', b'\tq\t', b'b64:AAEC', b'\xc3\xa9t\xc3\xa9', b'x' * 40, b'http://www.example.com/', b'']

    def text_bytes(self):
        r = self.rng
        if r.random() < 0.7:
            return r.choice(self.TEXTS)
        return bytes(r.choice(b'abcXYZ 01<&\n\t\xe2\x82\xac') for _ in range(r.randint(1, 12)))

    def tag_row(self, lid):
        rows = self.rows(lid, 'tags')
        pages = sorted({x[1] for x in rows})
        p = self.rng.choice(pages)
        row = self.rng.choice([x for x in rows if x[1] == p])
        self.pages_hit.add((lid, 't', p))
        return row

    def attrs(self, lid):
        r = self.rng
        arows = self.rows(lid, 'attrs')
        if not arows or r.random() < 0.55:
            # languages without attribute table drop attributes silently: exercise that too
            if not arows and r.random() < 0.08:
                return f';Al.{hx(b"id")}={hx(b"v1")}'
            return ''
        out = ''
        for _ in range(r.randint(1, 2)):
            if r.random() < 0.06:
                out += f';Al.{hx(b"x-unknown")}={hx(b"v")}'      # literal attribute name: needs the string table
                continue
            a = r.choice(arows)
            self.pages_hit.add((lid, 'a', a[2]))
            pre = bytes.fromhex(a[1]) if a[1] is not None else b''
            k = r.random()
            if k < 0.4:
                val = pre
            elif k < 0.8:
                val = pre + r.choice([b'abc', b'1.1', b'x y', b'&q'])
            else:
                vrows = self.rows(lid, 'values')
                val = pre + (bytes.fromhex(r.choice(vrows)[0]) if vrows else b'zz') + r.choice([b'', b'tail'])
            out += f';At.{a[2]}.{a[3]}.{a[0]}.{a[1] if a[1] is not None else "~"}={hx(val)}'
        return out

    def node(self, lid, depth, elt_only=False):
        r = self.rng
        k = 0.0 if elt_only else r.random()
        if k < 0.68 or depth <= 0 and k < 0.8:
            row = self.tag_row(lid)
            binrows = [x for x in self.rows(lid, 'tags') if x[3] & 1]
            if binrows and r.random() < 0.12:
                # binary-flagged element: its text is an opaque in WBXML and base64 in XML (empty text: error 18)
                row = r.choice(binrows)
                self.pages_hit.add((lid, 't', row[1]))
                txt = r.choice([b'', b'\x00\x01\xfe', b'abc', b' '])
                return f'Et.{row[1]}.{row[2]}.{row[0]}(T{hx(txt)}.)'
            kids = ''
            if depth > 0 and r.random() < 0.6:
                kids = ''.join(self.node(lid, depth - 1) for _ in range(r.randint(1, 3)))
            return f'Et.{row[1]}.{row[2]}.{row[0]}{self.attrs(lid)}({kids})'
        if k < 0.88:
            return f'T{hx(self.text_bytes())}.'
        if k < 0.92:
            kids = ''.join(f'T{hx(self.text_bytes())}.' for _ in range(r.randint(0, 2)))
            if r.random() < 0.15:
                kids += f'El.{hx(b"lit")}()'
            return f'C({kids})'
        if k < 0.97:
            # literal element name: in the table under another name? no: unknown => needs the string table
            nm = r.choice([b'foo', b'x-bar'])
            if r.random() < 0.3:      # a literal whose name IS in the table: looked up, current page first
                nm = bytes.fromhex(self.tag_row(lid)[0])
            kids = ''.join(self.node(lid, depth - 1) for _ in range(r.randint(0, 1))) if depth > 0 else ''
            return f'El.{hx(nm)}({kids})'
        # nested document
        sub = {2201: 2202, 2101: 2102, 2001: 2002}.get(lid, lid)
        row = r.choice(self.rows(sub, 'tags'))
        # (a nested tree without root makes parse_node dereference NULL: misuse of the tree API, not generated)
        inner = f'Et.{row[1]}.{row[2]}.{row[0]}(T{hx(b"n")}.)'
        return f'R{sub}:106:{inner}$'

    def opts(self, xml):
        r = self.rng
        if xml:
            return f'g{r.choice([0, 1, 1, 2])},d{r.choice([0, 1, 2, 4])},i{r.choice([0, 1])},r{r.choice([0, 1])}'
        return f'g0,i{r.choice([0, 1])},r{r.choice([0, 1])},t{r.choice([0, 0, 1])},a{r.choice([0, 0, 1])},v{r.choice([3, 3, 2, 1, 0])}'

    def pick_lang(self):
        k = self.rng.random()
        if k < 0.4:
            return self.rng.choice(SYNCML)
        if k < 0.65:
            return self.rng.choice(ASYNC)
        if k < 0.9:
            return self.rng.choice(WV)
        return self.rng.choice(EXTRA)

    def history(self, maxops=20):
        r = self.rng
        lid = self.pick_lang()
        xml = r.random() < 0.4
        n = r.randint(1, maxops)
        ops = []
        special = [x for x in self.rows(lid, 'tags') if (x[3] & 1) or bytes.fromhex(x[0]) in SPECIAL_NAMES]
        if special and r.random() < 0.2:
            # content whose encoding depends on the element it is in (binary / typed / MIME-label elements):
            # open such an element by hand, send empty elements and text through it, close it
            p = r.choice(special)
            self.pages_hit.add((lid, 't', p[1]))
            pe = f'Et.{p[1]}.{p[2]}.{p[0]}()'
            ops.append('S1' + pe)
            for _ in range(r.randint(0, 2)):
                k = r.random()
                if k < 0.5:
                    ops.append('S0' + self.node(lid, 0, elt_only=True))
                elif k < 0.7:
                    ops.append('N' + self.node(lid, 0, elt_only=True))
                else:
                    ops.append('D')
            ops.append('N' + f'T{hx(r.choice([b"123", b"AAEC", b"20240101T120000Z", b"application/vnd.syncml-devinf+wbxml", b"hello", b" "]))}.')
            if r.random() < 0.8:
                ops.append('F1' + pe)
        elif r.random() < 0.5:
            # free sequence
            for _ in range(n):
                k = r.random()
                if k < 0.42:
                    ops.append('N' + self.node(lid, r.choice([0, 1, 2])))
                elif k < 0.48:
                    ops.append('M' + self.node(lid, r.choice([0, 1, 2]), elt_only=r.random() < 0.7))
                elif k < 0.58:
                    ops.append(f'S{r.choice([0, 1, 1])}' + self.node(lid, r.choice([0, 0, 1]), elt_only=True))
                elif k < 0.68:
                    ops.append(f'F{r.choice([0, 1, 1])}' + self.node(lid, 0, elt_only=True))
                elif k < 0.9:
                    ops.append('D')
                else:
                    ops.append('G')
        else:
            # document-like: brackets that match, deletions in between
            stack = []
            while len(ops) < n:
                k = r.random()
                if k < 0.3:
                    ops.append('N' + self.node(lid, r.choice([0, 1, 2])))
                elif k < 0.45:
                    ops.append('N' + f'T{hx(self.text_bytes())}.')
                elif k < 0.6 and len(stack) < 4:
                    e = self.node(lid, 0, elt_only=True)
                    stack.append(e)
                    ops.append('S1' + e)
                elif k < 0.72 and stack:
                    ops.append('F1' + stack.pop())
                elif k < 0.77:
                    ops.append('M' + self.node(lid, 1, elt_only=True))
                elif k < 0.95:
                    ops.append('D')
                else:
                    ops.append('G')
            while stack and r.random() < 0.9 and len(ops) < maxops + 4:
                ops.append('F1' + stack.pop())
        return f'FLOW {lid} {"X" if xml else "W"} {self.opts(xml)} ' + ' '.join(ops)


def exhaustive_lines(d, maxlen=5):
    """All histories of at most `maxlen` operations over a 6-node alphabet (SyncML 1.2, both output types)."""
    T = d['tables']
    l = [x for x in d['langs'] if x['id'] == 2201][0]
    rows = T[str(l['tags'])]['rows']
    def row(name, page):
        return next(r for r in rows if bytes.fromhex(r[0]) == name and r[1] == page)
    def E(r, kids=''):
        return f'Et.{r[1]}.{r[2]}.{r[0]}({kids})'
    add, data = row(b'Add', 0), row(b'Data', 0)
    typ, fmt = row(b'Type', 1), row(b'Format', 1)
    n = [E(add),                                   # page 0, empty
         E(typ, f'T{hx(b"text/x-vcard")}.'),        # page 1 with text
         E(data, E(fmt, f'T{hx(b"b64")}.')),        # page 0 with a page-1 child
         f'T{hx(b" x ")}.',                         # text
         E(fmt),                                   # page 1, empty
         f'El.{hx(b"foo")}()']                      # literal: cannot be encoded without string table (WBXML)
    alpha = ['N' + x for x in n] + ['D', 'G', 'M' + n[2], 'S1' + n[0], 'F1' + n[0]]
    out = []
    for ty, opts in (('W', 'g0'), ('X', 'g1,d1')):
        for k in range(1, maxlen + 1):
            for ops in itertools.product(alpha, repeat=k):
                out.append(f'FLOW 2201 {ty} {opts} ' + ' '.join(ops))
    return out


# ------------------------------------------------------------------ evaluation of one pair of responses

def split_resp(resp):
    """'H=.. | steps | params | tail' -> (H, [steps], [params], tail-string) or None."""
    if resp is None:
        return None
    parts = [p.strip() for p in resp.split('|')]
    if len(parts) != 4 or not parts[0].startswith('H='):
        return None
    return parts[0][2:], parts[1].split(), parts[2].split(), parts[3]


def canon_step(s):
    r, _, o = s.partition(':')
    return ('0' if r == '0' else 'E') + ':' + o


def driver_line(line, impl):
    sp = split_resp(impl)
    if sp is None:
        return line
    return line + ' | ' + ' '.join(sp[2])


def oracle_of(impl):
    """(ok, description) of the implementation-side oracle."""
    sp = split_resp(impl)
    if sp is None:
        return False, 'no answer'
    tail = dict(x.split('=', 1) for x in sp[3].split())
    bad = [f'{k}={v}' for k, v in tail.items() if (k in ('O1', 'LEN') and v != 'ok') or (k == 'O2' and v == 'bad')]
    return (not bad), ' '.join(bad)


def compare(line, impl, model):
    """None when the model reproduces the implementation at every step, else a description."""
    a, m = split_resp(impl), split_resp(model)
    if a is None:
        return f'implementation gave no FLOW answer: {str(impl)[:200]}'
    if m is None:
        return f'model: {str(model)[:300]}'
    if a[0] != m[0]:
        return f'header differs: impl {a[0]} model {m[0]}'
    if len(a[1]) != len(m[1]):
        return f'step count differs: impl {len(a[1])} model {len(m[1])}'
    for i, (x, y) in enumerate(zip(a[1], m[1])):
        if canon_step(x) != canon_step(y):
            return f'step {i + 1}: impl {x[:160]} model {y[:160]}'
    # the per-item values: what the model appends per operation == what the fresh encoder appended
    for i, (x, y) in enumerate(zip(a[2], m[2])):
        if x == '-' and y == '-':
            continue
        cx, cy = canon_step(x), canon_step(y)
        if cx.startswith('E') and cy.startswith('E'):
            continue
        if cx != cy:
            return f'item {i + 1}: fresh encoder {x[:160]} model {y[:160]}'
    return None


def ops_of(line):
    t = line.split(' ')
    return t[:4], t[4:]


def parse_node(s, i=0):
    """Parse one node of the treeio grammar at s[i:]; returns (tree, next index). tree = (kind, head, [children])."""
    k = s[i]
    if k == 'E':
        j = s.index('(', i)
        head, kids, i = s[i:j], [], j + 1
        while s[i] != ')':
            c, i = parse_node(s, i)
            kids.append(c)
        return ('E', head, kids), i + 1
    if k == 'T':
        j = s.index('.', i)
        return ('T', s[i:j + 1], []), j + 1
    if k == 'C':
        kids, i = [], i + 2
        while s[i] != ')':
            c, i = parse_node(s, i)
            kids.append(c)
        return ('C', 'C', kids), i + 1
    if k == 'R':
        j = s.index('$', i)
        return ('R', s[i:j + 1], []), j + 1
    raise ValueError(s[i:i + 20])


def fmt_node(t):
    k, head, kids = t
    if k == 'E':
        return head + '(' + ''.join(fmt_node(c) for c in kids) + ')'
    if k == 'C':
        return 'C(' + ''.join(fmt_node(c) for c in kids) + ')'
    return head


def node_variants(t):
    """Smaller versions of a node: one child removed, one attribute removed, a child promoted, (recursively) a smaller child."""
    k, head, kids = t
    for i in range(len(kids)):
        yield (k, head, kids[:i] + kids[i + 1:])
    if k == 'E' and ';A' in head:
        parts = head.split(';A')
        for i in range(1, len(parts)):
            yield (k, ';A'.join(parts[:i] + parts[i + 1:]), kids)
    for i, c in enumerate(kids):
        for v in node_variants(c):
            yield (k, head, kids[:i] + [v] + kids[i + 1:])


def shrink(line, still_fails, budget=400):
    """Delta-debug the operation list, then the nodes (children, attributes), while the failure persists."""
    head, ops = ops_of(line)
    changed = True
    while changed and budget > 0:
        changed = False
        for i in range(len(ops)):
            cand = ops[:i] + ops[i + 1:]
            budget -= 1
            if cand and still_fails(' '.join(head + cand)):
                ops, changed = cand, True
                break
    changed = True
    while changed and budget > 0:
        changed = False
        for i, o in enumerate(ops):
            pre = o[:2] if o[0] in 'SF' else o[:1]
            body = o[len(pre):]
            if not body:
                continue
            try:
                t, _ = parse_node(body)
            except (ValueError, IndexError):
                continue
            for v in node_variants(t):
                budget -= 1
                cand = ops[:i] + [pre + fmt_node(v)] + ops[i + 1:]
                if still_fails(' '.join(head + cand)):
                    ops, changed = cand, True
                    break
                if budget <= 0:
                    break
            if changed or budget <= 0:
                break
    return ' '.join(head + ops)


# ------------------------------------------------------------------ the check

def run(res, args):
    rng = random.Random(res.seed)
    b = common.Build('asan')
    with common.lean_lock():
        d, changed = common.regenerate(b)
    ok, failing = common.proof_step(res, ['Wbxml.Props.C17'], 'Wbxml.Props.C17', extra_targets=['driver_flow'])
    res.coverage['regenerated'] = changed
    h = b.harness('flow.c')
    drv = corr.driver_exe('driver_flow')
    env = b.env()

    def both(lines, chunk=200):
        impl, inc = corr.run_lines(h, lines, env=env, chunk=chunk, timeout=900)
        dl = [driver_line(l, a) for l, a in zip(lines, impl)]
        model, _ = corr.run_lines(drv, dl, chunk=chunk, timeout=900)
        return impl, model, inc

    # ---- replay of a single stored line
    if getattr(args, 'replay', None):
        rp = json.load(open(args.replay))
        lines = [rp['request']]
    else:
        # ---- corpus first, then generated histories
        lines = []
        if os.path.isdir(CORPUS):
            for fn in sorted(os.listdir(CORPUS)):
                if fn.endswith('.txt'):
                    lines += [l.strip() for l in open(os.path.join(CORPUS, fn)) if l.startswith('FLOW ')]
        ncorpus = len(lines)
        g = FlowGen(d, rng)
        nrand = 2000 if res.tier == 'quick' else 100000
        lines += [g.history(20) for _ in range(nrand)]
        nex = 0
        if res.tier == 'thorough':
            ex = exhaustive_lines(d, 5)
            nex = len(ex)
            lines += ex
        else:
            ex = exhaustive_lines(d, 3)
            nex = len(ex)
            lines += ex
        res.coverage['corpus_lines'] = ncorpus
        res.coverage['random_histories'] = nrand
        res.coverage['exhaustive_histories'] = nex
        res.coverage['code_pages_hit'] = {str(l): sorted({p for (ll, k, p) in g.pages_hit if ll == l and k == 't'}) for l in sorted({x[0] for x in g.pages_hit})}
        res.coverage['attr_pages_hit'] = {str(l): sorted({p for (ll, k, p) in g.pages_hit if ll == l and k == 'a'}) for l in sorted({x[0] for x in g.pages_hit if x[1] == 'a'})}

    # ---- run and evaluate in batches (the responses of 450 000 histories do not fit comfortably in memory)
    oracle_bad, corr_bad = [], []
    fn_table, nonfunctional = {}, []
    stats = {'ops': {}, 'ret': {}, 'o2': {}, 'steps': 0, 'len_hist': {}}
    inc = []
    pick = set(rng.sample(range(len(lines)), min(5, len(lines))))
    BATCH = 20000
    for base in range(0, len(lines), BATCH):
        part = lines[base:base + BATCH]
        impl, model, inc_part = both(part)
        inc += [(base + idx, rc, err) for idx, rc, err in inc_part]
        for j, ln in enumerate(part):
            i = base + j
            a, m = impl[j], model[j]
            sp = split_resp(a)
            head, ops = ops_of(ln)
            stats['len_hist'][len(ops)] = stats['len_hist'].get(len(ops), 0) + 1
            for o in ops:
                stats['ops'][o[0]] = stats['ops'].get(o[0], 0) + 1
            if sp:
                stats['steps'] += len(sp[1])
                for st in sp[1]:
                    r = st.split(':')[0]
                    stats['ret'][r] = stats['ret'].get(r, 0) + 1
                t = dict(x.split('=', 1) for x in sp[3].split())
                stats['o2'][t.get('O2', '?')] = stats['o2'].get(t.get('O2', '?'), 0) + 1
            res.add_eval(hash(ln), nontrivial=bool(sp) and any(st.startswith('0:') and len(st) > 4 for st in sp[1]))
            okk, why = oracle_of(a)
            if not okk and len(oracle_bad) < 2000:
                oracle_bad.append((i, why))
            c = compare(ln, a, m)
            if c is not None and len(corr_bad) < 2000:
                corr_bad.append((i, c))
            if i in pick:
                res.samples.append({'request': ln[:300], 'impl': (a or '')[:300], 'model': (m or '')[:300]})
            # the parameter must be a function of (configuration, model state, item) over the WHOLE run
            msp = split_resp(m)
            if sp and msp and head[2] == 'W':
                states = msp[3].split()
                for k, o in enumerate(ops):
                    if o[0] in 'NMSF' and k < len(states) and k < len(sp[2]):
                        key = hash((head[1], head[3], states[k], o))
                        val = canon_step(sp[2][k])
                        if val.startswith('E'):
                            val = 'E'
                        val = hash(val)
                        old = fn_table.setdefault(key, val)
                        if old != val and len(nonfunctional) < 100:
                            nonfunctional.append((i, (head[1], head[3], states[k], o), sp[2][k]))
        del impl, model
    res.coverage['steps_compared'] = stats['steps']
    res.coverage['ops_hit'] = stats['ops']
    res.coverage['return_codes_hit'] = stats['ret']
    res.coverage['batch_oracle_verdicts'] = stats['o2']
    res.coverage['history_lengths'] = dict(sorted(stats['len_hist'].items()))
    res.coverage['parameter_points'] = len(fn_table)
    res.coverage['traces_validated_against_impl'] = len(lines) - len(corr_bad)
    res.coverage['rule'] = ('one line = one whole history on one encoder; get_output compared after EVERY operation with the model, '
                            'with a fresh encoder fed the surviving operations only (O1) and, at the end, with the non-flow batch API on the '
                            'document the surviving operations denote (O2); non-trivial = some step produced bytes; distinct = distinct request line')
    # ---- sanitizer incidents
    for idx, rc, err in inc:
        if idx >= len(lines):
            continue
        r1, rc1, err1 = corr.isolate(h, lines[idx], env=env)
        if rc1 != 0 or r1 is None:
            def crashes(l):
                r2, rc2, _ = corr.isolate(h, l, env=env)
                return rc2 != 0 or r2 is None
            small = shrink(lines[idx], crashes)
            _, rc2, err2 = corr.isolate(h, small, env=env)
            res.violation({'kind': 'sanitizer-or-crash', 'request': small, 'rc': rc2, 'stderr': err2[-3000:],
                           'explain': 'the flow API crashed or a sanitizer fired on this history'}, f'crash-{idx}')

    # ---- oracle failures: the property fails on the implementation for this history
    def oracle_fails(l):
        r1, rc1, _ = corr.isolate(h, l, env=env)
        return not oracle_of(r1)[0]
    seen, shapes = set(), set()
    for i, why in oracle_bad:
        if len(seen) >= 4:
            break
        shape0 = (lines[i].split(' ')[2], ' '.join(sorted(x.split('=')[0] for x in why.split())))
        if (shape0, 'pre') in shapes and len(shapes) > 8:
            continue
        small = shrink(lines[i], oracle_fails)
        shape = (small.split(' ')[2], ''.join(o[0] for o in ops_of(small)[1]))
        shapes.add((shape0, 'pre'))
        if small in seen or shape in shapes:
            continue
        seen.add(small)
        shapes.add(shape)
        r1, _, _ = corr.isolate(h, small, env=env)
        m1, _, _ = corr.isolate(drv, driver_line(small, r1))
        res.violation({'kind': 'flow-oracle', 'request': small, 'impl': r1, 'model': m1, 'oracle': oracle_of(r1)[1],
                       'found_in': lines[i][:400],
                       'explain': 'after this history wbxml_encoder_get_output is not header + encoding of the operations that remain '
                                  '(O1: fresh encoder fed the surviving operations only; O2: non-flow batch API)'},
                      f'oracle-{len(seen)}')
    res.coverage['oracle_failures'] = len(oracle_bad)
    res.assumptions += ['string table disabled (wbxml_encoder_set_flow_mode does it)',
                        'nodes are handed over one by one: no parent, no next sibling (parse_node would follow it)',
                        'no allocation failure (C16)', 'raw element start/end are called with element nodes']

    # ---- correspondence / hypothesis failures without an oracle failure
    if corr_bad and not res.violations:
        i, why = corr_bad[0]
        def differs(l):
            r1, _, _ = corr.isolate(h, l, env=env)
            m1, _, _ = corr.isolate(drv, driver_line(l, r1))
            return compare(l, r1, m1) is not None
        small = shrink(lines[i], differs)
        r1, _, _ = corr.isolate(h, small, env=env)
        m1, _, _ = corr.isolate(drv, driver_line(small, r1))
        res.violation({'kind': 'correspondence', 'stream': 'FLOW', 'request': small, 'impl': r1, 'model': m1, 'difference': compare(small, r1, m1),
                       'differences': len(corr_bad),
                       'explain': 'the flow API no longer behaves like Model/Flow.lean on this history; the oracle found no history on which the property fails'},
                      'flow-correspondence', no_input=True)
    if nonfunctional and not res.violations:
        i, key, val = nonfunctional[0]
        res.violation({'kind': 'hypothesis', 'request': lines[i], 'key': list(key), 'second_value': val,
                       'explain': 'the encoding of one item is not a function of (tag page, attribute page, current tag) and the item: '
                                  'the hypothesis of the C17 theorems does not hold for the implementation'},
                      'item-not-functional', no_input=True)
    if failing and not res.violations:
        res.violation({'kind': 'proof', 'theorems': failing}, 'proof', no_input=True)
    return res.finish('proof', checker_cmd='lake build Wbxml.Props.C17 driver_flow && #audit Wbxml.Props.C17')
