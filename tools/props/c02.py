"""C02 — XML→WBXML conversion is total, memory-safe and bounded on arbitrary bytes.
Proof: Props/C02.lean (totality / contract of Model.xml2wbxml for every Expat run and option
tuple; Expat is a parameter). Tie: X2W correspondence (byte-exact WBXML, all option tuples) under
ASan/UBSan/LSan with the caller's input in a read-only mapping, output-contract oracle, ill-formed
and unknown-language streams, NULL parameter block, nesting ladder under an 8 MiB stack."""
import itertools, os, random, subprocess
import common, corr, xmlgen, xcorr


def deep_xml(depth):
    return (b'<?xml version="1.0"?><!DOCTYPE si PUBLIC "-//WAPFORUM//DTD SI 1.0//EN" "http://www.wapforum.org/DTD/si.dtd"><si>' +
            b'<indication>' * depth + b'x' + b'</indication>' * depth + b'</si>')


def run(res, args):
    rng = random.Random(res.seed)
    quick = res.tier == 'quick'
    b = common.Build('asan')
    with common.lean_lock():
        d, changed = common.regenerate(b)
    mods = [m for m in ['Wbxml.Props.C02'] if os.path.exists(os.path.join(common.LEAN, *m.split('.')) + '.lean')]
    ok, failing = common.proof_step(res, mods, 'Wbxml.Props.C02', extra_targets=['driver'])
    known = [k for k in common.load_known()['findings'] if k['property'] == 'C02']
    h, er = b.harness('x2w.c'), b.harness('expat_rec.c')
    drv = corr.driver_exe()
    docs = [x for _, x in xmlgen.corpus_xml()]
    g = xmlgen.XmlTableGen(d, rng)
    xs, dist = [], {'corpus': 0, 'corpus-mutation': 0, 'tables': 0, 'tables-mutation': 0, 'random': 0, 'hostile': 0}
    for x in docs:
        for _ in range(1 if quick else 6):
            xs.append(x); dist['corpus'] += 1
    hostile = [b'<a>', b'<?xml version="1.0"?>', b'<si><indication>x</indication></si>', b'<unknownroot/>', b'<a xmlns="urn:x"><b/></a>',
               b'<?xml version="1.0" encoding="UTF-16"?><si/>', b'\xff\xfe<\x00s\x00i\x00/\x00>\x00', b'<si>&undefined;</si>',
               b'<!DOCTYPE si [<!ENTITY a "aaaaaaaaaa"><!ENTITY b "&a;&a;&a;&a;&a;&a;&a;&a;">]><si><indication>&b;&b;&b;&b;</indication></si>',
               b'<SyncML xmlns="SYNCML:SYNCML1.2"><SyncBody><Put><Item><Data><DevInf xmlns="syncml:devinf"><VerDTD>1.2</VerDTD><Man>x</Man></DevInf></Data></Item></Put></SyncBody></SyncML>',
               b'<SyncML xmlns="SYNCML:SYNCML1.1"><SyncBody><Put><Item><Data><MgmtTree xmlns="syncml:dmddf1.2"><VerDTD>1.2</VerDTD></MgmtTree></Data></Item></Put></SyncBody></SyncML>',
               b'<ActiveSync xmlns="http://synce.org/formats/airsync_wm5/airsync"><Sync><ConversationId>!!!not base64!!!</ConversationId></Sync></ActiveSync>',
               b'<si>' + b'<indication a="1" b="2" c="3" d="4" e="5" f="6" g="7" h="8"/>' * 50 + b'</si>']
    for x in hostile:
        xs.append(x); dist['hostile'] += 1
    for i in range(2500 if quick else 120000):
        k = rng.random()
        if k < 0.45:
            x = rng.choice(docs)
            for _ in range(rng.randint(1, 3)):
                x = xmlgen.mutate_xml(rng, x)
            dist['corpus-mutation'] += 1
        elif k < 0.75:
            x = g.doc(); dist['tables'] += 1
        elif k < 0.9:
            x = xmlgen.mutate_xml(rng, g.doc()); dist['tables-mutation'] += 1
        else:
            x = bytes(rng.randrange(256) for _ in range(rng.randint(1, 40))); dist['random'] += 1
        if x:
            xs.append(x)
    for depth in ([50, 300, 1000] if quick else [50, 300, 1000, 5000]):
        xs.append(deep_xml(depth))
    for _ in range(150 if quick else 6000):
        xs.append(xmlgen.syncml_xml(rng)); dist['tables'] += 1
    # sources in other declared encodings
    for x in rng.sample(docs, 12):
        for enc in ('ISO-8859-1', 'UTF-16', 'US-ASCII'):
            y = xmlgen.transcode(x, enc)
            if y is not None:
                xs.append(y); dist['corpus'] += 1
    # documents with embedded sub-documents under every option tuple (nested encoders have options of their own)
    emb_opts = {}
    for x in [x for x in docs if b'<DevInf' in x or b'<MgmtTree' in x]:
        for o in itertools.product([0, 3], [0, 1], [0, 1], [0, 1]):
            emb_opts[len(xs)] = f'{o[0]} {o[1]} {o[2]} {o[3]}'
            xs.append(x); dist['corpus'] += 1
    # inputs whose length is a multiple of common block sizes, well-formed and ill-formed only at the very end
    blk = []
    for base in (b'<si><indication href="http://a/">x</indication></si>', docs[0]):
        for size in (512, 1000, 1024, 2048, 4096, 8192, 12288, 16384, 65536):
            for delta in (-1, 0, 1):
                n = size + delta
                if n <= len(base) + 8:
                    continue
                pad = b'<!--' + b'p' * (n - len(base) - 7) + b'-->'
                good = base + pad
                blk.append(good)                                  # well-formed, exact length
                blk.append((b'<!--' + b'p' * (n - len(base) - 7 + 1) + b'-->' + base)[:n])   # same length, cut inside the last tag
                blk.append((base[:base.rfind(b'</')] + b'<!--' + b'p' * n)[:n])              # unclosed root / comment at end of input
    for x in blk:
        xs.append(x); dist['hostile'] += 1
    opts = [f'{rng.choice([0, 1, 2, 3])} {rng.choice([0, 1])} {rng.choice([0, 1])} {rng.choice([0, 1])}' for _ in xs]
    for k, o in emb_opts.items():
        opts[k] = o
    lines = [f'X2W {o} {x.hex()}' for o, x in zip(opts, xs)]
    nulls = [f'X2WN 0 {x.hex()}' for x in docs[:40] + hostile[:6]]
    impl, inc_i = corr.run_lines(h, lines + nulls, env=b.env(), timeout=900)
    model = xcorr.model_with_expat(drv, er, b.env(), lambda i: f'X2W {opts[i]}', xs)
    nmodel = xcorr.model_with_expat(drv, er, b.env(), lambda i: 'X2W 3 0 1 0', docs[:40] + hostile[:6])
    model = model + nmodel
    runs = xcorr.expat_runs(er, b.env(), xs)

    all_lines = lines + nulls
    corr_diff, contract, illformed_ok, codes = [], [], [], {}
    for i, ln in enumerate(all_lines):
        a, m = impl[i], model[i]
        res.add_eval(ln, nontrivial=(a or '').startswith('R 0 ;'))
        if a and a.startswith('R '):
            codes[a.split()[1]] = codes.get(a.split()[1], 0) + 1
        if a is not None and 'CONTRACT' in a:
            contract.append(i)
        if corr.canon_err(a) != corr.canon_err(m):
            corr_diff.append(i)
        if i < len(xs) and runs[i] and runs[i].startswith('X 0') and a and a.startswith('R 0 '):
            illformed_ok.append(i)
    res.coverage.update({'input_distribution': dist, 'result_codes_hit': codes, 'null_parameter_cases': len(nulls),
                         'ill_formed_inputs': sum(1 for r in runs if r and r.startswith('X 0')),
                         'traces_validated_against_impl': len(all_lines) - len(corr_diff),
                         'rule': 'corpus XML, textual/structural mutations, documents synthesised from every language\'s tables, hostile documents (ill-formed, unknown vocabulary, bad base64 in binary elements, embedded DevInf/DDF, entity expansion, long attribute lists), random bytes, nesting ladder x versions 1.0-1.3 x strtbl x keep-ws x anonymous; non-trivial = converted successfully'})
    res.samples = [{'request': all_lines[i][:160], 'impl': (impl[i] or '')[:100]} for i in rng.sample(range(len(all_lines)), 5)]
    for idx, rc, err in inc_i:
        if idx < len(all_lines):
            r1, rc1, err1 = corr.isolate(h, all_lines[idx], env=b.env(), timeout=120)
            if rc1 != 0 or r1 is None:
                kind = 'non-termination' if err1 == 'TIMEOUT' else 'sanitizer-or-crash'
                res.violation({'kind': kind, 'request': all_lines[idx], 'rc': rc1, 'stderr': err1[-3000:],
                               'explain': 'memory error, leak, write to the caller\'s read-only input, or no return'}, f'{kind}-{idx}')
    for i in contract[:3]:
        res.violation({'kind': 'output-contract', 'request': all_lines[i], 'impl': impl[i][:300]}, f'contract-{i}')
    for i in illformed_ok[:3]:
        res.violation({'kind': 'ill-formed-accepted', 'request': all_lines[i], 'impl': impl[i][:300], 'expat': runs[i][:200],
                       'explain': 'text that is not well-formed XML was converted'}, f'illformed-{i}')

    # ---- stack ladder on the plain build, 8 MiB
    pb = common.Build('plain')
    ph = pb.harness('x2w.c')
    stack_results = {}
    for depth in [1000, 10000, 50000, 100000] + ([] if quick else [300000]):
        line = f'X2W 3 0 1 0 {deep_xml(depth).hex()}\n'
        try:
            r = subprocess.run(['bash', '-c', f'ulimit -s 8192; exec {ph}'], input=line, capture_output=True, text=True, timeout=900)
            rc, out = r.returncode, r.stdout
        except subprocess.TimeoutExpired:
            rc, out = -9, ''
        verdict = 'ok' if (rc == 0 and out.startswith('R ')) else f'crash rc={rc}'
        stack_results[depth] = verdict
        if verdict != 'ok':
            k = next((k for k in known if k['match'].get('kind') == 'stack-overflow' and depth >= k['match'].get('min_depth', 0)), None)
            if k:
                if f"{k['id']}: {k['what']}" not in res.known:
                    res.known.append(f"{k['id']}: {k['what']}")
            else:
                res.violation({'kind': 'stack-exhausted', 'nesting_depth': depth, 'rc': rc,
                               'request': f'X2W 3 0 1 0 <SI document with {depth} nested <indication> elements>'}, f'stack-{depth}')
    res.coverage['stack_ladder_8MiB'] = stack_results

    # ---- heap: size ladder on the plain build; peak resident set against the documented bound (linear in
    # the length of the document after entity expansion; the harness holds the hex request and response too)
    big = 200000 if quick else 2000000
    ent = b'<!DOCTYPE si [<!ENTITY a "' + b'x' * 1000 + b'">]><si><indication>' + b'&a;' * (big // 1000) + b'</indication></si>'
    shapes = {
        'long-text': b'<si><indication>' + b'a' * big + b'</indication></si>',
        'entity-expansion': ent,
        'many-attributes-and-elements': b'<wml><card>' + b'<p align="left" mode="wrap">t</p>' * (big // 40) + b'</card></wml>',
        'repeated-strings (string table)': b'<wml><card>' + b'<p>repeat me please</p><p>unknown-word-xyz</p>' * (big // 100) + b'</card></wml>',
        'cdata': b'<si><indication><![CDATA[' + b'<&>' * (big // 3) + b']]></indication></si>',
    }
    heap = {}
    for name, doc in shapes.items():
        rc, out, rss = common.peak_rss(ph, f'X2W 3 0 1 0 {doc.hex()}\n', timeout=1800)
        outlen = (len(out.split()[3]) // 2) if out.startswith('R 0 ; ') and len(out.split()) > 3 else 0
        expanded = len(doc) + (big if name == 'entity-expansion' else 0)
        bound = 8 * 2 ** 20 + 24 * (expanded + outlen)
        heap[name] = {'input_bytes': len(doc), 'expanded_bytes': expanded, 'output_bytes': outlen, 'peak_rss_bytes': rss, 'bound': bound, 'rc': rc}
        if rc != 0 or not out.startswith('R '):
            res.violation({'kind': 'crash-on-large-input', 'shape': name, 'input_bytes': len(doc), 'rc': rc,
                           'request': f'X2W 3 0 1 0 <{name}, {len(doc)} bytes>'}, f'heap-crash-{len(heap)}')
        elif rss is not None and rss > bound:
            res.violation({'kind': 'heap-bound', 'shape': name, 'input_bytes': len(doc), 'output_bytes': outlen, 'peak_rss_bytes': rss, 'bound_bytes': bound,
                           'explain': 'peak memory is not linear in the length of the expanded document (bound: 8 MiB + 24 x (expanded input + output))',
                           'request_prefix': f'X2W 3 0 1 0 {doc[:60].hex()}...'}, f'heap-{len(heap)}')
    res.coverage['heap_ladder'] = heap
    if corr_diff and not res.violations:
        i = corr_diff[0]
        res.violation({'kind': 'correspondence', 'stream': 'X2W', 'request': all_lines[i][:4000], 'impl': (impl[i] or '')[:600], 'model': (model[i] or '')[:600], 'differences': len(corr_diff)},
                      'x2w-correspondence', no_input=True)
    if failing and not res.violations:
        res.violation({'kind': 'proof', 'theorems': failing}, 'proof', no_input=True)
    res.assumptions = ['Expat (well-formedness, entity expansion, event order) is a parameter of the model, recorded from the real Expat for every input',
                       'heap bound and real stack frames are runtime facts observed under sanitizers / the 8 MiB ladder, not proved']
    return res.finish('proof', checker_cmd='lake build Wbxml.Props.C02 && #audit Wbxml.Props.C02')
