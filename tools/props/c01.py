"""C01 — WBXML→XML conversion is total, memory-safe and bounded on arbitrary bytes.
Proof: Props/C01.lean (totality, no-UB, contract of Model.wbxml2xml for all inputs and option
tuples). Tie: W2X correspondence (byte-exact XML, all option tuples) under ASan/UBSan/LSan with the
caller's input in a read-only mapping, output-contract oracle, NULL optional arguments, a
nesting-depth ladder on the plain -O2 build under an 8 MiB stack, per-request time-outs."""
import os, random, subprocess
import common, corr, wbgen


def depth_doc(depth):
    return bytes([3, 5, 0x6a, 0]) + bytes([0x45]) * depth + bytes([1]) * depth


def run(res, args):
    rng = random.Random(res.seed)
    quick = res.tier == 'quick'
    b = common.Build('asan')
    with common.lean_lock():
        d, changed = common.regenerate(b)
    mods = [m for m in ['Wbxml.Props.C01'] if os.path.exists(os.path.join(common.LEAN, *m.split('.')) + '.lean')]
    ok, failing = common.proof_step(res, mods, 'Wbxml.Props.C01', extra_targets=['driver'])
    known = [k for k in common.load_known()['findings'] if k['property'] == 'C01']
    h = b.harness('w2x.c')
    drv = corr.driver_exe()
    docs = wbgen.corpus_wbxml()
    inner = [x for n, x in docs if 'devinf' in n or 'ddf' in n] or [docs[0][1]]
    # embedded documents of other languages too (any well-formed WBXML may sit in a <Data>), incl. a nested SyncML message
    # (one small document per language family that names its language in its header: the embedded parse is not forced)
    fam = {}
    for n, x in docs:
        if len(x) < 600 and len(x) > 4 and x[1] != 1:
            fam.setdefault(n.split('-')[0], x)
    inner = inner + list(fam.values())
    langs = [0] + [l['id'] for l in d['langs']]
    tg = wbgen.TableGen(d, rng)

    def opts():
        return f"{rng.choice([0, 1, 2])} {rng.choice([0, 0, 1, 2, 3, 8, 64, 255])} {rng.choice([0, 1])}"
    lines = []
    # corpus under several option tuples
    for name, doc in docs:
        for _ in range(2 if quick else 12):
            lines.append(f'W2X {rng.choice([0, 0, rng.choice(langs)])} {rng.choice([0, 0, 106, 3, 4, 1000])} {opts()} {doc.hex()}')
    n = 4000 if quick else 200000
    dist = {'grammar': 0, 'corpus-mutation': 0, 'grammar-mutation': 0, 'random': 0, 'syncml': 0}
    for i in range(n):
        k = rng.random()
        if k < 0.35:
            lid, doc, needforce = tg.doc(max_depth=rng.choice([3, 4, 8])); force = lid if (needforce or rng.random() < 0.1) else 0; dist['grammar'] += 1
        elif k < 0.65:
            doc = rng.choice(docs)[1]
            for _ in range(rng.randint(1, 3)):
                doc = wbgen.mutate(rng, doc)
            force = rng.choice([0, 0, 0, rng.choice(langs)]); dist['corpus-mutation'] += 1
        elif k < 0.75:
            lid, doc, needforce = tg.doc(); doc = wbgen.mutate(rng, doc); force = lid if needforce else rng.choice([0, lid]); dist['grammar-mutation'] += 1
        elif k < 0.90:
            doc = wbgen.syncml_doc(d, rng, inner) if rng.random() < 0.85 else wbgen.literal_syncml_shape(d, rng)[1]; force = 0; dist['syncml'] += 1
            if rng.random() < 0.2:
                doc = wbgen.mutate(rng, doc)
        else:
            doc = bytes(rng.randrange(256) for _ in range(rng.randint(0, 60))); force = rng.choice(langs); dist['random'] += 1
        lines.append(f'W2X {force} {rng.choice([0, 0, 0, 106, 3, 4, 1000, 999])} {opts()} {doc.hex() or "-"}')
    # every length / index field of valid documents overwritten with values beyond the bytes present, incl. the
    # values next to 2^32 where a position + length sum wraps (memory safety of the bounds tests themselves)
    import wbwalk
    from props.c13 import exceeding_values
    nfield = 0
    for name, doc in rng.sample(docs, 50 if quick else 90):
        w = wbwalk.fields(doc, ext_t_has_arg=name.startswith('wv'))
        if w is None:
            continue
        fields, end, strtbl = w
        for f in fields:
            after = f['offset'] + f['nbytes']
            for v in exceeding_values(f, doc, strtbl, False) + [2 ** 32 - 1, 2 ** 32 - 2, 2 ** 32 - after, 2 ** 32 - after + 1, 2 ** 32 - after - 1, 2 ** 31]:
                if 0 <= v < 2 ** 32:
                    mdoc = doc[:f['offset']] + wbgen.mb(v) + doc[after:]
                    lines.append(f'W2X 0 0 {opts()} {mdoc.hex()}'); nfield += 1
    dist['length-and-index-fields-overwritten'] = nfield
    # small-scope exhaustive stream: every body of at most k octets over the octets that steer the parser,
    # behind a WML header (attributes, extensions) and an SI header with a string table, random options
    import itertools
    alpha = [0x00, 0x01, 0x02, 0x03, 0x04, 0x05, 0x40, 0x43, 0x44, 0x45, 0x80, 0x83, 0x84, 0x85, 0xC3, 0xC4, 0xC5, 0x61, 0x7F, 0xFF]
    kmax = 3 if quick else 4
    nsmall = 0
    for hd in (bytes([3, 4, 0x6a, 0]), bytes([3, 5, 0x6a, 4]) + b'ab\x00c')[:2 if quick else 1]:
        for k in range(0, kmax + 1):
            for body in itertools.product(alpha, repeat=k):
                lines.append(f'W2X 0 0 {opts()} {(hd + bytes(body)).hex()}'); nsmall += 1
    dist['small-scope-exhaustive'] = nsmall
    # nesting ladder inside the sanitizer run (moderate depths, wide indentation)
    for depth, gen, ind in [(50, 1, 2), (50, 1, 255), (129, 1, 2), (131, 1, 2), (131, 1, 255), (131, 0, 0), (131, 2, 0), (300, 1, 3), (1000, 1, 1), (1000, 0, 0)] + \
            ([] if quick else [(260, 1, 255), (3000, 1, 1), (3000, 2, 0), (6000, 0, 0)]):
        lines.append(f'W2X 0 0 {gen} {ind} 0 {depth_doc(depth).hex()}')
    # optional arguments given as NULL
    nstart = len(lines)
    nulls = []
    for name, doc in docs[:40] + [('bad', b'\x03\x05'), ('bad2', b'\x00'), ('unknown-lang', bytes([3, 1, 0x6a, 0, 5])), ('truncated', docs[0][1][:len(docs[0][1]) // 2]), ('bad-charset', bytes([3, 5, 4, 0, 0x45, 3, 0xe9, 0, 1]))]:
        for mode in (0, 1, 2):
            nulls.append((f'W2XN {mode} {doc.hex()}', f'W2X 0 0 1 0 0 {doc.hex()}'))
    impl, inc_i = corr.run_lines(h, lines + [a for a, _ in nulls], env=b.env(), timeout=900)
    model, inc_m = corr.run_lines(drv, lines + [m for _, m in nulls], timeout=900)

    corr_diff, contract = [], []
    codes = {}
    for i in range(len(lines) + len(nulls)):
        a, m = impl[i], model[i]
        ln = (lines + [x for x, _ in nulls])[i]
        res.add_eval(ln, nontrivial=(a or '').startswith('R 0 ;'))
        if a and a.startswith('R '):
            codes[a.split()[1]] = codes.get(a.split()[1], 0) + 1
        if a is not None and 'CONTRACT' in a:
            contract.append(i)
        if corr.canon_err(a) != corr.canon_err(m):
            corr_diff.append(i)
    all_lines = lines + [x for x, _ in nulls]
    res.coverage.update({'input_distribution': dist, 'corpus_documents': len(docs), 'null_argument_cases': len(nulls),
                         'result_codes_hit': codes, 'traces_validated_against_impl': len(all_lines) - len(corr_diff),
                         'rule': 'corpus x option tuples, grammar-directed documents over all tables, byte/structure mutations, SyncML Data/Meta/Type documents with embedded WBXML and vObject payloads, random bytes, nesting ladders; options: forced language x charset x {compact,indent,canonical} x indent {0,1,2,3,8,64,255} x keep-ws; non-trivial = converted successfully'})
    res.samples = [{'request': all_lines[i][:160], 'impl': (impl[i] or '')[:120]} for i in rng.sample(range(len(all_lines)), 5)]
    for idx, rc, err in inc_i:
        if idx < len(all_lines):
            r1, rc1, err1 = corr.isolate(h, all_lines[idx], env=b.env(), timeout=120)
            if rc1 != 0 or r1 is None:
                kind = 'non-termination' if err1 == 'TIMEOUT' else 'sanitizer-or-crash'
                res.violation({'kind': kind, 'request': all_lines[idx], 'rc': rc1, 'stderr': err1[-3000:],
                               'explain': 'memory error, leak, write to the caller\'s read-only input, or no return'}, f'{kind}-{idx}')
    for i in contract[:3]:
        res.violation({'kind': 'output-contract', 'request': all_lines[i], 'impl': impl[i][:300]}, f'contract-{i}')

    # ---- stack: nesting ladder on the plain -O2 build under an 8 MiB stack
    pb = common.Build('plain')
    ph = pb.harness('w2x.c')
    ladder = [1000, 5000, 20000, 50000, 100000] + ([] if quick else [300000, 1000000])
    stack_results = {}
    for depth in ladder:
        line = f'W2X 0 0 0 0 0 {depth_doc(depth).hex()}\n'
        try:
            r = subprocess.run(['bash', '-c', f'ulimit -s 8192; exec {ph}'], input=line, capture_output=True, text=True, timeout=900)
            rc, out = r.returncode, r.stdout
        except subprocess.TimeoutExpired:
            rc, out = -9, ''
        verdict = 'ok' if (rc == 0 and out.startswith('R ')) else f'crash rc={rc}'
        stack_results[depth] = verdict
        if verdict != 'ok':
            k = next((k for k in known if k['match'].get('kind') == 'stack-overflow' and depth >= k['match'].get('min_depth', 0)), None)
            if k:
                if f"{k['id']}: {k['what']}" not in res.known:
                    res.known.append(f"{k['id']}: {k['what']}")
            else:
                res.violation({'kind': 'stack-exhausted', 'nesting_depth': depth, 'request': f'W2X 0 0 0 0 0 <SI document nested {depth} deep>', 'rc': rc,
                               'explain': 'the conversion exhausted an 8 MiB stack instead of converting or refusing the document'}, f'stack-{depth}')
    res.coverage['stack_ladder_8MiB'] = stack_results

    # ---- heap: size ladder on the plain build; peak resident set against the documented bound
    # (linear in the size of the decoded document; the harness itself holds the hex request and response,
    # which are linear in the same quantities)
    big = 200000 if quick else 2000000
    sl, sm = (2000, 2000) if quick else (6000, 6000)
    from wbgen import mb as _mb
    shapes = {
        'long-inline-string': bytes([3, 5, 0x6a, 0, 0x45, 3]) + b'a' * big + bytes([0, 1]),
        'long-opaque': bytes([3, 5, 0x6a, 0, 0x45, 0xC3]) + _mb(big) + b'\x7f' * big + bytes([1]),
        'string-table-references (quadratic decode)': bytes([3, 5, 0x6a]) + _mb(sl + 1) + b'q' * sl + b'\x00' + bytes([0x45]) + bytes([0x83, 0]) * sm + bytes([1]),
        'markup-characters (escaping)': bytes([3, 5, 0x6a, 0, 0x45, 3]) + b'<&">' * (big // 4) + bytes([0, 1]),
        'wide': bytes([3, 5, 0x6a, 0, 0x45]) + bytes([0x06]) * (20000 if quick else 60000) + bytes([1]),
        'entities': bytes([3, 5, 0x6a, 0, 0x45]) + (b'\x02' + _mb(0x20AC)) * (big // 8) + bytes([1]),
    }
    heap = {}
    for name, doc in shapes.items():
        for gen, ind in ((0, 0), (1, 4)):
            rc, out, rss = common.peak_rss(ph, f'W2X 0 0 {gen} {ind} 0 {doc.hex()}\n', timeout=1800)
            outlen = (len(out.split()[3]) // 2) if out.startswith('R 0 ; ') and len(out.split()) > 3 else 0
            bound = 8 * 2 ** 20 + 16 * (len(doc) + outlen)
            heap[f'{name} gen={gen}'] = {'input_bytes': len(doc), 'output_bytes': outlen, 'peak_rss_bytes': rss, 'bound': bound, 'rc': rc}
            if rc != 0 or not out.startswith('R '):
                res.violation({'kind': 'crash-on-large-input', 'shape': name, 'input_bytes': len(doc), 'rc': rc,
                               'request': f'W2X 0 0 {gen} {ind} 0 <{name}, {len(doc)} bytes>'}, f'heap-crash-{len(heap)}')
            elif rss is not None and rss > bound:
                res.violation({'kind': 'heap-bound', 'shape': name, 'input_bytes': len(doc), 'output_bytes': outlen, 'peak_rss_bytes': rss, 'bound_bytes': bound,
                               'explain': 'peak memory is not linear in the size of the decoded document (bound: 8 MiB + 16 x (input + output); observed on the pinned tree: about 3.5 x)',
                               'request_prefix': f'W2X 0 0 {gen} {ind} 0 {doc[:40].hex()}...'}, f'heap-{len(heap)}')
    res.coverage['heap_ladder'] = heap

    # ---- growth exponent: "string-table references can make the decoded document at most quadratically larger
    # than its encoding": each family is converted at two scales (input about doubled); output growing faster
    # than quadratically is a violation of the bound clause
    import math

    def embedded_family(k):
        # SyncML 1.2: <Item><Meta><Type>…devinf+wbxml</Type></Meta><Data> k references to a document that lives in
        # the string table and itself holds k references to k octets </Data></Item>  (Props/C01.cubic_witness)
        p1 = k + 1 if (k + 1) % 128 else k + 2                   # the inner document must be NUL-free
        inner = bytes([2]) + _mb(0x1201) + bytes([0x6A]) + _mb(p1) + b'a' * p1 + bytes([0x54]) + bytes([0x83, 0x01]) * k + bytes([1])
        if b'\x00' in inner:
            return None
        return (bytes([2]) + _mb(0x1201) + bytes([0x6A]) + _mb(len(inner) + 1) + inner + b'\x00' + bytes([0x54, 0x5A, 0x00, 0x01, 0x53, 0x03]) +
                b'application/vnd.syncml-devinf+wbxml' + bytes([0x00, 0x01, 0x01, 0x00, 0x00, 0x4F]) + bytes([0x83, 0x00]) * k + bytes([1, 1]))
    fams = {
        'inline-string': lambda k: bytes([3, 5, 0x6a, 0, 0x45, 3]) + b'a' * (40 * k) + bytes([0, 1]),
        'string-table-references': lambda k: bytes([3, 5, 0x6a]) + _mb(10 * k + 1) + b'q' * (10 * k) + b'\x00' + bytes([0x45]) + bytes([0x83, 0]) * (10 * k) + bytes([1]),
        'embedded-documents-by-string-table-reference': embedded_family,
    }
    growth = {}
    k0 = 60 if quick else 110
    for name, fam in fams.items():
        pts = []
        for k in (k0, 2 * k0):
            doc = fam(k)
            if doc is None:
                continue
            rc, out, rss = common.peak_rss(ph, f'W2X 0 0 0 0 0 {doc.hex()}\n', timeout=1800)
            outlen = (len(out.split()[3]) // 2) if out.startswith('R 0 ; ') and len(out.split()) > 3 else 0
            pts.append((len(doc), outlen, rss))
        if len(pts) == 2 and pts[0][1] > 0 and pts[1][1] > 0:
            expo = math.log(pts[1][1] / pts[0][1]) / math.log(pts[1][0] / pts[0][0])
            growth[name] = {'points(input,output,peak_rss)': pts, 'exponent': round(expo, 2)}
            if expo > 2.4 and pts[1][1] > 200000:
                kf = next((k for k in known if k['match'].get('kind') == 'growth-exponent' and k['match'].get('family') == name), None)
                if kf:
                    if f"{kf['id']}: {kf['what']}" not in res.known:
                        res.known.append(f"{kf['id']}: {kf['what']}")
                else:
                    res.violation({'kind': 'growth-exponent', 'family': name, 'points(input,output,peak_rss)': pts, 'exponent': round(expo, 2),
                                   'explain': 'doubling the input multiplies the output by more than 2^2.4: the decoded document is not at most quadratically larger than its encoding',
                                   'request_prefix': f'W2X 0 0 0 0 0 {fam(2 * k0)[:60].hex()}...'}, f'growth-{len(growth)}')
    res.coverage['growth_exponents'] = growth

    if corr_diff and not res.violations:
        i = corr_diff[0]
        res.violation({'kind': 'correspondence', 'stream': 'W2X', 'request': all_lines[i], 'impl': (impl[i] or '')[:600], 'model': (model[i] or '')[:600], 'differences': len(corr_diff),
                       'explain': 'the conversion no longer behaves like Model.wbxml2xml; no memory error, contract breach or crash was found on the inputs explored'},
                      'w2x-correspondence', no_input=True)
    if failing and not res.violations:
        res.violation({'kind': 'proof', 'theorems': failing}, 'proof', no_input=True)
    res.assumptions = ['heap bound and real stack frames are runtime facts observed (peak resident set on a size ladder against 8 MiB + 16 x (input + output); 8 MiB stack ladder), not proved',
                       'input length < 2^32 - 16; C locale']
    return res.finish('proof', checker_cmd='lake build Wbxml.Props.C01 && #audit Wbxml.Props.C01')
