"""C20 helpers: scenario representation, virtual file-system facts, running the real executables,
request lines for the Lean driver / the C helper harness, scenario generators."""
import glob, os, random, re, shutil, subprocess, tempfile
import common

TOOLNAME = {'w2x': b'wbxml2xml', 'x2w': b'xml2wbxml'}
OPTS = {'w2x': b'kh?o:m:i:l:c:', 'x2w': b'nkah?o:v:'}
GLIBC_BUF = 4096          # stdio buffer of a fresh stream on /dev/full (st_blksize)

LANGS = ['WML10', 'WML11', 'WML12', 'WML13', 'WTA10', 'WTAWML12', 'CHANNEL11', 'CHANNEL12', 'SI10', 'SL10', 'CO10',
         'PROV10', 'EMN10', 'DRMREL10', 'OTA', 'SYNCML10', 'DEVINF10', 'SYNCML11', 'DEVINF11', 'METINF11', 'SYNCML12',
         'DEVINF12', 'METINF12', 'DMDDF12', 'CSP11', 'CSP12', 'AIRSYNC', 'ACTIVESYNC', 'CONML']
CHARSETS = ['ASCII', 'ISO-8859-1', 'ISO-8859-2', 'ISO-8859-3', 'ISO-8859-4', 'ISO-8859-5', 'ISO-8859-6', 'ISO-8859-7',
            'ISO-8859-8', 'ISO-8859-9', 'ISO-10646-UCS-2', 'SHIFT_JIS', 'BIG5', 'UTF-8', 'UTF-16']
VERSIONS = ['1.0', '1.1', '1.2', '1.3']


def hx(b):
    return b.hex() if b else '-'


def unhx(s):
    return b'' if s == '-' else bytes.fromhex(s)


def hxlist(l):
    return ','.join(hx(x) for x in l) if l else '_'


def unhxlist(s):
    return [] if s == '_' else [unhx(x) for x in s.split(',')]


# ------------------------------------------------------------------ scenarios
# A scenario is a JSON-able dict:
#   tool: 'w2x'|'x2w'   getopt: 'gnu' (stock executable) | 'att' (same sources linked with attgetopt.c)
#   argv: [hex, ...] including argv[0]
#   files: {relative name: hex content}   dirs: [relative names]      (the scratch cwd before the run)
#   stdin: {'kind': 'pipe', 'data': hex} | {'kind': 'dir'}
#   stdout: 'pipe' | 'full'
#   sched: [n, ...]   (fread schedule given to the model only; the theorem says it cannot matter)
#   tag: free text

def sc_argv(sc):
    return [unhx(a) for a in sc['argv']]


def vfs_kind(sc, p):
    """('file', content) | ('dir',) | ('none', creatable?) for a path as the tool would see it from its cwd."""
    files = {k.encode(): unhx(v) for k, v in sc['files'].items()}
    dirs = {d.encode() for d in sc['dirs']}
    if p == b'':
        return ('none', False)
    if p in (b'/dev/full',):
        return ('dev',)
    if p in files:
        return ('file', files[p])
    if p in dirs or p in (b'.', b'..', b'/'):
        return ('dir',)
    if p.startswith(b'/') or p.endswith(b'/'):
        return ('none', False)
    if b'/' in p:
        parent = p.rsplit(b'/', 1)[0]
        return ('none', parent in dirs)
    return ('none', True)


def fact_R(sc, p):
    k = vfs_kind(sc, p)
    if k[0] == 'file':
        return 'F' + hx(k[1]) if k[1] else 'F-'
    if k[0] == 'dir':
        return 'D'
    return 'X'


def fact_W(sc, p):
    k = vfs_kind(sc, p)
    if k[0] == 'dev':
        return f'U{GLIBC_BUF}'
    if k[0] == 'file':
        return 'K'
    if k[0] == 'dir':
        return 'X'
    return 'K' if k[1] else 'X'


def candidate_paths(sc):
    c = set()
    for a in sc_argv(sc)[1:]:
        for i in range(len(a) + 1):
            c.add(a[i:])
    c.discard(b'-')
    return sorted(c)


def run_line(sc, lib='NONE'):
    fs = ';'.join(f'{hx(p)}/{fact_R(sc, p)}/{fact_W(sc, p)}' for p in candidate_paths(sc)) or '-'
    si = sc['stdin']
    stdin = 'D' if si['kind'] == 'dir' else 'F' + (si['data'] or '-')
    stdout = 'K' if sc['stdout'] == 'pipe' else f'U{GLIBC_BUF}'
    sched = ','.join(str(n) for n in sc['sched']) or '-'
    return f"TOOL RUN {sc['tool']} {sc['getopt']} {','.join(a if a else '-' for a in sc['argv']) or '_'} " \
           f"stdin={stdin} stdout={stdout} sched={sched} lib={lib} fs={fs}"


def lib_line(call):
    """call = 'w2x.gen.lang.charset.indent.keep/inputhex' as printed by the driver."""
    sig, inp = call.split('/')
    f = sig.split('.')
    return 'TOOL LIB ' + ' '.join(f) + ' ' + inp


def parse_done(line):
    """DONE exit=.. stdout=.. stderr=.. files=.. call=..  ->  dict ; CRASH x -> {'crash': x}"""
    t = line.split()
    if not t:
        return {'bad': line}
    if t[0] == 'CRASH':
        return {'crash': ' '.join(t[1:])}
    if t[0] != 'DONE':
        return {'bad': line}
    kv = dict(x.split('=', 1) for x in t[1:])
    files = {}
    if kv['files'] != '-':
        for e in kv['files'].split(';'):
            p, c, ok = e.split('/')
            files[unhx(p)] = (unhx(c), ok == '1')
    return {'exit': int(kv['exit']), 'stdout': unhx(kv['stdout']), 'stderr': unhxlist(kv['stderr']),
            'files': files, 'call': None if kv['call'] == '-' else kv['call']}


# ------------------------------------------------------------------ running the real executables

SAN_RE = re.compile(rb'AddressSanitizer|LeakSanitizer|UndefinedBehaviorSanitizer|runtime error:|DEADLYSIGNAL')


class Exes:
    def __init__(self, build):
        self.b = build
        self.path = {('w2x', 'gnu'): build.wbxml2xml, ('x2w', 'gnu'): build.xml2wbxml}
        # the same tool sources linked with tools/attgetopt.c instead of the C library's getopt
        decl = os.path.join(build.dir, 'c20_att_decl.h')
        with open(decl, 'w') as f:
            f.write('int wbxml_getopt(int argc, char **argv, char *opts);\nextern int optind;\nextern char *optarg;\n')
        tdir = os.path.join(common.REPO, 'tools')
        for t, src in (('w2x', 'wbxml2xml_tool.c'), ('x2w', 'xml2wbxml_tool.c')):
            self.path[(t, 'att')] = build.harness(os.path.join(tdir, src), name=f'{t}_att',
                                                  extra=['-DWBXML_GETOPT_H', '-include', decl,
                                                         os.path.join(tdir, 'attgetopt.c')])
        self.env = build.env()
        self.env.pop('POSIXLY_CORRECT', None)
        self.help = {}
        for k, p in self.path.items():
            r = subprocess.run([p, '-h'], stdin=subprocess.DEVNULL, stdout=subprocess.PIPE, stderr=subprocess.PIPE,
                               env=self.env, timeout=60)
            self.help[k] = r.stderr

    def run(self, sc, root):
        """Run one scenario in a fresh directory under `root`; returns the observation dict."""
        d = tempfile.mkdtemp(prefix='sc-', dir=root)
        try:
            for dn in sc['dirs']:
                os.makedirs(os.path.join(d, dn), exist_ok=True)
            for fn, c in sc['files'].items():
                with open(os.path.join(d, fn), 'wb') as f:
                    f.write(unhx(c))
            before = snapshot(d)
            key = (sc['tool'], sc['getopt'])
            argv = sc_argv(sc)
            fds = []
            if sc['stdin']['kind'] == 'dir':
                sin = os.open(d, os.O_RDONLY)
                fds.append(sin)
                data = None
            else:
                sin = subprocess.PIPE
                data = unhx(sc['stdin']['data'])
            ensure_dev_full()
            if sc['stdout'] == 'full':
                sout = os.open('/dev/full', os.O_WRONLY)
                fds.append(sout)
            else:
                sout = subprocess.PIPE
            try:
                p = subprocess.Popen(argv, executable=self.path[key], cwd=d, stdin=sin, stdout=sout,
                                     stderr=subprocess.PIPE, env=self.env)
                try:
                    o, e = p.communicate(data, timeout=20)
                    rc = p.returncode
                except subprocess.TimeoutExpired:
                    p.kill()
                    o, e = p.communicate()
                    rc = 'timeout'
            finally:
                for fd in fds:
                    os.close(fd)
            after = snapshot(d)
            if any(a == '/dev/full' for a in (x.decode('latin-1') for x in (unhx(h) for h in sc['argv']))) and not dev_full_ok():
                # the tool under test removed or replaced the device it was told to write to
                after[b'/dev/full'] = b'<REMOVED-OR-REPLACED>'
                ensure_dev_full()
            return {'rc': rc, 'stdout': o if o is not None else None, 'stderr_raw': e,
                    'stderr': canon_stderr(e, self.help[key]), 'sanitizer': bool(SAN_RE.search(e)),
                    'before': before, 'after': after}
        finally:
            shutil.rmtree(d, ignore_errors=True)


def dev_full_ok():
    import stat
    try:
        return stat.S_ISCHR(os.stat('/dev/full').st_mode)
    except OSError:
        return False


def ensure_dev_full():
    """/dev/full is an output target of some scenarios; a tool that deletes its output path on failure
    (run as root) takes the device with it: put it back so that the remaining scenarios mean what they say."""
    if not dev_full_ok():
        try:
            if os.path.lexists('/dev/full'):
                os.remove('/dev/full')
            os.mknod('/dev/full', 0o666 | __import__('stat').S_IFCHR, os.makedev(1, 7))
            os.chmod('/dev/full', 0o666)
        except OSError:
            pass


def snapshot(d):
    out = {}
    for root, dirs, files in os.walk(d):
        rel = os.path.relpath(root, d)
        for x in dirs:
            out[os.path.normpath(os.path.join(rel, x)).encode() + b'/'] = None
        for x in files:
            with open(os.path.join(root, x), 'rb') as f:
                out[os.path.normpath(os.path.join(rel, x)).encode()] = f.read()
    return out


def canon_stderr(e, helptext):
    if helptext and helptext in e:
        e = e.replace(helptext, b'<help>\n')
    lines = e.split(b'\n')
    if lines and lines[-1] == b'':
        lines.pop()
    return lines


# ------------------------------------------------------------------ documents

def corpus_xml(limit=None):
    fs = sorted(glob.glob(os.path.join(common.REPO, 'test', 'tools', '*', '*.xml')))
    docs = []
    for f in fs:
        with open(f, 'rb') as fh:
            docs.append((os.path.relpath(f, common.REPO), fh.read()))
    return docs[:limit] if limit else docs


def pad_xml(doc, n):
    """Valid XML of exactly n bytes (comment after the root element), or None if doc is too long."""
    doc = doc.rstrip()
    need = n - len(doc)
    if need < 8:
        return None
    return doc + b'<!--' + b'p' * (need - 7) + b'-->'


def pad_wbxml(doc, n):
    """Bytes after the root element are never looked at by the parser: pad with zeros."""
    return doc + b'\0' * (n - len(doc)) if len(doc) <= n else None


# ------------------------------------------------------------------ generators

def cluster_args(rng, tool, want_out, bad=0.0):
    """Random option words for `tool`. Returns (words, expects_help_or_error: unknown)."""
    flags, valued = [], []
    if tool == 'w2x':
        if rng.random() < 0.3:
            flags.append(b'k')
        if rng.random() < 0.35:
            valued.append((b'i', rng.choice([b'0', b'1', b'2', b'4', b'8', b'3', b'-1', b'255', b'256', b'260', b' 2', b'+3', b'2x',
                                             b'x', b'', b'99999999999', b'-99999999999999999999', b'4294967298'])))
        if rng.random() < 0.35:
            valued.append((b'l', rng.choice(LANGS + ['wml13', 'NOPE', '', 'SYNCML1', 'METINF10']).encode()))
        if rng.random() < 0.3:
            valued.append((b'c', rng.choice(CHARSETS + ['utf-8', 'NOPE', '', 'UTF8']).encode()))
        if rng.random() < 0.4:
            valued.append((b'm', rng.choice([b'0', b'1', b'2', b'3', b'-1', b'x', b'', b' 0', b'02', b'4294967296', b'4294967298'])))
    else:
        for f in (b'n', b'k', b'a'):
            if rng.random() < 0.3:
                flags.append(f)
        if rng.random() < 0.4:
            valued.append((b'v', rng.choice(VERSIONS + ['1', '1.4', '', '1.30', ' 1.1', '0']).encode()))
    if want_out is not None:
        valued.append((b'o', want_out))
    if rng.random() < 0.1 and valued:       # duplicate option: the last one wins
        valued.insert(0, (valued[-1][0], rng.choice([b'x', b'dup.out', b'1'])))
    if rng.random() < bad:
        flags.append(rng.choice([b'z', b':', b';', b'-', b'h', b'?', b'O', b'\xff', b'W']))
    atoms = [('f', f) for f in flags] + [('v', v) for v in valued]
    rng.shuffle(atoms)
    words, cur = [], b''
    for kind, a in atoms:
        if kind == 'f':
            cur += a
            if rng.random() < 0.5:
                words.append(b'-' + cur)
                cur = b''
        else:
            o, val = a
            if val != b'' and rng.random() < 0.4:          # attached value ends the cluster
                words.append(b'-' + cur + o + val)
            else:
                words.append(b'-' + cur + o)
                words.append(val)
            cur = b''
    if cur:
        words.append(b'-' + cur)
    return words


def base_scenario(tool, getopt, rng):
    return {'tool': tool, 'getopt': getopt, 'argv': [], 'files': {}, 'dirs': ['adir'],
            'stdin': {'kind': 'pipe', 'data': ''}, 'stdout': 'pipe',
            'sched': [rng.choice([0, 1, 9, 99, 499, 998, 999, 1000, 5000]) for _ in range(rng.randrange(0, 6))], 'tag': ''}


def make_scenario(rng, tool, getopt, doc, in_mode, out_mode, bad=0.0, tag=''):
    """in_mode: file|stdin|nofile|dir|nodir|stdindir ; out_mode: none|file|stdout|dir|nodir|existing|full|empty|same|newindir"""
    sc = base_scenario(tool, getopt, rng)
    sc['files']['old.out'] = b'KEEP THIS\n'.hex()
    inp = None
    if in_mode == 'file':
        sc['files']['in.dat'] = doc.hex()
        inp = b'in.dat'
    elif in_mode == 'stdin':
        sc['stdin'] = {'kind': 'pipe', 'data': doc.hex()}
        inp = b'-'
    elif in_mode == 'nofile':
        inp = b'nofile'
    elif in_mode == 'dir':
        inp = b'adir'
    elif in_mode == 'nodir':
        inp = b'nodir/in.dat'
    elif in_mode == 'stdindir':
        sc['stdin'] = {'kind': 'dir'}
        inp = b'-'
    out = {'none': None, 'file': b'out.dat', 'stdout': b'-', 'dir': b'adir', 'nodir': b'nodir/out.dat',
           'existing': b'old.out', 'full': b'/dev/full', 'empty': b'', 'same': inp if in_mode == 'file' else b'out.dat',
           'newindir': b'adir/new.out', 'stdoutfull': b'-'}[out_mode]
    if out_mode == 'stdoutfull':
        sc['stdout'] = 'full'
    words = cluster_args(rng, tool, out, bad)
    r = rng.random()
    if inp is None:
        args = words
    elif r < 0.8:
        args = words + [inp]
    elif r < 0.9:
        # operand before options (glibc permutes, attgetopt stops); it may also land between an option and its
        # separate value and be taken as the value — except that a device must never become the operand
        ks = [k for k in range(len(words) + 1) if not (k < len(words) and words[k].startswith(b'/dev/'))]
        k = rng.choice(ks)
        args = words[:k] + [inp] + words[k:]
    elif r < 0.95:
        args = words + [b'--', inp]
    else:
        args = words + [inp, rng.choice([b'extra', b'-k', b'--'])]
    argv0 = rng.choice([TOOLNAME[tool], TOOLNAME[tool], b'/usr/bin/' + TOOLNAME[tool], b'w x', b'', b'prog'])
    sc['argv'] = [a.hex() for a in [argv0] + args]
    sc['tag'] = tag or f'{in_mode}/{out_mode}'
    return sc


def getopt_lines(rng, n):
    """Random argv vectors for the in-process attgetopt correspondence (both option strings and random ones)."""
    lines = []
    alpha = [b'k', b'h', b'?', b'o', b'm', b'i', b'l', b'c', b'n', b'a', b'v', b'z', b':', b'-', b';', b'x', b'1', b'\xc3']
    for _ in range(n):
        r = rng.random()
        if r < 0.4:
            opts = OPTS['w2x']
        elif r < 0.8:
            opts = OPTS['x2w']
        else:
            opts = b''.join(rng.choice([b'a', b'b', b'k', b':', b'o', b'?', b'-', b'z']) for _ in range(rng.randrange(0, 8)))
        argc = rng.choice([0, 1, 1, 2, 2, 3, 3, 4, 5, 6, 8])
        argv = []
        for i in range(argc):
            q = rng.random()
            if i == 0:
                w = rng.choice([b'prog', b'', b'wbxml2xml', b'a b'])
            elif q < 0.6:
                w = b'-' + b''.join(rng.choice(alpha) for _ in range(rng.randrange(0, 5)))
            elif q < 0.7:
                w = rng.choice([b'--', b'-', b'', b'---', b'--k'])
            else:
                w = b''.join(rng.choice(alpha + [b'f', b'.']) for _ in range(rng.randrange(0, 4)))
            argv.append(w)
        lines.append(f'TOOL GETOPT att {hx(opts)} {hxlist(argv)}')
    return lines


def atoi_lines(rng, n):
    fixed = [b'', b'0', b'1', b'2', b'-1', b'255', b'256', b'-128', b'127', b'128', b'2147483647', b'2147483648', b'-2147483648',
             b'-2147483649', b'4294967295', b'4294967296', b'4294967297', b'9223372036854775807', b'9223372036854775808',
             b'-9223372036854775808', b'-9223372036854775809', b'99999999999999999999999', b' 12', b'\t\n\v\f\r 7', b'+5', b'-+5', b'+-5',
             b'--5', b'12abc', b'abc', b'0x10', b'010', b' ', b'-', b'+', b'1 2', b'\xa05', b'1e3', b'- 1']
    out = [f'TOOL ATOI {hx(s)}' for s in fixed]
    pieces = [b' ', b'\t', b'-', b'+', b'0', b'1', b'2', b'9', b'5', b'x', b'.', b'\n']
    for _ in range(n):
        s = b''.join(rng.choice(pieces) for _ in range(rng.randrange(0, 24)))
        out.append(f'TOOL ATOI {hx(s)}')
    return out


def name_lines(rng):
    out = []
    for kind, names in (('LANG', LANGS + ['METINF10', 'SYNCML13']), ('CHARSET', CHARSETS), ('VERSION', VERSIONS)):
        for nm in names:
            b = nm.encode()
            for v in (b, b.lower(), b + b'x', b[:-1], b' ' + b, b''):
                for k in ('LANG', 'CHARSET', 'VERSION'):
                    if k == kind or rng.random() < 0.1:
                        out.append(f'TOOL NAME {k} {hx(v)}')
    return out
