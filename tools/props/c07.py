"""C07 — conversion options change the form of the output, never its meaning.
Proof: Props/C07.lean (option-independence theorems over the conversion models; growing).
Tie: X2W / W2X correspondence over the full option cross product; implementation-side oracle:
(a) WBXML produced under all 32 encoder tuples decodes (language forced for anonymous documents)
to one and the same document; (b) compact, indented (any width) and canonical XML of one WBXML
document are read by Expat as the same tree (compact vs canonical exactly; indented modulo white
space between markup); (c) an XML source transcoded to UTF-16 and ISO-8859-1 yields byte-identical
WBXML."""
import os, random, re, itertools
import common, corr, xmlgen, wbgen, xcorr, docmp, xmlcmp


def hexout(r):
    return bytes.fromhex(r[6:].split()[0]) if r and r.startswith('R 0 ; ') and len(r) > 6 else None


def merged_events(resp):
    pev = xmlcmp.parse_events(resp)
    out = []
    for e in pev:
        if e[0] == 'C':
            if out and out[-1][0] == 'C':
                out[-1] = ('C', out[-1][1] + e[1])
            else:
                out.append(('C', e[1]))
        elif e[0] == 'S':
            out.append(('S', e[1], e[2]))
        elif e[0] == 'E':
            out.append(e)
    return out


def cdata_payloads(evs):
    """the character data of each CDATA section, in order (Expat marks the sections)"""
    out, cur = [], None
    for e in evs:
        if e[0] == 'CD':
            if e[1] == '[':
                cur = b''
            elif cur is not None:
                out.append(cur); cur = None
        elif e[0] == 'C' and cur is not None:
            cur += e[1]
    return out


def transcode(x, enc):
    """re-encode an UTF-8 XML document; returns None when it cannot be done faithfully"""
    try:
        t = x.decode('utf-8')
    except UnicodeDecodeError:
        return None
    if re.search(r'<\?xml[^>]*encoding=', t):
        t2 = re.sub(r'(<\?xml[^>]*encoding=)["\'][^"\']*["\']', r'\1"%s"' % enc, t, count=1)
    elif t.startswith('<?xml'):
        t2 = re.sub(r'<\?xml([^>]*)\?>', r'<?xml\1 encoding="%s"?>' % enc, t, count=1)
    else:
        t2 = '<?xml version="1.0" encoding="%s"?>' % enc + t
    try:
        return t2.encode('utf-16') if enc == 'UTF-16' else t2.encode('latin-1')
    except UnicodeEncodeError:
        return None


def run(res, args):
    rng = random.Random(res.seed)
    quick = res.tier == 'quick'
    b = common.Build('asan')
    with common.lean_lock():
        d, changed = common.regenerate(b)
    mods = [m for m in ['Wbxml.Props.C07'] if os.path.exists(os.path.join(common.LEAN, *m.split('.')) + '.lean')]
    ok, failing = common.proof_step(res, mods, 'Wbxml.Props.C07', extra_targets=['driver'])
    known = [k for k in common.load_known()['findings'] if k['property'] in ('C07', 'C03')]
    hx2w, hw2x, hp, hx, er = b.harness('x2w.c'), b.harness('w2x.c'), b.harness('parse.c'), b.harness('encx.c'), b.harness('expat_rec.c')
    drv = corr.driver_exe()
    env = b.env()
    langs = {l['id']: l for l in d['langs']}
    viol, seen_known = [], set()

    def report(what, detail, exc=()):
        tags = sorted(exc) + [what]
        k = next((k for k in known for t in tags if k['match'].get('contains') and k['match']['contains'] in t), None)
        if k:
            seen_known.add((k['property'], k['id'], k['what']))
        else:
            viol.append((what, detail))

    # ---------- (a) encoder options
    docs = [x for _, x in xmlgen.corpus_xml()]
    g = xmlgen.XmlTableGen(d, rng)
    xs0 = rng.sample(docs, 60 if quick else len(docs)) + [g.doc() for _ in range(120 if quick else 4000)] + [xmlgen.syncml_xml(rng) for _ in range(40 if quick else 1500)]
    tuples = list(itertools.product([0, 1, 2, 3], [0, 1], [0, 1], [0, 1]))      # version keepws strtbl anonymous
    stats = {'sources': 0, 'encodings_decoded': 0, 'option_pairs_compared': 0, 'anonymous_headers_checked': 0}
    corr_diff, all_lines, all_inc, nsl = [], [], [], [0]

    def embedded_only(norm, a, b):
        """do the two event lists differ only in the character data of SyncML <Data> elements?"""
        if not norm.syncml or len(a) != len(b):
            return False
        st = []
        for x, y in zip(a, b):
            if x[0] == 'S':
                st.append(docmp.local(x[1]))
            if x != y and not (x[0] == 'C' and y[0] == 'C' and st and st[-1] == b'Data'):
                return False
            if x[0] == 'E' and st:
                st.pop()
        return True

    def same_xml(lid, w1, w2):
        """the library's canonical XML (white space kept) of two WBXML documents is byte-identical"""
        r1, _, _ = corr.isolate(hw2x, f'W2X {lid} 0 2 0 1 {w1.hex()}', env=env)
        r2, _, _ = corr.isolate(hw2x, f'W2X {lid} 0 2 0 1 {w2.hex()}', env=env)
        return r1 is not None and r1.startswith('R 0 ;') and r1 == r2

    def enc_opts(xs, full):
        lines, owner = [], []
        for j, x in enumerate(xs):
            for t in (tuples if full else rng.sample(tuples, 12)):
                lines.append(f'X2W {t[0]} {t[1]} {t[2]} {t[3]} {x.hex()}'); owner.append((j, t))
        impl, inc = corr.run_lines(hx2w, lines, env=env)
        # model correspondence on a slice (the whole cross product is covered by C02/C06)
        sl = rng.sample(range(len(lines)), min(len(lines), 600 if quick else 20000))
        all_lines.extend(lines); all_inc.extend((lines[idx], rc, err) for idx, rc, err in inc if idx < len(lines))
        msl = xcorr.model_with_expat(drv, er, env, lambda k: ' '.join(lines[sl[k]].split(' ')[:5]), [xs[owner[i][0]] for i in sl])
        cd = [sl[k] for k in range(len(sl)) if corr.canon_err(impl[sl[k]]) != corr.canon_err(msl[k])]
        corr_diff.extend(lines[i][:400] for i in cd)
        nsl[0] += len(sl)
        xt, _ = corr.run_lines(hx, [f'X2T {x.hex()}' for x in xs], env=env)
        lang_of = {}
        for j, t in enumerate(xt):
            try:
                lang_of[j] = int(t[6:].split(':')[0])
            except Exception:
                pass
        src_runs = xcorr.expat_runs(er, env, xs)
        plines, pown = [], []
        for i, (j, t) in enumerate(owner):
            w = hexout(impl[i])
            if w is not None and j in lang_of:
                plines.append(f'PARSE {lang_of[j]} 0 {w.hex()}'); pown.append((i, j, t, w))
        pev, _ = corr.run_lines(hp, plines, env=env)
        by_doc = {}
        for (i, j, t, w), p in zip(pown, pev):
            by_doc.setdefault(j, []).append((t, w, p))
        stats['sources'] += len(xs); stats['encodings_decoded'] += len(plines)
        for j, items in by_doc.items():
            lang = langs.get(lang_of[j])
            if lang is None:
                continue
            norm = docmp.Norm(d, lang)
            exc_sc = docmp.excuses_scoped(norm, docmp.doc_of_expat(src_runs[j])[2])
            exc = set(exc_sc)
            # acceptance may legitimately depend on the string-table option (literal names need the table)
            # and on white-space preservation (typed content); it must not depend on version / anonymity
            for (kw, st) in itertools.product([0, 1], [0, 1]):
                sts = {hexout(impl[i]) is not None for i, (jj, t) in enumerate(owner) if jj == j and t[1] == kw and t[2] == st}
                if len(sts) > 1:
                    report('the document is accepted under some version/anonymity settings and refused under others', xs[j][:300], exc)
            # ... and a refusal that only the disabled string table causes needs a reason in the document: a name
            # that is in no table of the language (only a literal can carry it, and a literal needs the table)
            for kw in (0, 1):
                acc = {st: any(hexout(impl[i]) is not None for i, (jj, t) in enumerate(owner) if jj == j and t[1] == kw and t[2] == st) for st in (0, 1)}
                ran = {st: any(True for i, (jj, t) in enumerate(owner) if jj == j and t[1] == kw and t[2] == st) for st in (0, 1)}
                if ran[0] and ran[1] and acc[1] and not acc[0]:
                    stats['strtbl_only_refusals'] = stats.get('strtbl_only_refusals', 0) + 1
                    T = d['tables']
                    tagn = {bytes.fromhex(r[0]) for r in T[str(lang['tags'])]['rows']} if lang['tags'] is not None else set()
                    attn = None
                    if lang['attrs'] is not None:
                        attn = {}
                        for r in T[str(lang['attrs'])]['rows']:
                            attn.setdefault(bytes.fromhex(r[0]), []).append(bytes.fromhex(r[1]) if r[1] else b'')
                    need = False
                    for e in docmp.doc_of_expat(src_runs[j])[2]:
                        if e[0] == 'S':
                            if docmp.local(e[1]) not in tagn:
                                need = True
                            # (an attribute needs a literal name too when every row of its name carries a start
                            # value and none of them begins the value)
                            if attn is not None and any(not a.startswith(b'xmlns') and not any(v.startswith(sv) for sv in attn.get(docmp.local(a), []))
                                                        for a, v in e[2]):
                                need = True
                    if not need:
                        report('the document is refused only when the string table is disabled although every name is in the tables of its language', xs[j][:400], exc)
            for keep in (0, 1):
                grp = [(t, w, p) for t, w, p in items if t[1] == keep]
                if not grp:
                    continue
                ref = None
                for t, w, p in grp:
                    res.add_eval(w.hex()[:2000])
                    if not p or not p.startswith('R 0 ;'):
                        report(f'the WBXML produced under options {t} is refused by the parser: {(p or "")[:20]}', (xs[j][:300], w.hex()[:200]), exc)
                        continue
                    ev = merged_events(p)
                    if t[3] == 1:
                        stats['anonymous_headers_checked'] += 1
                        xmlid = bytes.fromhex(lang['pub']['xml']) if lang['pub']['xml'] else None
                        if w[1] != 1 or (xmlid and xmlid in w and xmlid not in re.sub(rb'<!DOCTYPE[^>]*>', b'', xmlgen.as_utf8(xs[j]))):
                            report(f'anonymous document (options {t}) carries a public identifier', w.hex()[:120], exc)
                    if ref is None:
                        ref = (t, ev, w)
                    else:
                        stats['option_pairs_compared'] += 1
                        if ev != ref[1] and embedded_only(norm, ref[1], ev) and same_xml(lang_of[j], ref[2], w):
                            # interpretation note 2: embedded documents are compared as documents (their own
                            # header follows the version / anonymity options)
                            stats['embedded_compared_as_documents'] = stats.get('embedded_compared_as_documents', 0) + 1
                        elif ev != ref[1]:
                            k = next((q for q in range(min(len(ev), len(ref[1]))) if ev[q] != ref[1][q]), min(len(ev), len(ref[1])))
                            st = []
                            for e in ref[1][:k]:
                                if e[0] == 'S':
                                    st.append(docmp.local(e[1]))
                                elif e[0] == 'E' and st:
                                    st.pop()
                            if k < len(ref[1]) and ref[1][k][0] == 'S':
                                st.append(docmp.local(ref[1][k][1]))
                            # an excuse counts only in the element the difference lies in
                            report(f'options {ref[0]} and {t} decode to different documents at item {k}: {ref[1][k:k+1]} vs {ev[k:k+1]}', xs[j][:400],
                                   docmp.applicable(exc_sc, st[-1] if st else None))
        return [owner[i][0] for i in cd]

    ddocs = enc_opts(xs0, not quick)
    if quick:
        # documents with embedded sub-documents always run under all 32 tuples (their nested encoders
        # inherit options of their own)
        enc_opts([x for x in docs if b'<DevInf' in x or b'<MgmtTree' in x], True)
    if corr_diff and not viol and quick:
        # search (DESIGN 6.1): the conversion no longer behaves like the model but no sampled document showed
        # an option dependence: the whole corpus and the differing documents under all 32 tuples
        res.coverage['search'] = 'correspondence differed without oracle failure: whole corpus x 32 tuples'
        enc_opts([xs0[j] for j in sorted(set(ddocs))] + docs, True)
    xs = xs0
    # ---------- (b) decoder options
    wdocs = [w for _, w in wbgen.corpus_wbxml()]
    wsel = rng.sample(wdocs, 50 if quick else len(wdocs))
    # SyncML documents with vObject / embedded payloads, several content items, elements beside the payload
    inner = [x for n, x in wbgen.corpus_wbxml() if 'devinf' in n or 'ddf' in n] or wdocs[:1]
    wsel += [wbgen.syncml_doc(d, rng, inner) for _ in range(40 if quick else 1500)]
    widths = [0, 1, 2, 3, 7, 255] if quick else list(range(0, 256, 5)) + [255]
    modes = [(0, 0), (2, 0)] + [(1, wd) for wd in widths]
    l2, own2 = [], []
    for j, w in enumerate(wsel):
        for keep in (0, 1):
            for gen, ind in modes:
                l2.append(f'W2X 0 0 {gen} {ind} {keep} {w.hex()}'); own2.append((j, keep, gen, ind))
    i2, inc2 = corr.run_lines(hw2x, l2, env=env, timeout=900)
    m2, _ = corr.run_lines(drv, l2, timeout=900)
    corr_diff += [('W2X', i) for i in range(len(l2)) if corr.canon_err(i2[i]) != corr.canon_err(m2[i])]
    okx = [i for i in range(len(l2)) if hexout(i2[i]) is not None]
    ex, _ = corr.run_lines(er, [f'EXPATN {hexout(i2[i]).hex()}' for i in okx], env=env)
    groups = {}
    for i, e in zip(okx, ex):
        j, keep, gen, ind = own2[i]
        okp, _, evs = xmlcmp.expat_events(e)
        groups.setdefault((j, keep), {})[(gen, ind)] = (okp, evs, i)
    stats['xml_generation_groups'] = len(groups)
    for (j, keep), g2 in groups.items():
        if (0, 0) not in g2 or not g2[(0, 0)][0]:
            continue
        compact = xmlcmp.norm_stream(g2[(0, 0)][1], False, False, False)
        cd0 = cdata_payloads(g2[(0, 0)][1])
        for (gen, ind), (okp, evs, i) in g2.items():
            res.add_eval(l2[i][:2000])
            if not okp:
                continue    # well-formedness is C05's business
            # what stands inside a CDATA section is data in every generation mode: never indentation
            if cdata_payloads(evs) != cd0:
                report(f'the CDATA sections of the output differ between compact generation and mode {gen} (indent {ind})', l2[i][:300])
                continue
            if gen == 2:
                # canonical: exactly the same tree (CR is &#13; in both; LF/TAB in attribute values are
                # normalised by the reader in compact output only)
                a = xmlcmp.norm_stream(evs, False, False, True)
                c = xmlcmp.norm_stream(g2[(0, 0)][1], False, False, True)
                if keep == 0:
                    a = xmlcmp.norm_stream(evs, True, False, True); c = xmlcmp.norm_stream(g2[(0, 0)][1], True, False, True)
                if a != c:
                    report('canonical and compact XML denote different trees', l2[i][:200])
            elif gen == 1:
                a = xmlcmp.norm_stream(evs, True, False, False)
                c = xmlcmp.norm_stream(g2[(0, 0)][1], True, False, False)
                if a != c:
                    report(f'indented XML (width {ind}) and compact XML denote different trees', l2[i][:200])
    # ---------- (c) source encodings
    tr, town = [], []
    for j, x in enumerate(xs):
        if b'DevInf' in x or b'MgmtTree' in x:
            continue
        for enc in ('UTF-16', 'ISO-8859-1'):
            y = transcode(x, enc)
            if y is not None:
                tr.append(f'X2W 3 0 1 0 {y.hex()}'); town.append((j, enc))
    base, _ = corr.run_lines(hx2w, [f'X2W 3 0 1 0 {x.hex()}' for x in xs], env=env)
    ti, _ = corr.run_lines(hx2w, tr, env=env)
    stats['transcoded_sources'] = len(tr)
    for (j, enc), r in zip(town, ti):
        if hexout(base[j]) is not None and r != base[j]:
            report(f'the {enc} transcoding of the source yields different WBXML', (xs[j][:200], (r or '')[:120], base[j][:120]))
    for prop, kid, what in sorted(seen_known):
        if prop == 'C07':
            res.known.append(f'{kid}: {what}')
    res.coverage.update(stats)
    res.coverage['traces_validated_against_impl'] = nsl[0] + len(l2) - len(corr_diff)
    res.coverage['rule'] = ('sources: corpus + table-synthesised XML x all 32 (quick: 12) encoder tuples, decoded with the language forced and compared pairwise within each keep-ws class; '
                            'corpus WBXML x {compact, canonical, indent widths} x keep-ws read back by Expat; UTF-16 / ISO-8859-1 transcodings of every source')
    res.samples = [l2[i][:120] for i in rng.sample(range(len(l2)), 3)]
    for n, (ln, rc, err) in enumerate(all_inc[:20]):
        r, rc1, err1 = corr.isolate(hx2w, ln, env=env)
        if rc1 != 0 or r is None:
            res.violation({'kind': 'sanitizer-or-crash', 'request': ln[:4000], 'rc': rc1, 'stderr': err1[-2000:]}, f'crash-{n}')
    for n, (what, detail) in enumerate(viol[:4]):
        res.violation({'kind': 'option-dependence', 'what': what, 'detail': str(detail)[:3000]}, f'options-{n}')
    if corr_diff and not res.violations:
        res.violation({'kind': 'correspondence', 'differences': len(corr_diff), 'first': str(corr_diff[0])}, 'options-correspondence', no_input=True)
    if failing and not res.violations:
        res.violation({'kind': 'proof', 'theorems': failing}, 'proof', no_input=True)
    return res.finish('proof', checker_cmd='lake build Wbxml.Props.C07 && #audit Wbxml.Props.C07')
