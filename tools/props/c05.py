"""C05 — generated XML is well-formed and denotes exactly the parsed document.
Proof: Props/C05.lean (escaping laws of the printer model; growing). Tie: W2X correspondence
(byte-exact XML) + implementation-side oracle: an independent XML parser (Expat, plain
non-namespace mode) must accept the output, find the language's DOCTYPE, and read back exactly the
elements, attributes and character data the event parser delivered for the same bytes (exactly in
canonical generation; modulo XML's own line-end / attribute normalisation and white space between
markup otherwise).
Specification tie: every output sent to Expat is also read by the Lean specification of well-formed
XML (`Spec.Xml.read`, driver verb SPECX, the reader `Props.C05.output_*` are stated with): same
accept/reject verdict and, when both accept, the same DOCTYPE identifiers and the same elements,
attributes and character data; plus a malformed stream (mutations of the outputs) on which both readers
must give the same verdict (c05_util.py)."""
import os, random
import common, corr, wbgen, specgen, xmlcmp
from props import c05_util

SPECIAL = {2001, 2101, 2201, 2401, 2402}    # SyncML (embedded documents, MIME rewriting, CDATA), ActiveSync (binary elements)


def run(res, args):
    rng = random.Random(res.seed)
    quick = res.tier == 'quick'
    b = common.Build('asan')
    with common.lean_lock():
        d, changed = common.regenerate(b)
    ok, failing = common.proof_step(res, ['Wbxml.Props.C05'], 'Wbxml.Props.C05', extra_targets=['driver'])
    hp, hw, he = b.harness('parse.c'), b.harness('w2x.c'), b.harness('expat_rec.c')
    drv = corr.driver_exe()
    langs = {l['id']: l for l in d['langs']}

    sg = specgen.SpecGen(d, rng)
    docs = []
    for lang in d['langs']:
        for _ in range(10 if quick else 300):
            force, meta, doc, ev = sg.doc(lang, max_depth=rng.choice([2, 3, 5]))
            docs.append((force, meta, doc))
    inner = [x for n, x in wbgen.corpus_wbxml() if 'devinf' in n or 'ddf' in n] or [wbgen.corpus_wbxml()[0][1]]
    # (one small document per language family that names its language in its header: the embedded parse is not forced)
    fam = {}
    for n, x in wbgen.corpus_wbxml():
        if len(x) < 600 and len(x) > 4 and x[1] != 1:
            fam.setdefault(n.split('-')[0], x)
    inner = inner + list(fam.values())
    for name, doc in wbgen.corpus_wbxml():
        docs.append((0, 0, doc))
    for _ in range(150 if quick else 5000):
        docs.append((0, 0, wbgen.syncml_doc(d, rng, inner)))
    for _ in range(80 if quick else 3000):
        docs.append((0, 0, wbgen.literal_syncml_shape(d, rng)[1]))
    pev_raw, _ = corr.run_lines(hp, [f'PARSE {f} {m} {doc.hex()}' for f, m, doc in docs], env=b.env())
    tuples = [(2, 0, 1), (2, 0, 0), (0, 0, 1), (0, 0, 0), (1, 0, 0), (1, 2, 1), (1, 4, 0), (1, 255, 0)]
    lines, meta = [], []
    for (f, m, doc), pr in zip(docs, pev_raw):
        if not pr or not pr.startswith('R 0 ;'):
            continue
        for t in (rng.sample(tuples, 3) if quick else tuples):
            lines.append(f'W2X {f} {m} {t[0]} {t[1]} {t[2]} {doc.hex()}'); meta.append((pr, t))
    impl, inc_i = corr.run_lines(hw, lines, env=b.env())
    model, _ = corr.run_lines(drv, lines)
    xmls = [(i, bytes.fromhex(impl[i][6:].split()[0])) for i in range(len(lines)) if impl[i] and impl[i].startswith('R 0 ; ') and len(impl[i]) > 6]
    ex, _ = corr.run_lines(he, [f'EXPATN {x.hex()}' for _, x in xmls], env=b.env())

    # the Lean specification of well-formed XML as a second reader of the same outputs, and of a malformed stream
    sx, _ = corr.run_lines(drv, [f'SPECX {x.hex()}' for _, x in xmls])
    spec_stats = {'outputs_compared': 0, 'outputs_both_accept': 0, 'outputs_both_reject': 0, 'outputs_outside_subset': 0,
                  'mutants_compared': 0, 'mutants_both_accept': 0, 'mutants_both_reject': 0, 'mutants_outside_subset': 0}
    spec_diff = []
    for (i, xml), er, sr in zip(xmls, ex, sx):
        if er is None or sr is None:
            if sr is None:
                spec_diff.append(('output', xml, er, sr, lines[i]))
            continue
        ve, vs = c05_util.view(er), c05_util.view(sr)
        if ve != vs and c05_util.outside_subset(xml):
            # (only names with characters outside ASCII occur here: a literal tag whose name the Fifth Edition admits and the Fourth does not)
            spec_stats['outputs_outside_subset'] += 1; continue
        spec_stats['outputs_compared'] += 1
        spec_stats['outputs_both_accept' if ve[0] and vs[0] else 'outputs_both_reject'] += (ve[0] == vs[0])
        if ve != vs:
            spec_diff.append(('output', xml, er, sr, lines[i]))
    pool = sorted({x for (_, x), er in zip(xmls, ex) if er and er.startswith('X 1') and len(x) < 4000})
    muts, kinds = [], {}
    for _ in range(6000 if quick else 150000):
        if not pool:
            break
        m, k = c05_util.mutate(rng, rng.choice(pool))
        if rng.random() < 0.2:
            m, k2 = c05_util.mutate(rng, m); k = k + '+' + k2
        muts.append((m, k))
    mex, _ = corr.run_lines(he, [f'EXPATN {m.hex() or "-"}' for m, _ in muts], env=b.env())
    msx, _ = corr.run_lines(drv, [f'SPECX {m.hex() or "-"}' for m, _ in muts])
    for (m, k), er, sr in zip(muts, mex, msx):
        if er is None or sr is None:
            if sr is None:
                spec_diff.append(('mutant ' + k, m, er, sr, None))
            continue
        why = c05_util.outside_subset(m)
        if why:
            spec_stats['mutants_outside_subset'] += 1; kinds['outside: ' + why.split(' (')[0]] = kinds.get('outside: ' + why.split(' (')[0], 0) + 1; continue
        ve, vs = c05_util.view(er), c05_util.view(sr)
        spec_stats['mutants_compared'] += 1
        kinds[k.split('+')[0]] = kinds.get(k.split('+')[0], 0) + 1
        spec_stats['mutants_both_accept' if ve[0] and vs[0] else 'mutants_both_reject'] += (ve[0] == vs[0])
        # (Expat normalises white space in the public identifier, the specification reports the literal: compared on outputs only)
        if ve[0] != vs[0] or (ve[0] and (ve[2] != vs[2] or ve[1][0] != vs[1][0])):
            spec_diff.append(('mutant ' + k, m, er, sr, None))
    # the statement of Props.C05.output_denotes_tree_partial, evaluated: where the model's tree is `xmlRepresentable`
    # the document the theorem predicts (exactly in compact / canonical generation, up to blanks in character
    # data in indented generation) must be what the specification reader gets from the IMPLEMENTATION's output
    pos = {i: k for k, (i, _) in enumerate(xmls)}
    vidx = [i for i in range(len(lines)) if i in pos]
    xv, _ = corr.run_lines(drv, ['XVIEW' + lines[i][3:] for i in vidx])
    gap = []
    view_stats = {'representable': 0, 'not_representable': 0, 'theorem_instances_confirmed': 0}
    for i, vr in zip(vidx, xv):
        if vr is None or not vr.startswith('V 1'):
            view_stats['not_representable'] += 1
            if sx[pos[i]] and sx[pos[i]].startswith('X 1'):
                # (well-formed all the same: an embedded document, or a text node that is dropped or changed before it is written)
                view_stats['not_representable_but_well_formed'] = view_stats.get('not_representable_but_well_formed', 0) + 1
                gap.append(lines[i])
            continue
        view_stats['representable'] += 1
        sr = sx[pos[i]]
        if meta[i][1][0] == 1:
            # indented generation: equal after deleting the blanks (space, line feed) from character data
            same = sr is not None and sr.startswith('X 1') and c05_util.squash(sr[4:]) == c05_util.squash(vr[4:])
            view_stats['indented_instances_confirmed'] = view_stats.get('indented_instances_confirmed', 0) + same
        else:
            same = sr is not None and sr.startswith('X 1') and sr[4:] == vr[4:]
        if same:
            view_stats['theorem_instances_confirmed'] += 1
        else:
            spec_diff.append(('theorem-instance', xmls[pos[i]][1], 'predicted: ' + vr[:500], sr, lines[i]))
    res.coverage['xml_theorem_instances'] = view_stats
    if os.environ.get('C05_GAP'):
        open(os.environ['C05_GAP'], 'w').write('\n'.join(gap))
    res.coverage['xml_specification_vs_expat'] = spec_stats
    res.coverage['xml_specification_mutations'] = dict(sorted(kinds.items()))

    # namespace-aware second reading of the outputs of languages that have namespaces
    ns_idx = [k for k, (i, _) in enumerate(xmls) if langs.get(int(meta[i][0].split(' ; ')[1].split(' / ')[0].split()[2]), {}).get('ns') is not None]
    exn, _ = corr.run_lines(he, [f'EXPAT {xmls[k][1].hex()}' for k in ns_idx], env=b.env())
    ns_read = {xmls[k][0]: r for k, r in zip(ns_idx, exn)}
    corr_diff = [i for i in range(len(lines)) if corr.canon_err(impl[i]) != corr.canon_err(model[i])]
    viol, stats = [], {'well_formed_checked': 0, 'structure_compared': 0, 'exact_compared': 0, 'precondition_excluded': 0, 'ns_checked': 0}
    for (i, xml), er in zip(xmls, ex):
        pr, (gen, ind, keep) = meta[i]
        pev = xmlcmp.parse_events(pr)
        lid = int(pr.split(' ; ')[1].split(' / ')[0].split()[2])
        lang = langs[lid]
        has_attr = lang['attrs'] is not None
        res.add_eval(lines[i])
        if not xmlcmp.preconditions(pev, has_attr):
            stats['precondition_excluded'] += 1
            continue
        if er is None:
            continue
        okx, doctype, xev = xmlcmp.expat_events(er)
        stats['well_formed_checked'] += 1
        if not okx:
            viol.append((i, 'not-well-formed', xml)); continue
        pub = lang['pub']
        exp_dt = (bytes.fromhex(pub['dtd']) if pub['dtd'] is not None else None, bytes.fromhex(pub['xml']) if pub['xml'] else None)
        if doctype is None or doctype[0] != exp_dt[0] or (exp_dt[1] and doctype[1] != exp_dt[1]):
            viol.append((i, f'doctype {doctype} expected {exp_dt}', xml)); continue
        if xml.count(b'<![CDATA[') != xml.count(b']]>') and b']]>' not in b''.join(e[1] for e in pev if e[0] == 'C'):
            viol.append((i, 'unbalanced CDATA', xml)); continue
        if lang['ns'] is not None and ns_read.get(i):
            # namespace declarations match the elements' code pages: the namespace-aware reader must find
            # every token element in the namespace registered for its code page
            nsmap = {r[1]: bytes.fromhex(r[0]) for r in d['tables'][str(lang['ns'])]['rows']}
            okn, _, nev = xmlcmp.expat_events(ns_read[i])
            got = [e[1] for e in nev if e[0] == 'S']
            want = [(e[1], e[3]) for e in pev if e[0] == 'S']
            if okn and len(got) == len(want):      # (an expanded embedded document adds elements: compared by C03)
                stats['ns_checked'] += 1
                bad = next(((g, nm, pg) for g, (nm, pg) in zip(got, want) if pg is not None and pg in nsmap and g != nsmap[pg] + b'|' + nm), None)
                if bad:
                    viol.append((i, f'element {bad[1]} of code page {bad[2]} is read back as {bad[0]} (expected namespace {nsmap[bad[2]]})', xml)); continue
        if lid in SPECIAL:
            continue
        exp = [(e[0], e[1], e[2] if has_attr else []) if e[0] == 'S' else e for e in pev]
        exact = gen == 2
        if exact:
            a = xmlcmp.norm_stream(xev, False, False, False)
            e2 = xmlcmp.norm_stream(exp, False, False, False)
            stats['exact_compared'] += 1
        else:
            trim = (keep == 0) or gen == 1
            a = xmlcmp.norm_stream(xev, trim, False, False)
            e2 = xmlcmp.norm_stream(exp, trim, False, True)   # CR is always written as &#13; (kept exactly); LF/TAB in attribute values are normalised by the reader
        stats['structure_compared'] += 1
        if a != e2:
            k = next((j for j in range(min(len(a), len(e2))) if a[j] != e2[j]), min(len(a), len(e2)))
            viol.append((i, f'read-back differs at item {k}: xml={a[k:k+2]} parser={e2[k:k+2]}', xml))
    res.coverage.update(stats)
    res.coverage['traces_validated_against_impl'] = len(lines) - len(corr_diff)
    res.coverage['rule'] = ('specification-generated documents of every language, corpus documents and SyncML Data/Meta/Type documents x generation tuples '
                            '(canonical/compact/indent x indent 0,2,4,255 x keep-ws); oracle: Expat (non-namespace) accepts the output, DOCTYPE matches the language, '
                            'events read back equal the event parser\'s (exact in canonical mode); languages with namespaces: a namespace-aware second reading finds every token element in the namespace of its code page. SyncML/ActiveSync: well-formedness, DOCTYPE, CDATA balance and namespaces only. '
                            'Specification tie: Spec.Xml.read (SPECX) against Expat on every output (verdict, DOCTYPE identifiers, events) and on mutated outputs (verdict, events)')
    res.samples = [{'request': lines[i][:120], 'xml': xml[:200].decode('latin-1')} for i, xml in rng.sample(xmls, min(4, len(xmls)))]
    for idx, rc, err in inc_i:
        if idx < len(lines):
            r1, rc1, err1 = corr.isolate(hw, lines[idx], env=b.env())
            if rc1 != 0 or r1 is None:
                res.violation({'kind': 'sanitizer-or-crash', 'request': lines[idx], 'rc': rc1, 'stderr': err1[-2000:]}, f'crash-{idx}')
    for i, what, xml in viol[:3]:
        res.violation({'kind': 'xml-oracle', 'request': lines[i], 'what': what, 'xml': xml.decode('latin-1')[:3000], 'parser_events': meta[i][0][:3000]}, f'oracle-{i}')
    for k, (what, doc, er, sr, line) in enumerate(spec_diff[:3]):
        # (a disagreement on an output of the unchanged tree is a defect of Spec/Xml.lean or of the comparison,
        # not of the implementation: the theorems of Props/C05.lean are stated with that reader)
        res.violation({'kind': 'xml-specification-vs-expat', 'what': what, 'xml': doc.decode('latin-1')[:3000], 'xml_hex': doc.hex()[:6000], 'request': line,
                       'expat': (er or 'no answer')[:600], 'specification': (sr or 'no answer')[:600], 'disagreements': len(spec_diff)}, f'xmlspec-{what.split()[0]}-{k}')
    if corr_diff and not res.violations:
        i = corr_diff[0]
        res.violation({'kind': 'correspondence', 'stream': 'W2X', 'request': lines[i], 'impl': (impl[i] or '')[:600], 'model': (model[i] or '')[:600], 'differences': len(corr_diff)},
                      'w2x-correspondence', no_input=True)
    if failing and not res.violations:
        res.violation({'kind': 'proof', 'theorems': failing}, 'proof', no_input=True)
    return res.finish('proof', checker_cmd='lake build Wbxml.Props.C05 && #audit Wbxml.Props.C05')
