"""C16 — running out of memory yields a clean error, never a crash or a leak.

Proof: Props/C16.lean — for the container core and the hand-unwound functions the property names,
`single_failure_clean` for EVERY k (in fact for every schedule) in the ledger monad of Model/Alloc*.lean;
concrete (function, k) witnesses for the former code.
Tie:   harness/oom.c is linked against the library's objects WITHOUT wbxml_mem.o and supplies
       wbxml_malloc/realloc/strdup/free itself (failure schedule + live-block ledger, under
       ASan/UBSan/LSan).
       (1) unit level, verb OOM: op sequences on buffers / lists / tags / attributes / nodes,
           parse_element(), wbxml_strtbl_initialize(), wbxml_tree_to_wbxml() with the k-th request failing,
           through harness and ledger model, compared byte for byte.
       (2) conversion level (a TEST by enumeration, labelled so in the evidence; oracle = the property
           evaluated on the implementation): every corpus document x option set x every k.
"""
import collections, glob, json, os, random, re, subprocess, time
from concurrent.futures import ThreadPoolExecutor
import common
from common import log

GENERIC_FILES = {'wbxml_buffers.c', 'wbxml_lists.c', 'wbxml_elt.c', 'wbxml_base64.c', 'wbxml_charset.c',
                 'wbxml_mem.c', 'oom_alloc.c'}
ALLOC_RE = re.compile(r'\bwbxml_(malloc|realloc|strdup)\s*\(')
HARNESS_FRAMES = ('main', 'conv_main', 'one_run', 'do_conv', 'unit_main', 'do_U', 'do_P', 'do_S', 'do_T', 'do_B', 'do_D', 'do_X', 'do_F',
                  'decode_canon', 'equivalent_wbxml')
EXCLUDED_OBJS = ('wbxml_mem.c.o', 'wbxml_parser.c.o', 'wbxml_encoder.c.o')
N_OPTS = 6
W2X_OPTS = ['gen=indent', 'gen=compact', 'gen=canonical', 'gen=indent indent=2 keepws', 'gen=compact charset=utf-8 keepws',
            'gen=indent indent=4']
X2W_OPTS = ['v1.3', 'v1.3 nostrtbl', 'v1.1 keepws', 'v1.2 anonymous', 'v1.0 keepws nostrtbl', 'v1.3 keepws anonymous']


# ------------------------------------------------------------------------------ build

def build_harness(b):
    """Link harness/oom.c with every member of the scratch archive except wbxml_mem.o (replaced by
    oom_alloc.c) and wbxml_parser.o / wbxml_encoder.o (their sources are #included for the statics)."""
    objdir = os.path.join(b.dir, 'c16objs')
    os.makedirs(objdir, exist_ok=True)
    r = common.run(['ar', 'x', b.lib], cwd=objdir)
    if r.returncode != 0:
        raise common.BuildError('ar x failed: ' + r.stdout[-500:])
    members = sorted(os.listdir(objdir))
    if 'wbxml_mem.c.o' not in members:
        raise common.BuildError('archive has no wbxml_mem.c.o: the allocation choke point moved (members: %s)' % members)
    objs = [os.path.join(objdir, m) for m in members if m not in EXCLUDED_OBJS]
    exe = b.harness('oom.c', extra=['-no-pie'] + objs, link_lib=False)
    m = common.run([exe, 'marker'], env=b.env())
    if 'C16-ledger-allocator' not in m.stdout:
        raise common.BuildError('harness is not running on the ledger allocator: ' + m.stdout[-300:])
    return exe, members


def stray_allocator_calls():
    """Direct malloc/realloc/calloc/strdup/free calls outside wbxml_mem.c (they would bypass the ledger)."""
    hits = []
    pat = re.compile(r'(?<![A-Za-z0-9_])(malloc|realloc|calloc|strdup|free)\s*\(')
    for f in sorted(glob.glob(os.path.join(common.REPO, 'src', '*.c')) + glob.glob(os.path.join(common.REPO, 'tools', '*.c'))):
        if f.endswith('wbxml_mem.c'):
            continue
        try:
            src = open(f, errors='replace').read()
        except OSError:
            continue
        src = re.sub(r'/\*.*?\*/', lambda m: '\n' * m.group(0).count('\n'), src, flags=re.S)
        for ln, line in enumerate(src.split('\n'), 1):
            if pat.search(line):
                hits.append('%s:%d: %s' % (os.path.relpath(f, common.REPO), ln, line.strip()[:100]))
    return hits


# ------------------------------------------------------------------------------ sites

class Symbolizer:
    def __init__(self, exe):
        self.exe, self.cache, self.src = exe, {}, {}

    def resolve(self, pcs):
        need = sorted({p for p in pcs if p not in self.cache})
        if not need:
            return
        inp = '\n'.join('0x%x' % p for p in need) + '\n'
        r = subprocess.run(['llvm-symbolizer-14', '--obj=' + self.exe, '--output-style=JSON', '--inlines'],
                           input=inp, stdout=subprocess.PIPE, stderr=subprocess.DEVNULL, text=True)
        for line in r.stdout.split('\n'):
            if not line.strip():
                continue
            try:
                d = json.loads(line)
            except ValueError:
                continue
            a = int(d['Address'], 16)
            self.cache[a] = [(s.get('FunctionName') or '?', os.path.basename(s.get('FileName') or '?'), s.get('FileName') or '',
                              s.get('Line') or 0, s.get('StartLine') or 0) for s in d.get('Symbol', [])]
        for p in need:
            self.cache.setdefault(p, [])

    def frames(self, pcs):
        self.resolve(pcs)
        out = []
        for p in pcs:
            fr = self.cache.get(p, [])
            if not fr or fr[0][0] in ('?', ''):
                break
            out += fr
        return out

    def ordinal(self, path, start, line):
        """which allocation call (1-based) of its function the call at `line` is: stable under edits elsewhere"""
        if path not in self.src:
            try:
                self.src[path] = open(path, errors='replace').read().split('\n')
            except OSError:
                self.src[path] = []
        L, n = self.src[path], 0
        for i in range(max(start, 1), min(line, len(L)) + 1):
            if ALLOC_RE.search(L[i - 1]):
                n += 1
        return max(n, 1)

    def site(self, pcs, extra=1):
        """call chain of an allocation request, outermost first: the container/element layer frames, the
        first function of the logic layer above them and `extra` more callers; '#n' = n-th allocation call
        of the innermost function. No line numbers, so edits elsewhere do not rename a site."""
        fr = self.frames(pcs)
        if not fr:
            return '?'
        names, logic = [], 0
        for (fn, f, path, line, start) in fr:
            if fn in HARNESS_FRAMES:
                break
            names.append(fn)
            if f not in GENERIC_FILES:
                logic += 1
                if logic > extra:
                    break
        fn, f, path, line, start = fr[0]
        return '>'.join(reversed(names)) + '#%d' % self.ordinal(path, start, line)


def parse_pcs(s):
    return [] if s in ('-', '', None) else [int(x, 16) for x in s.split(',')]


def asan_summary(report_hex):
    try:
        txt = bytes.fromhex(report_hex).decode('latin1') if report_hex not in ('-', None) else ''
    except ValueError:
        txt = ''
    kind = 'crash'
    m = re.search(r'ERROR: (?:AddressSanitizer|LeakSanitizer): (\S+)', txt)
    if m:
        kind = m.group(1)
    else:
        m2 = re.search(r'runtime error: (.*)', txt)
        if m2:
            kind = 'ubsan: ' + m2.group(1)[:80]
    fr = re.findall(r'#\d+ 0x[0-9a-f]+ in (\S+) ([^\s:]+):(\d+)', txt)
    top = [f[0] for f in fr if not f[0].startswith('__') and 'oom_alloc' not in f[1] and not f[0].startswith('wbxml_free')][:3]
    return kind, top, txt


# ------------------------------------------------------------------------------ unit level

def unit_info(exe, env, lang=''):
    r = common.run([exe, 'unit'], input='OOM INFO%s\n' % (' ' + lang if lang else ''), env=env, stderr=subprocess.PIPE)
    m = re.match(r'INFO pubid=(\d+) tags=(\S*) attrs=(\S*) tagtokens=(\S*) xmlid=(\S*)', r.stdout.strip())
    if not m:
        raise common.BuildError('harness OOM INFO failed: ' + (r.stdout + (r.stderr or ''))[-400:])
    attrs = []
    for x in m.group(3).split(','):
        row, val = x.split('/')
        attrs.append((int(row), val))
    toks = dict((int(a), int(b)) for a, b in (x.split(':') for x in m.group(4).split(',')))
    return {'pubid': int(m.group(1)), 'tags': [int(x) for x in m.group(2).split(',')], 'attrs': attrs, 'tagtokens': toks,
            'xmlid': m.group(5)}


def hx(b):
    return b.hex() if b else '-'


WORDS = [b'alpha', b'beta', b'gamma', b'x', b'ab', b'hello world', b'foo bar baz', b'foo qux bar', b'  ', b'\t\n',
         b'the quick brown fox', b'quick brown', b'delta epsilon', b'abc', b'abcd', b'http://example.com/a', b'long-word-number-one']


def gen_U(rng, nops):
    """A random, mostly sensible program for the container/element op machine. Slot bookkeeping assumes no
    failure; under a failure later ops meet NULL slots, which both sides skip the same way."""
    ops = []
    st = {'b': [None] * 8, 'l': [False] * 4, 'm': [False] * 4, 't': [False] * 4, 'n': [False] * 4, 'a': [None] * 4, 'o': [False] * 2}

    def free(kind):
        xs = [i for i, v in enumerate(st[kind]) if not v]
        return rng.choice(xs) if xs else None

    def used(kind):
        xs = [i for i, v in enumerate(st[kind]) if v]
        return rng.choice(xs) if xs else None

    def data(maxlen=12):
        n = rng.choice([0, 1, 1, 2, 3, 5, 8, 13, 40]) if maxlen > 12 else rng.randint(0, maxlen)
        return bytes(rng.choice(b'abcdefgh \x00xyz') for _ in range(n))

    for _ in range(nops):
        c = rng.random()
        if c < 0.16:
            d = free('b')
            if d is not None:
                kind = rng.random()
                if kind < 0.1:
                    ops.append('bc.%d.N.%d' % (d, rng.choice([0, 1, 10])))
                    st['b'][d] = 'D'
                elif kind < 0.25:
                    ops.append('bs.%d.%s' % (d, hx(data())))
                    st['b'][d] = 'S'
                else:
                    ops.append('bc.%d.%s.%d' % (d, hx(data(40)), rng.choice([0, 0, 1, 3, 16, 100])))
                    st['b'][d] = 'D'
        elif c < 0.34:
            d = used('b')
            if d is not None:
                k = rng.random()
                if k < 0.45:
                    ops.append('bap.%d.%s' % (d, hx(data(40))))
                elif k < 0.6:
                    ops.append('bac.%d.%02x' % (d, rng.randrange(256)))
                elif k < 0.8:
                    s = used('b')
                    ops.append('bab.%d.%s' % (d, 'N' if rng.random() < 0.15 or s == d else s))
                else:
                    ops.append('bic.%d.%d.%s' % (d, rng.randint(0, 6), hx(bytes(x for x in data() if x))))
        elif c < 0.40:
            d, s = free('b'), used('b')
            if d is not None and s is not None:
                ops.append('bd.%d.%d' % (d, s))
                st['b'][d] = 'D'
        elif c < 0.46:
            d = used('b') if rng.random() < 0.9 else rng.randrange(8)
            if d is not None:
                ops.append('bx.%d' % d)
                st['b'][d] = None
        elif c < 0.58:
            k = rng.random()
            if k < 0.25:
                d = free('l')
                if d is not None:
                    ops.append('lc.%d' % d)
                    st['l'][d] = True
            elif k < 0.6:
                d = used('l')
                if d is not None:
                    ops.append('la.%d.%d' % (d, rng.randint(1, 99)))
            elif k < 0.8:
                d = used('l')
                if d is not None:
                    ops.append('li.%d.%d.%d' % (d, rng.randint(1, 99), rng.randint(0, 4)))
            elif k < 0.9:
                d = used('l')
                if d is not None:
                    ops.append('le.%d' % d)
            else:
                d = used('l')
                if d is not None:
                    ops.append('lx.%d' % d)
                    st['l'][d] = False
        elif c < 0.68:
            k = rng.random()
            if k < 0.3:
                d = free('m')
                if d is not None:
                    ops.append('mc.%d' % d)
                    st['m'][d] = True
            elif k < 0.7:
                d, bsl = used('m'), used('b')
                if d is not None and bsl is not None and st['b'][bsl] == 'D':
                    ops.append('ma.%d.%d' % (d, bsl))
                    st['b'][bsl] = None
            elif k < 0.85:
                d, bsl = used('m'), free('b')
                if d is not None and bsl is not None:
                    ops.append('me.%d.%d' % (d, bsl))
                    st['b'][bsl] = 'D'
            else:
                d = used('m')
                if d is not None:
                    ops.append('mx.%d' % d)
                    st['m'][d] = False
        elif c < 0.84:
            fam = rng.choice('tn')
            k = rng.random()
            if k < 0.3:
                d = free(fam)
                if d is not None:
                    ops.append('%sl.%d.%s' % (fam, d, 'N' if rng.random() < 0.1 else hx(bytes(x for x in data() if x))))
                    st[fam][d] = True
            elif k < 0.5:
                d = free(fam)
                if d is not None:
                    ops.append('%st.%d.%d' % (fam, d, rng.randint(0, 20)))
                    st[fam][d] = True
            elif k < 0.8:
                d, s = free(fam), used(fam)
                if d is not None and s is not None:
                    ops.append('%sd.%d.%d' % (fam, d, s))
                    st[fam][d] = True
            else:
                d = used(fam)
                if d is not None:
                    ops.append('%sx.%d' % (fam, d))
                    st[fam][d] = False
        else:
            k = rng.random()
            if k < 0.25:
                d = free('a')
                if d is not None:
                    ops.append('ac.%d' % d)
                    st['a'][d] = 'empty'
            elif k < 0.5:
                cand = [i for i, v in enumerate(st['a']) if v == 'empty']
                if cand:
                    d = rng.choice(cand)
                    nsl, bsl = used('n'), used('b')
                    if bsl is not None and st['b'][bsl] != 'D':
                        bsl = None
                    ops.append('as.%d.%s.%s' % (d, 'N' if nsl is None else nsl, 'N' if bsl is None else bsl))
                    if nsl is not None:
                        st['n'][nsl] = False
                    if bsl is not None:
                        st['b'][bsl] = None
                    st['a'][d] = 'set'
            elif k < 0.65:
                d, s = free('a'), used('a')
                if d is not None and s is not None:
                    ops.append('ad.%d.%d' % (d, s))
                    st['a'][d] = 'set'
            elif k < 0.72:
                d = used('a')
                if d is not None:
                    ops.append('ax.%d' % d)
                    st['a'][d] = None
            elif k < 0.8:
                d = free('o')
                if d is not None:
                    ops.append('oc.%d' % d)
                    st['o'][d] = True
            elif k < 0.95:
                d, s = used('o'), used('a')
                if d is not None and s is not None:
                    ops.append('oa.%d.%d' % (d, s))
            else:
                d = used('o')
                if d is not None:
                    ops.append('ox.%d' % d)
                    st['o'][d] = False
    return ops


def gen_P(rng, info):
    def name():
        return bytes(rng.choice(b'abcdxyz-:') for _ in range(rng.randint(0, 7)))
    c = rng.random()
    tag = 'T%d' % rng.choice(info['tags']) if c < 0.6 else ('U' if c < 0.8 else 'L' + hx(name()))
    attrs = []
    for _ in range(rng.choice([0, 1, 1, 2, 2, 3, 4, 6])):
        c = rng.random()
        if c < 0.55:
            row, val = rng.choice(info['attrs'])
            st = 'T%d/%s' % (row, val)
        elif c < 0.75:
            st = 'U'
        else:
            st = 'L' + hx(name())
        pieces = []
        for _ in range(rng.choice([0, 0, 1, 1, 2, 3, 5])):
            c = rng.random()
            if c < 0.55:
                pieces.append('S' + hx(bytes(rng.choice(b'abcdef 0123') for _ in range(rng.choice([0, 1, 3, 8, 30, 120])))))
            elif c < 0.93:
                pieces.append('D' + hx(bytes(rng.randrange(256) for _ in range(rng.choice([0, 1, 2, 9, 64])))))
            else:
                pieces.append('E61')
        attrs.append(st + (':' + ','.join(pieces) if pieces else ''))
    return tag, '|'.join(attrs) if attrs else '-'


def gen_S(rng):
    n = rng.choice([0, 1, 2, 3, 4, 6, 9])
    texts = []
    for _ in range(n):
        c = rng.random()
        if c < 0.6:
            texts.append(rng.choice(WORDS))
        elif c < 0.8:
            texts.append(b' '.join(rng.choice(WORDS) for _ in range(rng.randint(1, 3))))
        else:
            texts.append(bytes(rng.choice(b'ab \n') for _ in range(rng.randint(1, 9))))
    texts = [t for t in texts if t]
    return ','.join(hx(t) for t in texts) if texts else '-'


B_LITS = [b'Data', b'Add', b'Replace', b'Item', b'x', b'SyncBody']


def gen_B(rng, info):
    """Event sequence for the tree-building call-backs.  The letter of a characters event (C plain / V inside a
    CDATA section) is what wbxml_tree_node_get_syncml_data_type() will decide on the un-failed run: <Data> whose
    grandparent is <Add>/<Replace> is a vObject.  `current` is tracked here as the call-backs move it."""
    evs, stack, root, err = [], [], False, False       # stack of (kind, name): the open path, innermost last
    for _ in range(rng.choice([1, 2, 3, 5, 8, 12, 16])):
        c = rng.random()
        if c < 0.42:
            if rng.random() < 0.55:
                nm = rng.choice(B_LITS)
                spec = 'L' + hx(nm)
            else:
                nm = None
                spec = 'T%d' % rng.choice(info['tags'])
            attrs = []
            for _ in range(rng.choice([0, 0, 0, 1, 2, 3])):
                an = ('T%d' % rng.choice(info['attrs'])[0]) if rng.random() < 0.6 else 'L' + hx(rng.choice([b'id', b'a', b'class']))
                av = 'N' if rng.random() < 0.15 else hx(bytes(rng.choice(b'abc 12') for _ in range(rng.choice([0, 1, 3, 9, 40]))))
                attrs.append(an + '=' + av)
            evs.append('S' + spec + ('/' + ';'.join(attrs) if attrs else ''))
            if not err:
                if stack and stack[-1][0] == 'C':
                    stack.pop()
                if not stack and root:
                    err = True
                else:
                    root = True
                    stack.append(('E', nm))
        elif c < 0.66:
            evs.append('E')
            if not err:
                if not stack:
                    err = True
                elif len(stack) > 1:
                    if stack[-1][0] == 'C':
                        stack.pop()
                    stack.pop()
        else:
            text = bytes(rng.choice(b'ab \n<') for _ in range(rng.choice([0, 1, 2, 5, 17, 60])))
            letter = 'C'
            if not err:
                i = len(stack) - 1
                if i >= 0 and stack[i][0] == 'C':
                    i -= 1
                if i >= 2 and stack[i][1] == b'Data' and stack[i - 2][1] in (b'Add', b'Replace'):
                    letter = 'V'
                    if stack[-1][0] != 'C':
                        stack.append(('C', None))
                if not stack:
                    if root:
                        err = True
                    root = True
            evs.append(letter + hx(text))
    return ','.join(evs)


# Minimised OOM D replays of the mutation checks of DESIGN_NOTES/C16.md §10 (clean on the repaired tree), run first.
# (Kept here and not only in corpus/c16/unit_replays.txt: tools/seed_eval.py restores corpus/ from git after every seeded run.)
D_REPLAYS = [
    'OOM D 0 0 R 00 0 Z4974656d00786d6c3a6c616e6700696400616c70686100780041646400 K - B1L0.4974656d~L5.786d6c3a6c616e67|L14.6964:R17.616c706861,D9a3fb64c8f -',
    'OOM D 21 0 W 00 0 Z69640041646400696400636c61737300 K - B1T2~T80/N:S336666|U E',
    'OOM D 9 0 W 00 0 Z78 K - B1T5~- CCS6162;B0T7~T0/N:S76;CCXI0.78;E',
    'OOM D 22 0 W 00 0 Z78 K - B1T5~- CCS6162;B0T7~T0/N:S76;CCXT0.0.78;E',
    # textual public id that is in the table but unknown (SN: one static buffer, then WBXML_ERROR_UNKNOWN_PUBLIC_ID) next to an index
    # beyond the table (SE: no request) — a 200-byte unterminated table: gen_D once computed the SE index before padding the table
    'OOM D 0 0 W 00 0 Z6100%s SN64 - B1T25~L0.61 -' % ('70' * 198),
    'OOM D 8 0 W 00 0 Z6100%s SN64 - B1T25~L0.61 -' % ('70' * 198),
    'OOM D 0 0 W 00 0 Z6100%s SE300 - B1T25~L0.61 -' % ('70' * 198),
]

# Minimised OOM X / OOM F replays of the mutation checks of DESIGN_NOTES/C16.md §11 / §12 (clean on the repaired tree), run first:
# X: the copy of an attribute value must be destroyed when an entity cannot be appended (xml_encode_attr);
# F: the attribute under construction must be destroyed when its value buffer (k = 9: struct, k = 10: data) cannot be made
#    (wbxml_tree_node_add_xml_attr).
XF_REPLAYS = [
    'OOM X 9 0 0 2 0 W:100:776d6c:2d2f2f574150464f52554d2f2f44544420574d4c20312e332f2f454e:687474703a2f2f7777772e776170666f72756d2e6f72672f4454442f776d6c31332e647464 ET18/706f73746669656c64/-/00~L786d6c3a6c616e67=3c27270a27263c610a|L636c617373=-()',
    'OOM F 9 0 3c3f786d6c2076657273696f6e3d22312e30223f3e0a3c21444f435459504520776d6c205055424c494320222d2f2f574150464f52554d2f2f44544420574d4c20312e332f2f454e222022687474703a2f2f7777772e776170666f72756d2e6f72672f4454442f776d6c31332e647464223e0a3c776d6c207a7a3d2276222f3e0a 1 S1T/L7a7a=76,E0-',
    'OOM F 10 0 3c3f786d6c2076657273696f6e3d22312e30223f3e0a3c21444f435459504520776d6c205055424c494320222d2f2f574150464f52554d2f2f44544420574d4c20312e332f2f454e222022687474703a2f2f7777772e776170666f72756d2e6f72672f4454442f776d6c31332e647464223e0a3c776d6c207a7a3d2276222f3e0a 1 S1T/L7a7a=76,E0-',
]

D_LITS = [b'Data', b'Add', b'Replace', b'Item', b'x', b'SyncBody', b'a:b', b'long-literal-element-name']
D_KEYVALUE_ROW = 7          # <ds:KeyValue> in the DRMREL 1.0 tag table: its opaque content is base64-decoded


def utf8_6(code):
    """parse_entity's own UCS-4 -> UTF-8 (up to 6 bytes), NUL-terminated C string semantics"""
    if code < 0x80:
        return bytes([code]) if code else b''
    masks = [0xFC, 0xF8, 0xF0, 0xE0, 0xC0]
    ent, index = [0] * 7, 5
    while code >= (0x40 >> (5 - index)):
        ent[index] = 0x80 | (code & 0x3F)
        code >>= 6
        index -= 1
    ent[index] = masks[index] | code
    out = bytes(ent[index:6])
    return out.split(b'\0')[0]


def gen_D(rng, infos):
    """A whole WBXML document as shapes for `OOM D` (see harness/oom.c).  The generator lays out the string
    table, predicts — as gen_B does — which content items land in a CDATA section (<Data> under <Add>/<Replace>)
    and which opaque items are base64-decoded (DRMREL <ds:KeyValue> while it is the parser's current tag)."""
    import base64
    lang = 'R' if rng.random() < 0.2 else 'W'
    info = infos[lang]
    tbl = bytearray()
    use_tbl = rng.random() < 0.75

    def add(sv):
        i = bytes(tbl).find(sv + b'\0')
        if i >= 0 and rng.random() < 0.7:
            return i
        i = len(tbl)
        tbl.extend(sv + b'\0')
        return i

    def text(maxn=40):
        return bytes(rng.choice(b'abc de<&\n') for _ in range(rng.choice([0, 1, 2, 5, 17, maxn])))

    def attr():
        c = rng.random()
        if c < 0.55 or not use_tbl and c >= 0.75:
            row, val = rng.choice(info['attrs'])
            st = 'T%d/%s' % (row, val)
        elif c < 0.75:
            st = 'U'
        else:
            nm = rng.choice([b'id', b'a', b'class', b'xml:lang'])
            st = 'L%d.%s' % (add(nm), hx(nm))
        pieces = []
        for _ in range(rng.choice([0, 0, 1, 1, 2, 3])):
            c = rng.random()
            if c < 0.45:
                pieces.append('S' + hx(bytes(rng.choice(b'abcdef 0123') for _ in range(rng.choice([0, 1, 3, 8, 30, 120])))))
            elif c < 0.6 and use_tbl:
                w = rng.choice(WORDS)
                pieces.append('R%d.%s' % (add(w), hx(w)))
            elif c < 0.985:
                pieces.append('D' + hx(bytes(rng.randrange(256) for _ in range(rng.choice([0, 1, 2, 9, 64])))))
            else:
                pieces.append('E61')
        return st + (':' + ','.join(pieces) if pieces else '')

    def attrs():
        n = rng.choice([0, 0, 0, 1, 1, 2, 3])
        return '|'.join(attr() for _ in range(n)) if n else '-'

    stack, cur = [], [None]            # open path (kind, name), innermost last; parser->current_tag (row)

    def start(hc):
        c = rng.random()
        if c < 0.5 or not use_tbl and c >= 0.65:
            row = D_KEYVALUE_ROW if lang == 'R' and rng.random() < 0.35 else rng.choice(info['tags'])
            tag, nm = 'T%d' % row, None
            cur[0] = row
        elif c < 0.65:
            tag, nm = 'U', b'unknown'
        else:
            nm = rng.choice(D_LITS)
            tag = 'L%d.%s' % (add(nm), hx(nm))
        spec = 'B%d%s~%s' % (1 if hc else 0, tag, attrs())
        if stack and stack[-1][0] == 'C':
            stack.pop()
        stack.append(('E', nm))
        return spec

    def end():
        if len(stack) > 1:
            if stack[-1][0] == 'C':
                stack.pop()
            stack.pop()
        cur[0] = None

    def chars(nonempty):
        """the letter for a content item that delivers `characters`"""
        if not nonempty:
            return 'C'
        i = len(stack) - 1
        if i >= 0 and stack[i][0] == 'C':
            i -= 1
        if i >= 2 and stack[i][1] == b'Data' and stack[i - 2][1] in (b'Add', b'Replace'):
            if stack[-1][0] != 'C':
                stack.append(('C', None))
            return 'V'
        return 'C'

    def content():
        c = rng.random()
        if lang == 'R' and cur[0] == D_KEYVALUE_ROW and rng.random() < 0.6:
            c = 0.5
        if c < 0.3:
            t = text()
            return 'C%sS%s' % (chars(len(t) > 0), hx(t))
        if c < 0.42 and use_tbl:
            w = rng.choice(WORDS + [b''])
            return 'C%sR%d.%s' % (chars(len(w) > 0), add(w), hx(w))
        if c < 0.62:
            d = bytes(rng.randrange(256) for _ in range(rng.choice([0, 1, 2, 3, 9, 64, 300])))
            if lang == 'R' and cur[0] == D_KEYVALUE_ROW:
                if not d:
                    return 'CCB-.-'       # wbxml_base64_encode refuses an empty input: WBXML_ERROR_B64_ENC
                e = base64.b64encode(d)
                return 'C%sB%s.%s' % (chars(True), hx(d), hx(e))
            return 'C%sD%s' % (chars(len(d) > 0), hx(d))
        if c < 0.74:
            code = rng.choice([0, 0x41, 0x7f, 0x80, 0xe9, 0x7ff, 0x800, 0x20ac, 0xffff, 0x10000, 0x1f600, 0x1fffff, 0x200000, 0x3ffffff, 0x4000000, 0x7fffffff])
            u = utf8_6(code)
            return 'C%sN%d.%s' % (chars(len(u) > 0), code, hx(u))
        if c < 0.9 and lang == 'W':
            k = rng.randrange(3)
            v = bytes(rng.choice(b'abcXYZ_') for _ in range(rng.choice([0, 1, 4, 12])))
            if use_tbl and rng.random() < 0.4:
                return 'C%sXT%d.%d.%s' % (chars(True), k, add(v), hx(v))
            return 'C%sXI%d.%s' % (chars(True), k, hx(v))
        if lang == 'W' and c < 0.95:
            return 'X%d' % rng.randrange(3)
        return 'W'

    budget = [rng.choice([1, 2, 4, 7, 12, 20, 30])]
    items = []

    def fill(depth):
        """content of the element just started (it has content), up to and including its END"""
        while budget[0] > 0 and rng.random() < 0.8:
            budget[0] -= 1
            c = rng.random()
            if c < 0.38 and depth < 6:
                hc = rng.random() < 0.7
                items.append(start(hc))
                if hc:
                    fill(depth + 1)
                else:
                    end()
            elif c < 0.45:
                items.append('P' + attr())
            else:
                items.append(content())
        items.append('E')
        end()

    pre = [attr() for _ in range(rng.choice([0, 0, 0, 0, 1, 2]))]
    root_hc = rng.random() < 0.9
    root = start(root_hc)
    if root_hc:
        fill(0)
    else:
        end()
    for _ in range(rng.choice([0, 0, 0, 1, 2])):
        items.append('P' + attr())
    if rng.random() < 0.1:
        items.append(rng.choice(['E', 'CCS61', 'W']))          # whatever follows the last PI is not looked at
    # malformed tail: cut the document, or plant an item the parser refuses
    c = rng.random()
    if c < 0.12 and items:
        items = items[:rng.randrange(len(items))]
    elif c < 0.2 and items:
        i = rng.randrange(len(items))
        items = items[:i] + ['!43' if rng.random() < 0.6 else ('!48' if tbl else '!52')]
    elif c < 0.23:
        root, items = '!45', []
    # header
    pid = 'K'
    c = rng.random()
    if c < 0.03:
        pid = 'U'
    elif c < 0.2 and use_tbl:
        xid = bytes.fromhex(info['xmlid'])
        pid = 'SF%d' % add(xid)
    elif c < 0.23 and use_tbl:
        pid = 'SN%d' % add(rng.choice(WORDS))
    elif c < 0.25 and tbl:
        pid = 'SE'                                               # index filled in below, once the table is final
    elif 0.25 <= c < 0.28 and not tbl:
        pid = 'SX'
    st = '-'
    if tbl:
        c = rng.random()
        if c < 0.25:
            # last string not terminated: parse_strtbl appends four NUL bytes
            if rng.random() < 0.5 and len(tbl) < 190:
                # ... at the lengths at which one of the four appended bytes needs a realloc
                want = rng.choice([196, 197, 198, 199, 200])
                tbl.extend(b'p' * (want - len(tbl)))
            elif len(tbl) >= 2 and tbl[-2] != 0:
                del tbl[-1]
        st = 'Z' + bytes(tbl).hex()
        if pid == 'SE':
            # beyond the table as parse_strtbl leaves it (up to four NUL bytes appended): WBXML_ERROR_INVALID_STRTBL_INDEX
            pid = 'SE%d' % (len(tbl) + 4 + rng.randrange(50))
    elif rng.random() < 0.04:
        st = 'E54'
    hdr = '35' if rng.random() < 0.03 else '0'
    wb = '-' if rng.random() < 0.02 else '00'
    return ' '.join([lang, wb, hdr, st, pid, ';'.join(pre) if pre else '-', root, ';'.join(items) if items else '-'])


# ------------------------------------------------------------------------------ X: wbxml_tree_to_xml

def xml_info(exe, env, letter):
    """What gen_X needs of a language table (harness verb OOM XINFO)."""
    r = common.run([exe, 'unit'], input='OOM XINFO %s\n' % letter, env=env, stderr=subprocess.PIPE)
    m = re.match(r'XINFO attrtable=(\d) syncml=(\d) syncml12=(\d) root=(\S+) pubid=(\S+) dtd=(\S+) tags=(\S+) ns=(\S+) attrs=(\S+)', r.stdout.strip())
    if not m:
        raise common.BuildError('harness OOM XINFO failed: ' + (r.stdout + (r.stderr or ''))[-400:])
    tags = []
    for x in m.group(7).split(','):
        row, page, tok, binary, name = x.split(':')
        tags.append({'row': int(row), 'page': int(page), 'token': int(tok), 'binary': binary == '1', 'name': name})
    ns = {} if m.group(8) == 'N' else dict((int(a), b) for a, b in (x.split(':') for x in m.group(8).split(',')))
    attrs = [] if m.group(9) == 'N' else [(int(a), b, c) for a, b, c in (x.split(':') for x in m.group(9).split(','))]
    return {'letter': letter, 'spec': '%s:%s%s%s:%s:%s:%s' % (letter, m.group(1), m.group(2), m.group(3), m.group(4), m.group(5), m.group(6)),
            'tags': tags, 'ns': ns, 'has_ns': m.group(8) != 'N', 'attrs': attrs}


X_TEXTS = [b'x', b'ab', b'hello world', b'a<b>&"c\'d', b'line1\r\nline2\tend', b'   ', b'\n', b'  padded  ', b']]>', b'a]]>b]]', b'\x00\x01\xfe',
           b'application/vnd.syncml-devinf+wbxml', b'application/vnd.syncml.dmtnds+wbxml', b'text/x-vcard', b'QUJD', b'0123456789' * 7]
X_LITS = [b'x', b'Data', b'lit-elt', b'a:b']


def gen_X(rng, xinfos):
    """Tree for wbxml_tree_to_xml: returns '<gen> <indent> <keepws> <lang> <node>'.  The annotations the model reads
    (XML name, declared namespace, binary tag, MetInf <Type>) are computed here from the tables."""
    li = xinfos[rng.choice('WWSSSA')]
    budget = [rng.choice([1, 2, 3, 5, 8, 12, 20])]

    def text():
        t = rng.choice(X_TEXTS) if rng.random() < 0.7 else bytes(rng.choice(b'ab <&\n\r\t"\']>') for _ in range(rng.choice([0, 1, 2, 5, 17, 60, 300])))
        return 'T' + hx(t)

    def attrs(info):
        out = []
        for _ in range(rng.choice([0, 0, 0, 1, 2, 3])):
            v = hx(bytes(rng.choice(b'ab <&"\'\n\t1') for _ in range(rng.choice([0, 1, 3, 9, 40]))))
            c = rng.random()
            if c < 0.5 and info['attrs']:
                row, name, _ = rng.choice(info['attrs'])
                out.append('T%d:%s=%s' % (row, name, v))
            elif c < 0.95:
                out.append('L%s=%s' % (hx(rng.choice([b'id', b'a', b'class', b'xml:lang'])), v))
            else:
                out.append('N=' + v)
        return ('~' + '|'.join(out)) if out else ''

    def elt(info, depth, anc_page, want=None):
        budget[0] -= 1
        if rng.random() < 0.8 or want is not None:
            t = want if want is not None else rng.choice(info['tags'])
            page = t['page']
            ns = '-'
            if info['has_ns'] and (anc_page is None or anc_page != page) and page in info['ns']:
                ns = info['ns'][page]
            head = 'ET%d/%s/%s/%d%d' % (t['row'], t['name'], ns, t['binary'], page == 1 and t['token'] == 0x13)
            kid_page = page
            special = t['binary'] or (page == 1 and t['token'] == 0x13)
        else:
            nm = rng.choice(X_LITS)
            head = 'EL%s/%s/-/00' % (hx(nm), hx(nm))
            kid_page = anc_page
            special = False
        kids = []
        if special and rng.random() < 0.9:
            kids.append(text())
        while budget[0] > 0 and depth < 6 and rng.random() < 0.62:
            kids.append(node(info, depth + 1, kid_page))
        return head + attrs(info) + '(' + ','.join(kids) + ')'

    def node(info, depth, anc_page):
        c = rng.random()
        if c < 0.5:
            return elt(info, depth, anc_page)
        if c < 0.8:
            budget[0] -= 1
            return text()
        if c < 0.9:
            budget[0] -= 1
            return 'C(' + ','.join(text() for _ in range(rng.choice([0, 1, 1, 2]))) + ')'
        if c < 0.97 and info['letter'] == 'S':
            budget[0] -= 1
            sub = xinfos['V']
            return 'Y%s(%s)' % (sub['spec'], elt(sub, depth + 1, None))
        if c < 0.985:
            return 'P'
        binary = [t for t in info['tags'] if t['binary'] or (t['page'] == 1 and t['token'] == 0x13)]
        return elt(info, depth, anc_page, rng.choice(binary) if binary else None)

    gen = rng.choice([0, 1, 1, 2])
    return '%d %d %d %s %s' % (gen, rng.choice([0, 1, 2, 4]), rng.choice([0, 0, 1]), li['spec'], elt(li, 0, None))


# ------------------------------------------------------------------------------ F: wbxml_tree_from_xml

F_DOCTYPE = {'W': b'<!DOCTYPE wml PUBLIC "-//WAPFORUM//DTD WML 1.3//EN" "http://www.wapforum.org/DTD/wml13.dtd">',
             'S': b'<!DOCTYPE SyncML PUBLIC "-//SYNCML//DTD SyncML 1.2//EN" "http://www.openmobilealliance.org/tech/DTD/OMA-TS-SyncML_RepPro_DTD-V1_2.dtd">',
             'A': b'<!DOCTYPE AirSync PUBLIC "-//AIRSYNC//DTD AirSync//EN" "http://www.microsoft.com/">'}
F_SAFE = b'abcXYZ019 .:;=+/-_'
F_TYPES = [b'text/clear', b'text/x-vcard', b'text/x-vcalendar', b'text/directory;profile=vCard', b'text/plain', b'application/vnd.syncml-devinf+xml']


def f_lookup_tag(info, page, name):
    """wbxml_tables_get_tag_from_xml(lang, page, name): the current code page first, then the others in table order."""
    for t in info['tags']:
        if t['page'] == page and t['name'] == name:
            return t
    for t in info['tags']:
        if t['page'] != page and t['name'] == name:
            return t
    return None


def f_lookup_attr(info, name, value):
    """wbxml_tables_get_attr_from_xml(lang, name, value, NULL): is there a token for this name / value?"""
    found, comp = False, 0
    for _, n, v in info['attrs']:
        if n != name:
            continue
        if v == 'N':
            found = True
        else:
            vb = bytes.fromhex(v) if v != '-' else b''
            if vb == value:
                return True
            if len(vb) < len(value) and comp < len(vb) and value.startswith(vb):
                found, comp = True, len(vb)
    return found


def gen_F(rng, xinfos):
    """An XML document for wbxml_tree_from_xml and the call-backs Expat will make for it, with what the tables and the
    tree decide at each of them (token or literal names, binary tags, SyncML data types): '<xml hex> <parseOk> <events>'.
    A shadow of the tree is kept as the call-backs build it (un-failed), because wbxml_tree_node_get_syncml_data_type()
    and the missing-CDATA rule look at it."""
    L = rng.choice('WWWSSSAA')
    info = xinfos[L]
    ns2page = dict((bytes.fromhex(v), k) for k, v in info['ns'].items())
    root_ns = {'W': None, 'S': b'SYNCML:SYNCML1.2', 'A': b'http://synce.org/formats/airsync_wm5/airsync'}[L]
    mode = rng.choice(['doctype'] * 8 + ['unknown', 'rootns'])
    if mode == 'rootns' and L != 'S':
        mode = 'doctype'
    lang_ok = mode != 'unknown'
    xml = [b'<?xml version="1.0"?>\n']
    if mode == 'doctype':
        xml.append(F_DOCTYPE[L] + b'\n')
    events = []
    # shadow tree: node = {'k': 'E'|'C'|'T', 'name': bytes, 'bin': bool, 'kids': [...], 'text': bytes, 'cache': None|bytes, 'parent': node}
    state = {'cur': None, 'root': None, 'err': False, 'last_raw': False}

    def add_child(parent, node):
        node['parent'] = parent
        if parent is None:
            state['root'] = node
        else:
            parent['kids'].append(node)

    def find_elt(kids, name):
        for k in kids:
            if k['k'] == 'E' and k['name'] == name:
                return k
        return None

    def data_type(node):
        if node is None:
            return 0
        if node['k'] == 'C':
            node = node['parent']
        if node is None or node['k'] != 'E' or node['name'] != b'Data':
            return 0
        par = node['parent']
        typ = None
        if par is not None:
            m = find_elt(par['kids'], b'Meta')
            if m is not None:
                typ = find_elt(m['kids'], b'Type')
            if typ is None and par['parent'] is not None:
                m = find_elt(par['parent']['kids'], b'Meta')
                if m is not None:
                    typ = find_elt(m['kids'], b'Type')
        if typ is not None and typ['kids'] and typ['kids'][0]['k'] == 'T':
            t = typ['kids'][0]['text']
            if t in (b'application/vnd.syncml-devinf+wbxml', b'application/vnd.syncml-devinf+xml',
                     b'application/vnd.syncml.dmtnds+wbxml', b'application/vnd.syncml.dmtnds+xml'):
                return 0
            if t == b'text/clear':
                return 1
            if t in (b'text/directory;profile=vCard', b'text/x-vcard', b'text/x-vcalendar'):
                return 2
        if par is not None and par['parent'] is not None and par['parent']['k'] == 'E' and par['parent']['name'] in (b'Add', b'Replace'):
            return 2
        return 0

    def add_text(parent, text):
        kids = parent['kids'] if parent is not None else None
        if kids and kids[-1]['k'] == 'T':
            kids[-1]['text'] += text
        elif parent is None:
            if state['root'] is None:
                state['root'] = {'k': 'T', 'text': text, 'kids': [], 'parent': None}
            else:
                state['err'] = True
        else:
            add_child(parent, {'k': 'T', 'text': text, 'kids': []})

    def ev_chars(chunk):
        cur = state['cur']
        dt = data_type(cur)
        binary = False
        if not state['err']:
            text = b'\r\n' if (dt == 2 and chunk == b'\n') else chunk
            if dt != 0 and cur is not None and cur['k'] != 'C' and not (cur['kids'] and cur['kids'][0]['k'] == 'C'):
                c = {'k': 'C', 'kids': []}
                add_child(cur, c)
                state['cur'] = cur = c
            if cur is not None and cur['k'] == 'E' and cur['bin']:
                binary = True
                cur['cache'] = (cur['cache'] or b'') + text
            else:
                add_text(cur, text)
        events.append('C%d%d%s' % (dt, binary, hx(chunk)))

    def emit_text(pieces):
        """pieces: ('raw', bytes without newline) | ('nl',) | ('ent', xml, char)"""
        for p in pieces:
            if p[0] == 'raw':
                if not p[1]:
                    continue
                xml.append(p[1])
                if state['last_raw']:
                    # Expat delivers one run: extend the previous event and the shadow text
                    prev = events.pop()
                    old = bytes.fromhex(prev[3:]) if prev[3:] != '-' else b''
                    undo_chars(old)
                    ev_chars(old + p[1])
                else:
                    ev_chars(p[1])
                state['last_raw'] = True
            elif p[0] == 'nl':
                xml.append(b'\n')
                ev_chars(b'\n')
                state['last_raw'] = False
            else:
                xml.append(p[1])
                ev_chars(p[2])
                state['last_raw'] = False

    def undo_chars(old):
        cur = state['cur']
        if state['err'] or cur is None:
            return
        if cur['k'] == 'E' and cur['bin']:
            cur['cache'] = cur['cache'][:len(cur['cache']) - len(old)] or None
        elif cur['kids'] and cur['kids'][-1]['k'] == 'T':
            t = cur['kids'][-1]
            t['text'] = t['text'][:len(t['text']) - len(old)]
            if not t['text']:
                cur['kids'].pop()

    def rand_pieces(binary=False):
        out = []
        for _ in range(rng.choice([1, 1, 2, 3, 5])):
            c = rng.random()
            if binary:
                if c < 0.6:
                    import base64
                    out.append(('raw', base64.b64encode(bytes(rng.getrandbits(8) for _ in range(rng.choice([1, 2, 3, 10, 40])))) ))
                elif c < 0.8:
                    out.append(('nl',))
                elif c < 0.9:
                    out.append(('raw', b'  '))
                else:
                    out.append(('raw', b'!!'))
            elif c < 0.6:
                out.append(('raw', bytes(rng.choice(F_SAFE) for _ in range(rng.choice([1, 2, 5, 17, 60])))))
            elif c < 0.85:
                out.append(('nl',))
            else:
                out.append(rng.choice([('ent', b'&lt;', b'<'), ('ent', b'&amp;', b'&'), ('ent', b'&#65;', b'A')]))
        # no two raw runs in a row (they would be one run for Expat)
        res = []
        for p in out:
            if p[0] == 'raw' and res and res[-1][0] == 'raw':
                res[-1] = ('raw', res[-1][1] + p[1])
            else:
                res.append(p)
        return res

    budget = [rng.choice([1, 2, 3, 5, 8, 12])]

    def start(name, ns, attrs):
        """name: local name; ns: namespace in scope (bytes or None); attrs: [(qname bytes, value bytes)]"""
        page = ns2page.get(ns, 0) if ns is not None else 0
        t = f_lookup_tag(info, page, name.hex())
        tag = ('T1' if t['binary'] else 'T') if t else 'L' + hx(name)
        al = []
        for qn, v in attrs:
            if qn.startswith(b'xml:'):
                local = qn[4:]
                full = b'xml:' + local
                tok = f_lookup_attr(info, full.hex(), v) if info['attrs'] else False
                al.append('X%s:%s=%s' % (hx(local), 'T' if tok else 'L' + hx(full), hx(v)))
            else:
                tok = f_lookup_attr(info, qn.hex(), v) if info['attrs'] else False
                al.append('%s=%s' % ('T' if tok else 'L' + hx(qn), hx(v)))
        events.append('S%d%s%s' % (lang_ok, tag, ('/' + ';'.join(al)) if al else ''))
        state['last_raw'] = False
        if not state['err']:
            if state['cur'] is None and not lang_ok:
                state['err'] = True
            elif state['cur'] is None and state['root'] is not None:
                state['err'] = True
            else:
                n = {'k': 'E', 'name': name, 'bin': bool(t and t['binary']), 'kids': [], 'cache': None}
                add_child(state['cur'], n)
                state['cur'] = n

    def stop():
        cur = state['cur']
        binary = bool(cur is not None and cur['k'] == 'E' and cur['bin'])
        decoded = b''
        if binary and cur['cache'] is not None:
            import base64
            txt = bytes(ch for ch in cur['cache'] if ch not in b' \t\n\r\x0b\x0c')
            k = 0
            while k < len(txt) and (chr(txt[k]).isalnum() or txt[k] in b'+/'):
                k += 1
            good = txt[:k]
            good = good[:len(good) - (1 if len(good) % 4 == 1 else 0)]
            decoded = base64.b64decode(good + b'=' * (-len(good) % 4)) if good else b''
            cur['cache'] = None
            if not decoded:
                state['err'] = True
            else:
                add_text(cur, decoded)
        events.append('E%d%s' % (binary, hx(decoded)))
        state['last_raw'] = False
        if not state['err'] and cur is not None and cur['parent'] is not None:
            if cur['k'] == 'C':
                cur = cur['parent']
            state['cur'] = cur['parent']

    def element(depth, ns, forced=None):
        budget[0] -= 1
        if forced is not None:
            name, attrs, newns = forced
        else:
            names = [n for n in (bytes.fromhex(t['name']) for t in info['tags']) if re.match(rb'^[A-Za-z_][A-Za-z0-9_.-]*$', n)]
            name = rng.choice(names) if rng.random() < 0.75 else rng.choice([b'zzz', b'Data', b'x-lit', b'Item'])
            attrs, newns = [], ns
            if L == 'W' or rng.random() < 0.3:
                used = set()
                for _ in range(rng.choice([0, 0, 0, 1, 2, 3])):
                    if info['attrs'] and rng.random() < 0.6:
                        _, n, v = rng.choice(info['attrs'])
                        qn = bytes.fromhex(n)
                        val = (bytes.fromhex(v) if v not in ('N', '-') else b'') + rng.choice([b'', b'', b'x', b'tail 12'])
                    else:
                        qn = rng.choice([b'id', b'a', b'class', b'xml:lang', b'xml:space', b'xml:foo'])
                        val = rng.choice([b'', b'v', b'preserve', b'en', b'some longer value 0123456789'])
                    if qn in used:
                        continue
                    used.add(qn)
                    attrs.append((qn, val))
            if L != 'W' and rng.random() < 0.3:
                newns = bytes.fromhex(rng.choice(list(info['ns'].values())))
            bins = [t for t in info['tags'] if t['binary']]
            if bins and rng.random() < 0.35:
                # an element whose tag is flagged binary (base64 text in XML), in the namespace of its code page
                bt = rng.choice(bins)
                name = bytes.fromhex(bt['name'])
                if bt['page'] in info['ns'] and rng.random() < 0.8:
                    newns = bytes.fromhex(info['ns'][bt['page']])
        page = ns2page.get(newns, 0) if newns is not None else 0
        t = f_lookup_tag(info, page, name.hex())
        xml.append(b'<' + name)
        if newns != ns or (depth == 0 and newns is not None):
            xml.append(b' xmlns="' + newns + b'"')
        for qn, v in attrs:
            xml.append(b' ' + qn + b'="' + v + b'"')
        start(name, newns, attrs)
        kids = rng.choice([0, 1, 1, 2, 3]) if depth < 5 else 0
        if kids == 0 and rng.random() < 0.5:
            xml.append(b'/>')
            stop()
            return
        xml.append(b'>')
        for _ in range(kids):
            c = rng.random()
            if t and t['binary'] and c < 0.8:
                emit_text(rand_pieces(binary=True))
            elif c < 0.45:
                emit_text(rand_pieces())
            elif c < 0.55:
                xml.append(b'<![CDATA[')
                events.append('A')
                state['last_raw'] = False
                if not state['err']:
                    n = {'k': 'C', 'kids': []}
                    add_child(state['cur'], n)
                    state['cur'] = n
                emit_text([p for p in rand_pieces() if p[0] != 'ent'])
                xml.append(b']]>')
                events.append('Z')
                state['last_raw'] = False
                if not state['err'] and state['cur'] is not None and state['cur']['parent'] is not None:
                    state['cur'] = state['cur']['parent']
            elif budget[0] > 0:
                element(depth + 1, newns)
        xml.append(b'</' + name + b'>')
        stop()

    def syncml_item(ns):
        """<CMD><CmdID>1</CmdID>[<Meta>…]<Item>[<Meta>…]<Data>…</Data></Item></CMD>"""
        def simple(name, text, xmlns=None):
            xml.append(b'<' + name + ((b' xmlns="' + xmlns + b'"') if xmlns else b'') + b'>')
            start(name, xmlns or ns, [])
            emit_text([('raw', text)])
            xml.append(b'</' + name + b'>')
            stop()

        def meta():
            xml.append(b'<Meta>')
            start(b'Meta', ns, [])
            simple(b'Type', rng.choice(F_TYPES), b'syncml:metinf')
            xml.append(b'</Meta>')
            stop()
        cmd = rng.choice([b'Add', b'Replace', b'Put', b'Results'])
        xml.append(b'<' + cmd + b'>')
        start(cmd, ns, [])
        simple(b'CmdID', b'1')
        if rng.random() < 0.3:
            meta()
        xml.append(b'<Item>')
        start(b'Item', ns, [])
        if rng.random() < 0.4:
            meta()
        xml.append(b'<Data>')
        start(b'Data', ns, [])
        for _ in range(rng.choice([0, 1, 1, 2, 3])):
            c = rng.random()
            if c < 0.6:
                emit_text(rand_pieces())
            elif c < 0.8:
                xml.append(b'<![CDATA[')
                events.append('A')
                state['last_raw'] = False
                if not state['err']:
                    n = {'k': 'C', 'kids': []}
                    add_child(state['cur'], n)
                    state['cur'] = n
                emit_text([p for p in rand_pieces() if p[0] != 'ent'])
                xml.append(b']]>')
                events.append('Z')
                state['last_raw'] = False
                if not state['err'] and state['cur'] is not None and state['cur']['parent'] is not None:
                    state['cur'] = state['cur']['parent']
            else:
                simple(rng.choice([b'x-lit', b'Data', b'LocURI']), b'v')
        xml.append(b'</Data>')
        stop()
        xml.append(b'</Item>')
        stop()
        xml.append(b'</' + cmd + b'>')
        stop()

    if mode == 'unknown':
        element(0, None, forced=(b'zzz-unknown-root', [], None))
    elif L == 'S' and rng.random() < 0.7:
        xml.append(b'<SyncML xmlns="SYNCML:SYNCML1.2"><SyncBody>')
        start(b'SyncML', root_ns, [])
        start(b'SyncBody', root_ns, [])
        for _ in range(rng.choice([1, 1, 2])):
            syncml_item(root_ns)
            if rng.random() < 0.3:
                emit_text([('nl',), ('raw', b'  ')])
        xml.append(b'</SyncBody></SyncML>')
        stop()
        stop()
    else:
        rootname = {'W': b'wml', 'S': b'SyncML', 'A': b'Sync'}[L]
        element(0, root_ns, forced=(rootname, [], root_ns))
    parse_ok = 1
    if rng.random() < 0.06:
        # a document Expat rejects after the root element: every event above has been delivered
        xml.append(b'<junk')
        parse_ok = 0
    xml.append(b'\n')
    return '%s %d %s' % (hx(b''.join(xml)), parse_ok, ','.join(events) if events else '-')


def gen_T(rng, info):
    """element-only tree over page-0 rows; returns (tree description, chunks the encoder must append)"""
    budget = [rng.choice([1, 2, 3, 5, 8, 12])]

    def node(depth):
        budget[0] -= 1
        row = rng.choice(info['tags'])
        kids = []
        while budget[0] > 0 and depth < 5 and rng.random() < 0.6:
            kids.append(node(depth + 1))
        return (row, kids)

    def desc(n):
        return '(%d%s)' % (n[0], ''.join(desc(k) for k in n[1]))

    def chunks(n, out):
        out.append('%02x' % (info['tagtokens'][n[0]] | (0x40 if n[1] else 0)))
        for k in n[1]:
            chunks(k, out)
        if n[1]:
            out.append('01')
    root = node(0)
    out = []
    chunks(root, out)
    return desc(root), ','.join(out)


def run_lines(cmd, lines, env=None, resilient=False):
    """Feed request lines, one response per line. With `resilient`, a process that dies on a line is
    restarted after it; the dead line answers 'CRASH <sanitizer summary>'."""
    out, i = [], 0
    while i < len(lines):
        r = subprocess.run(cmd, input='\n'.join(lines[i:]) + '\n', stdout=subprocess.PIPE, stderr=subprocess.PIPE, text=True, env=env)
        got = r.stdout.split('\n')
        if got and got[-1] == '':
            got.pop()
        got = got[:len(lines) - i]
        out += got
        i += len(got)
        if i >= len(lines):
            break
        if not resilient:
            out += ['<missing>'] * (len(lines) - i)
            break
        m = re.search(r'ERROR: (?:AddressSanitizer|LeakSanitizer): (\S+)', r.stderr or '')
        fr = re.findall(r'#\d+ 0x[0-9a-f]+ in (\S+) ', r.stderr or '')
        fr = [f for f in fr if not f.startswith('__')][:3]
        out.append('CRASH %s %s' % (m.group(1) if m else 'rc=%d' % r.returncode, '<'.join(fr)))
        i += 1
    return out


def unit_requests(rng, tier, info, driver, seed=0, infos=None, xinfos=None):
    """(programs) -> request lines for every k (and pairs) using the model's own request count."""
    nU, nP, nS, nT = (60, 50, 30, 24) if tier == 'quick' else (400, 300, 150, 100)
    bases = []
    for _ in range(nU):
        bases.append(('U', ' '.join(gen_U(rng, rng.choice([3, 5, 8, 12, 18])))))
    for _ in range(nP):
        t, a = gen_P(rng, info)
        bases.append(('P', t + ' ' + a))
    for _ in range(nS):
        bases.append(('S', gen_S(rng)))
    for _ in range(nT):
        tree, ch = gen_T(rng, info)
        bases.append(('T', '%d %d %d %s %s' % (rng.choice([0, 1, 1]), rng.choice([0, 1, 2, 3]), info['pubid'], tree, ch)))
    # B (tree-building call-backs) draws from its own generator: the streams of the other verbs and of the
    # conversion level stay what they were for a given seed
    rb = random.Random('c16-B-%s' % seed)
    for _ in range(40 if tier == 'quick' else 300):
        bases.append(('B', gen_B(rb, info)))
    # D (whole wbxml_tree_from_wbxml: parser main loop + call-backs + glue), own generator as well
    rd = random.Random('c16-D-%s' % seed)
    if infos:
        for _ in range(40 if tier == 'quick' else 400):
            bases.append(('D', gen_D(rd, infos)))
    # X (wbxml_tree_to_xml on trees built from shapes), own generator
    rx = random.Random('c16-X-%s' % seed)
    if xinfos:
        for _ in range(60 if tier == 'quick' else 600):
            bases.append(('X', gen_X(rx, xinfos)))
    # F (wbxml_tree_from_xml on generated XML text; Expat runs for real), own generator
    rf = random.Random('c16-F-%s' % seed)
    if xinfos:
        for _ in range(50 if tier == 'quick' else 500):
            bases.append(('F', gen_F(rf, xinfos)))
    bases = [b for b in bases if b[1].strip()]
    zero = ['OOM %s 0 0 %s' % b for b in bases]
    resp = run_lines([driver], zero)
    lines = []
    for (verb, body), z, r in zip(bases, zero, resp):
        lines.append(z)
        m = re.search(r'req=(\d+)', r)
        n = int(m.group(1)) if m else 0
        for k in range(1, n + 2):           # n+1: a k that is never reached
            lines.append('OOM %s %d 0 %s' % (verb, k, body))
        npairs = 6 if tier == 'quick' else 40
        rp = {'B': rb, 'D': rd, 'X': rx, 'F': rf}.get(verb, rng)
        for _ in range(min(npairs, n * (n - 1) // 2)):
            k1 = rp.randint(1, max(1, n - 1))
            k2 = rp.randint(k1 + 1, n + 3)
            lines.append('OOM %s %d %d %s' % (verb, k1, k2, body))
    return lines


def unit_oracle(line, resp):
    """The property evaluated on the implementation's own answer to a unit request."""
    if resp.startswith('CRASH'):
        return 'crash: ' + resp
    if resp in ('BADVERB', 'BADREQ', '<missing>'):
        return None
    m = re.search(r'req=(\d+) hits=(\d+) live=(-?\d+) fault=(\S+)', resp)
    if not m:
        return 'unparsable answer'
    hits, live, fault = int(m.group(2)), int(m.group(3)), m.group(4)
    if fault != 'none':
        return 'ledger fault ' + fault
    verb = line.split()[1]
    ret = resp.split()[1]
    if verb == 'P':
        if live != 0:
            return 'parse_element left %d block(s) live' % live
        if hits and ret == '0':
            return 'parse_element returned OK although an allocation failed'
    if verb == 'T':
        out = resp.rsplit('out=', 1)[-1]
        if ret != '0' and (live != 0 or out != 'N'):
            return 'error %s with live=%d out=%s' % (ret, live, out[:20])
        if ret == '0' and live != 1:
            return 'OK with %d live blocks (expected the result only)' % live
    if verb == 'X':
        out = resp.rsplit('out=', 1)[-1]
        if ret != '0' and (live != 0 or out != 'N'):
            return 'wbxml_tree_to_xml failed with %s but live=%d out=%s' % (ret, live, out[:20])
        if ret == '0' and hits:
            return 'wbxml_tree_to_xml returned OK although an allocation failed'
        if ret == '0' and (live != 1 or out == 'N'):
            return 'wbxml_tree_to_xml returned OK with %d live blocks (expected the result only)' % live
    if verb == 'S' and ret != '0' and not hits:
        return 'error without a failure'
    if verb == 'B':
        tree = resp.rsplit('tree=', 1)[-1]
        if ret != '0' and (live != 0 or tree != 'N'):
            return 'tree building failed with %s but live=%d tree=%s' % (ret, live, tree[:20])
        if ret == '0' and hits:
            return 'tree building returned OK although an allocation failed'
    if verb == 'F':
        tree = resp.rsplit('tree=', 1)[-1]
        if ret != '0' and (live != 0 or tree != 'N'):
            return 'wbxml_tree_from_xml failed with %s but live=%d tree=%s' % (ret, live, tree[:20])
        if ret == '0' and hits:
            return 'wbxml_tree_from_xml returned OK although an allocation failed'
        if ret == '0' and (tree == 'N' or live <= 0):
            return 'wbxml_tree_from_xml returned OK without a tree (live=%d)' % live
    if verb == 'D':
        tree = resp.rsplit('tree=', 1)[-1]
        if ret != '0' and (live != 0 or tree != 'N'):
            return 'wbxml_tree_from_wbxml failed with %s but live=%d tree=%s' % (ret, live, tree[:20])
        if ret == '0' and hits:
            return 'wbxml_tree_from_wbxml returned OK although an allocation failed'
        if ret == '0' and (tree == 'N' or live <= 0):
            return 'wbxml_tree_from_wbxml returned OK without a tree (live=%d)' % live
    return None


def shrink_U(line, differs):
    """delta-debug the op list of a U request while `differs(line)` stays true"""
    p = line.split()
    head, ops = p[:4], p[4:]
    changed = True
    while changed and len(ops) > 1:
        changed = False
        for i in range(len(ops)):
            cand = head + ops[:i] + ops[i + 1:]
            if differs(' '.join(cand)):
                ops = ops[:i] + ops[i + 1:]
                changed = True
                break
    return ' '.join(head + ops)


def shrink_D(line, exe, env, driver):
    """delta-debug a D request whose answer breaks the property on the implementation: drop body items and
    leading PIs while SOME single failure k still breaks it (k is searched again: dropping an item renumbers the
    requests).  The C/V letters may become stale, which only matters to the model: the oracle looks at the
    implementation's answer alone."""
    f = line.split()[4:]

    def bad(fields):
        body = ' '.join(fields)
        r = run_lines([driver], ['OOM D 0 0 ' + body])[0]
        m = re.search(r'req=(\d+)', r)
        n = int(m.group(1)) if m else 0
        ls = ['OOM D %d 0 %s' % (k, body) for k in range(0, n + 2)]
        out = run_lines([exe, 'unit'], ls, env=env, resilient=True)
        for l, o in zip(ls, out):
            if unit_oracle(l, o):
                return l
        return None

    best = bad(f)
    if not best:
        return None
    for col in (7, 5):
        changed = True
        while changed:
            changed = False
            items = [] if f[col] == '-' else f[col].split(';')
            for i in range(len(items)):
                cand = list(f)
                rest = items[:i] + items[i + 1:]
                cand[col] = ';'.join(rest) if rest else '-'
                got = bad(cand)
                if got:
                    f, best, changed = cand, got, True
                    break
    return best


# ------------------------------------------------------------------------------ conversion level

# Documents enumerated at conversion level on EVERY run, before the seeded corpus sample (kept here, not under
# corpus/: tools/seed_eval.py restores corpus/ from git).  Each exercises an allocation site no corpus document
# reaches.  (direction, name, bytes)
EXTRA_DOCS = [
    # parse_text(), WBXML output, SyncML, inside a CDATA section: a text that is one LF gets a CR inserted in place
    # (a realloc of the TREE's text buffer inside the encoder).  Before fix 8847582 the result of
    # wbxml_buffer_insert_cstr() was ignored: k = that realloc => WBXML_OK with `c3 01 0a` instead of `c3 02 0d 0a`
    # (OK_DIFF).  <Data> must not sit under <Add>/<Replace>: there the XML call-back writes CR LF itself.
    ('x2w', 'syncml-put-cdata-lf.xml',
     b'<?xml version="1.0"?>\n<!DOCTYPE SyncML PUBLIC "-//SYNCML//DTD SyncML 1.2//EN" '
     b'"http://www.openmobilealliance.org/tech/DTD/OMA-TS-SyncML_RepPro_DTD-V1_2.dtd">\n'
     b'<SyncML xmlns="SYNCML:SYNCML1.2"><SyncBody><Put><CmdID>1</CmdID><Item><Data><![CDATA[\n]]></Data></Item></Put>'
     b'</SyncBody></SyncML>\n'),
]


def conv_task(exe, env, direction, path, optset, mode, maxruns=0, kfrom=0, kto=0, timeout=1500):
    cmd = [exe, 'conv', direction, path, str(optset), mode]
    if maxruns or kfrom:
        cmd.append(str(maxruns))
    if kfrom:
        cmd += [str(kfrom), str(kto or kfrom)]
    t0 = time.time()
    try:
        r = subprocess.run(cmd, stdout=subprocess.PIPE, stderr=subprocess.PIPE, text=True, env=env, timeout=timeout)
        out, rc = r.stdout, r.returncode
    except subprocess.TimeoutExpired as e:
        out, rc = (e.stdout or b'').decode('latin1') if isinstance(e.stdout, bytes) else (e.stdout or ''), -9
    return {'dir': direction, 'path': path, 'optset': optset, 'mode': mode, 'out': out, 'rc': rc, 'secs': time.time() - t0}


def parse_conv(task):
    """-> (summary dict, [anomaly dicts])"""
    summ, anomalies = {'N': 0, 'runs': 0, 'err': 0, 'oksame': 0, 'okequiv': 0, 'anomalies': 0, 'crashes': 0, 'done': False}, []
    for line in task['out'].split('\n'):
        p = line.split()
        if not p:
            continue
        if p[0] == 'DONE':
            for x in p[1:]:
                k, v = x.split('=')
                try:
                    summ[k] = int(v)
                except ValueError:
                    pass
            summ['done'] = True
        elif p[0] == 'BASE':
            for x in p[1:]:
                k, v = x.split('=')
                summ['base_' + k] = v
        elif p[0] in ('K', 'CRASH'):
            kv, blks = {}, []
            for x in p[3:]:
                if '=' in x:
                    k, v = x.split('=', 1)
                    if k == 'blk':
                        blks.append(v)
                    else:
                        kv[k] = v
            anomalies.append({'k1': int(p[1]), 'k2': int(p[2]), 'cls': p[3] if p[0] == 'K' else 'CRASH', 'kv': kv, 'blks': blks})
        elif p[0] in ('LSAN', 'BASECRASH', 'NOFILE'):
            kv = dict(x.split('=', 1) for x in p[1:] if '=' in x)
            anomalies.append({'k1': 0, 'k2': 0, 'cls': p[0], 'kv': kv, 'blks': []})
    if not summ['done'] and task['rc'] != 0:
        anomalies.append({'k1': 0, 'k2': 0, 'cls': 'HARNESS_RC%d' % task['rc'], 'kv': {}, 'blks': []})
    return summ, anomalies


def describe(sy, a):
    """site of the failed request(s) + what went wrong where"""
    site = sy.site(parse_pcs(a['kv'].get('fail1')))
    if a['k2']:
        site += ' + ' + sy.site(parse_pcs(a['kv'].get('fail2')))
    detail = ''
    cls = a['cls']
    if cls == 'CRASH' or cls == 'LSAN':
        kind, top, txt = asan_summary(a['kv'].get('report'))
        detail = kind + ' in ' + '<'.join(top)
        a['report_head'] = txt[:1500]
        sym = 'CRASH:' + kind if cls == 'CRASH' else 'LSAN'
    else:
        sym = cls
        if 'LEAK' in cls and a['blks']:
            detail = 'leaked block allocated at ' + sy.site(parse_pcs(a['blks'][0].split('@')[1]), extra=0)
        if 'FAULT' in cls:
            detail += ' fault raised at ' + sy.site(parse_pcs(a['kv'].get('faultpc')), extra=0)
    return sym, site, detail.strip()


def pick_docs(rng, n, pattern):
    fs = sorted(glob.glob(pattern))
    if len(fs) <= n:
        return fs
    by_lang = collections.defaultdict(list)
    for f in fs:
        by_lang[os.path.basename(f).split('-')[0].split('_')[0]].append(f)
    out = []
    langs = sorted(by_lang)
    rng.shuffle(langs)
    while len(out) < n:                      # round-robin over languages, smaller documents preferred
        for l in langs:
            c = by_lang[l]
            if c and len(out) < n:
                c.sort(key=os.path.getsize)
                i = min(len(c) - 1, int(rng.random() ** 2 * len(c)))
                out.append(c.pop(i))
    return out


# ------------------------------------------------------------------------------ the check

def run(res, args):
    rng = random.Random(res.seed)
    b = common.Build('asan')
    exe, members = build_harness(b)
    env = b.env()
    ok, failing = common.proof_step(res, ['Wbxml.Props.C16'], 'Wbxml.Props.C16', extra_targets=['driver_alloc'])
    driver = os.path.join(common.LEAN, '.lake', 'build', 'bin', 'driver_alloc')
    known = [k for k in common.load_known()['findings'] if k['property'] == 'C16']
    sy = Symbolizer(exe)
    res.coverage['allocator'] = {'archive_members': len(members), 'not_linked': list(EXCLUDED_OBJS),
                                 'note': 'wbxml_mem.o replaced by harness/oom_alloc.c; parser/encoder objects replaced by their #included sources (statics)',
                                 'stray_direct_allocator_calls_outside_wbxml_mem': stray_allocator_calls()}
    res.assumptions += ['single failure per run (pairs sampled at unit level; pairs on 20 documents in the thorough tier)',
                        "allocations made by Expat (libc malloc) are not 'made by the library': neither failed nor ledgered (LSan still sees them)",
                        'unit level: WML 1.3 tables, languages without the SI/EMN date-time attribute branch (OOM X also SyncML 1.2 / DevInf 1.2 / AirSync; OOM F also SyncML 1.2 / AirSync)',
                        'OOM F: the call-back events given to the model are predicted by the generator from the XML text it writes (Expat delivers a run of characters up to a line feed, an entity reference or markup as one call); XML documents with an embedded DevInf / MgmtTree element are not generated']

    # ---- (0) stored replays of the defects repaired by fix: commits — must be clean now
    corpus_dir = os.path.join(common.VERIF, 'corpus', 'c16')
    replay_tasks = []
    try:
        stored = json.load(open(os.path.join(corpus_dir, 'unfixed.json')))
    except (OSError, ValueError):
        stored = []
    seen_replays = set()
    try:
        stored += json.load(open(os.path.join(corpus_dir, 'known.json')))
    except (OSError, ValueError):
        pass
    for e in stored:
        if (e['direction'], e['document'], e['optset']) in seen_replays:
            continue
        seen_replays.add((e['direction'], e['document'], e['optset']))
        path = os.path.join(common.VERIF, e['document'])
        if os.path.exists(path):
            replay_tasks.append((e['direction'], path, e['optset'], 'single', 0, 0, 0))

    extra_dir = os.path.join(b.dir, 'c16extra')
    os.makedirs(extra_dir, exist_ok=True)
    extra_label, extra_data = {}, {}
    for direction, name, data in EXTRA_DOCS:
        path = os.path.join(extra_dir, name)
        with open(path, 'wb') as f:
            f.write(data)
        extra_label[path] = 'tools/props/c16.py:EXTRA_DOCS[%s]' % name
        extra_data[path] = data
        for o in range(N_OPTS):
            replay_tasks.append((direction, path, o, 'single', 0, 0, 0))

    # ---- (1) unit level: harness vs ledger model
    info = unit_info(exe, env)
    lines = []
    try:
        lines += [l.strip() for l in open(os.path.join(corpus_dir, 'unit_replays.txt')) if l.startswith('OOM ')]
    except OSError:
        pass
    lines += [l for l in D_REPLAYS + XF_REPLAYS if l not in lines]
    infos = {'W': info, 'R': unit_info(exe, env, 'R')}
    xinfos = {k: xml_info(exe, env, k) for k in 'WSVA'}
    lines += unit_requests(rng, res.tier, info, driver, res.seed, infos, xinfos)
    t0 = time.time()
    chunks = [lines[i::common.NCPU] for i in range(common.NCPU)]
    with ThreadPoolExecutor(common.NCPU) as ex:
        c_parts = list(ex.map(lambda ch: run_lines([exe, 'unit'], ch, env=env, resilient=True), chunks))
    l_out = run_lines([driver], lines)
    c_out = [None] * len(lines)
    for j, part in enumerate(c_parts):
        for i, r in zip(range(j, len(lines), common.NCPU), part):
            c_out[i] = r
    unit_secs = time.time() - t0
    diffs, oracle_bad = [], []
    verbs = collections.Counter()
    fails_seen = collections.Counter()
    for ln, c, l in zip(lines, c_out, l_out):
        res.add_eval(ln)
        verbs[ln.split()[1]] += 1
        if c != l:
            diffs.append((ln, c, l))
        ob = unit_oracle(ln, c or '<missing>')
        if ob:
            oracle_bad.append((ln, c, ob))
        m = re.search(r'hits=(\d+)', c or '')
        if m:
            fails_seen[int(m.group(1))] += 1
    res.coverage['unit_level'] = {'requests': len(lines), 'by_verb': dict(verbs), 'differences': len(diffs),
                                  'failures_delivered_histogram': dict(fails_seen), 'seconds': round(unit_secs, 1)}
    res.coverage['traces_validated_against_impl'] = len(lines) - len(diffs)
    idx = list(range(len(lines)))
    res.samples = [{'request': lines[i][:300], 'impl': (c_out[i] or '')[:300], 'model': (l_out[i] or '')[:300]} for i in rng.sample(idx, min(6, len(idx)))]

    # ---- (2) conversion level: every k
    ndoc = 20 if res.tier == 'quick' else 10 ** 6
    wdocs = pick_docs(rng, ndoc, os.path.join(common.VERIF, 'corpus', 'wbxml', '*.wbxml'))
    xdocs = pick_docs(rng, ndoc, os.path.join(common.VERIF, 'corpus', 'xml', '*.xml'))
    tasks = [(d, f, o, 'single', 0, 0, 0) for d, fs in (('w2x', wdocs), ('x2w', xdocs)) for f in fs for o in range(N_OPTS)]
    if res.tier == 'thorough':
        small = lambda fs: sorted(fs, key=os.path.getsize)
        pw = pick_docs(random.Random(res.seed + 1), 10, os.path.join(common.VERIF, 'corpus', 'wbxml', '*.wbxml'))
        px = pick_docs(random.Random(res.seed + 2), 10, os.path.join(common.VERIF, 'corpus', 'xml', '*.xml'))
        tasks += [(d, f, o, 'pairs', 200000, 0, 0) for d, fs in (('w2x', small(pw)), ('x2w', small(px))) for f in fs for o in (0, 3)]
    tasks = replay_tasks + tasks
    t0 = time.time()
    with ThreadPoolExecutor(common.NCPU) as ex:
        done = list(ex.map(lambda t: conv_task(exe, env, *t), tasks))
    conv_secs = time.time() - t0
    tot = collections.Counter()
    found = collections.OrderedDict()       # (symptom, site) -> example
    optsets_hit, ndocs = set(), set()
    all_pcs = set()
    parsed = []
    for t in done:
        summ, anomalies = parse_conv(t)
        parsed.append((t, summ, anomalies))
        for a in anomalies:
            for key in ('fail1', 'fail2', 'faultpc'):
                all_pcs.update(parse_pcs(a['kv'].get(key)))
            for bl in a['blks']:
                all_pcs.update(parse_pcs(bl.split('@')[1]))
    sy.resolve(all_pcs)
    for t, summ, anomalies in parsed:
        for k in ('runs', 'err', 'oksame', 'okequiv', 'anomalies', 'crashes', 'unreached'):
            tot[k] += summ.get(k, 0)
        tot['tasks'] += 1
        tot['requests_unfailed'] += summ.get('N', 0)
        res.evaluations += summ.get('runs', 0)
        res.distinct.add((t['dir'], os.path.basename(t['path']), t['optset'], t['mode']))
        optsets_hit.add((t['dir'], t['optset']))
        ndocs.add(t['path'])
        for a in anomalies:
            sym, site, detail = describe(sy, a)
            key = (sym, site)
            size = os.path.getsize(t['path']) if os.path.exists(t['path']) else 0
            e = found.get(key)
            if e is None or (size, a['k1']) < (e['size'], e['k1']):
                found[key] = {'size': size, 'k1': a['k1'], 'k2': a['k2'], 'count': (e['count'] if e else 0) + 1, 'symptom': sym, 'site': site, 'detail': detail,
                              'direction': t['dir'], 'document': extra_label.get(t['path']) or os.path.relpath(t['path'], common.VERIF), 'optset': t['optset'],
                              'options': (W2X_OPTS if t['dir'] == 'w2x' else X2W_OPTS)[t['optset']], 'mode': t['mode'],
                              'document_hex': extra_data[t['path']].hex() if t['path'] in extra_data else None,
                              'sanitizer_report': a.get('report_head', ''), 'raw': {k: v for k, v in a['kv'].items() if k != 'report'}}
            else:
                e['count'] += 1
    res.coverage['conversion_level'] = {
        'label': 'TEST by enumeration (not a proof): implementation-side oracle = the property itself',
        'documents': len(ndocs), 'tasks': tot['tasks'], 'option_sets': sorted('%s:%d' % x for x in optsets_hit),
        'runs_with_one_or_two_failures': tot['runs'], 'requests_in_unfailed_runs': tot['requests_unfailed'],
        'outcome_error_clean': tot['err'], 'outcome_ok_identical': tot['oksame'], 'outcome_ok_equivalent_wbxml': tot['okequiv'],
        'oracle_failures': tot['anomalies'], 'crashes': tot['crashes'], 'stored_replays_run_first': len(replay_tasks),
        'extra_documents': sorted(extra_label.values()),
        'seconds': round(conv_secs, 1),
        'oracle': 'status != OK => out pointer NULL, length 0, no ledger fault, live blocks == before; status OK => output byte-identical to the '
                  'un-failed run (a differing WBXML result counts as correct only if both decode to the same canonical XML), live == the result; '
                  'ASan/UBSan abort or LSan report of the forked worker = result for that k'}

    # ---- decide
    matched = set()
    for (sym, site), e in found.items():
        k = next((k for k in known if k['match'].get('symptom') == sym.split(':')[0] and k['match'].get('site') == site), None)
        if k:
            matched.add(k['id'])
            continue
        name = re.sub(r'[^A-Za-z0-9]+', '-', '%s-%s' % (sym, site))[:120].strip('-')
        if len(res.violations) >= 12:
            # a defect in a low-level function shows at every call chain: list the rest in the evidence only
            res.coverage.setdefault('further_new_sites', []).append('%s @ %s (%s %s optset %d k=%d)' % (sym, site, e['direction'], e['document'], e['optset'], e['k1']))
            continue
        e = dict(e)
        e.update({'kind': 'oom-conversion', 'explain': 'the conversion violates the property when the request(s) at `site` fail',
                  'replay_cmd': 'harness oom conv %s %s %d %s 0 %d %d' % (e['direction'], e['document'], e['optset'], 'pairs' if e['k2'] else 'single', e['k1'], e['k1'])})
        res.violation(e, name)
    for k in known:
        if k['id'] in matched:
            res.known.append('%s: %s' % (k['id'], k['what']))

    new_unit = []
    for ln, c, ob in oracle_bad[:50]:
        new_unit.append((ln, c, ob))
    if new_unit:
        ln, c, ob = new_unit[0]
        if ln.split()[1] == 'U' and not c.startswith('CRASH'):
            ln = shrink_U(ln, lambda x: unit_oracle(x, run_lines([exe, 'unit'], [x], env=env, resilient=True)[0]) is not None)
            c = run_lines([exe, 'unit'], [ln], env=env, resilient=True)[0]
        elif ln.split()[1] == 'D':
            small = shrink_D(ln, exe, env, driver)
            if small:
                ln = small
                c = run_lines([exe, 'unit'], [ln], env=env, resilient=True)[0]
                ob = unit_oracle(ln, c) or ob
        res.violation({'kind': 'oom-unit', 'request': ln, 'impl': c, 'model': run_lines([driver], [ln])[0], 'oracle': ob,
                       'others': [x[0][:200] for x in new_unit[1:6]]}, 'unit-' + ln.split()[1])
    if diffs and not res.violations:
        ln, c, l = diffs[0]
        if ln.split()[1] == 'U' and c and not c.startswith('CRASH'):
            def differs(x):
                return run_lines([exe, 'unit'], [x], env=env, resilient=True)[0] != run_lines([driver], [x])[0]
            ln = shrink_U(ln, differs)
            c, l = run_lines([exe, 'unit'], [ln], env=env, resilient=True)[0], run_lines([driver], [ln])[0]
        # behaviour differs from the ledger model although the property holds on every input tried
        res.violation({'kind': 'correspondence', 'stream': 'OOM ' + ln.split()[1], 'request': ln, 'impl': c, 'model': l,
                       'differences': len(diffs), 'more': [d[0][:200] for d in diffs[1:6]],
                       'explain': 'the code no longer allocates/releases like Model/Alloc*.lean, so the theorems no longer speak about it; '
                                  'the enumeration over the corpus found no run that breaks the property'},
                      'oom-correspondence', no_input=True)
    if failing and not res.violations:
        res.violation({'kind': 'proof', 'theorems': failing, 'explain': 'Props/C16.lean no longer checks'}, 'proof', no_input=True)
    res.coverage['rule'] = ('unit: random op programs / attribute shapes / text lists / element trees / call-back event lists / whole documents (OOM D: wbxml_tree_from_wbxml) / trees for the XML printer (OOM X: wbxml_tree_to_xml) / XML texts with the Expat call-backs predicted (OOM F: wbxml_tree_from_xml) x every k (and sampled pairs), distinct = distinct '
                            'request lines; conversion: documents x 6 option sets x every k in 1..N (N counted on the un-failed run), distinct = (document, option set)')
    res.coverage['new_sites'] = len(res.violations)
    return res.finish('proof', checker_cmd='lake build Wbxml.Props.C16 driver_alloc && #audit Wbxml.Props.C16 (lake env lean); '
                                           'harness/oom (ledger allocator) unit + conv loops')
