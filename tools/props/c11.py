"""C11 — multi-byte integers, base64, hex and character entities are exact inverses.

Proof: lean/Wbxml/Props/C11.lean (universally quantified theorems about Model/Codec/*).
Tie:   CODEC request lines answered by harness/codec.c (the real functions, ASan+UBSan, static parser
       routines reached by source inclusion and through minimal documents at the public API) and by the
       compiled model (driver_codec); byte-exact comparison.
Oracle (on the implementation's own answers, independent of the Lean model): `expect_of(line)` below —
       a plain Python rendering of the property (shortest mb form, RFC 4648 via the stdlib, bytes.hex,
       str.encode('utf-8')) — plus the inverse laws evaluated in-process by the harness (ORACLE lines).
"""
import base64, binascii, concurrent.futures, glob, hashlib, json, os, random, re, subprocess, time
import common
from common import log

CORPUS = os.path.join(common.VERIF, 'corpus', 'c11')
DRIVER = os.path.join(common.LEAN, '.lake', 'build', 'bin', 'driver_codec')
M32 = 1 << 32
SKIPPED = '<skipped-after-crash>'
NOANSWER = ('CRASH', SKIPPED)
V3, NO = b'\x03', b''


# ------------------------------------------------------------------ independent reference (the property, in Python)

def mb_min(v):
    """Shortest multi-byte form of v (WBXML 1.3 §5.1): 7 bits per octet, MSB first, flag on all but the last."""
    out = [v & 0x7f]
    v >>= 7
    while v:
        out.append(0x80 | (v & 0x7f))
        v >>= 7
    return bytes(reversed(out))


def mb_spec_read(b):
    """What the property says about reading an mb_u_int32 at the start of b.
    -> ('ok', v, k) shortest form of a 32-bit value | ('reject',) runs to a sixth octet or is cut off |
       None: the property is silent (non-shortest form, more than 32 bits)."""
    v = 0
    for k, o in enumerate(b[:5], 1):
        v = (v << 7) | (o & 0x7f)
        if not o & 0x80:
            if v < M32 and mb_min(v) == bytes(b[:k]):
                return ('ok', v, k)
            return None
    return ('reject',)          # five flagged octets, or end of buffer inside the integer


def is_scalar(c):
    return 0 <= c < 0xD800 or 0xE000 <= c < 0x110000


def hx(b):
    return b.hex() if b else '-'


def unhx(s):
    return b'' if s == '-' else bytes.fromhex(s)


def expect_of(line):
    """The answer the PROPERTY demands for this request, or None where it demands nothing
    (malformed input: there the oracle is the sanitizer plus agreement with the proved model).
    'ERR:*' = any rejection."""
    t = line.split()
    verb = t[1]
    if verb == 'MBENC':
        return 'OK ' + hx(mb_min(int(t[2]) % M32))
    if verb == 'MBDEC':
        r = mb_spec_read(unhx(t[2]))
        if r is None:
            return None
        return f'OK {r[1]} {r[2]}' if r[0] == 'ok' else 'ERR:*'
    if verb == 'MBPUB':
        d = unhx(t[2])
        r = mb_spec_read(d[1:])
        if r is None or len(d) < 2 or d[1] == 0:
            return None
        if r[0] == 'reject':
            return 'ERR:*'
        return f'OK {r[1]}|OK ?' if d[1 + r[2]:] == bytes([0x6a, 0, 0x45, 1]) else None
    if verb in ('ENT', 'ENTDOC'):
        d = unhx(t[2])
        r = mb_spec_read(d)
        if r is None:
            return None
        if r[0] == 'reject':
            return 'ERR:*'
        if verb == 'ENTDOC' and len(d) != r[2]:
            return None
        c = r[1]
        tail = f' {r[2]}' if verb == 'ENT' else ''
        if c >= 0x80000000:
            return 'ERR:*'
        if is_scalar(c):
            return 'OK ' + chr(c).encode('utf-8').hex() + tail
        return None
    if verb == 'B64ENC':
        d = unhx(t[2])
        return ('OK ' + base64.b64encode(d).hex()) if d else None
    if verb == 'B64DEC':
        d = unhx(t[2])
        try:
            x = base64.b64decode(d, validate=True)
        except (binascii.Error, ValueError):
            return None
        # only canonical encodings of non-empty strings are in the property's domain
        return ('OK ' + x.hex()) if x and base64.b64encode(x) == d else None
    if verb == 'HEXENC':
        d = unhx(t[3])
        return 'OK ' + hx((d.hex().upper() if t[2] == '1' else d.hex()).encode())
    if verb == 'HEXDEC':
        d = unhx(t[2])
        if len(d) % 2 == 0 and (re.fullmatch(rb'[0-9a-f]*', d) or re.fullmatch(rb'[0-9A-F]*', d)):
            return 'OK ' + hx(bytes.fromhex(d.decode()))
        return None
    return None


def oracle_ok(line, impl):
    e = expect_of(line)
    if e is None:
        return True
    if e == 'ERR:*':
        return impl.startswith('ERR')
    return impl in e.split('|')


def same(line, impl, model):
    """Byte-exact agreement, except that the public-id route only shows the value when the id belongs to one
    of the library's languages (`OK ?` otherwise: the integer was accepted, nothing more is observable)."""
    if impl == model:
        return True
    return impl == 'OK ?' and model.startswith('OK ') and line.startswith('CODEC MBPUB ')


# ------------------------------------------------------------------ generators

def few_group_values():
    """All 32-bit values with at most two non-zero 7-bit groups."""
    vals = {0}
    top = [127, 127, 127, 127, 15]
    for i in range(5):
        for a in range(1, top[i] + 1):
            vals.add(a << (7 * i))
    for i in range(5):
        for j in range(i + 1, 5):
            for a in range(1, top[i] + 1):
                for b in range(1, top[j] + 1):
                    vals.add((a << (7 * i)) | (b << (7 * j)))
    return vals


def boundaries():
    bs = set()
    for k in (7, 8, 14, 16, 21, 24, 28, 31, 32):
        for d in (-2, -1, 0, 1):
            v = (1 << k) + d
            if 0 <= v < M32:
                bs.add(v)
    bs |= {0, 1, 2, 0x7f, 0x80, 0xff, 0x3fff, 0x4000, 0x1fffff, 0x200000, 0xfffffff, 0x10000000, 0xffffffff,
           0x7ff, 0x800, 0xfff, 0x1000, 0xffff, 0x10000, 0x3ffff, 0x40000, 0x10ffff, 0x110000, 0x1fffff,
           0x3ffffff, 0x4000000, 0x7fffffff, 0x80000000, 0xd7ff, 0xd800, 0xdfff, 0xe000, 0xfffe, 0xfeff}
    return bs


def gen_lines(rng, tier, cov):
    L = []

    def add(cat, s):
        L.append(s)
        cov[cat] = cov.get(cat, 0) + 1

    thorough = tier == 'thorough'
    bnd = sorted(boundaries())
    few = few_group_values()
    rnd32 = [rng.getrandbits(32) for _ in range(300000 if thorough else 100000)]
    # --- multi-byte integers: writer, and reader on the shortest form followed by arbitrary bytes
    for v in sorted(few | set(bnd)) + rnd32:
        add('mbenc', f'CODEC MBENC {v}')
        suf = bytes(rng.getrandbits(8) for _ in range(rng.choice((0, 0, 1, 3))))
        add('mbdec-valid', f'CODEC MBDEC {hx(mb_min(v) + suf)}')
    # --- malformed / unusual integer streams
    for _ in range(40000 if thorough else 15000):
        k = rng.choice((0, 1, 2, 3, 4, 5, 5, 6, 7))
        kind = rng.randrange(5)
        if kind == 0:      # random octets
            b = bytes(rng.getrandbits(8) for _ in range(k))
        elif kind == 1:    # all flagged: truncated (k<5) or running to a sixth octet
            b = bytes(0x80 | rng.getrandbits(7) for _ in range(k))
        elif kind == 2:    # non-shortest: leading 0x80 octets
            b = bytes([0x80] * rng.randrange(1, 5)) + mb_min(rng.getrandbits(rng.choice((7, 14, 21))))
        elif kind == 3:    # five octets carrying more than 32 bits
            b = bytes([0x90 | rng.getrandbits(4) | (rng.getrandbits(3) << 4)]) + bytes(0x80 | rng.getrandbits(7) for _ in range(3)) + bytes([rng.getrandbits(7)])
        else:              # shortest form cut short
            e = mb_min(rng.getrandbits(32))
            b = e[:rng.randrange(0, len(e))]
        add('mbdec-malformed', f'CODEC MBDEC {hx(b)}')
    # --- the same reader through the public API: public id of a minimal document
    tail = bytes([0x6a, 0, 0x45, 1])
    wellknown = list(range(2, 0x20)) + list(range(0x0FD0, 0x0FD8)) + list(range(0x1100, 0x1110)) + list(range(0x1200, 0x1210))
    for v in [x for x in bnd if x != 0] + wellknown + [rng.getrandbits(rng.choice((7, 14, 21, 28, 32))) or 1 for _ in range(3000)]:
        add('mbpub', f'CODEC MBPUB {hx(V3 + mb_min(v) + tail)}')
    for v in wellknown:     # non-shortest forms of ids the library knows: still that id
        add('mbpub-nonshortest', f'CODEC MBPUB {hx(V3 + bytes([0x80] * rng.randrange(1, 5 - len(mb_min(v)) + 1)) + mb_min(v) + tail)}')
    for _ in range(300):
        k = rng.randrange(1, 8)
        b = bytes(0x80 | rng.getrandbits(7) for _ in range(k))
        add('mbpub-malformed', f'CODEC MBPUB {hx(V3 + b + (tail if k >= 5 and rng.random() < .5 else NO))}')
    # --- entities: every Unicode scalar value, direct call
    for c in range(0x110000):
        if is_scalar(c):
            add('ent-scalar', f'CODEC ENT {hx(mb_min(c))}')
    for c in list(range(0xD800, 0xE000, 37)) + [0xD800, 0xDFFF]:
        add('ent-surrogate', f'CODEC ENT {hx(mb_min(c))}')
    for c in [x for x in bnd if x >= 0x110000] + [rng.randrange(0x110000, 1 << 31) for _ in range(20000)]:
        add('ent-beyond-unicode', f'CODEC ENT {hx(mb_min(c))}')
    for c in [0x80000000, 0x80000001, 0xffffffff] + [rng.randrange(1 << 31, M32) for _ in range(5000)]:
        add('ent-rejected', f'CODEC ENT {hx(mb_min(c))}')
    for _ in range(5000):
        k = rng.randrange(0, 7)
        b = bytes(0x80 | rng.getrandbits(7) for _ in range(k)) + (bytes([rng.getrandbits(7)]) if rng.random() < .5 else b'')
        add('ent-malformed-mb', f'CODEC ENT {hx(b)}')
    # --- entities through the public API (parser with handlers on `03 05 6a 00 45 02 <code> 01`)
    cs = [c for c in bnd if c < M32] + [rng.choice((rng.randrange(0x80), rng.randrange(0x800), rng.randrange(0x10000),
                                                     rng.randrange(0x110000), rng.randrange(1 << 31)))
                                        for _ in range(20000 if thorough else 6000)]
    for c in cs:
        add('entdoc', f'CODEC ENTDOC {hx(mb_min(c))}')
    for c in [rng.randrange(1 << 31, M32) for _ in range(500)]:
        add('entdoc-rejected', f'CODEC ENTDOC {hx(mb_min(c))}')
    for _ in range(300):
        add('entdoc-malformed-mb', f'CODEC ENTDOC {hx(bytes(0x80 | rng.getrandbits(7) for _ in range(rng.randrange(5, 8))))}')
    # --- base64 / hex: all byte strings of length 0..2, then longer ones
    short = [b''] + [bytes([a]) for a in range(256)] + [bytes([a, b]) for a in range(256) for b in range(256)]
    longer = []
    for _ in range(30000 if thorough else 10000):
        n = rng.choice((3, 3, 4, 5, 6, 7, 8, 9, 16, 31, 32, 33, 57, 100, 255, 256, 257, rng.randrange(3, 600)))
        m = rng.randrange(4)
        if m == 0:
            b = bytes(rng.getrandbits(8) for _ in range(n))
        elif m == 1:
            b = bytes(rng.choice((0, 0xff, 0x80, 0x7f, 0x3f, 0xfc, 0x03)) for _ in range(n))
        elif m == 2:
            b = bytes(rng.randrange(0x20, 0x7f) for _ in range(n))
        else:
            b = bytes([rng.getrandbits(8)]) * n
        longer.append(b)
    for b in short + longer:
        add('b64enc', f'CODEC B64ENC {hx(b)}')
        if b:
            add('b64dec-valid', f'CODEC B64DEC {hx(base64.b64encode(b))}')
    for b in short:
        add('b64dec-short-any', f'CODEC B64DEC {hx(b)}')
    alpha = b'ABCDEFGHIJKLMNOPQRSTUVWXYZabcdefghijklmnopqrstuvwxyz0123456789+/'
    for _ in range(30000 if thorough else 10000):
        n = rng.randrange(0, 40)
        s = bytearray(rng.choice(alpha) for _ in range(n))
        m = rng.randrange(6)
        if m == 0 and n:
            s[rng.randrange(n)] = rng.choice(b'=-_ \n\r\t\x00\xff*.')
        elif m == 1:
            s += b'=' * rng.randrange(1, 4)
        elif m == 2 and n:
            s[rng.randrange(n)] = rng.getrandbits(8)
        elif m == 3:
            s = bytearray(base64.b64encode(bytes(rng.getrandbits(8) for _ in range(rng.randrange(1, 20))))).rstrip(b'=')
        elif m == 4:
            s = bytearray(base64.encodebytes(bytes(rng.getrandbits(8) for _ in range(rng.randrange(40, 120)))))
        add('b64dec-malformed', f'CODEC B64DEC {hx(bytes(s))}')
    for b in short + longer:
        u = rng.getrandbits(1)
        add('hexenc', f'CODEC HEXENC {u} {hx(b)}')
        if len(b) <= 2:
            add('hexenc', f'CODEC HEXENC {1 - u} {hx(b)}')
        if b:
            h = b.hex()
            add('hexdec-valid', f'CODEC HEXDEC {hx((h.upper() if u else h).encode())}')
    for b in short:
        add('hexdec-short-any', f'CODEC HEXDEC {hx(b)}')
    hexd = b'0123456789abcdefABCDEF'
    for _ in range(30000 if thorough else 10000):
        n = rng.randrange(0, 40)
        s = bytearray(rng.choice(hexd) for _ in range(n))
        if n and rng.random() < .5:
            s[rng.randrange(n)] = rng.choice(b'gGxX /:@`\x00\xff') if rng.random() < .7 else rng.getrandbits(8)
        add('hexdec-malformed', f'CODEC HEXDEC {hx(bytes(s))}')
    return list(dict.fromkeys(L))


# ------------------------------------------------------------------ running both sides

class Runner:
    def __init__(self, build):
        self.b = build
        self.hc = build.harness('codec.c')
        self.crashes = []       # {'request', 'stderr'}
        self.oracle_msgs = []   # ORACLE lines of the harness (implementation-side inverse laws)

    def _harness_once(self, lines, flush=False):
        env = self.b.env()
        if flush:
            env['CODEC_FLUSH'] = '1'
        r = subprocess.run([self.hc], input='\n'.join(lines) + '\n', env=env, stdout=subprocess.PIPE,
                           stderr=subprocess.PIPE, text=True, errors='replace')
        out = r.stdout.split('\n')
        if out and out[-1] == '':
            out.pop()
        return r.returncode, out, r.stderr

    def harness(self, lines):
        """Answers of the real code; a sanitizer abort/crash is localised to its request line and the run
        continues behind it (answer 'CRASH')."""
        res, todo, guard = [], list(lines), 0
        while todo:
            rc, out, err = self._harness_once(todo)
            self.oracle_msgs += [l for l in err.split('\n') if l.startswith('ORACLE ')]
            if rc == 0 and len(out) == len(todo):
                res += out
                break
            rc, out, err = self._harness_once(todo, flush=True)
            if rc == 0 and len(out) == len(todo):      # not reproducible (should not happen: the harness is deterministic)
                res += out
                break
            k = min(len(out), len(todo) - 1)
            res += out[:k] + ['CRASH']
            self.crashes.append({'request': todo[k], 'exit': rc, 'stderr': err[-2500:]})
            # the same function is not called again in this chunk: one crash per function is a result, thousands are noise
            verb = todo[k].split()[1]
            rest = todo[k + 1:]
            res_rest = [None if l.split()[1] != verb else SKIPPED for l in rest]
            todo = [l for l in rest if l.split()[1] != verb]
            guard += 1
            if guard >= 25:
                res_rest = [SKIPPED] * len(rest)
                todo = []
            sub = self.harness(todo) if todo else []
            it = iter(sub)
            res += [next(it) if r is None else r for r in res_rest]
            return res
        return res

    def model(self, lines):
        r = subprocess.run([DRIVER], input='\n'.join(lines) + '\n', stdout=subprocess.PIPE, stderr=subprocess.PIPE, text=True)
        out = r.stdout.split('\n')
        if out and out[-1] == '':
            out.pop()
        out += ['<missing>'] * (len(lines) - len(out))
        return out[:len(lines)]

    def both(self, lines, jobs=None):
        jobs = jobs or max(1, min(8, common.NCPU // 2))
        if len(lines) < 20000:
            jobs = 1
        n = (len(lines) + jobs - 1) // jobs
        chunks = [lines[i:i + n] for i in range(0, len(lines), n)]
        with concurrent.futures.ThreadPoolExecutor(max_workers=2 * jobs) as ex:
            fc = [ex.submit(self.harness, c) for c in chunks]
            fl = [ex.submit(self.model, c) for c in chunks]
            c_out = [x for f in fc for x in f.result()]
            l_out = [x for f in fl for x in f.result()]
        return c_out, l_out


# ------------------------------------------------------------------ shrinking

def payload_pos(line):
    t = line.split()
    return 3 if t[1] == 'HEXENC' else 2


def shrink(runner, line, bad):
    """Delta-debug the request while `bad(line, impl, model)` persists. Numeric requests descend through
    smaller values, byte-string requests lose chunks / get their bytes zeroed."""
    t = line.split()
    best = line
    for _ in range(40):
        cands = []
        t = best.split()
        if t[1] == 'MBENC':
            v = int(t[2])
            cs = {v >> 1, v >> 7, v & (v - 1), v - 1, v & ~0x7f, v & 0x0fffffff, 1 << max(v.bit_length() - 1, 0)}
            cands = [f'CODEC MBENC {c}' for c in sorted(cs) if 0 <= c < v]
        else:
            p = payload_pos(best)
            d = unhx(t[p])
            n = len(d)
            seen = set()
            for size in (n // 2, n // 4, 3, 2, 1):
                if size < 1:
                    continue
                for i in range(0, n, size):
                    c = d[:i] + d[i + size:]
                    if c not in seen:
                        seen.add(c)
                        cands.append(' '.join(t[:p] + [hx(c)]))
            if t[1] in ('B64ENC', 'HEXENC'):
                for i in range(n):
                    if d[i]:
                        for z in (0, d[i] & (d[i] - 1)):
                            c = d[:i] + bytes([z]) + d[i + 1:]
                            if c not in seen:
                                seen.add(c)
                                cands.append(' '.join(t[:p] + [hx(c)]))
        cands = [c for c in dict.fromkeys(cands) if c != best][:400]
        if not cands:
            break
        c_out, l_out = runner.both(cands, jobs=1)
        nxt = next((c for c, a, m in zip(cands, c_out, l_out) if bad(c, a, m)), None)
        if nxt is None:
            break
        best = nxt
    return best


def value_of(line):
    """Sort key: prefer short payloads / small numbers when choosing which failure to report."""
    t = line.split()
    if t[1] == 'MBENC':
        return (0, int(t[2]))
    d = unhx(t[payload_pos(line)])
    return (len(d), int.from_bytes(d, 'big') if d else 0)


def group_of(line, impl):
    t = line.split()
    if t[1] in ('ENT', 'ENTDOC'):
        r = mb_spec_read(unhx(t[2]))
        if r and r[0] == 'ok':
            c = r[1]
            return f'{t[1]}:' + ('code0' if c == 0 else 'utf8-2' if c < 0x800 else 'utf8-3' if c < 0x10000 else 'utf8-4' if c < 0x110000 else 'beyond' if c < 1 << 31 else 'reject')
    return t[1]


def entity_code(line):
    t = line.split()
    if t[1] in ('ENT', 'ENTDOC'):
        r = mb_spec_read(unhx(t[2]))
        if r and r[0] == 'ok':
            return r[1]
    return None


def matches_known(k, line):
    m = k.get('match', {})
    if m.get('kind') == 'entity':
        return entity_code(line) == m.get('code')
    if m.get('kind') == 'request':
        return line == m.get('line')
    return False


# ------------------------------------------------------------------ the sweeps of the thorough tier

def sweep_all_mb(res):
    """decode(encode v) = v ∧ shortest form, for ALL 2^32 values, in-process, 16 threads (-O2, no sanitizer)."""
    t0 = time.time()
    pb = common.Build('plain')
    exe = pb.harness('codec.c', name='codec_fast', extra=['-O2'])
    r = subprocess.run([exe, 'SWEEP', str(min(16, common.NCPU))], stdout=subprocess.PIPE, stderr=subprocess.PIPE, text=True, timeout=3000)
    m = re.search(r'SWEEP values=(\d+) bad=(\d+) (.*)', r.stdout)
    res.coverage['mb_sweep'] = {'output': r.stdout.strip().split('\n')[-1], 'secs': round(time.time() - t0, 1)}
    if not m:
        return [{'request': '<SWEEP>', 'impl': (r.stdout + r.stderr)[-1500:], 'expect': 'SWEEP values=4294967296 bad=0', 'why': 'sweep did not complete'}]
    res.evaluations += int(m.group(1))
    bad = []
    if int(m.group(2)):
        for b in re.finditer(r'BAD first=(\d+) count=(\d+)', r.stdout):
            bad.append({'request': f'CODEC MBENC {b.group(1)}', 'why': f'sweep: {b.group(2)} values of this thread slice fail decode(encode v)=v ∧ minimal'})
    return bad


def sweep_len3(runner, res):
    """All 2^24 byte strings of length 3 through wbxml_base64_encode (+ in-harness decode∘encode) and the model."""
    t0 = time.time()
    fails, ndiff = [], 0

    def one(a):
        lines = [f'CODEC B64ENC {a:02x}{b:02x}{c:02x}' for b in range(256) for c in range(256)]
        c_out = runner.harness(lines)
        l_out = runner.model(lines)
        out = []
        for ln, x, y in zip(lines, c_out, l_out):
            if x not in NOANSWER and (not same(ln, x, y) or not oracle_ok(ln, x)):
                out.append((ln, x, y))
        return out
    with concurrent.futures.ThreadPoolExecutor(max_workers=max(2, common.NCPU // 2)) as ex:
        for r in ex.map(one, range(256)):
            fails += r[:3]
            ndiff += len(r)
    res.evaluations += 1 << 24
    res.coverage['b64_len3_sweep'] = {'strings': 1 << 24, 'differences_or_oracle_failures': ndiff, 'secs': round(time.time() - t0, 1)}
    return fails


# ------------------------------------------------------------------ entry point

class _Count:
    """`len()`-only stand-in for the set of distinct request lines (all lines are distinct by construction;
    2^24 + 2·10^6 strings are not kept in memory)."""
    def __init__(self, n): self.n = n
    def add(self, _): self.n += 1
    def __len__(self): return self.n


def corpus_lines():
    out = []
    for p in sorted(glob.glob(os.path.join(CORPUS, '*.txt'))):
        for l in open(p):
            l = l.strip()
            if l.startswith('CODEC '):
                out.append(l)
    return list(dict.fromkeys(out))


def store_corpus(line):
    try:
        os.makedirs(CORPUS, exist_ok=True)
        p = os.path.join(CORPUS, 'found.txt')
        have = open(p).read().split('\n') if os.path.exists(p) else []
        if line not in have and len(have) < 300:
            with open(p, 'a') as f:
                f.write(line + '\n')
    except OSError:
        pass


def run(res, args):
    rng = random.Random(res.seed)
    b = common.Build('asan')
    ok, failing = common.proof_step(res, ['Wbxml.Props.C11'], 'Wbxml.Props.C11', extra_targets=['driver_codec'])
    if not os.path.exists(DRIVER):
        raise common.BuildError('driver_codec did not build:\n' + str(res.coverage.get('build_log_tail', '')))
    runner = Runner(b)
    known = [k for k in common.load_known()['findings'] if k['property'] == 'C11']
    res.assumptions += ['WB_ULONG is 32 bits wide (checked by the harness build: values ≥ 2^32 are truncated identically on both sides)',
                        'base64/hex/mb input lengths < 2^31 (WB_LONG length parameters)']
    res.trusted += ['tools/props/c11.py expect_of(): Python stdlib base64 / bytes.hex / str.encode("utf-8") as the independent reference on the implementation side']

    # ---- replay mode: re-run the request(s) of a replay file only
    if getattr(args, 'replay', None):
        rp = json.load(open(args.replay))
        lines = [rp['request']] if isinstance(rp.get('request'), str) else list(rp.get('requests', []))
        lines = [l for l in lines if l.startswith('CODEC ')]
        c_out, l_out = runner.both(lines, jobs=1)
        still = 0
        for ln, x, y in zip(lines, c_out, l_out):
            bad = not same(ln, x, y) or not oracle_ok(ln, x)
            kn = any(matches_known(k, ln) for k in known)
            print(f'REPLAY {ln} impl={x} model={y} expect={expect_of(ln)} -> {"KNOWN" if bad and kn else "FAILS" if bad else "passes"}')
            if bad and not kn:
                still += 1
                res.violation({'kind': 'replay', 'request': ln, 'impl': x, 'model': y, 'expect': expect_of(ln)}, 'replay')
        return res.finish('proof', checker_cmd='replay')

    # ---- correspondence + oracle
    cov = {}
    t0 = time.time()
    lines = list(dict.fromkeys(corpus_lines() + gen_lines(rng, res.tier, cov)))
    t1 = time.time()
    c_out, l_out = runner.both(lines)
    t2 = time.time()
    log(f'{len(lines)} CODEC requests generated in {t1 - t0:.1f}s, answered by both sides in {t2 - t1:.1f}s')
    res.evaluations += len(lines)
    res.distinct = _Count(len(lines))

    diffs, ofail, answers = [], [], {}
    for ln, x, y in zip(lines, c_out, l_out):
        key = x.split(' ')[0] if not x.startswith('ERR') else x
        answers[key] = answers.get(key, 0) + 1
        if x in NOANSWER:
            continue
        d = not same(ln, x, y)
        o = not oracle_ok(ln, x)
        if d:
            diffs.append((ln, x, y))
        if o:
            ofail.append((ln, x, y))
    res.coverage['requests_by_kind'] = cov
    res.coverage['mbpub_value_confirmed_by_accessor'] = sum(1 for ln, x in zip(lines, c_out) if ln.startswith('CODEC MBPUB') and re.fullmatch(r'OK \d+', x))
    res.coverage['answers_of_impl'] = answers
    res.coverage['traces_validated_against_impl'] = len(lines) - len(diffs)
    res.coverage['oracle_checked'] = sum(1 for ln in rng.sample(lines, min(len(lines), 20000)) if expect_of(ln) is not None) / min(len(lines), 20000)
    res.coverage['rule'] = ('boundaries, every value with ≤ 2 non-zero 7-bit groups and 10^5 random 32-bit values through '
                            'wbxml_buffer_append_mb_uint_32 and parse_mb_uint32 (+ malformed streams, + public id of minimal documents); '
                            'all 1,112,064 Unicode scalar values, sampled surrogates / codes up to 2^32 through parse_entity (+ documents through '
                            'wbxml_parser_parse with handlers); all byte strings of length 0–2 and 10^4 longer through wbxml_base64_encode/decode, '
                            'wbxml_buffer_binary_to_hex/hex_to_binary (+ malformed texts); distinct = distinct request lines')
    idx = rng.sample(range(len(lines)), min(8, len(lines)))
    res.samples = [{'request': lines[i], 'impl': c_out[i], 'model': l_out[i], 'property_expects': expect_of(lines[i])} for i in idx]

    extra_fail = []
    if res.tier == 'thorough':
        # second opinion on the compiled proofs
        lc = common.run(['lake', 'env', 'leanchecker', 'Wbxml.Props.C11'], cwd=common.LEAN, timeout=1800)
        res.coverage['leanchecker'] = {'rc': lc.returncode, 'tail': lc.stdout[-300:]}
        if lc.returncode != 0:
            failing.append('<leanchecker>')
        for f in sweep_all_mb(res):
            if f['request'].startswith('CODEC '):
                x, y = runner.both([f['request']], jobs=1)
                ofail.append((f['request'], x[0], y[0]))
            else:
                extra_fail.append(f)
        l3 = sweep_len3(runner, res)
        res.distinct = _Count(len(res.distinct) + (1 << 24))
        for ln, x, y in l3:
            if not same(ln, x, y):
                diffs.append((ln, x, y))
            if not oracle_ok(ln, x):
                ofail.append((ln, x, y))

    # ---- decide
    def not_known(ln):
        return not any(matches_known(k, ln) for k in known)

    def bad_oracle(ln, x, y):
        return not oracle_ok(ln, x) and not_known(ln)

    def bad_diff(ln, x, y):
        return not same(ln, x, y) and not_known(ln)

    reported = 0
    seen_known = {}
    groups = {}
    for ln, x, y in ofail:
        k = next((k for k in known if matches_known(k, ln)), None)
        if k:
            seen_known.setdefault(k['id'], (k, ln, x))
            continue
        groups.setdefault(group_of(ln, x), []).append((ln, x, y))
    for g, items in sorted(groups.items()):
        ln, x, y = min(items, key=lambda it: value_of(it[0]))
        small = shrink(runner, ln, lambda l, a, m, g=g: bad_oracle(l, a, m) and group_of(l, a) == g)
        sx, sy = runner.both([small], jobs=1)
        store_corpus(small)
        res.violation({'kind': 'oracle', 'request': small, 'impl': sx[0], 'model': sy[0], 'property_expects': expect_of(small),
                       'failing_requests_in_group': len(items), 'first_found': ln,
                       'explain': 'the real function\'s answer contradicts the property (independent Python reference); '
                                  're-run: tools/check.py C11 --replay <this file>'}, f'oracle-{g.replace(":", "-")}')
        reported += 1
    laws = {}
    for m in set(runner.oracle_msgs):
        what, _, req = m[len('ORACLE '):].partition(' :: ')
        if any(matches_known(k, req) for k in known) or req.split()[1] in groups:
            continue            # known, or already reported through the reference oracle for the same function
        laws.setdefault(what, []).append(req)
    for what, reqs in sorted(laws.items()):
        req = min(reqs, key=value_of)
        store_corpus(req)
        res.violation({'kind': 'impl-inverse-law', 'request': req, 'law': what, 'failing_requests': len(reqs),
                       'explain': 'evaluated in-process on the implementation\'s own output by harness/codec.c'}, f'law-{what}')
        reported += 1
    by_verb = {}
    for c in runner.crashes:
        if not any(matches_known(k, c['request']) for k in known):
            by_verb.setdefault(c['request'].split()[1], []).append(c)
    for verb, cs in sorted(by_verb.items()):
        c = min(cs, key=lambda c: value_of(c['request']))
        small = shrink(runner, c['request'], lambda l, a, m: a == 'CRASH')
        n0 = len(runner.crashes)
        sx, sy = runner.both([small], jobs=1)
        err = runner.crashes[-1]['stderr'] if len(runner.crashes) > n0 else c['stderr']
        store_corpus(small)
        res.violation({'kind': 'sanitizer-or-crash', 'request': small, 'impl': sx[0], 'model': sy[0], 'exit': c['exit'],
                       'first_found': c['request'], 'stderr': err,
                       'explain': 'the real function aborted under ASan/UBSan (or crashed) on this request'}, f'crash-{verb}')
        reported += 1
    for f in extra_fail:
        res.violation({'kind': 'sweep', **f}, 'mb-sweep', no_input=True)
        reported += 1
    for kid, (k, ln, x) in seen_known.items():
        res.known.append(f"{kid}: {k['what']} [request {ln} -> {x}]")

    # differences that are not explained by a reported oracle failure / known finding
    unexplained = [(ln, x, y) for ln, x, y in diffs if oracle_ok(ln, x) and x != 'CRASH' and not_known(ln)]
    if unexplained and not reported:
        # behaviour changed where the property is silent (or the model is out of date): bounded search with a fresh seed
        rng2 = random.Random(res.seed * 7919 + 1)
        have = set(lines)
        more = [l for l in gen_lines(rng2, 'thorough', {}) if l not in have and not l.startswith('CODEC ENT ')][:600000]
        cx, lx = runner.both(more)
        res.evaluations += len(more)
        found = [(ln, x, y) for ln, x, y in zip(more, cx, lx) if x not in NOANSWER and not oracle_ok(ln, x) and not_known(ln)]
        if found:
            ln, x, y = min(found, key=lambda it: value_of(it[0]))
            small = shrink(runner, ln, bad_oracle)
            sx, sy = runner.both([small], jobs=1)
            store_corpus(small)
            res.violation({'kind': 'oracle', 'request': small, 'impl': sx[0], 'model': sy[0], 'property_expects': expect_of(small)}, 'oracle-search')
        else:
            ln, x, y = min(unexplained, key=lambda it: value_of(it[0]))
            small = shrink(runner, ln, bad_diff)
            sx, sy = runner.both([small], jobs=1)
            store_corpus(small)
            res.violation({'kind': 'correspondence', 'stream': 'CODEC', 'request': small, 'impl': sx[0], 'model': sy[0],
                           'differences': len(unexplained), 'first_differences': unexplained[:5],
                           'explain': 'the real function no longer behaves like the model the theorems are about (on input where the '
                                      'property itself demands nothing); the property is no longer shown'}, 'codec-correspondence', no_input=True)
        reported += 1
    if failing and not reported:
        res.violation({'kind': 'proof', 'theorems': failing, 'explain': 'Props/C11.lean no longer checks'}, 'proof', no_input=True)
    res.coverage['correspondence_differences'] = len(diffs)
    res.coverage['oracle_failures'] = len(ofail)
    return res.finish('proof', checker_cmd='lake build Wbxml.Props.C11 driver_codec && #audit Wbxml.Props.C11 (lake env lean)')
