"""C12 — typed content survives encoding and decoding unchanged in value.

Proof : lean/Wbxml/Props/C12.lean (datetime_roundtrip, wvint_roundtrip, wvint_overflow, wvdate_roundtrip,
        binary clauses) over the hand model lean/Wbxml/Model/Typed/*.lean.
Tie   : TYPED lines — the static codec routines (harness/typed.c built twice: parser side / encoder side)
        and minimal SI/EMN/WV/OTA/DRMREL/SyncML/AirSync/ActiveSync documents through
        wbxml_conv_wbxml2xml_withlen / wbxml_conv_xml2wbxml_withlen / wbxml_tree_{from,to}_wbxml,
        diffed byte-exactly against lean/Driver/Typed.lean (driver_typed).
Oracle: the property itself, computed here from the standards (calendar, BCD, big-endian, bit layout,
        RFC 4648 via Python's base64) and applied to the implementation's own answers.
"""
import base64, calendar, json, os, random, re, subprocess, time
import common
from common import log

LANG_SI, LANG_EMN, LANG_DRMREL, LANG_OTA = 1301, 1701, 1801, 1901
LANG_SYNCML = (2001, 2101, 2201)
LANG_WV = (2301, 2302)
LANG_AS = (2401, 2402)
ZONES = [c for c in 'ABCDEFGHIKLMNOPQRSTUVWXYZ']          # A–Z without J (Z = UTC)

# ---------------------------------------------------------------- small specs (independent of the C code)


def hx(b):
    return b.hex() if b else '-'


def canon(dt):
    return '%04d-%02d-%02dT%02d:%02d:%02dZ' % dt


def bcd7(dt):
    s = '%04d%02d%02d%02d%02d%02d' % dt
    return bytes.fromhex(s)


def strip_zero_octets(b):
    while b and b[-1] == 0:
        b = b[:-1]
    return b


def trunc_to(dt, k):
    y, mo, d, h, mi, s = dt
    return (y, mo, d, h if k >= 5 else 0, mi if k >= 6 else 0, s if k >= 7 else 0)


def mb(v):
    out = [v & 0x7f]
    v >>= 7
    while v:
        out.insert(0, 0x80 | (v & 0x7f))
        v >>= 7
    return bytes(out)


def opaque(p):
    return b'\xc3' + mb(len(p)) + p


def stri(s):
    return b'\x03' + s + b'\x00'


def be_min(n):
    return n.to_bytes(4, 'big').lstrip(b'\x00')


def wv_basic(dt, z):
    return '%04d%02d%02dT%02d%02d%02d' % dt + (z or '')


def wv_pack(dt, z):
    y, mo, d, h, mi, s = dt
    v = (y << 26) | (mo << 22) | (d << 17) | (h << 12) | (mi << 6) | s      # 2 reserved bits, 12/4/5/5/6/6
    return v.to_bytes(5, 'big') + bytes([ord(z) if z else 0])


_RB = re.compile(rb'^(\d{4})(\d\d)(\d\d)T(\d\d)(\d\d)(\d\d)?([A-IK-Z])?$')


def read_basic(b):
    m = _RB.match(b)
    if not m:
        return None
    g = m.groups()
    return (int(g[0]), int(g[1]), int(g[2]), int(g[3]), int(g[4]), int(g[5] or 0)), (g[6].decode() if g[6] else None)


def rand_dt(rng, year=None):
    y = rng.choice([0, 1, 999, 1000, 1999, 2000, 2024, 4095, 4096, 9999]) if (year is None and rng.random() < 0.3) else \
        (rng.randrange(10000) if year is None else year)
    mo = rng.choice([1, 2, 12, rng.randint(1, 12)])
    dim = calendar.monthrange(y if y > 0 else 4, mo)[1] if y != 0 else (29 if mo == 2 else calendar.monthrange(4, mo)[1])
    d = rng.choice([1, dim, 10, 20, 30 if dim >= 30 else dim, rng.randint(1, dim)])
    shape = rng.randrange(8)
    h, mi, s = rng.randrange(24), rng.randrange(60), rng.randrange(60)
    if shape == 0: h = mi = s = 0
    elif shape == 1: mi = s = 0
    elif shape == 2: s = 0
    elif shape == 3: h, mi, s = 23, 59, 59
    elif shape == 4: h, mi, s = rng.choice([0, 10, 20]), rng.choice([0, 10, 30, 50]), rng.choice([0, 10, 40])
    elif shape == 5: h, s = 0, 0
    return (y, mo, d, h, mi, s)


def is_leap(y):
    return (y % 4 == 0 and y % 100 != 0) or y % 400 == 0


def all_days(y):
    for mo in range(1, 13):
        dim = [31, 29 if is_leap(y) else 28, 31, 30, 31, 30, 31, 31, 30, 31, 30, 31][mo - 1]
        for d in range(1, dim + 1):
            yield mo, d


# ---------------------------------------------------------------- cases

class Case:
    __slots__ = ('line', 'side', 'oracle', 'kind', 'kf', 'data', 'mk')

    def __init__(self, line, side, oracle=None, kind='', kf=None, data=None, mk=None):
        self.line, self.side, self.oracle, self.kind, self.kf, self.data, self.mk = line, side, oracle, kind, kf, data, mk


def expect_eq(want):
    def f(resp):
        return None if resp == want else f'expected {want}'
    return f


def expect_ok_bytes(want):
    return expect_eq('OK ' + hx(want))


def expect_any(*wants):
    def f(resp):
        return None if resp in wants else 'expected one of ' + ' | '.join(wants)
    return f


class Gen:
    def __init__(self, d, rng, tier):
        self.d, self.rng, self.tier = d, rng, tier
        self.cases = []
        T = d['tables']
        self.lang = {l['id']: l for l in d['langs']}

        def tagname(lid, page, token):
            rows = T[str(self.lang[lid]['tags'])]['rows']
            r = next((r for r in rows if r[1] == page and r[2] == token), None)
            if not r:
                return None
            nm = r[0]
            # the harness and the XML tree builder look the name up (first match): it must lead back here
            first = next(x for x in rows if x[0] == nm)
            return bytes.fromhex(nm).decode() if (first[1], first[2]) == (page, token) else None
        self.wv_int_dec = {}    # lang -> [name] integer on the parser side
        self.wv_int_enc = {}
        self.wv_date = {}
        dec_int = [(0, t) for t in (0x0B, 0x0F, 0x1A, 0x3C)] + [(1, t) for t in (0x1C, 0x25, 0x26, 0x27, 0x28, 0x32)] + \
                  [(3, t) for t in (0x05, 0x06, 0x0C, 0x0D, 0x0E, 0x12, 0x13)] + [(5, t) for t in (0x05, 0x09, 0x32)] + \
                  [(9, t) for t in (0x08, 0x0A)]
        for lid in LANG_WV:
            self.wv_int_dec[lid] = [n for n in (tagname(lid, p, t) for p, t in dec_int) if n]
            self.wv_int_enc[lid] = [n for n in (tagname(lid, p, t) for p, t in dec_int if p != 5) if n]
            self.wv_date[lid] = [n for n in (tagname(lid, 0, 0x11), tagname(lid, 6, 0x1A)) if n]
        self.bin_tags = {}
        for lid in LANG_AS:
            rows = T[str(self.lang[lid]['tags'])]['rows']
            self.bin_tags[lid] = [n for n in (tagname(lid, r[1], r[2]) for r in rows if r[3] & 1) if n]
        self.ext_names = set()
        for lid in LANG_WV:
            if self.lang[lid]['exts'] is not None:
                self.ext_names |= {bytes.fromhex(r[0]) for r in T[str(self.lang[lid]['exts'])]['rows']}
        self.ota_value_prefixes = [bytes.fromhex(r[1]) for r in T[str(self.lang[LANG_OTA]['attrs'])]['rows']
                                   if bytes.fromhex(r[0]) == b'VALUE' and r[1] is not None]
        self.nonce = {lid: tagname(lid, 1, 0x10) for lid in LANG_SYNCML}
        self.keyvalue = tagname(LANG_DRMREL, 0, 0x0C)

    def add(self, *a, **k):
        self.cases.append(Case(*a, **k))

    # ---- SI / EMN %Datetime
    def datetime_cases(self, dts, e2e_every):
        rng = self.rng
        for i, dt in enumerate(dts):
            c, b7 = canon(dt).encode(), bcd7(dt)
            kept = strip_zero_octets(b7)
            assert len(kept) >= 4
            self.add(f'TYPED DT_ENC {hx(c)}', 'enc', expect_ok_bytes(opaque(kept)), 'dt-enc')
            self.add(f'TYPED DT_DEC {hx(kept)}', 'dec', expect_ok_bytes(c), 'dt-dec')
            for k in (4, 5, 6, 7):                                  # every legal truncation of the 7 octets
                if k != len(kept):
                    self.add(f'TYPED DT_DEC {hx(b7[:k])}', 'dec', expect_ok_bytes(canon(trunc_to(dt, k)).encode()), 'dt-dec-trunc')
            if i % e2e_every == 0:
                shp = rng.choice([f'{LANG_SI} A indication created', f'{LANG_SI} A indication si-expires', f'{LANG_EMN} A emn timestamp'])
                self.add(f'TYPED RT {shp} {hx(c)}', 'any', expect_ok_bytes(c), 'dt-rt')
                self.add(f'TYPED X2W {shp} {hx(c)}', 'any', expect_ok_bytes(opaque(kept)), 'dt-x2w')
                k = rng.choice((4, 5, 6, 7))
                self.add(f'TYPED W2X {shp} {hx(opaque(b7[:k]))}', 'any', expect_ok_bytes(canon(trunc_to(dt, k)).encode()), 'dt-w2x')
                self.add(f'TYPED W2W {shp} {hx(opaque(kept))}', 'any', expect_ok_bytes(opaque(kept)), 'dt-w2w')

    def datetime_malformed(self, n):
        rng = self.rng
        for _ in range(n):
            p = bytes(rng.randrange(256) if rng.random() < 0.5 else rng.choice([0, 0x10, 0x99, 0x20, 0x01]) for _ in range(rng.randrange(0, 10)))
            self.add(f'TYPED DT_DEC {hx(p)}', 'dec', None, 'dt-dec-mal')
            t = ''.join(rng.choice('0123456789' * 4 + 'TZ-:' * 2 + ' x+./a') for _ in range(rng.randrange(0, 24)))
            if rng.random() < 0.5:
                t = canon(rand_dt(rng))
                j = rng.randrange(len(t))
                t = rng.choice([t[:j], t[:j] + t[j + 1:], t[:j] + rng.choice('0Tx:- ') + t[j:], t.replace('-', ''), t.replace('Z', ''), t.lower()])
            self.add(f'TYPED DT_ENC {hx(t.encode())}', 'enc', None, 'dt-enc-mal')
            if rng.random() < 0.1:
                self.add(f'TYPED W2X {LANG_SI} A indication created {hx(opaque(p))}', 'any', None, 'dt-w2x-mal')

    # ---- WV integers
    def wvint_cases(self, ns, e2e_every):
        rng = self.rng
        for i, n in enumerate(ns):
            t, b = str(n).encode(), be_min(n)
            if rng.random() < 0.05:
                t = b'0' * rng.randint(1, 3) + t                      # leading zeros: same value
            self.add(f'TYPED WVI_ENC {hx(t)}', 'enc', expect_ok_bytes(opaque(b)), 'wvi-enc')
            self.add(f'TYPED WVI_DEC {hx(b)}', 'dec', expect_ok_bytes(str(n).encode()), 'wvi-dec')
            if i % e2e_every == 0:
                lid = rng.choice(LANG_WV)
                tag = rng.choice(self.wv_int_enc[lid])
                self.add(f'TYPED RT {lid} E {tag} {hx(t)}', 'any', expect_ok_bytes(str(n).encode()), 'wvi-rt')
                self.add(f'TYPED X2W {lid} E {tag} {hx(t)}', 'any', expect_ok_bytes(opaque(b)), 'wvi-x2w')
                tag = rng.choice(self.wv_int_dec[lid])
                self.add(f'TYPED W2X {lid} E {tag} {hx(opaque(b))}', 'any', expect_ok_bytes(str(n).encode()), 'wvi-w2x')
                if tag in self.wv_int_enc[lid]:
                    self.add(f'TYPED W2W {lid} E {tag} {hx(opaque(b))}', 'any', expect_ok_bytes(opaque(b)), 'wvi-w2w')

    def wvint_opaque_cases(self, n):
        """opaque integers of 0–8 octets: value < 2^32 ⇒ its decimal form, otherwise error 80 — never another number"""
        rng = self.rng
        fixed = [b'', b'\x00', b'\x00\x00\x00\x00\x00', b'\x01\x00\x00\x00\x00', b'\x01\x00\x00\x00\x01', b'\x00\xff\xff\xff\xff',
                 b'\x00\x00\x00\x00\xff\xff\xff\xff', b'\xff' * 8, b'\x00\x00\x00\x01\x00\x00\x00\x00', b'\xff\xff\xff\xff',
                 b'\x00\x00\x01\x00\x00\x00\x00', b'\x80\x00\x00\x00\x00\x00\x00\x00', b'\x00\x00\x00\x00\x00\x00\x00\x01']
        for i in range(n):
            if i < len(fixed):
                p = fixed[i]
            else:
                ln = rng.randrange(0, 9)
                p = bytes(rng.randrange(256) for _ in range(ln))
                if rng.random() < 0.5:
                    z = rng.randrange(0, ln + 1)
                    p = b'\x00' * z + p[z:]
            v = int.from_bytes(p, 'big')
            want = ('OK ' + hx(str(v).encode())) if v < 2 ** 32 else 'ERR:80'

            def mk(q, self=self):
                vv = int.from_bytes(q, 'big')
                w = ('OK ' + hx(str(vv).encode())) if vv < 2 ** 32 else 'ERR:80'
                return Case(f'TYPED WVI_DEC {hx(q)}', 'dec', expect_eq(w), 'wvi-dec-opaque', data=q, mk=mk)
            self.cases.append(mk(p))
            if i % 4 == 0:
                lid = rng.choice(LANG_WV)
                tag = rng.choice(self.wv_int_dec[lid])
                self.add(f'TYPED W2X {lid} E {tag} {hx(opaque(p))}', 'any', expect_eq(want if p else 'OK 30'), 'wvi-w2x-opaque')

    def wvint_text_cases(self, n):
        """element text that is not a number in 0..2^32-1: it may be refused or carried unchanged, never turned into another number"""
        rng = self.rng
        fixed = ['4294967296', '4294967297', '8589934592', '99999999999999999999', '18446744073709551616', '18446744073709551615',
                 '9223372036854775808', 'abc', '12abc', '-1', '+5', '1.5', '1e3', '0x1F', '0X1f', '0x', '0xZZ', '1x5', '0x100000000',
                 '0xFFFFFFFF', '0x00000000000000001', '0x1G', '12 34', 'T', 'F', '0', '00', '4294967295', '04294967295', '1x', 'x1', '0xx1',
                 '٣', '12 ']
        for i in range(n):
            if i < len(fixed):
                t = fixed[i]
            else:
                r = rng.random()
                if r < 0.3:
                    t = str(rng.randrange(2 ** 32, 2 ** 70))
                elif r < 0.6:
                    t = ''.join(rng.choice('0123456789' * 3 + 'abcxXefg+-. ') for _ in range(rng.randint(1, 14))).strip() or 'q'
                elif r < 0.8:
                    t = '0x' + ''.join(rng.choice('0123456789abcdefABCDEF') for _ in range(rng.randint(1, 18)))
                else:
                    t = str(rng.randrange(2 ** 32)) + rng.choice(['a', ' 1', 'x', '-', '.0', 'L', 'u'])
            tb = t.encode()
            if tb in self.ext_names:
                continue
            val = int(t) if re.fullmatch(r'[0-9]+', t) else (int(t, 16) if re.fullmatch(r'0[xX][0-9a-fA-F]+', t) else None)

            def oracle_rt(resp, tb=tb, val=val):
                if resp in ('ERR', 'ERR:80'):
                    return None
                if resp.startswith('OK '):
                    got = bytes.fromhex(resp[3:]) if resp[3:] != '-' else b''
                    if got == tb:
                        return None
                    if val is not None and val < 2 ** 32 and re.fullmatch(rb'[0-9]+', got) and int(got) == val:
                        return None
                return 'text of an integer element came back as a different value'

            def oracle_enc(resp, tb=tb, val=val):
                if resp in ('ERR', 'ERR:80', 'NOTENC'):
                    return None
                if val is not None and val < 2 ** 32 and resp == 'OK ' + hx(opaque(be_min(val))):
                    return None
                return 'integer text encoded as a different number'
            self.add(f'TYPED WVI_ENC {hx(tb)}', 'enc', oracle_enc, 'wvi-enc-text', kf='wvint-text')
            if all(0x20 <= c < 0x7f or c >= 0x80 for c in tb) and not any(c in tb for c in b'<&"'):
                lid = rng.choice(LANG_WV)
                tag = rng.choice(self.wv_int_enc[lid])
                self.add(f'TYPED RT {lid} E {tag} {hx(tb)}', 'any', oracle_rt, 'wvi-rt-text', kf='wvint-text')

    # ---- WV date and time
    def wvdate_cases(self, dts, e2e_every, zones_all):
        rng = self.rng
        for i, dt in enumerate(dts):
            zs = (ZONES + [None]) if zones_all(i) else [rng.choice(ZONES + [None])]
            for z in zs:
                t = wv_basic(dt, z).encode()
                fits = dt[0] <= 4095

                def same(resp, dt=dt, z=z):
                    if not resp.startswith('OK '):
                        return 'date-time refused'
                    r = read_basic(bytes.fromhex(resp[3:]) if resp[3:] != '-' else b'')
                    return None if r == (dt, z) else 'date-time came back as a different value'

                def same_or_err(resp, same=same, fits=fits):
                    if resp == 'ERR' and not fits:
                        return None                                   # a year the 12-bit field cannot carry may be refused
                    return same(resp)
                if z == 'Z':
                    self.add(f'TYPED WVD_ENC {hx(t)}', 'enc', expect_ok_bytes(stri(t)), 'wvd-enc-utc')
                    if fits:
                        # this library writes UTC values as text, but a peer may send them in the opaque form
                        self.add(f'TYPED WVD_DEC {hx(wv_pack(dt, z))}', 'dec', same, 'wvd-dec-utc', kf='wvdate-year')
                elif z is None:
                    # no zone designator: outside the property (not zone-designated); the model is the reference
                    self.add(f'TYPED WVD_ENC {hx(t)}', 'enc', None, 'wvd-enc-nozone')
                    if fits:
                        self.add(f'TYPED WVD_DEC {hx(wv_pack(dt, None))}', 'dec', None, 'wvd-dec-nozone')
                    continue
                else:
                    if fits:
                        self.add(f'TYPED WVD_ENC {hx(t)}', 'enc', expect_any('OK ' + hx(opaque(wv_pack(dt, z))), 'OK ' + hx(stri(t))), 'wvd-enc')
                        self.add(f'TYPED WVD_DEC {hx(wv_pack(dt, z))}', 'dec', same, 'wvd-dec', kf='wvdate-year')
                    else:
                        self.add(f'TYPED WVD_ENC {hx(t)}', 'enc', expect_any('OK ' + hx(stri(t)), 'ERR'), 'wvd-enc-bigyear', kf='wvdate-year')
                if i % e2e_every == 0 or not fits or dt[0] < 1000:
                    if i % e2e_every != 0 and rng.random() < 0.8:
                        continue
                    lid = rng.choice(LANG_WV)
                    tag = rng.choice(self.wv_date[lid])
                    self.add(f'TYPED RT {lid} E {tag} {hx(t)}', 'any', same_or_err, 'wvd-rt', kf='wvdate-year')
                    if fits and z == 'Z':
                        self.add(f'TYPED W2X {lid} E {tag} {hx(opaque(wv_pack(dt, z)))}', 'any', same, 'wvd-w2x-utc', kf='wvdate-year')
                    if fits and z != 'Z':
                        self.add(f'TYPED W2X {lid} E {tag} {hx(opaque(wv_pack(dt, z)))}', 'any', same, 'wvd-w2x', kf='wvdate-year')
                        self.add(f'TYPED W2W {lid} E {tag} {hx(opaque(wv_pack(dt, z)))}', 'any', expect_ok_bytes(opaque(wv_pack(dt, z))), 'wvd-w2w', kf='wvdate-year')

    def wvdate_malformed(self, n):
        rng = self.rng
        for _ in range(n):
            ln = 6 if rng.random() < 0.7 else rng.randrange(0, 10)
            p = bytes(rng.randrange(256) for _ in range(ln))
            if ln == 6 and rng.random() < 0.5:
                p = p[:5] + bytes([rng.choice([0, 0x40, 0x41, 0x4A, 0x5A, 0x5B, 0x61])])
            self.add(f'TYPED WVD_DEC {hx(p)}', 'dec', None, 'wvd-dec-mal')
            t = wv_basic(rand_dt(rng), rng.choice(ZONES + [None, 'J', 'a', '0']))
            j = rng.randrange(len(t) + 1)
            t = rng.choice([t, t[:j], t[:j] + t[j + 1:], t[:j] + rng.choice('0T:-+Zx ') + t[j:], t[:13], t[:13] + t[15:], t.replace('T', ' '), t[:j] + 'x' + t[j + 1:]])
            self.add(f'TYPED WVD_ENC {hx(t.encode())}', 'enc', None, 'wvd-enc-mal')
            if rng.random() < 0.1:
                lid = rng.choice(LANG_WV)
                self.add(f'TYPED W2X {lid} E {rng.choice(self.wv_date[lid])} {hx(opaque(p))}', 'any', None, 'wvd-w2x-mal')

    # ---- binary content
    def binary_cases(self, payloads, ws_every):
        rng = self.rng
        shapes_w2x = [f'{LANG_OTA} A PARM VALUE', f'{LANG_DRMREL} E {self.keyvalue}'] + \
                     [f'{lid} E {self.nonce[lid]}' for lid in LANG_SYNCML if self.nonce[lid]] + \
                     [f'{lid} E {t}' for lid in LANG_AS for t in self.bin_tags[lid]]
        bin_shapes = [f'{lid} E {t}' for lid in LANG_AS for t in self.bin_tags[lid]]
        for i, bs in enumerate(payloads):
            b64 = base64.b64encode(bs)

            def mk_b64(q):
                return Case(f'TYPED B64_OPQ {hx(q)}', 'dec', expect_ok_bytes(base64.b64encode(q)), 'b64-opq', data=q, mk=mk_b64)
            self.cases.append(mk_b64(bs))
            for shp in (shapes_w2x if i % 8 == 0 else [rng.choice(shapes_w2x)]):
                self.add(f'TYPED W2X {shp} {hx(opaque(bs))}', 'any', expect_ok_bytes(b64), 'bin-w2x')
            if i % 4 == 0:
                # the rule belongs to the element, not to the code page in force when the opaque arrives: a page
                # switch (grammatical as part of an extension, which these languages ignore) in front of it
                for shp in [f'{lid} E {self.nonce[lid]}' for lid in LANG_SYNCML if self.nonce[lid]]:
                    self.add(f'TYPED W2X {shp} {hx(bytes([0, 0, rng.choice([0xC0, 0xC1, 0xC2])]) + opaque(bs))}', 'any', expect_ok_bytes(b64), 'oracle-only-page-switch:nonce')
                self.add(f'TYPED W2X {LANG_DRMREL} E {self.keyvalue} {hx(bytes([0, 1, 0xC0]) + opaque(bs))}', 'any', expect_ok_bytes(b64), 'oracle-only-page-switch:keyvalue')
            shp = rng.choice(bin_shapes)
            self.add(f'TYPED X2W {shp} {hx(b64)}', 'any', expect_ok_bytes(opaque(bs)), 'bin-x2w')
            self.add(f'TYPED RT {shp} {hx(b64)}', 'any', expect_ok_bytes(b64), 'bin-rt')
            self.add(f'TYPED W2W {shp} {hx(opaque(bs))}', 'any', expect_ok_bytes(opaque(bs)), 'bin-w2w')
            self.add(f'TYPED W2W {LANG_DRMREL} E {self.keyvalue} {hx(opaque(bs))}', 'any', expect_ok_bytes(opaque(bs)), 'drm-w2w')
            self.add(f'TYPED DRM_ENC {hx(b64)}', 'enc', expect_ok_bytes(opaque(bs)), 'drm-enc')
            if not any(b64.startswith(p) for p in self.ota_value_prefixes):
                self.add(f'TYPED X2W {LANG_OTA} I PARM VALUE {hx(b64)}', 'any', expect_ok_bytes(opaque(bs)), 'ota-x2w')
                self.add(f'TYPED RT {LANG_OTA} I PARM VALUE {hx(b64)}', 'any', expect_ok_bytes(b64), 'ota-rt')
            if i % ws_every == 0 and len(b64) > 4:
                # white space inside the base64 text (line-wrapped input): the decoded bytes must be the same
                cuts = sorted(rng.sample(range(1, len(b64)), min(3, len(b64) - 1)))
                parts, last = [], 0
                for c in cuts:
                    parts.append(b64[last:c]); last = c
                parts.append(b64[last:])
                wrapped_el = rng.choice([b'\n', b'\r\n', b' ', b'\t', b'\n   ']).join(parts)
                wrapped_at = b' '.join(parts)
                self.add(f'TYPED X2W {shp} {hx(wrapped_el)}', 'any', expect_ok_bytes(opaque(bs)), 'bin-x2w-ws')
                self.add(f'TYPED RT {shp} {hx(wrapped_el)}', 'any', expect_ok_bytes(b64), 'bin-rt-ws')
                # OTA ICON / DRMREL KeyValue (former finding b64-whitespace-ota-drmrel, fixed): a truncated opaque is a violation.
                # An attribute value reaches the encoder with its line ends and TABs already turned into spaces by the XML parser;
                # the DRMREL routine is called directly and sees every kind of white space.
                if not any(b64.startswith(p) for p in self.ota_value_prefixes):
                    self.add(f'TYPED X2W {LANG_OTA} I PARM VALUE {hx(wrapped_at)}', 'any', expect_ok_bytes(opaque(bs)), 'ota-x2w-ws')
                    self.add(f'TYPED RT {LANG_OTA} I PARM VALUE {hx(wrapped_at)}', 'any', expect_ok_bytes(b64), 'ota-rt-ws')
                self.add(f'TYPED DRM_ENC {hx(wrapped_at)}', 'enc', expect_ok_bytes(opaque(bs)), 'drm-enc-ws')
                self.add(f'TYPED DRM_ENC {hx(wrapped_el)}', 'enc', expect_ok_bytes(opaque(bs)), 'drm-enc-ws')
        # empty opaque: base64 of nothing is refused by design; the model is the reference
        self.add('TYPED B64_OPQ -', 'dec', None, 'b64-empty')
        for shp in shapes_w2x:
            self.add(f'TYPED W2X {shp} c300', 'any', None, 'bin-w2x-empty')


def build_cases(d, rng, tier):
    g = Gen(d, rng, tier)
    q = tier == 'quick'
    # date-times: boundaries first, then random
    dts = []
    for y in (0, 1, 999, 1000, 1999, 2000, 2024, 4095, 4096, 9999):
        for (mo, dd) in ((1, 1), (2, 28), (2, 29) if is_leap(y) else (2, 28), (12, 31), (10, 10), (6, 30)):
            for tm in ((0, 0, 0), (23, 59, 59), (10, 0, 0), (0, 10, 0), (0, 0, 10), (20, 30, 0), (0, 0, 1), (1, 0, 0)):
                dts.append((y, mo, dd) + tm)
    if q:
        dts += [rand_dt(rng) for _ in range(10000 - len(dts))]
    else:
        for y in (0, 999, 1000, 1999, 2000, 4095, 4096, 9999):
            for mo, dd in all_days(y):
                for tm in ((0, 0, 0), (23, 59, 59), (rng.randrange(24), 0, 0), (rng.randrange(24), rng.randrange(60), 0), (0, 0, rng.randrange(1, 60))) + \
                        tuple((rng.randrange(24), rng.randrange(60), rng.randrange(60)) for _ in range(7)):
                    dts.append((y, mo, dd) + tm)
        dts += [rand_dt(rng) for _ in range(20000)]
    g.datetime_cases(dts, 10 if q else 25)
    g.datetime_malformed(1500 if q else 6000)
    # integers
    ns = [0, 1, 9, 10, 127, 128, 255, 256, 65535, 65536, 2 ** 24 - 1, 2 ** 24, 2 ** 31 - 1, 2 ** 31, 2 ** 32 - 2, 2 ** 32 - 1, 99, 100, 999999999, 1000000000, 4294967295]
    for k in range(32):
        ns += [2 ** k, 2 ** k - 1, 2 ** k + 1]
    ns = [n for n in ns if 0 <= n < 2 ** 32]
    cnt = 100000 if q else 300000
    for _ in range(cnt):
        r = rng.random()
        ns.append(rng.randrange(2 ** 32) if r < 0.6 else rng.randrange(2 ** rng.randrange(1, 33)))
    g.wvint_cases(ns, 40 if q else 60)
    g.wvint_opaque_cases(3000 if q else 20000)
    g.wvint_text_cases(600 if q else 3000)
    # WV date-times
    wdts = dts[:480] + ([rand_dt(rng) for _ in range(2500)] if q else dts[480::7])
    g.wvdate_cases(wdts, 6 if q else 20, lambda i: i % (12 if q else 40) == 0)
    g.wvdate_malformed(1500 if q else 6000)
    # binary payloads
    pl = [bytes([a]) for a in (0, 1, 0x20, 0x7f, 0x80, 0xff, 0x3c, 0x26)] + [bytes([a, b]) for a in (0, 0xff, 0x41) for b in (0, 0xfb, 0x0a)] + \
         [b'\x00\x00\x00', b'\xff\xff\xff', b'abc', b'\xfb\xef\xbe', b'\x00' * 7, bytes(range(256))]
    for _ in range(600 if q else 4000):
        ln = rng.choice([1, 2, 3, 4, 5, 6, 7, 8, 9, rng.randint(10, 60), rng.randint(60, 400)])
        pl.append(bytes(rng.randrange(256) for _ in range(ln)))
    g.binary_cases(pl, 3)
    return g


# ---------------------------------------------------------------- running

def run_lines(exe, lines, env, timeout=1800):
    if not lines:
        return [], 0, ''
    r = subprocess.run([exe], input='\n'.join(lines) + '\n', stdout=subprocess.PIPE, stderr=subprocess.PIPE, text=True, env=env, timeout=timeout)
    out = r.stdout.split('\n')
    if out and out[-1] == '':
        out.pop()
    return out, r.returncode, r.stderr


class Runner:
    def __init__(self, b):
        self.b = b
        self.dec = b.harness('typed.c', name='typed_dec', extra=['-DTYPED_DEC', '-w'])
        self.enc = b.harness('typed.c', name='typed_enc', extra=['-DTYPED_ENC', '-w'])
        self.drv = os.path.join(common.LEAN, '.lake', 'build', 'bin', 'driver_typed')
        self.env = b.env()
        # leak checking belongs to C01/C16 (an opaque is leaked when typed decoding fails: DESIGN §6.3 #9);
        # every other sanitizer finding still aborts the harness and is reported here
        self.env['ASAN_OPTIONS'] = self.env['ASAN_OPTIONS'].replace('detect_leaks=1', 'detect_leaks=0')

    def exe(self, side):
        return self.enc if side == 'enc' else self.dec

    def impl(self, cases):
        """responses of the real code, per case; a crashing line is found by bisection"""
        resp = [None] * len(cases)
        crashes = []
        for side in ('dec', 'enc'):
            idx = [i for i, c in enumerate(cases) if (c.side == side or (c.side == 'any' and side == 'dec'))]
            self._run_idx(self.exe(side), cases, idx, resp, crashes)
        return resp, crashes

    def _run_idx(self, exe, cases, idx, resp, crashes):
        pos = 0
        while pos < len(idx):
            chunk = idx[pos:]
            out, rc, err = run_lines(exe, [cases[i].line for i in chunk], self.env)
            for k, o in enumerate(out[:len(chunk)]):
                resp[chunk[k]] = o
            if len(out) >= len(chunk):
                break
            bad = chunk[len(out)]                                  # the harness died while answering this line
            resp[bad] = 'CRASH'
            crashes.append((bad, rc, err[-3000:]))
            pos += len(out) + 1

    def model(self, cases):
        out, rc, err = run_lines(self.drv, [c.line for c in cases], dict(os.environ))
        if rc != 0 or len(out) < len(cases):
            raise common.BuildError(f'driver_typed failed (rc={rc}, {len(out)}/{len(cases)} answers): {err[-500:]}')
        return out

    def one(self, case):
        out, rc, err = run_lines(self.exe(case.side), [case.line], self.env)
        return out[0] if out else 'CRASH'


def shrink(runner, case, failing):
    """delta-debug the payload of a failing case while `failing(case, impl_response)` holds"""
    if case.mk is None or not case.data:
        return case
    data, best = case.data, case
    n = 2
    while len(data) >= 2 and n <= len(data):
        step = max(1, len(data) // n)
        reduced = False
        for i in range(0, len(data), step):
            cand = data[:i] + data[i + step:]
            if not cand:
                continue
            c = case.mk(cand)
            if failing(c, runner.one(c)):
                data, best, reduced = cand, c, True
                n = max(n - 1, 2)
                break
        if not reduced:
            if step == 1:
                break
            n = min(n * 2, len(data))
    return best


CORPUS = os.path.join(common.VERIF, 'corpus', 'c12')


def corpus_cases():
    """`<request line> => <answer of the repaired code>` — minimised past failures, run first"""
    out = []
    if not os.path.isdir(CORPUS):
        return out
    for fn in sorted(os.listdir(CORPUS)):
        if not fn.endswith('.req'):
            continue
        for ln in open(os.path.join(CORPUS, fn)):
            ln = ln.split('#', 1)[0].strip()
            if not ln or '=>' not in ln:
                continue
            req, want = [x.strip() for x in ln.split('=>', 1)]
            side = 'enc' if any(v in req for v in (' DT_ENC ', ' WVI_ENC ', ' WVD_ENC ', ' DRM_ENC ')) else ('dec' if '_DEC ' in req or 'B64_OPQ' in req else 'any')
            kf = None
            m = re.search(r'\[kf=([a-z0-9-]+)\]', want)
            if m:
                kf = m.group(1)
                want = want.replace(m.group(0), '').strip()
            out.append(Case(req, side, expect_any(*[w.strip() for w in want.split('|')]), 'corpus:' + fn, kf=kf))
    return out


def run(res, args):
    rng = random.Random(res.seed)
    t0 = time.time()
    b = common.Build('asan')
    with common.lean_lock():
        d, changed = common.regenerate(b)
    ok, failing = common.proof_step(res, ['Wbxml.Props.C12'], 'Wbxml.Props.C12', extra_targets=['driver_typed'])
    res.coverage['regenerated'] = changed
    if res.tier == 'thorough' and ok:
        # second opinion on the compiled proofs (DESIGN §2.3 step 3)
        lc = common.run(['lake', 'env', 'leanchecker', 'Wbxml.Props.C12'], cwd=common.LEAN)
        res.coverage['leanchecker_rc'] = lc.returncode
        if lc.returncode != 0:
            failing.append('<leanchecker: ' + lc.stdout[-300:] + '>')
    known = [k for k in common.load_known()['findings'] if k['property'] == 'C12']
    known_ids = {k['match'].get('kf'): k for k in known}
    runner = Runner(b)

    if getattr(args, 'replay', None):
        rp = json.load(open(args.replay))
        c = Case(rp['request'], rp.get('side', 'any'))
        impl, mod = runner.one(c), runner.model([c])[0]
        print(f'request : {c.line}\nimpl    : {impl}\nmodel   : {mod}\nexpected: {rp.get("expected")}')
        still = impl != mod or (rp.get('impl') == impl)
        if still:
            res.violation({'kind': 'replay', 'request': c.line, 'impl': impl, 'model': mod, 'expected': rp.get('expected')}, 'replay')
        return res.finish('proof', checker_cmd='replay of one TYPED line')

    g = build_cases(d, rng, res.tier)
    cases = corpus_cases() + g.cases
    log(f'{len(cases)} TYPED lines generated in {time.time()-t0:.1f}s')
    impl, crashes = runner.impl(cases)
    mod = runner.model(cases)
    log(f'harness + driver done at {time.time()-t0:.1f}s')

    # thorough: 10^7 integers through decode_wv_integer in-process (hash of all answers + implementation-side oracle)
    sweep_n = 200000 if res.tier == 'quick' else 10 ** 7
    sweep_line = f'TYPED SWEEP_WVI {rng.randrange(1, 2 ** 62)} {sweep_n}'
    s_impl = runner.one(Case(sweep_line, 'dec'))
    s_mod = runner.model([Case(sweep_line, 'dec')])[0]
    res.coverage['sweep'] = {'request': sweep_line, 'impl': s_impl, 'model': s_mod}
    for _ in range(sweep_n // 1000):
        res.evaluations += 1000

    kinds, errs = {}, {}
    diffs, oracle_fail = [], []
    oracle_only = 0
    for i, c in enumerate(cases):
        kinds[c.kind.split(':')[0]] = kinds.get(c.kind.split(':')[0], 0) + 1
        res.add_eval(c.line)
        r = impl[i]
        if r is None:
            r = impl[i] = '<missing>'
        key = r.split(' ')[0]
        errs[key] = errs.get(key, 0) + 1
        msg = c.oracle(r) if c.oracle else None
        if r == 'CRASH':
            msg = 'sanitizer abort or crash'
        if r.startswith('SHAPE') or r.startswith('BAD'):
            msg = msg or 'harness could not build or read the minimal document'
        if msg:
            oracle_fail.append((i, msg))
        if c.kind.startswith('oracle-only'):
            # the item-level model (Model/Typed) has no code-page state: the element is a parameter of its decoding
            # functions, which is exactly the rule; what the whole parser does with a page switch in front of the
            # opaque is the parser model's business (C04's PARSE correspondence + specgen). Here: oracle on the code.
            oracle_only += 1
        elif r != mod[i]:
            diffs.append(i)
    res.coverage['oracle_only_lines'] = oracle_only
    res.coverage['lines_by_kind'] = kinds
    res.coverage['impl_answers_by_class'] = errs
    res.coverage['traces_validated_against_impl'] = len(cases) - len(diffs)
    res.coverage['rule'] = ('one evaluation = one TYPED request answered by the real code and by the model and compared byte for byte; '
                            'distinct = distinct request lines; plus SWEEP_WVI integers hashed in-process on both sides')
    res.coverage['payload_sizes'] = {'binary_max': max((len(c.data) for c in cases if c.data), default=0)}
    res.samples = [{'request': cases[i].line, 'impl': impl[i], 'model': mod[i]} for i in rng.sample(range(len(cases)), 8)]

    # ---- decide
    reported = set()

    def fails(c, r):
        return (c.oracle(r) if c.oracle else None) is not None or r == 'CRASH'
    for i, msg in oracle_fail:
        c = cases[i]
        kf = known_ids.get(c.kf) if c.kf else None
        if kf is not None and impl[i] != 'CRASH':
            if kf['id'] not in reported:
                reported.add(kf['id'])
                res.known.append(f"{kf['id']}: {kf['what']} (e.g. {c.line} -> {impl[i]})")
            continue
        name = re.sub(r'[^a-z0-9-]', '-', c.kind)
        if name in reported:
            continue
        reported.add(name)
        c2 = shrink(runner, c, fails)
        r2 = runner.one(c2) if c2 is not c else impl[i]
        crash = next((e for (j, rc, e) in crashes if j == i), None)
        res.violation({'kind': 'oracle', 'request': c2.line, 'side': c2.side, 'impl': r2, 'model': runner.model([c2])[0],
                       'expected': (c2.oracle(r2) if c2.oracle else msg), 'stream': c.kind, 'original_request': c.line,
                       'sanitizer': crash, 'failing_theorems': failing}, name)
    sweep_bad = not re.search(r'bad=0 ', s_impl + ' ')
    if s_impl.split(' ')[:2] != s_mod.split(' ')[:2] or sweep_bad:
        if sweep_bad and 'sweep' not in reported:
            res.violation({'kind': 'oracle', 'request': sweep_line, 'side': 'dec', 'impl': s_impl, 'model': s_mod,
                           'expected': 'bad=0: every opaque integer decodes to its decimal value, or to error 80 iff it is >= 2^32'}, 'wvi-sweep')
        elif not res.violations:
            diffs.append(-1)
    if diffs and not res.violations and not (set(reported) & {k['id'] for k in known} and all(cases[i].kf in known_ids for i in diffs if i >= 0)):
        first = [{'request': cases[i].line, 'impl': impl[i], 'model': mod[i]} for i in diffs[:5] if i >= 0]
        if -1 in diffs:
            first.append({'request': sweep_line, 'impl': s_impl, 'model': s_mod})
        res.violation({'kind': 'correspondence', 'stream': 'TYPED', 'differences': len(diffs), 'first_differences': first,
                       'explain': 'the typed codec routines no longer behave like Model/Typed/*.lean and no input violating the property '
                                  'was found by this run: the property is no longer shown'}, 'typed-correspondence', no_input=True)
    if failing and not res.violations:
        res.violation({'kind': 'proof', 'theorems': failing, 'explain': 'proof obligations of Props/C12.lean no longer check'}, 'proof', no_input=True)
    res.coverage['correspondence_differences'] = len(diffs)
    res.coverage['oracle_failures'] = len(oracle_fail)
    res.assumptions += ['C locale (isdigit/isspace/strtoul)', 'leak checking off in this harness (C01/C16 own it)']
    return res.finish('proof', checker_cmd='lake build Wbxml.Props.C12 driver_typed && #audit Wbxml.Props.C12 (lake env lean)')
