"""C05 helpers: the Lean specification of well-formed XML (`Spec.Xml.read`, driver verb SPECX) against
Expat (harness/expat_rec.c, verb EXPATN) — on the implementation's outputs and on a malformed stream
made of mutations of those outputs."""
import re
import xmlcmp

PREDEF = (b'lt', b'gt', b'amp', b'apos', b'quot')
_REF = re.compile(rb'&([^#;&<\s][^;&<]*);')
_DECL = re.compile(rb'<\?xml[ \t\r\n]+version[ \t\r\n]*=[ \t\r\n]*("1\.0"|\'1\.0\')[ \t\r\n]*\?>')
_VER = re.compile(rb'version[ \t\r\n]*=[ \t\r\n]*("([^"]*)"|\'([^\']*)\')')
_HIGH_IN_NAME = re.compile(rb'<(?:[^<>"\'\x80-\xff]|"[^"<]*"|\'[^\'<]*\')*[\x80-\xff]')
_ATTR = re.compile(rb' ([A-Za-z_:][-A-Za-z0-9_.:]*)="([^"<&]*)"')
_TAG = re.compile(rb'</?([A-Za-z_:][-A-Za-z0-9_.:]*)')
CONTROL = [bytes([c]) for c in (0, 1, 8, 0x0b, 0x0c, 0x0e, 0x1f)]
# (valid UTF-8 for a non-character, an over-long form, a surrogate, a lone tail, a truncated sequence, 0xFF)
BAD_UTF8 = [b'\xef\xbf\xbe', b'\xef\xbf\xbf', b'\xc0\x80', b'\xed\xa0\x80', b'\x80', b'\xe2\x82', b'\xff', b'\xf4\x90\x80\x80']
GOOD_UTF8 = [b'\xc3\xa9', b'\xc3\x97', b'\xe2\x80\x83']     # é (a name character), × and EM SPACE (not name characters; the same in the Fourth and Fifth Edition)
INSERTS = [b'<', b'&', b']]>', b'"', b"'", b'>', b'/', b'=', b' ', b';', b'\r', b'\t', b'\n', b'&#0;', b'&#x110000;', b'&#xD800;', b'&#65;', b'&#x41;',
           b'&lt;', b'&bogus', b'<![CDATA[', b']]', b'<x>', b'</x>', b'<x/>', b'<x y="1" y="2"/>', b'<x y="<"/>', b"<x y='a\"b'/>", b'<1/>', b'<x y=1/>', b'<x y/>',
           b'&#;', b'&#x;', b'&#1a;', b'&#xg;', b'&;']


def view(resp):
    """Response of either reader -> (accepted, (sysid, pubid), merged event list); rejects are all alike."""
    ok, dt, ev = xmlcmp.expat_events(resp)
    if not ok:
        return (False, None, None)
    return (True, dt, xmlcmp.norm_stream(ev, False, False, False, drop_xmlns=False))


def squash(events):
    """Event list with space and line feed deleted from character data (empty items dropped): `sqL`."""
    out = []
    for e in events.split(','):
        if e.startswith('C:'):
            t = xmlcmp.unhx(e[2:]).replace(b' ', b'').replace(b'\n', b'')
            if t:
                out.append('C:' + t.hex())
        else:
            out.append(e)
    return out


def outside_subset(doc):
    """None, or the construct on which the two readers legitimately differ (the specification is restricted
    to what the printer can emit; see DESIGN_NOTES/C05_xmlspec.md): processing instructions and comments, an
    internal DTD subset, an encoding or standalone declaration or a version other than 1.0 (Expat accepts
    any version number), a byte order mark, name characters outside ASCII on which the Fourth and Fifth
    Edition differ, and references to entities other than the five predefined ones (with an external DTD
    subset Expat does not treat an undeclared entity as a well-formedness error but as a skipped entity;
    the specification refuses it: the document would denote nothing definite)."""
    if b'<?' in doc[1:]:
        return 'processing instruction'
    if b'<!-' in doc:
        return 'comment'
    if doc.startswith(b'\xef\xbb\xbf'):
        return 'byte order mark'
    head = doc[:doc.find(b'?>') + 2] if re.match(rb'<\?xml[ \t\r\n]', doc) and b'?>' in doc else b''
    if head and not _DECL.fullmatch(head):
        # a declaration Expat may accept and the specification does not: encoding / standalone, another version
        if re.search(rb'encoding|standalone', head):
            return 'encoding or standalone declaration'
        m = _VER.search(head)
        if m and (m.group(2) if m.group(2) is not None else m.group(3)) != b'1.0':
            return 'version other than 1.0'
    if doc.startswith(b'<?') and not head:      # a processing instruction, or an unterminated declaration
        return 'processing instruction'
    k = doc.find(b'<!DOCTYPE')
    if k >= 0:
        e = doc.find(b'>', k)
        if b'[' in doc[k:e if e >= 0 else len(doc)]:
            return 'internal subset'
    for m in _HIGH_IN_NAME.finditer(doc):
        if not any(doc.startswith(g, m.end() - 1) for g in GOOD_UTF8):
            return 'non-ASCII name character (Expat has the name classes of the Fourth Edition, the specification those of the Fifth)'
    for m in _REF.finditer(doc):
        if m.group(1) not in PREDEF:
            return 'undeclared entity'
    return None


def mutate(rng, doc):
    """One malformed (or, rarely, still well-formed) variant of `doc` and the name of the mutation."""
    kind = rng.choice(['del-lt', 'del-amp', 'del-quote', 'del-gt', 'del-byte', 'insert', 'insert', 'insert', 'dup-attr', 'break-name', 'end-name',
                       'control', 'bad-utf8', 'good-utf8', 'truncate', 'trailing', 'swap', 'replace', 'dup-root', 'cdata-end', 'doctype', 'xmldecl'])
    def pos_of(ch):
        ps = [i for i in range(len(doc)) if doc[i:i + 1] == ch]
        return rng.choice(ps) if ps else None
    p = rng.randrange(len(doc) + 1)
    if kind.startswith('del-'):
        ch = {'del-lt': b'<', 'del-amp': b'&', 'del-quote': b'"', 'del-gt': b'>'}.get(kind)
        q = pos_of(ch) if ch else (rng.randrange(len(doc)) if doc else None)
        if q is None:
            return doc[:p] + b'<' + doc[p:], 'insert'
        return doc[:q] + doc[q + 1:], kind
    if kind == 'insert':
        return doc[:p] + rng.choice(INSERTS) + doc[p:], kind
    if kind == 'dup-attr':
        ms = list(_ATTR.finditer(doc))
        if ms:
            m = rng.choice(ms)
            return doc[:m.end()] + m.group(0) + doc[m.end():], kind
        ms = list(_TAG.finditer(doc))
        m = rng.choice([m for m in ms if not m.group(0).startswith(b'</')] or ms) if ms else None
        if m is None:
            return doc + b'<', 'trailing'
        return doc[:m.end()] + b' a="1" a="2"' + doc[m.end():], kind
    if kind in ('break-name', 'end-name'):
        ms = [m for m in _TAG.finditer(doc) if (kind == 'end-name') == m.group(0).startswith(b'</')]
        if not ms:
            return doc[:p] + b'<' + doc[p:], 'insert'
        m = rng.choice(ms)
        q = rng.randrange(m.start(1), m.end(1) + 1)
        return doc[:q] + rng.choice([b'!', b'$', b'(', b'%', b'x', b'1', b'-', b'.', b' ', b'\x01', b'\xc3\x97']) + doc[q:], kind
    if kind == 'control':
        return doc[:p] + rng.choice(CONTROL) + doc[p:], kind
    if kind == 'bad-utf8':
        return doc[:p] + rng.choice(BAD_UTF8) + doc[p:], kind
    if kind == 'good-utf8':
        return doc[:p] + rng.choice(GOOD_UTF8) + doc[p:], kind
    if kind == 'truncate':
        return doc[:rng.randrange(len(doc))] if doc else doc, kind
    if kind == 'trailing':
        return doc + rng.choice([b'x', b'<', b'<a/>', b'&amp;', b' \n', b'\x00', b'</a>']), kind
    if kind == 'swap' and len(doc) > 2:
        q = rng.randrange(len(doc) - 1)
        return doc[:q] + doc[q + 1:q + 2] + doc[q:q + 1] + doc[q + 2:], kind
    if kind == 'replace' and doc:
        q = rng.randrange(len(doc))
        return doc[:q] + bytes([rng.choice(b'<>&"\'/= ]![xA1-.:;#\t\r\n')]) + doc[q + 1:], kind
    if kind == 'dup-root':
        k = doc.find(b'>', doc.find(b'<!DOCTYPE')) + 1 if b'<!DOCTYPE' in doc else 0
        return doc + doc[k:], kind
    if kind == 'cdata-end':
        q = pos_of(b'>')
        if q is not None:
            return doc[:q] + b']]' + doc[q:], kind
    if kind == 'doctype':
        k = doc.find(b'<!DOCTYPE')
        e = doc.find(b'>', k) if k >= 0 else -1
        if e > k >= 0:
            q = rng.randrange(k, e + 1)
            return doc[:q] + rng.choice([b'"', b"'", b' ', b'{', b'^', b'<', b'>', b'\\', b'PUBLIC', b'SYSTEM "x"', b'~']) + doc[q + rng.choice([0, 1]):], kind
    if kind == 'xmldecl':
        e = doc.find(b'?>')
        if doc.startswith(b'<?xml') and e > 0:
            q = rng.randrange(0, e + 3)
            return doc[:q] + rng.choice([b'"', b' ', b'?', b'1', b'=', b'x', b'>']) + doc[q + rng.choice([0, 1]):], kind
    return doc[:p] + b'<' + doc[p:], 'insert'
