"""C06 — generated WBXML is grammatical and denotes exactly the source XML.
Proof: Props/C06.lean over Model/EncWbxml.lean (growing). Tie: X2W correspondence (byte-exact) for
every option tuple; implementation-side oracle on the produced bytes: header fields (version,
public identifier form, UTF-8), exact string-table length, every reference at an entry start,
strict decoding by the Lean specification reader (Spec/Wbxml.lean: tokens under their own code
page, balanced ENDs, nothing left over) and the decoded events equal to the source document
under the documented normalisations."""
import re, itertools
import os, random
import common, corr, xmlgen, xcorr, docmp, xmlcmp, wbwalk
from wbwalk import rd_mb


def hexout(r):
    return bytes.fromhex(r[6:].split()[0]) if r and r.startswith('R 0 ; ') and len(r) > 6 else None


def header_checks(w, lang, version, anonymous, fields, strtbl, src=b''):
    errs = []
    if w[0] != version:
        errs.append(f'version byte {w[0]} instead of {version}')
    i = 1
    start, tlen = strtbl
    tbl = w[start:start + tlen]
    pub = lang['pub']['wbxml']
    xmlid = bytes.fromhex(lang['pub']['xml']) if lang['pub']['xml'] else None
    if w[1] == 0:
        idx, n = rd_mb(w, 2); i = 2 + n
        if anonymous:
            errs.append('anonymous document carries a public-identifier string reference')
        elif xmlid is None or tbl[idx:idx + len(xmlid) + 1] != xmlid + b'\x00':
            errs.append(f'public identifier index {idx} does not point at the language\'s identifier text')
    else:
        v, n = rd_mb(w, 1); i = 1 + n
        if anonymous and v != 1:
            errs.append(f'anonymous document carries public identifier 0x{v:x} instead of unknown (0x01)')
        if not anonymous and v != pub and not (pub == 1 and v == 1):
            errs.append(f'public identifier 0x{v:x} instead of 0x{pub:x}')
        if not anonymous and pub == 1 and xmlid is not None and v == 1:
            errs.append('the language has a textual public identifier but the document says unknown')
    if version != 0:
        cs, n = rd_mb(w, i)
        if cs != 106:
            errs.append(f'charset {cs} instead of UTF-8 (106)')
    # (the identifier text may legitimately be in the table when the document itself carries it as content)
    if anonymous and xmlid and xmlid in tbl and xmlid not in re.sub(rb'<!DOCTYPE[^>]*>', b'', xmlgen.as_utf8(src)):
        errs.append('anonymous document still contains the public-identifier string')
    if tlen and tbl[-1] != 0:
        errs.append('declared string-table length does not end at a terminator')
    for f in fields:
        if f['kind'] in ('strt_index', 'literal_index', 'pubid_index'):
            ix = f['value']
            if ix >= tlen or (ix > 0 and tbl[ix - 1] != 0):
                errs.append(f"{f['kind']} {ix} does not point at the first byte of an entry (table length {tlen})")
    return errs


def run(res, args):
    rng = random.Random(res.seed)
    quick = res.tier == 'quick'
    b = common.Build('asan')
    with common.lean_lock():
        d, changed = common.regenerate(b)
    mods = [m for m in ['Wbxml.Props.C06'] if os.path.exists(os.path.join(common.LEAN, *m.split('.')) + '.lean')]
    ok, failing = common.proof_step(res, mods, 'Wbxml.Props.C06', extra_targets=['driver'])
    known = [k for k in common.load_known()['findings'] if k['property'] in ('C06', 'C03')]
    hx2w, hx, er = b.harness('x2w.c'), b.harness('encx.c'), b.harness('expat_rec.c')
    drv = corr.driver_exe()
    env = b.env()
    langs = {l['id']: l for l in d['langs']}
    docs = [x for _, x in xmlgen.corpus_xml()]
    g = xmlgen.XmlTableGen(d, rng)
    xs = list(docs)
    for _ in range(900 if quick else 50000):
        if rng.random() < 0.35:
            x = xmlgen.mutate_xml(rng, rng.choice(docs))
        else:
            x = g.doc()
        if x:
            xs.append(x)
    xs += [xmlgen.syncml_xml(rng) for _ in range(120 if quick else 5000)]
    xs += xmlgen.ambiguous_name_docs(d, rng, 40 if quick else 100000)
    opts = [(rng.choice([0, 1, 2, 3]), rng.choice([0, 1]), rng.choice([0, 1]), rng.choice([0, 0, 1])) for _ in xs]   # version keepws strtbl anonymous
    # sources in other declared encodings (the header must still say UTF-8: the body is always UTF-8)
    for x in rng.sample(docs, 12) + [g.doc() for _ in range(12)]:
        for enc in ('ISO-8859-1', 'UTF-16', 'US-ASCII'):
            y = xmlgen.transcode(x, enc)
            if y is not None:
                xs.append(y); opts.append((rng.choice([0, 1, 2, 3]), rng.choice([0, 1]), rng.choice([0, 1]), rng.choice([0, 0, 1])))
    # documents with embedded sub-documents (nested encoders with options of their own): every tuple
    for x in [x for x in docs if b'<DevInf' in x or b'<MgmtTree' in x]:
        for o in itertools.product([0, 3], [0, 1], [0, 1], [0, 1]):
            xs.append(x); opts.append(o)
    lines = [f'X2W {o[0]} {o[1]} {o[2]} {o[3]} {x.hex()}' for o, x in zip(opts, xs)]
    impl, inc = corr.run_lines(hx2w, lines, env=env)
    model = xcorr.model_with_expat(drv, er, env, lambda i: f'X2W {opts[i][0]} {opts[i][1]} {opts[i][2]} {opts[i][3]}', xs)
    corr_diff = [i for i in range(len(xs)) if corr.canon_err(impl[i]) != corr.canon_err(model[i])]
    acc = [i for i in range(len(xs)) if hexout(impl[i]) is not None]
    w = {i: hexout(impl[i]) for i in acc}
    xt, _ = corr.run_lines(hx, [f'X2T {xs[i].hex()}' for i in acc], env=env)
    lang_of = {}
    for i, t in zip(acc, xt):
        try:
            lang_of[i] = int(t[6:].split(':')[0])
        except Exception:
            pass
    spec, _ = corr.run_lines(drv, [f'SPEC {lang_of.get(i, 0)} 0 {w[i].hex()}' for i in acc])
    src_runs = xcorr.expat_runs(er, env, [xs[i] for i in acc])
    viol, seen_known = [], set()
    stats = {'accepted': len(acc), 'header_checked': 0, 'strict_decoded': 0, 'meaning_compared': 0}
    for i, sp, sr in zip(acc, spec, src_runs):
        res.add_eval(lines[i][:3000])
        lid = lang_of.get(i)
        if lid not in langs:
            continue
        lang = langs[lid]
        ext_arg = lid in (2301, 2302) or lid < 1300
        wk = wbwalk.fields(w[i], ext_t_has_arg=ext_arg)
        if wk is None:
            viol.append((i, 'the output cannot be walked as element / attribute / content productions', '')); continue
        fields, end, strtbl = wk
        if end != len(w[i]):
            viol.append((i, f'{len(w[i]) - end} bytes follow the end of the root element', '')); continue
        errs = header_checks(w[i], lang, opts[i][0], opts[i][3] == 1, fields, strtbl, xs[i])
        stats['header_checked'] += 1
        if errs:
            viol.append((i, 'header / string table: ' + '; '.join(errs), '')); continue
        ok1, _, sdoc = docmp.doc_of_expat(sr)
        norm = docmp.Norm(d, lang)
        norm.strict_lineends = True      # the decoded side is the parser's events, not re-read XML
        norm.dst_binary_raw = True
        exc_sc = docmp.excuses_scoped(norm, sdoc)
        exc = set(exc_sc)
        if (not sp or not sp.startswith('S 1 1 ;')) and exc:
            k = next((k for k in known for t in exc if k['match'].get('contains') and k['match']['contains'] in t), None)
            if k:
                seen_known.add((k['property'], k['id'], k['what']))
                continue
        if not sp or not sp.startswith('S 1 1 ;'):
            viol.append((i, 'the Lean specification reader does not accept the output as a well-formed document of the language: ' + (sp or '')[:40], '')); continue
        stats['strict_decoded'] += 1
        # meaning: decoded events vs the source, under the normalisations
        if any(e[0] == 'S' and docmp.local(e[1]) in (b'DevInf', b'MgmtTree') for e in sdoc[1:]):
            continue      # embedded sub-documents are compared by C03 (as documents)
        pev = xmlcmp.parse_events('R 0 ; ' + sp.split(' ; ', 1)[1])
        dst = []
        for e in pev:
            if e[0] == 'S':
                dst.append(('S', e[1], e[2] if norm.has_attrs else []))
            elif e[0] == 'C':
                if dst and dst[-1][0] == 'C':
                    dst[-1] = ('C', dst[-1][1] + e[1])
                else:
                    dst.append(('C', e[1]))
            elif e[0] == 'E':
                dst.append(e)
        diff_at = docmp.compare_at(norm, sdoc, dst, opts[i][1] == 1)
        diff = diff_at[0] if diff_at else None
        stats['meaning_compared'] += 1
        if diff:
            # an excuse counts only in the element the difference lies in
            tags = sorted(docmp.applicable(exc_sc, diff_at[1])) + [diff]
            k = next((k for k in known for t in tags if k['match'].get('contains') and k['match']['contains'] in t), None)
            if k:
                seen_known.add((k['property'], k['id'], k['what']))
            else:
                viol.append((i, 'decoded document differs from the source: ' + diff, ''))
        elif lang['ns'] is not None:
            # same names everywhere: the elements must also sit in the same namespaces (several code pages
            # carry the same local names; the source names its namespace, the token its code page)
            nsmap = {r[1]: bytes.fromhex(r[0]) for r in d['tables'][str(lang['ns'])]['rows']}
            s_el = [e[1] for e in sdoc if e[0] == 'S']
            d_el = [(e[1], e[3]) for e in pev if e[0] == 'S']
            if len(s_el) == len(d_el):
                stats['namespaces_compared'] = stats.get('namespaces_compared', 0) + 1
                for sn, (dn, pg) in zip(s_el, d_el):
                    # (a namespace the language does not know, or a name that namespace's code page does not have, leaves only resolution by name)
                    if b'|' in sn and pg is not None and pg in nsmap and sn.rsplit(b'|', 1)[0] in nsmap.values() and sn.rsplit(b'|', 1)[0] != nsmap[pg] and \
                            any(bytes.fromhex(r[0]) == docmp.local(sn) and nsmap.get(r[1]) == sn.rsplit(b'|', 1)[0] for r in norm.tags):
                        viol.append((i, f'element {docmp.local(sn)} is in namespace {sn.rsplit(b"|", 1)[0]} in the source but encoded in code page {pg} ({nsmap[pg]})', ''))
                        break
    for prop, kid, what in sorted(seen_known):
        if prop == 'C06':
            res.known.append(f'{kid}: {what}')
    res.coverage.update(stats)
    res.coverage['traces_validated_against_impl'] = len(xs) - len(corr_diff)
    res.coverage['rule'] = ('corpus XML, mutations, documents synthesised from every language\'s tables (every tag, attribute start, value-token substrings, repeated strings, unknown names, page switches) '
                            'x version 1.0-1.3 x keep-ws x string table x anonymous; oracle: header fields, exact table length, references at entry starts, strict decode by Spec/Wbxml.lean, decoded events = source')
    res.samples = [{'options(version,keepws,strtbl,anon)': opts[i], 'xml': xs[i][:160].decode('latin-1'), 'wbxml': w[i][:60].hex()} for i in rng.sample(acc, min(3, len(acc)))]
    for idx, rc, err in inc:
        if idx < len(lines):
            r, rc1, err1 = corr.isolate(hx2w, lines[idx], env=env)
            if rc1 != 0 or r is None:
                res.violation({'kind': 'sanitizer-or-crash', 'request': lines[idx][:4000], 'rc': rc1, 'stderr': err1[-2000:]}, f'crash-{idx}')
    for i, what, extra in viol[:4]:
        res.violation({'kind': 'wbxml-oracle', 'what': what, 'request': lines[i][:6000], 'xml': xs[i].decode('latin-1')[:3000], 'xml_hex': xs[i].hex(), 'wbxml': w[i].hex()}, f'oracle-{i}')
    if corr_diff and not res.violations:
        i = corr_diff[0]
        res.violation({'kind': 'correspondence', 'stream': 'X2W', 'request': lines[i][:4000], 'impl': (impl[i] or '')[:500], 'model': (model[i] or '')[:500], 'differences': len(corr_diff)}, 'x2w-correspondence', no_input=True)
    if failing and not res.violations:
        res.violation({'kind': 'proof', 'theorems': failing}, 'proof', no_input=True)
    return res.finish('proof', checker_cmd='lake build Wbxml.Props.C06 && #audit Wbxml.Props.C06')
