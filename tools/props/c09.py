"""C09 — published token assignments never change (wire compatibility).
Proof: Props/C09.lean: registryPreserved Registry.reg Gen.main by kernel evaluation, where
Registry.reg is the pinned 0.11.10 table set (committed once, never regenerated) and Gen.main is
regenerated from the current source on every run. Exhaustive over every row."""
import json, os, subprocess
import common, corr
from wbgen import mb


def run(res, args):
    b = common.Build('asan')
    with common.lean_lock():
        d, changed = common.regenerate(b)
    ok, failing = common.proof_step(res, ['Wbxml.Props.C09'], 'Wbxml.Props.C09', extra_targets=['c09search'])
    res.coverage['regenerated'] = changed
    sr = common.run([os.path.join(common.LEAN, '.lake', 'build', 'bin', 'c09search')], stderr=subprocess.PIPE)
    fails, rows_line = [], ''
    for line in sr.stdout.split('\n'):
        if line.startswith('FAIL '):
            parts = line.split()
            fails.append(dict(x.split('=', 1) for x in parts[1:] if '=' in x))
        elif line.startswith('ROWS '):
            rows_line = line
    reg = json.load(open(os.path.join(common.VERIF, 'corpus', 'registry_0_11_10.json')))
    res.coverage.update({'rows_evaluated': rows_line, 'exhaustive': True,
                         'rule': 'every published (0.11.10) language entry, tag, attribute start, attribute value, extension value, namespace row, public identifier, root, DTD and identification route, against the tables regenerated from the current build'})
    nrows = int(rows_line.split()[1]) if rows_line else 0
    res.evaluations = nrows
    res.distinct = set(range(nrows))
    res.samples = [{'published_row': r} for r in reg['tables'][next(iter(reg['tables']))]['rows'][:3]]
    hp = b.harness('parse.c')

    # ---- the published assignments as the LOOK-UP FUNCTIONS of the current build answer them (a changed
    # search routine loses a row as surely as a changed table): every published namespace row both ways,
    # every published tag row decoded from a minimal document and encoded in its own page, every
    # published extension value; expected answers computed from the pinned registry alone
    ht = b.harness('tbl.c')
    RT = reg['tables']
    look, expect = [], []
    for l in reg['langs']:
        lid = l['id']
        if l['ns'] is not None:
            rows = RT[str(l['ns'])]['rows']
            for r in rows:
                first_ns = next(x for x in rows if x[1] == r[1])
                look.append(f'TBL PAGENS {lid} {r[1]}'); expect.append('NS ' + first_ns[0])
                first_pg = next(x for x in rows if x[0] == r[0])
                look.append(f'TBL NSPAGE {lid} {r[0]}'); expect.append(f'PAGE {first_pg[1]}')
        if l['exts'] is not None:
            rows = RT[str(l['exts'])]['rows']
            for r in rows:
                first = next(x for x in rows if x[0] == r[0])
                look.append(f'TBL EXTENC {lid} {r[0]}'); expect.append(f'ROW {first[1]}')
        if l['tags'] is not None:
            rows = RT[str(l['tags'])]['rows']
            for r in rows:
                first = next(x for x in rows if x[0] == r[0] and x[1] == r[1])
                look.append(f'TBL TAGENC {lid} {r[1]} {r[0]}'); expect.append(f'ROW {first[1]} {first[2]} {first[0]}')
    ans, _ = corr.run_lines(ht, look, env=b.env())
    # decoding direction: a minimal document per published tag row
    dec, dexp = [], []
    for l in reg['langs']:
        if l['tags'] is None:
            continue
        rows = RT[str(l['tags'])]['rows']
        for r in rows:
            first = next(x for x in rows if x[1] == r[1] and x[2] == r[2])
            page, tok = r[1], r[2]
            doc = bytes([3]) + mb(1) + mb(106) + mb(0) + (b'\x00' + bytes([page]) if page else b'') + bytes([tok])
            dec.append(f'PARSE {l["id"]} 0 {doc.hex()}'); dexp.append(f't:{page}:{tok}:{first[0]}')
    dans, _ = corr.run_lines(hp, dec, env=b.env())
    lookup_bad = [(q, e, a) for q, e, a in zip(look, expect, ans) if a != e]
    lookup_bad += [(q, e, (a or '')[:160]) for q, e, a in zip(dec, dexp, dans) if not a or f'SE {e}' not in a]
    res.coverage['published_rows_asked_of_the_lookup_functions'] = len(look) + len(dec)
    res.evaluations += len(look) + len(dec)
    for q, e, a in lookup_bad[:5]:
        res.violation({'kind': 'published-row-lookup', 'request': q, 'published_answer': e, 'current_build_answers': a,
                       'explain': 'the table data still carries the published row, but the look-up routine of the current build no longer finds it (or finds another one)'},
                      'lookup-' + '-'.join(q.split()[1:4]))
    for f in fails[:5]:
        replay = {'kind': 'registry-row', 'item': f, 'failing_theorems': failing,
                  'explain': 'this published assignment is no longer understood identically by the current tables'}
        if f.get('kind') == 'tag':
            # a minimal document that a 0.11.10 peer and the current build decode differently
            lid, page, tok = int(f['lang']), int(f['page']), int(f['token'])
            doc = bytes([3]) + mb(1) + mb(106) + mb(0) + (b'\x00' + bytes([page]) if page else b'') + bytes([tok])
            r, rc, err = corr.isolate(hp, f'PARSE {lid} 0 {doc.hex()}', env=b.env())
            replay.update({'document': doc.hex(), 'forced_language': lid, 'published_name': bytes.fromhex(f['name']).decode('latin-1'), 'current_build_events': r})
        res.violation(replay, f"row-{f.get('kind')}-{f.get('lang')}-{f.get('page')}-{f.get('token')}")
    if failing and not res.violations:
        res.violation({'kind': 'proof', 'theorems': failing,
                       'explain': 'registry_preserved no longer checks against the regenerated tables but no differing row was found'}, 'proof', no_input=True)
    return res.finish('proof', checker_cmd='lake build Wbxml.Props.C09 && #audit Wbxml.Props.C09')
