"""C09 — published token assignments never change (wire compatibility).
Proof: Props/C09.lean: registryPreserved Registry.reg Gen.main by kernel evaluation, where
Registry.reg is the pinned 0.11.10 table set (committed once, never regenerated) and Gen.main is
regenerated from the current source on every run. Exhaustive over every row."""
import json, os, subprocess
import common, corr
from wbgen import mb


def run(res, args):
    b = common.Build('asan')
    with common.lean_lock():
        d, changed = common.regenerate(b)
    ok, failing = common.proof_step(res, ['Wbxml.Props.C09'], 'Wbxml.Props.C09', extra_targets=['c09search'])
    res.coverage['regenerated'] = changed
    sr = common.run([os.path.join(common.LEAN, '.lake', 'build', 'bin', 'c09search')], stderr=subprocess.PIPE)
    fails, rows_line = [], ''
    for line in sr.stdout.split('\n'):
        if line.startswith('FAIL '):
            parts = line.split()
            fails.append(dict(x.split('=', 1) for x in parts[1:] if '=' in x))
        elif line.startswith('ROWS '):
            rows_line = line
    reg = json.load(open(os.path.join(common.VERIF, 'corpus', 'registry_0_11_10.json')))
    res.coverage.update({'rows_evaluated': rows_line, 'exhaustive': True,
                         'rule': 'every published (0.11.10) language entry, tag, attribute start, attribute value, extension value, namespace row, public identifier, root, DTD and identification route, against the tables regenerated from the current build'})
    nrows = int(rows_line.split()[1]) if rows_line else 0
    res.evaluations = nrows
    res.distinct = set(range(nrows))
    res.samples = [{'published_row': r} for r in reg['tables'][next(iter(reg['tables']))]['rows'][:3]]
    hp = b.harness('parse.c')
    for f in fails[:5]:
        replay = {'kind': 'registry-row', 'item': f, 'failing_theorems': failing,
                  'explain': 'this published assignment is no longer understood identically by the current tables'}
        if f.get('kind') == 'tag':
            # a minimal document that a 0.11.10 peer and the current build decode differently
            lid, page, tok = int(f['lang']), int(f['page']), int(f['token'])
            doc = bytes([3]) + mb(1) + mb(106) + mb(0) + (b'\x00' + bytes([page]) if page else b'') + bytes([tok])
            r, rc, err = corr.isolate(hp, f'PARSE {lid} 0 {doc.hex()}', env=b.env())
            replay.update({'document': doc.hex(), 'forced_language': lid, 'published_name': bytes.fromhex(f['name']).decode('latin-1'), 'current_build_events': r})
        res.violation(replay, f"row-{f.get('kind')}-{f.get('lang')}-{f.get('page')}-{f.get('token')}")
    if failing and not res.violations:
        res.violation({'kind': 'proof', 'theorems': failing,
                       'explain': 'registry_preserved no longer checks against the regenerated tables but no differing row was found'}, 'proof', no_input=True)
    return res.finish('proof', checker_cmd='lake build Wbxml.Props.C09 && #audit Wbxml.Props.C09')
