"""C20 — the command-line tools report the library's verdict and nothing else.

Proof: Props/C20.lean over Model/Tool*.lean (`main` of both tools with the library conversion, the
option scanner's environment and the operating system as parameters).
Tie: (a) in-process: `atoi`+casts, get_lang/get_charset/get_version and `wbxml_getopt` of attgetopt.c
against the model on generated strings / argv vectors; (b) the freshly built executables (stock
build = C library getopt, and the same sources linked with attgetopt.c) run on generated scenarios in
scratch directories; the model is given the library's in-process verdict for the same parameter
block and bytes and must predict exit status, stdout, stderr lines and the resulting files.
The property oracle is evaluated on the executables' own observations."""
import re
import concurrent.futures, glob, json, os, random, subprocess, time
import common
from common import log
from props import c20_util as U

DRIVER = os.path.join(common.LEAN, '.lake', 'build', 'bin', 'driver_tool')
CORPUS = os.path.join(common.VERIF, 'corpus', 'c20')


def ask(exe, lines, env=None, resilient=False):
    """One response line per request line. With resilient=True a process that dies mid-stream (sanitizer
    abort inside the library) yields 'DIED' for the offending request and is restarted after it."""
    out = []
    todo = list(lines)
    while todo:
        r = subprocess.run([exe], input=('\n'.join(todo) + '\n').encode(), stdout=subprocess.PIPE,
                           stderr=subprocess.PIPE, env=env)
        got = r.stdout.decode('latin-1').split('\n')
        if got and got[-1] == '':
            got.pop()
        got = got[:len(todo)]
        out += got
        if len(got) == len(todo):
            break
        if not resilient:
            raise common.BuildError(f'{os.path.basename(exe)} stopped after {len(got)} of {len(todo)} lines: '
                                    + r.stderr.decode('latin-1')[-1500:])
        out.append('DIED ' + r.stderr.decode('latin-1')[-300:].replace('\n', ' | '))
        todo = todo[len(got) + 1:]
    return out


class Pipeline:
    def __init__(self, build, exes, harness, root):
        self.b, self.exes, self.h, self.root = build, exes, harness, root
        self.libcache = {}

    def lib_results(self, calls):
        need = [c for c in dict.fromkeys(calls) if c not in self.libcache]
        if need:
            ans = ask(self.h, [U.lib_line(c) for c in need], env=self.b.env(), resilient=True)
            for c, a in zip(need, ans):
                t = a.split()
                if t and t[0] == 'OK':
                    self.libcache[c] = 'OK:' + t[1]
                elif t and t[0] == 'ERR':
                    self.libcache[c] = f'ERR:{t[1]}:{t[2]}'
                else:
                    self.libcache[c] = None          # library aborted under the sanitizer: C01/C02's business
        return [self.libcache[c] for c in calls]

    def evaluate(self, scs, workers=None):
        """Returns one record per scenario: expected (model), observed (executable), lib verdict, problems."""
        p1 = [U.parse_done(l) for l in ask(DRIVER, [U.run_line(sc) for sc in scs])]
        calls = [p.get('call') for p in p1]
        libs = dict(zip([c for c in calls if c], self.lib_results([c for c in calls if c])))
        lines3 = [U.run_line(sc, libs[c] if c and libs[c] else 'NONE') for sc, c in zip(scs, calls)]
        exp = [U.parse_done(l) for l in ask(DRIVER, lines3)]
        with concurrent.futures.ThreadPoolExecutor(workers or min(16, common.NCPU)) as ex:
            obs = list(ex.map(lambda sc: self.exes.run(sc, self.root), scs))
        recs = []
        for sc, c, e, o in zip(scs, calls, exp, obs):
            libv = libs.get(c) if c else None
            rec = {'scenario': sc, 'call': c, 'lib': libv, 'expected': e, 'observed': o, 'skipped': bool(c and not libv)}
            rec['oracle'] = [] if rec['skipped'] else oracle(sc, o, e, c, libv)
            rec['diff'] = [] if rec['skipped'] else compare(sc, e, o)
            recs.append(rec)
        return recs


def expected_after(sc, e, before):
    after = dict(before)
    for p, (content, complete) in e.get('files', {}).items():
        if p.startswith(b'/dev/'):
            continue
        after[os.path.normpath(p.decode('latin-1')).encode('latin-1')] = content if complete else None
    return after


def compare(sc, e, o):
    """Correspondence: model prediction vs executable observation."""
    d = []
    if 'crash' in e or 'bad' in e:
        return [('model', str(e))]
    if o['rc'] != e['exit']:
        d.append(('exit', f"model {e['exit']} impl {o['rc']}"))
    if o['stdout'] is not None and o['stdout'] != e['stdout']:
        d.append(('stdout', f"model {len(e['stdout'])} bytes impl {len(o['stdout'])} bytes"))
    if o['stderr'] != e['stderr']:
        d.append(('stderr', f"model {[x.decode('latin-1') for x in e['stderr']][:6]} impl {[x.decode('latin-1') for x in o['stderr']][:6]}"))
    ea = expected_after(sc, e, o['before'])
    if ea != o['after']:
        ch = sorted(k for k in set(ea) | set(o['after']) if ea.get(k, b'\0absent') != o['after'].get(k, b'\0absent'))
        d.append(('files', f"differing paths {[c.decode('latin-1') for c in ch][:5]}"))
    return d


def oracle(sc, o, e, call, libv):
    """The property's clauses evaluated on what the executable did (model used only to know which
    output the arguments designate)."""
    bad = []
    name = U.TOOLNAME[sc['tool']]
    if o['rc'] == 'timeout' or (isinstance(o['rc'], int) and o['rc'] < 0) or o['sanitizer']:
        bad.append('crash')
        return bad
    failed = [l for l in o['stderr'] if l.startswith(name + b' failed:')]
    argv0 = U.unhx(sc['argv'][0]) if sc['argv'] else b''
    if argv0.startswith(name + b' '):
        failed = []                      # excluded by the theorem's hypothesis on argv[0]
    changed = o['after'] != o['before']
    if call is None:
        if failed:
            bad.append('failed-line-without-conversion')
        if o['stdout']:
            bad.append('report-on-stdout')
        if not o['stderr']:
            bad.append('nothing-on-stderr')
        if changed:
            bad.append('file-changed-without-conversion')
    elif libv.startswith('ERR:'):
        code = int(libv.split(':')[1])
        if o['rc'] != code % 256:
            bad.append('exit-not-library-code')
        if not failed:
            bad.append('no-failed-line')
        if o['stdout']:
            bad.append('output-on-failure')
        if changed:
            bad.append('file-written-on-failure')
    else:
        res = U.unhx(libv.split(':')[1])
        if o['rc'] != 0:
            bad.append('exit-not-library-code')
        if failed:
            bad.append('failed-line-on-success')
        lines = [l.decode('latin-1') for l in e.get('stderr', [])] if 'stderr' in e else []
        unwritable = any(l.startswith('Failed to open output file') or l.startswith('Error while writing') for l in lines)
        if unwritable:
            other = [l for l in o['stderr'] if l != name + b' succeeded' and not l.startswith(argv0 + b': ')]
            if not other:
                bad.append('unwritable-output-not-reported')
        else:
            if e.get('stdout') and o['stdout'] is not None and o['stdout'] != res:
                bad.append('stdout-not-library-bytes')
            for p, (content, complete) in e.get('files', {}).items():
                if complete and o['after'].get(os.path.normpath(p.decode('latin-1')).encode('latin-1')) != res:
                    bad.append('file-not-library-bytes')
    return bad


# ---------------------------------------------------------------------------- scenario sets

def documents(pipe, rng, tier):
    """(valid xml docs, their wbxml) from the project's corpus, via the library in-process."""
    xmls = U.corpus_xml()
    rng.shuffle(xmls)
    xmls = xmls[:24 if tier == 'quick' else 220]
    calls = [f'x2w.3.0.1.0/{d.hex()}' for _, d in xmls]
    res = pipe.lib_results(calls)
    pairs = []
    for (nm, d), r in zip(xmls, res):
        if r and r.startswith('OK:'):
            pairs.append((nm, d, U.unhx(r[3:])))
    return pairs


def build_scenarios(rng, tier, pairs):
    scs = []
    small = min(pairs, key=lambda p: len(p[1]))
    docs = {'w2x': small[2], 'x2w': small[1]}
    in_modes = ['file', 'stdin', 'nofile', 'dir', 'nodir', 'stdindir']
    out_modes = ['none', 'file', 'stdout', 'dir', 'nodir', 'existing', 'full', 'empty', 'same', 'newindir', 'stdoutfull']
    # 1. systematic matrix, valid small document, no bad options
    for tool in ('w2x', 'x2w'):
        for g in ('gnu', 'att'):
            for im in in_modes:
                for om in out_modes:
                    scs.append(U.make_scenario(rng, tool, g, docs[tool], im, om, 0.0, f'matrix:{im}/{om}'))
    # 2. sizes around the 1000-byte read block, valid and invalid, file and stdin
    sizes = [0, 1, 999, 1000, 1001, 1999, 2000, 2001, 4095, 4096, 65536]
    for tool in ('w2x', 'x2w'):
        for n in sizes:
            valid = (U.pad_wbxml(docs['w2x'], n) if tool == 'w2x' else U.pad_xml(docs['x2w'], n))
            junk = bytes(rng.randrange(1, 256) for _ in range(n))
            for kind, doc in (('valid', valid), ('junk', junk)):
                if doc is None:
                    continue
                for im in ('file', 'stdin'):
                    om = rng.choice(['file', 'stdout', 'existing'])
                    g = rng.choice(['gnu', 'att'])
                    scs.append(U.make_scenario(rng, tool, g, doc, im, om, 0.0, f'size:{n}:{kind}:{im}/{om}'))
    # 2b. inputs that carry NUL bytes (the tools must hand over the bytes they read, not a C string):
    # UTF-16 transcodings of a valid document, a valid document followed by NUL + junk, junk with NULs
    for tool in ('w2x', 'x2w'):
        base = docs[tool]
        nul_docs = [('nul-tail', base + b'\x00<<<junk'), ('nul-junk', bytes(rng.choice([0, 0, 60, 62, 65, 255]) for _ in range(1500))),
                    ('nul-first', b'\x00' + base)]
        if tool == 'x2w':
            for big_pad in (0, 1200):
                x = (U.pad_xml(base, len(base) + big_pad) or base) if big_pad else base
                try:
                    t = x.decode('utf-8')
                    t = re.sub(r'^<\?xml[^>]*\?>', '', t)
                    nul_docs.append((f'utf16:{big_pad}', ('<?xml version="1.0" encoding="UTF-16"?>' + t).encode('utf-16')))
                except UnicodeDecodeError:
                    pass
        for kind, doc in nul_docs:
            for im in ('file', 'stdin'):
                om = rng.choice(['file', 'stdout'])
                scs.append(U.make_scenario(rng, tool, 'gnu', doc, im, om, 0.0, f'nul:{kind}:{im}/{om}'))
    # 3. large results on a full device (fwrite itself comes back short) — the biggest corpus document
    big = max(pairs, key=lambda p: len(p[2]))
    for tool, doc in (('w2x', big[2]), ('x2w', U.pad_xml(big[1], 40000) or big[1])):
        for om in ('full', 'stdoutfull'):
            scs.append(U.make_scenario(rng, tool, 'gnu', doc, 'file', om, 0.0, f'bigfull:{om}'))
    # 4. random: corpus documents, every option, clustering, bad options, missing arguments
    n_rand = 260 if tier == 'quick' else 19500
    for i in range(n_rand):
        tool = rng.choice(['w2x', 'x2w'])
        g = rng.choice(['gnu', 'gnu', 'att'])
        nm, x, wb = rng.choice(pairs)
        doc = wb if tool == 'w2x' else x
        r = rng.random()
        if r < 0.15:       # damaged document
            cut = rng.randrange(0, len(doc) + 1)
            doc = doc[:cut] if rng.random() < 0.5 else doc[:cut] + bytes([rng.randrange(256)]) + doc[cut + 1:]
        im = rng.choices(in_modes, [10, 6, 1, 1, 1, 0.5])[0]
        om = rng.choices(out_modes, [2, 8, 6, 1, 1, 2, 1, 0.5, 0.5, 1, 0.5])[0]
        scs.append(U.make_scenario(rng, tool, g, doc, im, om, 0.3, f'random:{im}/{om}'))
    # 5. no operands at all / only options / lone dashes
    for tool in ('w2x', 'x2w'):
        for g in ('gnu', 'att'):
            for args in ([], [b'-h'], [b'-?'], [b'-o'], [b'-k'], [b'--'], [b'--', b'--'], [b'-'], [b'-o', b'-'], [b'-z'],
                         [b'-kz', b'in.dat'], [b'-o', b'out.dat', b'--', b'-'], [b'---', b'in.dat'], [b'-:', b'in.dat']):
                sc = U.base_scenario(tool, g, rng)
                sc['files']['in.dat'] = docs[tool].hex()
                sc['stdin'] = {'kind': 'pipe', 'data': docs[tool].hex()}
                sc['argv'] = [a.hex() for a in [U.TOOLNAME[tool]] + args]
                sc['tag'] = 'usage'
                scs.append(sc)
    return scs


# ---------------------------------------------------------------------------- shrinking / reporting

def signature(rec):
    kinds = tuple(sorted(set(rec['oracle']))) or tuple(sorted({k for k, _ in rec['diff']}))
    return (rec['scenario']['tool'], 'oracle' if rec['oracle'] else 'diff', kinds)


def shrink(pipe, rec, budget=30):
    """Drop argument words / simplify the scenario while the same failure signature persists."""
    best, sig = rec, signature(rec)
    changed = True
    while changed and budget > 0:
        changed = False
        sc = best['scenario']
        cands = []
        for i in range(1, len(sc['argv'])):
            c = json.loads(json.dumps(sc))
            del c['argv'][i]
            words = [U.unhx(a) for a in c['argv']]
            # a device must stay an option argument: as an operand it would be read for ever
            if any(w.startswith(b'/dev/') and not (i > 0 and words[i - 1].startswith(b'-') and words[i - 1].endswith(b'o'))
                   for i, w in enumerate(words)):
                continue
            cands.append(c)
        if sc['sched']:
            c = json.loads(json.dumps(sc)); c['sched'] = []; cands.append(c)
        if 'old.out' in sc['files']:
            c = json.loads(json.dumps(sc)); del c['files']['old.out']; cands.append(c)
        for c in cands:
            if budget <= 0:
                break
            budget -= 1
            r = pipe.evaluate([c], workers=1)[0]
            if (r['oracle'] or r['diff']) and signature(r) == sig:
                best, changed = r, True
                break
    return best


def replay_obj(rec, extra=None):
    o = rec['observed']
    e = rec['expected']
    out = {'kind': 'tool-scenario', 'scenario': rec['scenario'],
           'argv_text': [U.unhx(a).decode('latin-1') for a in rec['scenario']['argv']],
           'library_call': (rec['call'] or '')[:200], 'library_verdict': (rec['lib'] or '')[:200],
           'model': {k: (v if isinstance(v, (int, str, type(None))) else
                         ([x.decode('latin-1') for x in v] if isinstance(v, list) else str(v)[:300]))
                     for k, v in e.items()},
           'implementation': {'rc': o['rc'], 'stdout_len': None if o['stdout'] is None else len(o['stdout']),
                              'stderr': o['stderr_raw'].decode('latin-1')[-1500:], 'sanitizer': o['sanitizer']},
           'oracle_failures': rec['oracle'], 'correspondence_differences': rec['diff']}
    if extra:
        out.update(extra)
    return out


def load_corpus():
    scs = []
    for f in sorted(glob.glob(os.path.join(CORPUS, '*.json'))):
        with open(f) as fh:
            j = json.load(fh)
        sc = j['scenario']
        sc['tag'] = 'corpus:' + os.path.basename(f)
        scs.append(sc)
    return scs


def run(res, args):
    rng = random.Random(res.seed)
    b = common.Build('asan')
    with common.lean_lock():
        _, changed = common.regenerate(b)       # Props/C20 ties the -l names to the regenerated main table
    res.coverage['regenerated'] = changed
    ok, failing = common.proof_step(res, ['Wbxml.Props.C20'], 'Wbxml.Props.C20', extra_targets=['driver_tool'])
    hl = b.harness('tool_lib.c')
    exes = U.Exes(b)
    root = common.mkscratch('wbxverif-c20-')
    pipe = Pipeline(b, exes, hl, root)
    res.assumptions += ['argv strings contain no NUL byte (C strings)', 'glibc: realloc(NULL,0) returns a block, realloc(p,0) frees',
                        'stdio buffer of a stream on /dev/full is 4096 bytes (only decides which of fwrite/fflush reports the error)',
                        'allocation failure inside the tools is not modelled', 'C locale']
    res.trusted += ['glibc getopt(3) short-option behaviour is a parameter of the model (gnuScan), tied by the stock executables',
                    'OS file API as World parameter; python scenario runner computes the file-system facts']

    if args.replay:
        with open(args.replay) as f:
            j = json.load(f)
        rec = pipe.evaluate([j['scenario']], workers=1)[0]
        print(json.dumps(replay_obj(rec), indent=1, default=str))
        if rec['oracle'] or rec['diff']:
            res.violation(replay_obj(rec), 'replay')
        return res.finish('proof', checker_cmd='lake build Wbxml.Props.C20 && #audit Wbxml.Props.C20')

    # ---- (a) in-process streams: same request lines to the C helper and to the model driver
    n_small = 1500 if res.tier == 'quick' else 40000
    lines = U.atoi_lines(rng, n_small // 3) + U.name_lines(rng) + U.getopt_lines(rng, n_small)
    t0 = time.time()
    c_out = ask(hl, lines, env=b.env(), resilient=True)
    l_out = ask(DRIVER, lines)
    stream_diffs = []
    for ln, c, l in zip(lines, c_out, l_out):
        res.add_eval(ln)
        if ln.startswith('TOOL ATOI'):
            l = ' '.join(l.split()[:3])       # the model also prints the -m decision, which has no in-process twin
        if c != l:
            stream_diffs.append({'request': ln, 'impl': c[:400], 'model': l[:400]})
    res.coverage['inprocess_lines'] = len(lines)
    res.coverage['inprocess_seconds'] = round(time.time() - t0, 1)
    res.samples += [{'request': lines[i][:160], 'impl': c_out[i][:160], 'model': l_out[i][:160]}
                    for i in rng.sample(range(len(lines)), 4)]

    # ---- (b) executables
    pairs = documents(pipe, rng, res.tier)
    if not pairs:
        raise common.BuildError('no corpus document converts with the current tree')
    scs = load_corpus() + build_scenarios(rng, res.tier, pairs)
    t0 = time.time()
    recs = []
    for i in range(0, len(scs), 400):
        recs += pipe.evaluate(scs[i:i + 400])
    res.coverage['scenario_seconds'] = round(time.time() - t0, 1)
    cov = {'scenarios': len(recs), 'skipped_library_abort': sum(r['skipped'] for r in recs), 'by_tag': {}, 'by_tool_getopt': {},
           'conversion_ran': 0, 'library_ok': 0, 'library_error_codes': {}, 'help_or_usage': 0, 'input_sizes': {}}
    for r in recs:
        sc = r['scenario']
        res.add_eval(json.dumps(sc, sort_keys=True))
        tg = sc['tag'].split(':')[0]
        cov['by_tag'][tg] = cov['by_tag'].get(tg, 0) + 1
        k = f"{sc['tool']}/{sc['getopt']}"
        cov['by_tool_getopt'][k] = cov['by_tool_getopt'].get(k, 0) + 1
        if r['call']:
            cov['conversion_ran'] += 1
            n = len(r['call'].split('/')[1]) // 2 if r['call'].split('/')[1] != '-' else 0
            bucket = '0' if n == 0 else '<1000' if n < 1000 else '1000' if n == 1000 else '<=2000' if n <= 2000 else '<=4096' if n <= 4096 else '>4096'
            cov['input_sizes'][bucket] = cov['input_sizes'].get(bucket, 0) + 1
            if r['lib'] and r['lib'].startswith('OK'):
                cov['library_ok'] += 1
            elif r['lib']:
                c = r['lib'].split(':')[1]
                cov['library_error_codes'][c] = cov['library_error_codes'].get(c, 0) + 1
        else:
            cov['help_or_usage'] += 1
    res.coverage.update(cov)
    good = [r for r in recs if not r['skipped'] and not r['oracle'] and not r['diff']]
    res.coverage['traces_validated_against_impl'] = len(good) + len(lines) - len(stream_diffs)
    res.coverage['rule'] = ('one real process run per scenario (stock getopt build and attgetopt build of both tools), compared on exit '
                            'status, stdout bytes, canonical stderr lines and the directory contents afterwards; library verdict from '
                            'wbxml_conv_*_withlen in-process on the bytes and parameter block the model says are handed over')
    for r in rng.sample(good, min(4, len(good))):
        res.samples.append({'argv': [U.unhx(a).decode('latin-1') for a in r['scenario']['argv']], 'tag': r['scenario']['tag'],
                            'exit': r['observed']['rc'], 'stderr': [x.decode('latin-1') for x in r['observed']['stderr']][:3],
                            'lib': (r['lib'] or '-')[:40]})

    # ---- decide
    bad = [r for r in recs if r['oracle'] or r['diff']]
    groups = {}
    for r in bad:
        groups.setdefault(signature(r), []).append(r)
    oracle_found = any(s[1] == 'oracle' for s in groups)
    for sig, rs in sorted(groups.items(), key=lambda kv: (kv[0][1] != 'oracle', str(kv[0]))):
        first = min(rs, key=lambda r: len(json.dumps(r['scenario'])))
        small = shrink(pipe, first)
        name = f"{sig[0]}-{sig[1]}-{'-'.join(sig[2])}"[:100]
        if sig[1] == 'oracle':
            res.violation(replay_obj(small, {'occurrences': len(rs), 'explain': 'the executable violates the property on this scenario'}), name)
        elif not oracle_found:
            res.violation(replay_obj(small, {'occurrences': len(rs), 'stream': 'TOOL RUN',
                          'explain': 'the executable no longer behaves like Model/ToolMain.lean; no scenario violating the property was found'}),
                          name, no_input=True)
    if stream_diffs and not res.violations:
        res.violation({'kind': 'correspondence', 'stream': 'TOOL in-process', 'first_differences': stream_diffs[:5],
                       'explain': 'atoi/name tables/wbxml_getopt no longer behave like Model/Tool*.lean'}, 'inprocess', no_input=True)
    res.coverage['inprocess_differences'] = len(stream_diffs)
    res.coverage['scenario_failures'] = len(bad)
    if failing and not res.violations:
        res.violation({'kind': 'proof', 'theorems': failing, 'explain': 'Props/C20.lean no longer checks'}, 'proof', no_input=True)
    return res.finish('proof', checker_cmd='lake build Wbxml.Props.C20 && #audit Wbxml.Props.C20 (lake env lean)')
