"""C10 — every language is recognised from its own identifiers; forcing always wins.
Proof: Props/C10.lean (models of check_public_id and wbxml_tables_search_table over the
regenerated tables). Tie: exhaustive IDENT correspondence: for each of the 29 languages x route
{numeric id, textual id in the string table (two spellings), DOCTYPE public id, system id, root
element, namespaced root} x {no forcing, each forced language}; expectation computed from the
dumped tables by the rule "first registered entry carrying that identifier"."""
import os, random
import common, corr, xcorr
from wbgen import mb


def first(langs, pred):
    for l in langs:
        if l['pub'] and pred(l):
            return l['id']
    return None


def run(res, args):
    rng = random.Random(res.seed)
    b = common.Build('asan')
    with common.lean_lock():
        d, changed = common.regenerate(b)
    mods = [m for m in ['Wbxml.Props.C10'] if os.path.exists(os.path.join(common.LEAN, *m.split('.')) + '.lean')]
    ok, failing = common.proof_step(res, mods, 'Wbxml.Props.C10', extra_targets=['driver'])
    hp, hx, er = b.harness('parse.c'), b.harness('encx.c'), b.harness('expat_rec.c')
    drv = corr.driver_exe()
    env = b.env()
    L = d['langs']
    T = d['tables']
    ids = [l['id'] for l in L]
    # ---- WBXML side
    wl, wexp, wdesc = [], [], []
    def body(l):
        r = T[str(l['tags'])]['rows'][0]
        return (b'\x00' + bytes([r[1]]) if r[1] else b'') + bytes([r[2]])
    for l in L:
        pub = l['pub']
        docs = []
        if pub['wbxml'] != 1:
            docs.append(('numeric', bytes([3]) + mb(pub['wbxml']) + mb(106) + mb(0) + body(l), first(L, lambda x: x['pub']['wbxml'] == pub['wbxml'])))
        if pub['xml']:
            s = bytes.fromhex(pub['xml'])
            for name, v in (('textual', s), ('textual-case', s.swapcase())):
                exp = first(L, lambda x: x['pub']['xml'] and bytes.fromhex(x['pub']['xml']).lower() == s.lower())
                docs.append((name, bytes([3, 0]) + mb(0) + mb(106) + mb(len(v) + 1) + v + b'\x00' + body(l), exp))
                docs.append((name + '-offset', bytes([3, 0]) + mb(3) + mb(106) + mb(len(v) + 4) + b'ab\x00' + v + b'\x00' + body(l), exp))
        docs.append(('none', bytes([3]) + mb(1) + mb(106) + mb(0) + body(l), None))
        docs.append(('unknown-numeric', bytes([3]) + mb(0x7777) + mb(106) + mb(0) + body(l), None))
        docs.append(('unknown-textual', bytes([3, 0]) + mb(0) + mb(106) + mb(5) + b'-//x\x00' + body(l), None))
        for route, doc, exp in docs:
            for force in [0] + ids:
                wl.append(f'PARSE {force} 0 {doc.hex()}')
                wexp.append(force if force else exp)
                wdesc.append((l['id'], route, force))
    # ---- XML side
    xl, xexp, xdesc = [], [], []
    for l in L:
        pub = l['pub']
        root = bytes.fromhex(pub['root'])
        # a prefixed root (DRMREL's o-ex:rights) needs its prefix declared to be XML at all
        decl = (b' xmlns:' + root.split(b':')[0] + b'="http://odrl.net/1.1/ODRL-EX"') if b':' in root else b''
        ns = T[str(l['ns'])]['rows'] if l['ns'] is not None else None
        def byroot(r):
            if b'|' in r:
                return first(L, lambda x: x['ns'] is not None and T[str(x['ns'])]['rows'] and r.lower().startswith(bytes.fromhex(T[str(x['ns'])]['rows'][0][0]).lower()))
            return first(L, lambda x: x['pub']['root'] is not None and bytes.fromhex(x['pub']['root']) == r)
        if pub['xml']:
            p = bytes.fromhex(pub['xml'])
            exp = first(L, lambda x: x['pub']['xml'] and bytes.fromhex(x['pub']['xml']).lower() == p.lower())
            xl.append(b'<!DOCTYPE ' + root + b' PUBLIC "' + p + b'" "x.dtd"><' + root + decl + b'/>'); xexp.append(exp); xdesc.append((l['id'], 'doctype-public'))
            xl.append(b'<!DOCTYPE ' + root + b' PUBLIC "' + p.swapcase() + b'" "x.dtd"><' + root + decl + b'/>'); xexp.append(exp); xdesc.append((l['id'], 'doctype-public-case'))
        if pub['dtd']:
            s = bytes.fromhex(pub['dtd'])
            exp = first(L, lambda x: x['pub']['dtd'] is not None and bytes.fromhex(x['pub']['dtd']) == s)
            xl.append(b'<!DOCTYPE ' + root + b' SYSTEM "' + s + b'"><' + root + decl + b'/>'); xexp.append(exp); xdesc.append((l['id'], 'system-id'))
            # public id unknown, system id known: the system id decides
            xl.append(b'<!DOCTYPE ' + root + b' PUBLIC "-//nobody//x" "' + s + b'"><' + root + decl + b'/>'); xexp.append(exp); xdesc.append((l['id'], 'system-id-after-unknown-public'))
        xl.append(b'<' + root + decl + b'/>'); xexp.append(byroot(root)); xdesc.append((l['id'], 'root-element'))
        if ns:
            n0 = bytes.fromhex(ns[0][0])
            xl.append(b'<' + root + b' xmlns="' + n0 + b'"/>'); xexp.append(byroot(n0 + b'|' + root)); xdesc.append((l['id'], 'namespaced-root'))
        # a DOCTYPE that carries no identifier at all (internal subset only) says nothing: the root element decides;
        # nor does the NAME in a DOCTYPE select a language (only public and system identifiers do)
        xl.append(b'<!DOCTYPE ' + root + b' [<!ENTITY e "x">]><' + root + decl + b'/>'); xexp.append(byroot(root)); xdesc.append((l['id'], 'doctype-without-identifiers'))
        if ns:
            n0 = bytes.fromhex(ns[0][0])
            xl.append(b'<!DOCTYPE ' + root + b' [<!ENTITY e "x">]><' + root + b' xmlns="' + n0 + b'"/>'); xexp.append(byroot(n0 + b'|' + root)); xdesc.append((l['id'], 'doctype-without-identifiers-namespaced-root'))
            other = next((bytes.fromhex(x['pub']['root']) for x in L if x['pub']['root'] and bytes.fromhex(x['pub']['root']) != root and b':' not in bytes.fromhex(x['pub']['root'])), None)
            if other:
                xl.append(b'<!DOCTYPE ' + other + b' [<!ENTITY e "x">]><' + root + b' xmlns="' + n0 + b'"/>'); xexp.append(byroot(n0 + b'|' + root)); xdesc.append((l['id'], 'doctype-name-of-another-language'))
        xl.append(b'<!DOCTYPE nosuchroot PUBLIC "-//nobody//x" "nosuch.dtd"><nosuchroot/>'); xexp.append(None); xdesc.append((l['id'], 'unknown'))
    wi, inc1 = corr.run_lines(hp, wl, env=env)
    wm, _ = corr.run_lines(drv, wl)
    xi, inc2 = corr.run_lines(hx, [f'X2T {x.hex()}' for x in xl], env=env)
    xm = xcorr.model_with_expat(drv, er, env, lambda i: 'X2T', xl)
    bad, diffs = [], []
    for i, (a, m, exp) in enumerate(zip(wi, wm, wexp)):
        res.add_eval(wl[i])
        got = None
        if a and a.startswith('R 0 ;'):
            got = int(a.split(' ; ')[1].split(' / ')[0].split()[2])
        if got != exp:
            bad.append(('wbxml', wdesc[i], wl[i], exp, a))
        if corr.canon_err(a) != corr.canon_err(m):
            diffs.append(('PARSE', wl[i], a, m))
    for i, (a, m, exp) in enumerate(zip(xi, xm, xexp)):
        res.add_eval(xl[i].hex())
        got = None
        if a and a.startswith('R 0 ; '):
            got = int(a[6:].split(':')[0])
        if got != exp:
            bad.append(('xml', xdesc[i], xl[i].decode('latin-1'), exp, a))
        if corr.canon_err(a) != corr.canon_err(m):
            diffs.append(('X2T', xl[i].decode('latin-1'), a, m))
    res.coverage.update({'wbxml_cases': len(wl), 'xml_cases': len(xl), 'exhaustive': True,
                         'traces_validated_against_impl': len(wl) + len(xl) - len(diffs),
                         'rule': 'every language x every identification route x {no forcing, each of the 29 forced languages} on the WBXML side; every language x {DOCTYPE public id (two spellings), system id, system id after unknown public id, root element, namespaced root, DOCTYPE without identifiers (plain / namespaced root / name of another language), unknown} on the XML side; expectation = first registered entry with that identifier'})
    res.samples = [{'case': wdesc[i], 'request': wl[i][:80], 'impl': (wi[i] or '')[:60]} for i in rng.sample(range(len(wl)), 4)]
    known = [k for k in common.load_known()['findings'] if k['property'] == 'C10']
    rest = []
    for item in bad:
        kind, desc, req, exp, a = item
        k = next((k for k in known if kind == 'xml' and (k['match'].get('route') == desc[1] or desc[1] in k['match'].get('routes', ())) and k['match'].get('lang') == desc[0]), None)
        if k:
            if f"{k['id']}: {k['what']}" not in res.known:
                res.known.append(f"{k['id']}: {k['what']}")
        else:
            rest.append(item)
    bad = rest
    for kind, desc, req, exp, a in bad[:4]:
        res.violation({'kind': 'wrong-language', 'side': kind, 'case': desc, 'request': req[:3000], 'expected_language': exp, 'impl': (a or '')[:300],
                       'explain': 'the document was not decoded under the first registered language carrying its identifier (or a forced language did not win, or a document without usable identifier was accepted)'},
                      f'{kind}-{desc[0]}-{desc[1]}')
    if diffs and not res.violations:
        s, req, a, m = diffs[0]
        res.violation({'kind': 'correspondence', 'stream': s, 'request': req[:3000], 'impl': (a or '')[:300], 'model': (m or '')[:300], 'differences': len(diffs)}, 'ident-correspondence', no_input=True)
    if failing and not res.violations:
        res.violation({'kind': 'proof', 'theorems': failing}, 'proof', no_input=True)
    return res.finish('proof', checker_cmd='lake build Wbxml.Props.C10 && #audit Wbxml.Props.C10')
