"""C03 — XML → WBXML → XML round trip preserves the document and is idempotent.
Proof: Props/C03.lean (round-trip theorems over the conversion models; growing). Tie: X2W and W2X
correspondence on every step of the round trip; implementation-side oracle: the first output,
re-read by Expat, has the same element nesting/names, attributes and character data as the source
(modulo exactly the documented normalisations, tools/docmp.py), and a second round trip reproduces
the first output byte for byte."""
import os, random
import common, corr, xmlgen, xcorr, docmp


def hexout(r):
    return bytes.fromhex(r[6:].split()[0]) if r and r.startswith('R 0 ; ') and len(r) > 6 else None


def run(res, args):
    rng = random.Random(res.seed)
    quick = res.tier == 'quick'
    b = common.Build('asan')
    with common.lean_lock():
        d, changed = common.regenerate(b)
    mods = [m for m in ['Wbxml.Props.C03'] if os.path.exists(os.path.join(common.LEAN, *m.split('.')) + '.lean')]
    ok, failing = common.proof_step(res, mods, 'Wbxml.Props.C03', extra_targets=['driver'])
    known = [k for k in common.load_known()['findings'] if k['property'] == 'C03']
    hx2w, hw2x, hp, er = b.harness('x2w.c'), b.harness('w2x.c'), b.harness('parse.c'), b.harness('expat_rec.c')
    drv = corr.driver_exe()
    langs = {l['id']: l for l in d['langs']}
    docs = [x for _, x in xmlgen.corpus_xml()]
    g = xmlgen.XmlTableGen(d, rng)
    xs = list(docs)
    for _ in range(1200 if quick else 60000):
        k = rng.random()
        if k < 0.5:
            x = rng.choice(docs)
            for _ in range(rng.randint(1, 2)):
                x = xmlgen.mutate_xml(rng, x)
        else:
            x = g.doc()
        if x:
            xs.append(x)
    xs += [xmlgen.syncml_xml(rng) for _ in range(150 if quick else 6000)]
    xs += xmlgen.ambiguous_name_docs(d, rng, 25 if quick else 100000)
    opts = [(rng.choice([0, 1, 2, 3, 3]), rng.choice([0, 1]), rng.choice([0, 1])) for _ in xs]   # version, keepws, strtbl
    env = b.env()

    def x2w(items):   # [(opt, xml)] -> responses
        out, inc = corr.run_lines(hx2w, [f'X2W {o[0]} {o[1]} {o[2]} 0 {x.hex()}' for o, x in items], env=env)
        return out, inc

    hx = b.harness('encx.c')
    noid = {l['id'] for l in d['langs'] if l['pub'] and l['pub']['wbxml'] == 1 and not l['pub']['xml']}

    def w2x(items, force):   # [(opt, wbxml)] -> responses ; compact output, white space kept iff requested
        out, inc = corr.run_lines(hw2x, [f'W2X {f} 0 0 0 {o[1]} {w.hex()}' for (o, w), f in zip(items, force)], env=env)
        return out, inc

    r1, inc1 = x2w(list(zip(opts, xs)))
    acc = [i for i in range(len(xs)) if hexout(r1[i]) is not None]
    w1 = {i: hexout(r1[i]) for i in acc}
    # a language that has no public identifier at all can only be converted back when the caller
    # names it (C10): the language the XML side selected is forced for those, and only for those
    xt, _ = corr.run_lines(hx, [f'X2T {xs[i].hex()}' for i in acc], env=env)
    force_of = {}
    for i, t in zip(acc, xt):
        try:
            lid = int(t[6:].split(':')[0])
        except Exception:
            lid = 0
        force_of[i] = lid if lid in noid else 0
    r2, inc2 = w2x([(opts[i], w1[i]) for i in acc], [force_of[i] for i in acc])
    x1 = {i: hexout(r) for i, r in zip(acc, r2)}
    back_fail = [i for i in acc if x1[i] is None]
    acc2 = [i for i in acc if x1[i] is not None]
    r3, inc3 = x2w([(opts[i], x1[i]) for i in acc2])
    w2 = {i: hexout(r) for i, r in zip(acc2, r3)}
    acc3 = [i for i in acc2 if w2[i] is not None]
    r4, inc4 = w2x([(opts[i], w2[i]) for i in acc3], [force_of[i] for i in acc3])
    x2 = {i: hexout(r) for i, r in zip(acc3, r4)}
    # model side of the first two steps (correspondence)
    m1 = xcorr.model_with_expat(drv, er, env, lambda j: f'X2W {opts[j][0]} {opts[j][1]} {opts[j][2]} 0', xs)
    m2, _ = corr.run_lines(drv, [f'W2X {force_of[i]} 0 0 0 {opts[i][1]} {w1[i].hex()}' for i in acc])
    corr_diff = [('X2W', i) for i in range(len(xs)) if corr.canon_err(r1[i]) != corr.canon_err(m1[i])] + \
                [('W2X', i) for i, a, m in zip(acc, r2, m2) if corr.canon_err(a) != corr.canon_err(m)]
    # language of each accepted document
    pl, _ = corr.run_lines(hp, [f'PARSE {force_of[i]} 0 {w1[i].hex()}' for i in acc2], env=env)
    lang_of = {}
    for i, p in zip(acc2, pl):
        try:
            lang_of[i] = int(p.split(' ; ')[1].split(' / ')[0].split()[2])
        except Exception:
            pass
    src_runs = xcorr.expat_runs(er, env, [xs[i] for i in acc2])
    dst_runs = xcorr.expat_runs(er, env, [x1[i] for i in acc2])

    viol, seen_known = [], set()
    excuse_of = {}

    def report(i, what, extra, scope=None):
        # an excuse (known finding present in the source) counts only where it can act: in the element
        # the difference lies in (scope None: the failure has no location inside the document)
        tags = sorted(docmp.applicable(excuse_of.get(i, {}), scope)) + [what]
        k = next((k for k in known for t in tags if k['match'].get('contains') and k['match']['contains'] in t), None)
        if k:
            seen_known.add(k['id'])
        else:
            viol.append((i, what, extra))
    stats = {'accepted': len(acc), 'round_tripped': len(acc2), 'compared': 0, 'idempotence_checked': 0}
    src_all = xcorr.expat_runs(er, env, [xs[i] for i in back_fail])
    for i, sr in zip(back_fail, src_all):
        # language from the XML side
        try:
            lid = int(xt[acc.index(i)][6:].split(':')[0])
            excuse_of[i] = docmp.excuses_scoped(docmp.Norm(d, langs[lid]), docmp.doc_of_expat(sr)[2])
        except Exception:
            pass
        report(i, 'the WBXML produced from an accepted document is rejected by the WBXML→XML conversion', r2[acc.index(i)])
    for i, sr, dr in zip(acc2, src_runs, dst_runs):
        res.add_eval(xs[i].hex()[:4000] + str(opts[i]))
        if i not in lang_of or lang_of[i] not in langs:
            continue
        ok1, _, sdoc = docmp.doc_of_expat(sr)
        ok2, _, ddoc = docmp.doc_of_expat(dr)
        norm = docmp.Norm(d, langs[lang_of[i]])
        excuse_of[i] = docmp.excuses_scoped(norm, sdoc)
        if not ok2:
            report(i, 'the round-tripped XML is not well-formed', x1[i][:300])
            continue
        diff = docmp.compare_at(norm, sdoc, ddoc, opts[i][1] == 1)
        stats['compared'] += 1
        if diff:
            report(i, 'document changed: ' + diff[0], x1[i][:400], scope=diff[1])
        if i in x2:
            stats['idempotence_checked'] += 1
            if x2[i] != x1[i]:
                tag = ' [empty-element-form]' if (x2[i] is not None and docmp.same_up_to_empty_element_form(x1[i], x2[i])) else ''
                report(i, 'second round trip differs from the first' + tag, (x1[i][:200], (x2[i] or b'')[:200]))
        elif i in w2 and w2[i] is None:
            report(i, 'the first output is not accepted by the XML→WBXML conversion', r3[acc2.index(i)])
    for k in known:
        if k['id'] in seen_known:
            res.known.append(f"{k['id']}: {k['what']}")
    res.coverage.update(stats)
    res.coverage['traces_validated_against_impl'] = len(xs) + len(acc) - len(corr_diff)
    res.coverage['rule'] = ('corpus XML, 1-2 textual/structural mutations of it, documents synthesised from every language\'s tables; options version x keep-ws x strtbl, compact output; '
                            'oracle: Expat re-reads the output and docmp.compare finds the same nesting, names (alias classes), attributes, character data (trim rule, typed values by value), '
                            'then a second round trip is byte-identical')
    res.samples = [{'xml': xs[i][:200].decode('latin-1'), 'options(version,keepws,strtbl)': opts[i], 'first_output': (x1.get(i) or b'')[:200].decode('latin-1')} for i in rng.sample(acc2, min(3, len(acc2)))]
    for inc, hh, mk in ((inc1, hx2w, lambda j: f'X2W {opts[j][0]} {opts[j][1]} {opts[j][2]} 0 {xs[j].hex()}'),):
        for idx, rc, err in inc:
            if idx < len(xs):
                r, rc1, err1 = corr.isolate(hh, mk(idx), env=env)
                if rc1 != 0 or r is None:
                    res.violation({'kind': 'sanitizer-or-crash', 'request': mk(idx)[:4000], 'rc': rc1, 'stderr': err1[-2000:]}, f'crash-{idx}')
    for i, what, extra in viol[:4]:
        res.violation({'kind': 'round-trip', 'what': what, 'xml': xs[i].decode('latin-1')[:4000], 'xml_hex': xs[i].hex(), 'first_output_hex': (x1.get(i) or b'').hex(), 'options(version,keepws,strtbl)': opts[i], 'detail': str(extra)[:1500],
                       'replay': f'X2W {opts[i][0]} {opts[i][1]} {opts[i][2]} 0 {xs[i].hex()} ; then W2X 0 0 0 0 {opts[i][1]} <result>'}, f'rt-{i}')
    if corr_diff and not res.violations:
        s, i = corr_diff[0]
        res.violation({'kind': 'correspondence', 'stream': s, 'xml': xs[i].decode('latin-1')[:2000], 'differences': len(corr_diff)}, 'rt-correspondence', no_input=True)
    if failing and not res.violations:
        res.violation({'kind': 'proof', 'theorems': failing}, 'proof', no_input=True)
    res.assumptions = ['XML text <-> SAX events is Expat\'s (parameter); the comparison of source and result is made on Expat\'s events']
    return res.finish('proof', checker_cmd='lake build Wbxml.Props.C03 && #audit Wbxml.Props.C03')
