"""C18 — a tree built through the API equals the tree parsed from the same XML.

Proof: lean/Wbxml/Props/C18.lean (index-linked heap model of wbxml_tree.c, `Inv` preserved by every
call and by all finite histories, `abs`, text merging, teardown).
Tie: TREE request lines carry whole histories of API calls on one tree; harness/treeops.c runs them
on the real code under ASan+UBSan+LSan, walks the real links after every call, and prints the tree
and every detached sub-tree; lean/Driver/TreeOps.lean replays the heap model; the streams must be
identical up to ' ## ' (after it: implementation-only observations).
Oracle on the implementation's own outputs (independent of the model):
  links consistent after every call; no adjacent text siblings; a call on a node that is not in
  the tree leaves the tree alone; a second API history with the same shape gives the same XML and
  WBXML bytes; the XML text parsed back by wbxml_tree_from_xml re-encodes to the same XML and WBXML
  bytes; LSan clean after teardown of every line."""
import json, os, random, re, subprocess, time
import common, corr
from common import log

DRIVER = os.path.join(common.LEAN, '.lake', 'build', 'bin', 'driver_tree')
CORPUS = os.path.join(common.VERIF, 'corpus', 'c18')
NOP = 'ex,-'

# ------------------------------------------------------------------ vocabulary


class Vocab:
    def __init__(self, d):
        self.langs = []
        T = d['tables']
        for l in d['langs']:
            rows = lambda k: (T[str(l[k])]['rows'] if l[k] is not None else None)
            self.langs.append({'id': l['id'], 'tags': rows('tags') or [], 'attrs': rows('attrs'), 'ns': rows('ns'),
                               'root': l['pub'].get('root')})

    def lang(self, rng):
        return rng.choice(self.langs)


XML_NAME = re.compile(rb'^[A-Za-z_][A-Za-z0-9_.:-]*$')
LIT_NAMES = [b'foo', b'x-y', b'Bar', b'a', b'unknown', b'data.item', b'ns_el']
LIT_ATTRS = [b'id', b'x-attr', b'lang', b'zz']
WORDS = [b'a', b'b', b'ab', b'hello', b'wor ld', b' lead', b'trail ', b'  ', b'\n', b'x<y', b'a&b', b'"q"', b"it's", b'1234',
         b'http://www.example.com/', b'\xc3\xa9t\xc3\xa9', b'text/x-vcard', b'application/vnd.syncml-devinf+xml', b'-', b'.']


def hx(b):
    return b.hex() or '-'


def rnd_text(rng, clean):
    if clean:
        n = rng.randint(1, 3)
        s = b''.join(rng.choice([b'a', b'b', b'ab', b'hello', b'1234', b'x<y', b'a&b', b'"q"', b"it's", b'\xc3\xa9t\xc3\xa9', b'-', b'.'])
                     for _ in range(n))
        return s
    k = rng.random()
    if k < 0.05:
        return b''
    if k < 0.15:
        return rng.choice([b' ', b'  ', b'\n', b'\t ', b'\r\n'])
    return b''.join(rng.choice(WORDS) for _ in range(rng.randint(1, 3)))


class Mirror:
    """Light mirror of the history, only to aim the generator at usable handles. The verdicts never
    depend on it."""

    def __init__(self):
        self.kind, self.parent, self.kids, self.alive = {}, {}, {}, {}
        self.root = None
        self.n = 0

    def new(self, kind, h):
        self.kind[h], self.parent[h], self.kids[h], self.alive[h] = kind, None, [], True

    def attach(self, par, h):
        if par is None:
            if self.root is not None:
                return False
            self.root = h
            return True
        ks = self.kids[par]
        if ks and self.kind[h] == 'T' and self.kind[ks[-1]] == 'T':
            old = ks.pop()
            self.alive[old] = False
        ks.append(h)
        self.parent[h] = par
        return True

    def sub(self, h):
        out = [h]
        for k in self.kids.get(h, []):
            out += self.sub(k)
        return out

    def live(self):
        return [h for h in self.alive if self.alive[h] and not isinstance(h, tuple)]

    def branches(self):
        return [h for h in self.live() if self.kind[h] in 'EC']

    def detached(self):
        return [h for h in self.live() if self.parent[h] is None and h != self.root]

    def extract(self, h):
        p = self.parent[h]
        if p is not None:
            self.kids[p].remove(h)
            self.parent[h] = None
        elif h == self.root:
            self.root = None

    def destroy(self, h):
        for x in self.sub(h):
            self.alive[x] = False


def rnd_tname(rng, L):
    if L['tags'] and rng.random() < 0.85:
        r = rng.choice(L['tags'])
        return f't.{r[1]}.{r[2]}.{r[0]}'
    return 'l.' + hx(rng.choice(LIT_NAMES))


def rnd_attr(rng, L):
    if L['attrs'] and rng.random() < 0.8:
        r = rng.choice(L['attrs'])
        pre = bytes.fromhex(r[1]) if r[1] is not None else b''
        val = pre + (rng.choice([b'', b'x', b'abc', b'www.x.org/', b'1']) if rng.random() < 0.7 else b'')
        return f't.{r[2]}.{r[3]}.{r[0]}.{hx(bytes.fromhex(r[1])) if r[1] is not None else "~"}={hx(val)}'
    return 'l.' + hx(rng.choice(LIT_ATTRS)) + '=' + hx(rng.choice([b'', b'v', b'a b', b'x<y', b'http://a.b/']))


def clean_tag(r):
    """Tag rows the 'clean' stream may use: XML names without prefix (a prefix needs a declaration), not the
    elements the XML front end treats specially (embedded DevInf/DDF documents, SyncML <Data> CDATA rules,
    base64 content of binary-flagged ActiveSync elements: C02/C03)."""
    nm = bytes.fromhex(r[0])
    return bool(XML_NAME.match(nm)) and b':' not in nm and nm not in (b'DevInf', b'MgmtTree', b'Data') and not (r[3] & 1)


def rnd_xname(rng, L, clean):
    """XML element name as the XML front end hands it over: [namespace '|'] name."""
    k = rng.random()
    if L['tags'] and k < 0.85:
        r = rng.choice(L['tags'])
        if clean:
            # names that are no XML names ("Reserved for future use") and the elements the XML front end
            # treats specially (embedded DevInf/DDF documents, SyncML <Data> CDATA rules: C02/C03) stay out
            for _ in range(40):
                if clean_tag(r):
                    break
                r = rng.choice(L['tags'])
            else:
                return rng.choice(LIT_NAMES)
        nm = bytes.fromhex(r[0])
        if L['ns']:
            q = rng.random()
            own = [n for n in L['ns'] if n[1] == r[1]]
            if q < 0.6 and own:
                return bytes.fromhex(own[0][0]) + b'|' + nm
            if q < 0.75 and not clean:
                return bytes.fromhex(rng.choice(L['ns'])[0]) + b'|' + nm
            if q < 0.8 and not clean:
                return b'no:such|' + nm
        return nm
    if clean and L['ns'] and L['tags']:
        # a literal element of a language with namespaces gets no (or, as root, a wrong) xmlns from the XML
        # generator (DESIGN.md Appendix C, XML encoder; C05): outside what C18 is about
        r = rng.choice(L['tags'])
        for _ in range(40):
            if clean_tag(r):
                break
            r = rng.choice(L['tags'])
        own = [n for n in L['ns'] if n[1] == r[1]]
        return (bytes.fromhex(own[0][0]) + b'|' if own else b'') + bytes.fromhex(r[0])
    nm = rng.choice(LIT_NAMES)
    if L['ns'] and rng.random() < 0.3:
        return bytes.fromhex(rng.choice(L['ns'])[0]) + b'|' + nm
    return nm


def rnd_xattrs(rng, L, clean):
    out, used = [], set()
    if clean and not L['attrs']:
        return '-'      # attributes of languages without attribute table are dropped by both encoders (C03, design limitation)
    for _ in range(rng.choice([0, 0, 1, 1, 2, 3])):
        if L['attrs'] and rng.random() < 0.8:
            r = rng.choice(L['attrs'])
            nm = bytes.fromhex(r[0])
            pre = bytes.fromhex(r[1]) if r[1] is not None else b''
            val = pre + rng.choice([b'', b'x', b'abc', b'www.x.org/', b'1', b'q'])
        else:
            nm = rng.choice(LIT_ATTRS)
            val = rng.choice([b'', b'v', b'a b', b'x<y', b'http://a.b/'])
        if nm in used or (clean and (b':' in nm or nm == b'xmlns')):
            continue
        used.add(nm)
        out.append(hx(nm) + '=' + hx(val))
    return '+'.join(out) or '-'


def rnd_subtree(rng, V):
    L = V.lang(rng)
    if not L['tags']:
        return None
    r = rng.choice(L['tags'])
    r2 = rng.choice(L['tags'])
    inner = rng.choice(['', f'T{hx(rng.choice([b"a", b"in ner", b"x<y"]))}.', f'Et.{r2[1]}.{r2[2]}.{r2[0]}()'])
    return f"{L['id']}:{rng.choice([0, 106])}:Et.{r[1]}.{r[2]}.{r[0]}({inner})"


def gen_history(rng, V, maxops, mode):
    """mode: 'clean'   XML-name calls, well-behaved text, add-only  (api_eq_parsed is expected to hold)
             'addonly' every add call, any text, no extraction
             'mixed'   everything, including extraction, re-insertion, destruction, stale handles"""
    L = V.lang(rng)
    if mode == 'clean':
        while not L['tags']:
            L = V.lang(rng)
    m = Mirror()
    ops = []
    n = rng.randint(1, maxops)
    clean = mode == 'clean'
    for i in range(n):
        br = m.branches()
        k = rng.random()
        par = None
        if m.root is None and (not m.detached() or rng.random() < 0.7) and k < 0.9:
            par = '-'
        elif br:
            # prefer recent / deep parents now and then, else uniform
            par = rng.choice(br[-3:]) if rng.random() < 0.5 else rng.choice(br)
        else:
            par = '-'
        if not clean and rng.random() < 0.03:
            par = rng.choice(['-', rng.randrange(0, i + 1), rng.randrange(0, i + 3)]) if i else '-'
        pk = None if par == '-' else par
        pvalid = par == '-' or (par in m.alive and m.alive[par] and m.kind.get(par) in ('E', 'C'))
        k = rng.random()
        structural = mode == 'mixed' and k < 0.27 and i > 1
        if structural:
            q = rng.random()
            liv, det = m.live(), m.detached()
            if q < 0.45 and liv:
                h = rng.choice(liv) if rng.random() < 0.9 else rng.randrange(0, i)
                ops.append(f'ex,{h}')
                if h in m.alive and m.alive[h]:
                    m.extract(h)
            elif q < 0.8 and det:
                h = rng.choice(det) if rng.random() < 0.9 else rng.choice(liv)
                tgt = par
                if rng.random() < 0.08:
                    tgt = rng.choice([x for x in m.sub(h) if not isinstance(x, tuple)])   # below itself: must be refused
                ops.append(f'an,{tgt},{h}')
                tv = tgt == '-' or (tgt in m.alive and m.alive[tgt] and m.kind.get(tgt) in ('E', 'C'))
                if tv and h in det and (tgt == '-' or tgt not in m.sub(h)):
                    m.attach(None if tgt == '-' else tgt, h)
            elif q < 0.93 and det:
                h = rng.choice(det) if rng.random() < 0.9 else rng.choice(liv)
                ops.append(f'de,{h}')
                if h in det:
                    m.destroy(h)
            else:
                dead = [h for h in m.alive if not m.alive[h] and not isinstance(h, tuple)]
                h = rng.choice(dead) if dead else rng.randrange(0, i)
                ops.append(rng.choice([f'ex,{h}', f'at,{h},61', f'an,-,{h}', f'de,{h}']))
            continue
        # ---- add calls
        k = rng.random()
        if clean:
            pcd = pk is not None and m.kind.get(pk) == 'C'
            if pcd or k < 0.35:
                if pk is None:
                    k = 0.5
                else:
                    t = rnd_text(rng, True)
                    if pcd:
                        t = t.replace(b']', b'')or b'c'
                    ops.append(f'at,{par},{hx(t)}')
                    m.new('T', i); m.attach(pk, i)
                    continue
            if k < 0.42 and pk is not None and not pcd:
                ops.append(f'ac,{par}'); m.new('C', i); m.attach(pk, i); continue
            nm = rnd_xname(rng, L, True)
            if pk is None and L['root'] and rng.random() < 0.8 and b':' not in bytes.fromhex(L['root']) and \
                    any(t[0] == L['root'] for t in L['tags']):
                nm = bytes.fromhex(L['root'])
                if L['ns']:
                    nm = bytes.fromhex(L['ns'][0][0]) + b'|' + nm
            q = rng.random()
            if q < 0.3:
                ops.append(f'ax,{par},{hx(nm)}')
            elif q < 0.7:
                ops.append(f'ay,{par},{hx(nm)},{rnd_xattrs(rng, L, True)}')
            else:
                ops.append(f'az,{par},{hx(nm)},{rnd_xattrs(rng, L, True)},{hx(rnd_text(rng, True))}')
            m.new('E', i)
            if m.attach(pk, i) and q >= 0.7:
                m.new('T', ('i', i)); m.attach(i, ('i', i))
            continue
        if k < 0.28:
            ops.append(f'at,{par},{hx(rnd_text(rng, False))}')
            if pvalid:
                m.new('T', i)
                if not m.attach(pk, i):
                    m.alive[i] = False
        elif k < 0.34:
            ops.append(f'ac,{par}')
            if pvalid:
                m.new('C', i)
                if not m.attach(pk, i):
                    m.alive[i] = False
        elif k < 0.38:
            st = rnd_subtree(rng, V)
            if st is None:
                ops.append(f'ac,{par}'); kd = 'C'
            else:
                ops.append(f'ar,{par},{st}'); kd = 'R'
            if pvalid:
                m.new(kd, i)
                if not m.attach(pk, i):
                    m.alive[i] = False
        else:
            q = rng.random()
            if q < 0.2:
                ops.append(f'ae,{par},{rnd_tname(rng, L)}')
            elif q < 0.4:
                at = '+'.join(rnd_attr(rng, L) for _ in range(rng.choice([0, 1, 1, 2, 3]))) or '-'
                ops.append(f'aa,{par},{rnd_tname(rng, L)},{at}')
            elif q < 0.6:
                ops.append(f'ax,{par},{hx(rnd_xname(rng, L, False))}')
            elif q < 0.8:
                ops.append(f'ay,{par},{hx(rnd_xname(rng, L, False))},{rnd_xattrs(rng, L, False)}')
            else:
                ops.append(f'az,{par},{hx(rnd_xname(rng, L, False))},{rnd_xattrs(rng, L, False)},{hx(rnd_text(rng, False))}')
            if pvalid:
                m.new('E', i)
                if not m.attach(pk, i):
                    m.alive[i] = False
                elif q >= 0.8 and ops[-1].split(',')[4] != '-':
                    m.new('T', ('i', i)); m.attach(i, ('i', i))
    return f"{'TREEP' if clean else 'TREE'} {L['id']} {rng.choice([0, 0, 106, 4])} " + ' '.join(ops)


# ------------------------------------------------------------------ reading responses

def split_resp(resp):
    """-> (public part compared with the model, segments, xml field, private fields dict)"""
    if resp is None:
        return None, [], None, {}
    pub, _, priv = resp.partition(' ## ')
    body, _, x = pub.partition(' // ')
    segs = [s.split('|') for s in body.split(' / ')] if body else []
    pf = {}
    for part in priv.split(' ; '):
        toks = part.split()
        if not toks:
            continue
        if toks[0] in ('W', 'P', 'T2'):
            pf[toks[0]] = toks[1:]
        elif toks[0].startswith('leak='):
            pf['leak'] = toks[0][5:]
        elif toks[0].startswith('pleak='):
            pf['pleak'] = toks[0][6:]
        elif toks[0].startswith('live=') or toks[0].startswith('teardown='):
            pf['model_teardown'] = toks[0]
    return pub, segs, x, pf


def oracle(line, resp, mode):
    """Property oracle on the implementation's own output. Returns list of (class, detail)."""
    out = []
    pub, segs, x, pf = split_resp(resp)
    if resp is None:
        return [('no-answer', '')]
    ops = line.split()[3:]
    prev_tree, prev_det = None, ''
    seen_ex = False
    prev_adj = 0
    for i, sg in enumerate(segs):
        if len(sg) != 5:
            out.append(('malformed-segment', str(sg)[:200])); break
        ret, inv, adj, tree, det = sg
        op = ops[i] if i < len(ops) else ''
        if inv != 'ok':
            out.append(('links', f'op {i} {op}: {inv}')); break
        if ret == 'BADOP':
            out.append(('badop', op))
        if int(adj) > prev_adj:
            # an extraction may legitimately be blamed (known finding); any other call creating adjacency is new
            out.append(('adjacent-text-after-extract' if op.startswith('ex,') else 'adjacent-text',
                        f'op {i} {op}: {adj} adjacent text pair(s) in {tree} | {det}'))
        prev_adj = int(adj)
        if op.startswith('ex,'):
            seen_ex = True
            h = op.split(',')[1]
            if ret == 'R0' and prev_tree is not None and re.search(r'(^|&)d' + re.escape(h) + '=', prev_det) and tree != prev_tree:
                out.append(('extract-detached-changes-tree', f'op {i} {op}: node was already detached, tree {prev_tree} -> {tree}'))
        if ret == 'SKIP' and prev_tree is not None and (tree != prev_tree or det != prev_det):
            out.append(('skip-changed-state', f'op {i} {op}'))
        prev_tree, prev_det = tree, det
    if 'T2' in pf and pf['T2'] and pf['T2'][0] != '-':
        t2 = pf['T2']
        if t2[0] != '1':
            out.append(('second-history-shape', ' '.join(t2)))
        elif t2[2] != '1' or t2[4] != '1':
            out.append(('encoder-not-function-of-shape', ' '.join(t2)))
    if pf.get('leak') not in ('0', '-1'):      # -1: links already reported as inconsistent, no teardown
        out.append(('leak', pf.get('leak', '?')))
    p = pf.get('P')
    if p and p[0] == '0':
        if ('x=0' in p or 'w=0' in p):
            if any(c[0].startswith('adjacent-text') for c in out) or prev_adj:
                out.append(('adjacent-text-after-extract:bytes', ' '.join(p)[:300]))
            elif mode == 'clean':
                out.append(('api-ne-parsed', ' '.join(p)[:600]))
    elif p and p[0] not in ('-',) and mode == 'clean' and x and x.startswith('X 0 '):
        out.append(('api-xml-not-parsed', ' '.join(p)))
    return out


def run_pair(exe, env, lines, chunk=200):
    impl, inc = corr.run_lines(exe, lines, env=env, chunk=chunk, timeout=900)
    model, incm = corr.run_lines(DRIVER, lines, chunk=chunk, timeout=900)
    return impl, inc, model, incm


def judge(exe, env, line, mode):
    a, rc, err = corr.isolate(exe, line, env=env, timeout=60)
    m, rcm, errm = corr.isolate(DRIVER, line, timeout=60)
    crash = None
    if (rc not in (0, 77)) or a is None:      # 77 = the harness ends its process after a line that lost memory
        crash = f'rc={rc} ' + (err or '')[-2500:]
    orc = oracle(line, a, mode) if not crash else []
    pa = split_resp(a)
    pm = split_resp(m)
    if pm[3].get('model_teardown') not in (None, 'live=0') and not crash:
        orc = orc + [('model-teardown', pm[3].get('model_teardown'))]
    return {'impl': a, 'model': m, 'crash': crash, 'oracle': orc, 'diff': (not crash) and pa[0] != pm[0]}


def classes(j):
    if j['crash']:
        m = re.search(r'(AddressSanitizer: [a-zA-Z-]+|LeakSanitizer|runtime error: [^\n]{0,60})', j['crash'])
        return ['sanitizer:' + (m.group(1) if m else 'crash')]
    cl = [c for c, _ in j['oracle']]
    if j['diff']:
        cl.append('correspondence')
    return cl


def shrink(exe, env, line, mode, cls, budget=160):
    """Delta-debug the op list (ops are replaced by a skipped no-op so handle indices stay put)."""
    toks = line.split()
    head, ops = toks[:3], toks[3:]
    tries = 0

    def ok(cand):
        nonlocal tries
        tries += 1
        return cls in classes(judge(exe, env, ' '.join(head + cand), mode))

    # drop the tail first
    lo = len(ops)
    while lo > 1 and tries < budget and ok(ops[:lo // 2]):
        lo //= 2
        ops = ops[:lo]
    while len(ops) > 1 and tries < budget and ok(ops[:-1]):
        ops = ops[:-1]
    n = 2
    idx = [i for i, o in enumerate(ops) if o != NOP]
    while idx and tries < budget:
        chunk = max(1, len(idx) // n)
        reduced = False
        for s in range(0, len(idx), chunk):
            cand = list(ops)
            for i in idx[s:s + chunk]:
                cand[i] = NOP
            if ok(cand):
                ops, reduced = cand, True
                idx = [i for i, o in enumerate(ops) if o != NOP]
                n = max(n - 1, 2)
                break
        if not reduced:
            if chunk == 1:
                break
            n = min(len(idx), n * 2)
    # compaction: remove the no-ops, renumber handle references
    keep = [i for i, o in enumerate(ops) if o != NOP]
    remap = {old: new for new, old in enumerate(keep)}
    comp = []
    for i in keep:
        f = ops[i].split(',')
        refpos = {'an': [1, 2], 'ex': [1], 'de': [1]}.get(f[0], [1])
        for p in refpos:
            if p < len(f) and f[p] != '-' and f[p].isdigit():
                f[p] = str(remap.get(int(f[p]), 9999))
        comp.append(','.join(f))
    if comp and tries < budget + 5 and ok(comp):
        ops = comp
    return ' '.join(head + ops)


def match_known(known, cls, line):
    for k in known:
        m = k.get('match', {})
        if m.get('class') and cls.split(':')[0] == m['class']:
            need = m.get('ops', [])
            have = [o.split(',')[0] for o in line.split()[3:]]
            if all(n in have for n in need):
                return k
    return None


# ------------------------------------------------------------------ entry point

def run(res, args):
    rng = random.Random(res.seed)
    b = common.Build('asan')
    with common.lean_lock():
        d, changed = common.regenerate(b)
    ok, failing = common.proof_step(res, ['Wbxml.Props.C18'], 'Wbxml.Props.C18', extra_targets=['driver_tree'])
    exe = b.harness('treeops.c')
    env = b.env()
    known = [k for k in common.load_known()['findings'] if k['property'] == 'C18']
    res.assumptions += ['allocation never fails (C16 covers failure schedules)',
                        'node arguments are nodes of this tree or nodes extracted from it; parents are element or CDATA nodes; '
                        'a node is never inserted below itself; only detached nodes are re-inserted or destroyed '
                        '(calls outside this contract are skipped on both sides and counted)']
    V = Vocab(d)

    if args.replay:
        rp = json.load(open(args.replay))
        line = rp.get('request') or rp.get('input')
        j = judge(exe, env, line, rp.get('mode', 'mixed'))
        print(json.dumps({'request': line, **j}, indent=1, default=str))
        cl = [c for c in classes(j) if not match_known(known, c, line)]
        if cl:
            res.violation({'kind': 'replay', 'request': line, 'classes': cl, **j}, 'replay')
        return res.finish('proof', checker_cmd='check.py C18 --replay')

    # ---- request lines: corpus first, then generated
    lines, modes = [], []
    if os.path.isdir(CORPUS):
        for fn in sorted(os.listdir(CORPUS)):
            if fn.endswith('.txt'):
                for ln in open(os.path.join(CORPUS, fn)):
                    ln = ln.strip()
                    if ln and not ln.startswith('#'):
                        md = 'mixed'
                        if ln.startswith('clean:'):
                            md, ln = 'clean', ln[6:]
                        lines.append(ln); modes.append(md)
    ncorpus = len(lines)
    total = 1000 if res.tier == 'quick' else 50000
    for i in range(total):
        md = ('clean', 'addonly', 'mixed', 'mixed', 'mixed')[i % 5]
        lines.append(gen_history(rng, V, 30, md)); modes.append(md)

    t0 = time.time()
    impl, inc, model, incm = run_pair(exe, env, lines)
    elapsed = time.time() - t0
    suspects = {}       # class -> list of line indices
    ndiff = nor = ncrash = 0
    opcount, lenhist, retkinds, langs_hit, rows_hit = {}, {}, {}, set(), set()
    merges = skips = adjseen = extracts = maxnodes = 0
    parsed_same = parsed_lines = second_same = 0
    # a harness process ends early after a line that lost memory (exit 77, the line itself is answered) or
    # on a sanitizer abort (the line is not answered): run what was left unanswered again, in small chunks
    for _ in range(6):
        todo = [i for i in range(len(lines)) if impl[i] is None]
        if not todo:
            break
        impl2, inc2 = corr.run_lines(exe, [lines[i] for i in todo], env=env, chunk=25, timeout=600)
        got = 0
        for k, i in enumerate(todo):
            if impl2[k] is not None:
                impl[i] = impl2[k]; got += 1
        if not got:
            break
    crashed = [i for i in range(len(lines)) if impl[i] is None]
    own_rows = {str(L['id']): {(r[0], r[1], r[2]) for r in L['tags']} for L in V.langs}
    for i, ln in enumerate(lines):
        res.add_eval(ln)
        toks = ln.split()
        ops = toks[3:]
        langs_hit.add(toks[1])
        lenhist[len(ops)] = lenhist.get(len(ops), 0) + 1
        for o in ops:
            opcount[o.split(',')[0]] = opcount.get(o.split(',')[0], 0) + 1
        a, m = impl[i], model[i]
        if a is None:
            continue
        pa, segs, x, pf = split_resp(a)
        for sg in segs:
            if len(sg) == 5:
                retkinds[sg[0][:1] if sg[0][:1] != 'R' else sg[0]] = retkinds.get(sg[0][:1] if sg[0][:1] != 'R' else sg[0], 0) + 1
                if sg[0] == 'SKIP':
                    skips += 1
                if sg[2] != '0':
                    adjseen += 1
                maxnodes = max(maxnodes, sg[3].count('E') + sg[3].count('T'))
                for mt in re.finditer(r'Et\.(\d+)\.(\d+)\.([0-9a-f]+)', sg[3]):
                    if (mt.group(3), int(mt.group(1)), int(mt.group(2))) in own_rows.get(toks[1], ()):
                        rows_hit.add((toks[1], mt.group(1), mt.group(2), mt.group(3)))
        if pf.get('P') and pf['P'][0] == '0':
            parsed_lines += 1
            parsed_same += ('x=1' in pf['P'] and 'w=1' in pf['P'])
        if pf.get('T2') and pf['T2'][:1] == ['1'] and pf['T2'][2:3] == ['1'] and pf['T2'][4:5] == ['1']:
            second_same += 1
        orc = oracle(ln, a, modes[i])
        pm = split_resp(m)
        if m is not None and pm[3].get('model_teardown') not in (None, 'live=0'):
            orc.append(('model-teardown', pm[3].get('model_teardown')))
        for c, _ in orc:
            suspects.setdefault(c, []).append(i)
        if orc:
            nor += 1
        if m is None or pa != pm[0]:
            ndiff += 1
            suspects.setdefault('correspondence', []).append(i)
    # lines that never got an answer: the process dies on them
    for i in crashed[:40]:
        j = judge(exe, env, lines[i], modes[i])
        if j['crash']:
            ncrash += 1
            suspects.setdefault(classes(j)[0], []).append(i)
    log(f'{len(lines)} histories ({ncorpus} corpus) in {elapsed:.1f}s: {ncrash} sanitizer aborts, '
        f'{nor} with oracle failures, {ndiff} model differences; classes: ' + ', '.join(f'{k}={len(v)}' for k, v in suspects.items()))

    # ---- decide: per class, minimise the shortest suspect, match against the known findings
    seen_known, reported = set(), 0
    for cls, idxs in suspects.items():
        if reported >= 6:
            break
        i = min(idxs, key=lambda q: len(lines[q]))
        if cls == 'leak':
            # LSan scans conservatively: a lost block can stay "reachable" through stale stack words and be
            # reported one or two lines late. Attribute to the line that loses memory when run alone.
            cand = []
            for q in sorted(idxs, key=lambda q: len(lines[q]))[:12]:
                cand += [q, q - 1, q - 2]
            for q in cand:
                if 0 <= q < len(lines) and 'leak' in classes(judge(exe, env, lines[q], modes[q])):
                    i = q
                    break
        k = match_known(known, cls, lines[i])
        if k and all(match_known(known, cls, lines[q]) for q in idxs[:50]):
            if k['id'] not in seen_known:
                seen_known.add(k['id'])
                small = shrink(exe, env, lines[i], modes[i], cls, budget=60)
                res.known.append(f"{k['id']}: {k['what']} (seen in {len(idxs)} histories; replay: {small})")
            continue
        if k:
            # some histories of this class do not match the finding: report one of those
            i = next(q for q in idxs if not match_known(known, cls, lines[q]))
        small = shrink(exe, env, lines[i], modes[i], cls)
        j = judge(exe, env, small, modes[i])
        reported += 1
        if cls == 'correspondence':
            # the code no longer behaves like the model: look for an oracle failure in the neighbourhood
            found = None
            r2 = random.Random(res.seed * 7919 + reported)
            deadline = time.time() + (25 if res.tier == 'quick' else 180)
            while found is None and time.time() < deadline:
                cands = [gen_history(r2, V, 14, 'mixed') for _ in range(300)]
                cands += [small + ' ' + ' '.join(gen_history(r2, V, 6, 'mixed').split()[3:]) for _ in range(100)]
                impl3, inc3 = corr.run_lines(exe, cands, env=env, chunk=50, timeout=300)
                for q, c in enumerate(cands):
                    if impl3[q] is None:
                        continue
                    oc = [x for x in oracle(c, impl3[q], 'mixed') if not match_known(known, x[0], c)]
                    if oc:
                        found = (c, oc[0][0])
                        break
                if found is None and inc3:
                    for idx3, rc3, err3 in inc3:
                        if idx3 < len(cands) and judge(exe, env, cands[idx3], 'mixed')['crash']:
                            found = (cands[idx3], None)
                            break
            if found:
                c, oc = found
                jj = judge(exe, env, c, 'mixed')
                cl2 = oc or classes(jj)[0]
                small2 = shrink(exe, env, c, 'mixed', cl2)
                res.violation({'kind': 'oracle-after-correspondence', 'request': small2, 'class': cl2, 'mode': 'mixed',
                               **judge(exe, env, small2, 'mixed')}, f'{cl2.replace(":", "-").replace(" ", "_")[:40]}-{reported}')
            else:
                res.violation({'kind': 'correspondence', 'stream': 'TREE', 'request': small, 'impl': j['impl'], 'model': j['model'],
                               'mode': modes[i],
                               'explain': 'the real tree API no longer behaves like Model/TreeHeap.lean on this history; '
                                          'no history violating the link / merge / bytes / leak oracles was found'},
                              f'correspondence-{reported}', no_input=True)
        else:
            res.violation({'kind': 'oracle' if not j['crash'] else 'sanitizer', 'class': cls, 'request': small, 'mode': modes[i],
                           'impl': j['impl'], 'model': j['model'], 'oracle': j['oracle'], 'sanitizer': j['crash'],
                           'explain': 'the tree API violates C18 on this history'},
                          f'{cls.replace(":", "-").replace(" ", "_")[:40]}-{reported}')
    if failing and not res.violations:
        res.violation({'kind': 'proof', 'theorems': failing,
                       'explain': 'Props/C18.lean (or the model it is about) no longer checks'}, 'proof', no_input=True)

    smp = rng.sample(range(len(lines)), min(5, len(lines)))
    res.samples = [{'request': lines[i][:300], 'impl': (impl[i] or '')[:500], 'model': (model[i] or '')[:500]} for i in smp]
    nrows = sum(len(L['tags']) for L in V.langs)
    res.coverage.update({
        'traces_validated_against_impl': len(lines) - ndiff - ncrash,
        'histories': {'generated': total, 'corpus': ncorpus,
                      'by_mode': {md: modes.count(md) for md in ('clean', 'addonly', 'mixed')}},
        'history_length_histogram': {str(k): v for k, v in sorted(lenhist.items())},
        'ops_hit': dict(sorted(opcount.items())), 'result_kinds': retkinds, 'calls_skipped_outside_contract': skips,
        'languages_hit': len(langs_hit), 'languages_total': len(V.langs),
        'tag_rows_seen_in_trees': len(rows_hit), 'tag_rows_total_over_languages': nrows,
        'largest_tree_nodes': maxnodes, 'states_with_adjacent_text': adjseen,
        'parsed_back_documents': parsed_lines, 'parsed_back_same_xml_and_wbxml': parsed_same,
        'second_api_history_same_shape_xml_wbxml': second_same,
        'sanitizer_aborts': ncrash, 'histories_with_oracle_failures': nor, 'model_differences': ndiff,
        'suspect_classes': {k: len(v) for k, v in suspects.items()},
        'correspondence_seconds': round(elapsed, 1),
        'rule': 'one request line = one history of tree-API calls on one tree; after EVERY call the harness walks the real '
                'parent/children/prev/next pointers (ASan poison state decides liveness of a handle), prints the tree and every '
                'detached sub-tree; the line up to " ## " must be byte-identical to the replay on the Lean heap model, incl. the '
                'final wbxml_tree_to_xml bytes vs treeToXml(abs); implementation-only part: WBXML bytes, second API history with '
                'the same shape (same XML and WBXML bytes required), from_xml(to_xml) re-encoded both ways, LSan after teardown',
    })
    return res.finish('proof', checker_cmd='lake build Wbxml.Props.C18 driver_tree && #audit Wbxml.Props.C18 (lake env lean)')
