"""C19 — the byte-buffer and list containers behave as plain sequences.

Proof: lean/Wbxml/Props/C19.lean (every operation of wbxml_buffers.h / wbxml_lists.h refines the
plain-sequence reference, keeps the storage invariant, never leaves its allocation; lifted to all
finite histories by induction over the operation list).
Tie: BUF / LIST request lines carry whole histories on one object; harness/buf.c runs them on the
real containers under ASan+UBSan, lean/Driver/Buf.lean runs the concrete model; outputs must be
identical.  Oracle: an independent plain-sequence reference in this file (`RefBuf`, `RefList`)
evaluated on the implementation's own outputs (contents, terminator, out-of-range refusal, static
refusal, query answers, sanitizer verdict)."""
import base64, json, os, random, subprocess, sys, time
import common
from common import log

DRIVER = os.path.join(common.LEAN, '.lake', 'build', 'bin', 'driver_buf')
CORPUS = os.path.join(common.VERIF, 'corpus', 'c19')
WS = b' \t\n\x0b\x0c\r'
U32 = 1 << 32

# ------------------------------------------------------------------ reference (oracle)


def ref_shrink(x):
    out, inrun = bytearray(), False
    for c in x:
        if c in WS:
            if not inrun:
                out.append(0x20)
            inrun = True
        else:
            out.append(c)
            inrun = False
    return bytes(out)


def ref_cstr(s):
    return s.split(b'\0')[0]


def ref_search(x, y, pos):
    if pos > len(x):
        return None
    i = x.find(y, pos)
    return None if i < 0 else i


def ref_nib(c):
    if 0x30 <= c <= 0x39:
        return c - 0x30
    if 0x61 <= c <= 0x66:
        return c - 0x57
    if 0x41 <= c <= 0x46:
        return c - 0x37
    return 0


def ref_h2b(x):
    return bytes(((ref_nib(x[2 * i]) << 4) | ref_nib(x[2 * i + 1])) & 0xFF for i in range(len(x) // 2))


B64 = b'ABCDEFGHIJKLMNOPQRSTUVWXYZabcdefghijklmnopqrstuvwxyz0123456789+/'


def ref_b64dec(x):
    """Decoding stops at the first character outside the alphabet; a dangling single character
    is ignored; missing padding is tolerated."""
    n = 0
    while n < len(x) and x[n] in B64:
        n += 1
    v = x[:n]
    if len(v) % 4 == 1:
        v = v[:-1]
    v += b'=' * (-len(v) % 4)
    return base64.b64decode(v)


def ref_mb(v):
    v %= U32
    out = [v & 0x7f]
    v >>= 7
    while v:
        out.insert(0, 0x80 | (v & 0x7f))
        v >>= 7
    return bytes(out)


def arg_bytes(a):
    """N | D<hex> | S<hex> | B<hex>  ->  None or bytes"""
    return None if a[0] == 'N' else bytes.fromhex(a[1:])


class RefBuf:
    """A plain byte string subjected to the same operations.  `apply` returns
    (expected return string or None when the reference does not fix it, kind) where kind is one of
    'mut' (mutation), 'query'."""

    def __init__(self, init):
        f = init.split(':')
        if f[0] == 'D':
            self.x, self.static = (b'' if f[1] == '-' else bytes.fromhex(f[1])), False
        elif f[0] == 'DN':
            self.x, self.static = b'', False
        else:
            self.x, self.static = (b'' if f[1] == '-' else bytes.fromhex(f[1])), True

    def excluded(self, op):
        f = op.split(':')
        if f[0] != 'del' or self.static:
            return False
        pos, n = int(f[1]), int(f[2])
        return pos < len(self.x) and n != 0 and pos + n > len(self.x)

    def apply(self, op):
        f = op.split(':')
        o, x = f[0], self.x
        tf = lambda b: 'T' if b else 'F'
        opt = lambda r: 'F' if r is None else f'T:{r}'
        # ---- queries
        if o == 'len':
            return str(len(x)), 'query'
        if o == 'get':
            p = int(f[1])
            return (f'T:{x[p]:02x}' if p < len(x) else 'F'), 'query'
        if o == 'cstr':
            return (x.hex() or '-'), 'query'
        if o == 'dup':
            return None, 'dup'
        if o == 'cmp' or o == 'cmpc':
            y = arg_bytes(f[1])
            if y is None:
                return '1', 'query'
            if o == 'cmpc':
                y = ref_cstr(y)
            return str((x > y) - (x < y)), 'query'
        if o == 'split':
            return None, 'split'
        if o == 'sch':
            return opt(ref_search(x, bytes([int(f[1], 16)]), int(f[2]))), 'query'
        if o == 'srch' or o == 'srchc':
            y = arg_bytes(f[1])
            if y is None:
                return 'F', 'query'
            if o == 'srchc':
                y = ref_cstr(y)
            return opt(ref_search(x, y, int(f[2]))), 'query'
        if o == 'onlyws':
            return tf(all(c in WS for c in x)), 'query'
        # ---- mutations
        if self.static:
            return ('V' if o == 'nosp' else 'F'), 'mut'
        if o == 'set':
            p = int(f[1])
            if p < len(x):
                self.x = x[:p] + bytes([int(f[2], 16)]) + x[p + 1:]
                return 'T', 'mut'
            return 'F', 'mut'
        if o == 'ins' or o == 'insc':
            y, p = arg_bytes(f[1]), int(f[2])
            if y is None:
                return 'F', 'mut'
            if o == 'insc':
                y = ref_cstr(y)
            if p > len(x) or len(y) == 0:
                return 'F', 'mut'
            self.x = x[:p] + y + x[p:]
            return 'T', 'mut'
        if o == 'insself':
            p = int(f[1])
            if p > len(x) or len(x) == 0:
                return 'F', 'mut'
            self.x = x[:p] + x + x[p:]
            return 'T', 'mut'
        if o == 'appself':
            self.x = x + x
            return 'T', 'mut'
        if o in ('app', 'appd', 'appc'):
            y = arg_bytes(f[1])
            if y is not None:
                self.x = x + (ref_cstr(y) if o == 'appc' else y)
            return 'T', 'mut'
        if o == 'appch':
            self.x = x + bytes([int(f[1], 16)])
            return 'T', 'mut'
        if o == 'appmb':
            self.x = x + ref_mb(int(f[1]))
            return 'T', 'mut'
        if o == 'del':
            p, n = int(f[1]), int(f[2])
            if p >= len(x) or n == 0:
                return 'F', 'mut'
            self.x = x[:p] + x[p + n:]
            return 'T', 'mut'
        if o == 'shrink':
            self.x = ref_shrink(x)
            return 'T', 'mut'
        if o == 'strip':
            self.x = x.strip(WS)
            return 'T', 'mut'
        if o == 'nosp':
            self.x = bytes(c for c in x if c not in WS)
            return 'V', 'mut'
        if o == 'rtz':
            self.x = x.rstrip(b'\0')
            return 'T', 'mut'
        if o == 'h2b':
            self.x = ref_h2b(x)
            return 'T', 'mut'
        if o == 'b2h':
            self.x = (x.hex().upper() if f[1] == '1' else x.hex()).encode()
            return 'T', 'mut'
        if o == 'd64':
            s = bytes(c for c in x if c not in WS)
            d = ref_b64dec(s)
            self.x = d if d else s
            return tf(bool(d)), 'mut'
        if o == 'e64':
            if not x:
                return 'F', 'mut'
            self.x = base64.b64encode(x)
            return 'T', 'mut'
        return None, 'bad'


def check_buf_line(req, out):
    """Property oracle on the implementation's output for one BUF history.
    Returns None or (op_index, reason)."""
    toks = req.split()[1:]
    parts = out.split(' / ')
    ref = RefBuf(toks[0])

    def st(tokens):
        # "<len> <hex> <malloced|-> <flag>"
        return int(tokens[0]), (b'' if tokens[1] == '-' else bytes.fromhex(tokens[1])), tokens[2], tokens[3]

    try:
        ln, cont, mal, flag = st(parts[0].split())
    except Exception:
        return 0, f'unparsable initial state: {parts[0][:80]!r}'
    if cont != ref.x or ln != len(ref.x):
        return 0, 'initial contents differ from the bytes given'
    if len(parts) != len(toks):
        return len(parts) - 1, f'history stopped after {len(parts)-1} of {len(toks)-1} operations: {parts[-1][:120]!r}'
    for i, op in enumerate(toks[1:], 1):
        t = parts[i].split(' ')
        if len(t) < 5:
            return i, f'unparsable result {parts[i][:80]!r}'
        ret, (ln, cont, mal, flag) = ' '.join(t[:-4]), st(t[-4:])
        before = ref.x
        if ref.excluded(op):
            if ret != 'EXCLUDED' or cont != before:
                return i, 'excluded delete not skipped by the harness'
            continue
        exp, kind = ref.apply(op)
        if kind == 'bad':
            return i, f'unknown op {op}'
        if cont != ref.x or ln != len(ref.x):
            return i, f'contents after {op}: got {cont.hex() or "-"} expected {ref.x.hex() or "-"}'
        if ref.static:
            if flag != 'S':
                return i, 'static buffer became dynamic'
        else:
            if flag not in ('T', 'N') or (flag == 'N' and ln != 0):
                return i, f'storage does not hold a NUL after the contents (flag {flag})'
            if flag == 'T' and not (mal.isdigit() and int(mal) > ln):
                return i, f'capacity {mal} does not exceed length {ln}'
        if exp is not None and ret != exp:
            return i, f'result of {op}: got {ret} expected {exp}'
        if kind == 'dup':
            d = ret.split(' ')
            if len(d) != 4 or (b'' if d[1] == '-' else bytes.fromhex(d[1])) != ref.x or d[3] not in ('T', 'N'):
                return i, f'duplicate is not a dynamic copy of the contents: {ret}'
        if kind == 'split':
            ws = ret.split(',')
            got = [bytes.fromhex(w.split(' ')[1]) for w in ws[1:]]
            if got != ref.x.split() or int(ws[0]) != len(got) or any(w.split(' ')[3] != 'T' for w in ws[1:]):
                return i, f'split_words: got {[g.hex() for g in got]} expected {[g.hex() for g in ref.x.split()]}'
    return None


def check_list_line(req, out):
    toks = req.split()[1:]
    parts = out.split(' / ')
    xs = []
    if len(parts) != len(toks) + 1:
        return len(parts) - 1, f'history stopped early: {parts[-1][:120]!r}'
    for i, op in enumerate(toks, 1):
        f = op.split(':')
        t = parts[i].split(' ')
        if len(t) != 4:
            return i, f'unparsable result {parts[i][:80]!r}'
        ret, ln, items, wf = t
        if f[0] == 'len':
            exp = str(len(xs))
        elif f[0] == 'app':
            it = int(f[1]); exp = 'T' if it else 'F'
            if it:
                xs.append(it)
        elif f[0] == 'ins':
            it, pos = int(f[1]), int(f[2]); exp = 'T' if it else 'F'
            if it:
                xs.insert(min(pos, len(xs)), it)
        elif f[0] == 'get':
            p = int(f[1]); exp = str(xs[p]) if p < len(xs) else '0'
        elif f[0] == 'xf':
            exp = str(xs.pop(0)) if xs else '0'
        else:
            return i, f'unknown op {op}'
        got = [] if items == '-' else [int(v) for v in items.split(',')]
        if got != xs or int(ln) != len(xs):
            return i, f'list after {op}: got {got} (len {ln}) expected {xs}'
        if wf != 'W':
            return i, f'list links inconsistent after {op} (head/tail/len)'
        if ret != exp:
            return i, f'result of {op}: got {ret} expected {exp}'
    return None


# ------------------------------------------------------------------ generators

LETTERS = b'abXY'
HEXD = b'0123456789abcdefABCDEF'


def rnd_bytes(rng, maxlen=12):
    """Arbitrary bytes incl. NUL, white-space runs of every length 0-6, hex digits, base64 text."""
    kind = rng.random()
    out = bytearray()
    if kind < 0.40:      # words and blank runs
        for _ in range(rng.randint(0, 4)):
            out += bytes(rng.choice(WS) for _ in range(rng.choice((0, 0, 1, 1, 2, 2, 2, 3, 4, 5, 6))))
            out += bytes(rng.choice(LETTERS) for _ in range(rng.choice((0, 1, 1, 2, 3))))
        out += bytes(rng.choice(WS) for _ in range(rng.choice((0, 0, 1, 2, 3, 6))))
    elif kind < 0.55:    # hex text, sometimes dirty
        out += bytes(rng.choice(HEXD) for _ in range(rng.randint(0, maxlen)))
        if out and rng.random() < 0.3:
            out[rng.randrange(len(out))] = rng.choice(b'gG :\x00\xff')
    elif kind < 0.70:    # base64 text, sometimes with blanks / padding / junk
        raw = bytes(rng.randrange(256) for _ in range(rng.randint(0, 7)))
        t = bytearray(base64.b64encode(raw))
        if t and rng.random() < 0.5:
            t.insert(rng.randrange(len(t) + 1), rng.choice(WS))
        if t and rng.random() < 0.3:
            del t[rng.randrange(len(t))]
        if rng.random() < 0.2:
            t += b'*zz'
        out += t
    elif kind < 0.85:    # NUL-rich
        out += bytes(rng.choice(b'\x00\x00a\x00b ') for _ in range(rng.randint(0, 8)))
    else:                # anything
        out += bytes(rng.randrange(256) for _ in range(rng.randint(0, maxlen)))
    return bytes(out)


def rnd_pos(rng, n):
    """Positions in and out of range relative to the current length n."""
    r = rng.random()
    if r < 0.55:
        return rng.randint(0, n)
    if r < 0.70:
        return max(0, n - 1)
    if r < 0.80:
        return n + rng.choice((0, 1, 2, 7))
    if r < 0.90:
        return rng.choice((U32 - 1, 1 << 31, U32 - 2, (1 << 31) - 1))
    return rng.randrange(U32)


def rnd_arg(rng):
    r = rng.random()
    if r < 0.06:
        return 'N'
    return ('D' if r < 0.6 else 'S') + rnd_bytes(rng).hex()


def rnd_str(rng):
    return 'N' if rng.random() < 0.06 else 'B' + rnd_bytes(rng).hex()


OPS = ['len', 'get', 'set', 'cstr', 'dup', 'ins', 'insc', 'app', 'appd', 'appc', 'appch', 'appmb', 'del',
       'shrink', 'strip', 'nosp', 'rtz', 'cmp', 'cmpc', 'split', 'sch', 'srch', 'srchc', 'onlyws',
       'h2b', 'b2h', 'd64', 'e64', 'insself', 'appself']
WEIGHT = {'ins': 3, 'insc': 2, 'app': 2, 'appd': 2, 'appc': 2, 'appch': 2, 'del': 4, 'shrink': 3, 'strip': 2,
          'nosp': 2, 'set': 2, 'srch': 3, 'srchc': 2, 'sch': 2, 'h2b': 1, 'b2h': 1, 'd64': 1, 'e64': 1}


def rnd_op(rng, ref, stats):
    o = rng.choices(OPS, weights=[WEIGHT.get(k, 1) for k in OPS])[0]
    n = len(ref.x)
    if o in ('len', 'cstr', 'dup', 'shrink', 'strip', 'nosp', 'rtz', 'split', 'onlyws', 'h2b', 'd64', 'e64'):
        return o
    if o == 'get':
        return f'get:{rnd_pos(rng, n)}'
    if o == 'set':
        return f'set:{rnd_pos(rng, n)}:{rng.choice((0x20, 0x09, 0, 0x61, rng.randrange(256))):02x}'
    if o == 'ins':
        return f'ins:{rnd_arg(rng)}:{rnd_pos(rng, n)}'
    if o == 'insc':
        return f'insc:{rnd_str(rng)}:{rnd_pos(rng, n)}'
    if o == 'app':
        return f'app:{rnd_arg(rng)}'
    if o in ('appd', 'appc'):
        return f'{o}:{rnd_str(rng)}'
    if o == 'appch':
        return f'appch:{rng.choice((0x20, 0x0a, 0, 0x30, 0x41, rng.randrange(256))):02x}'
    if o == 'appmb':
        return f'appmb:{rng.choice((0, 1, 127, 128, 16383, 16384, (1 << 21) - 1, 1 << 21, (1 << 28) - 1, 1 << 28, U32 - 1, rng.randrange(U32)))}'
    if o == 'del':
        pos = rnd_pos(rng, n)
        r = rng.random()
        if pos < n and r < 0.85:
            cnt = rng.randint(0 if r < 0.05 else 1, n - pos)    # inside the contract
        elif r < 0.97:
            cnt = rng.choice((0, 1, 2, U32 - 1))
        else:
            cnt = rng.randint(1, n + 3)                       # may be the excluded case
        return f'del:{pos}:{cnt}'
    if o == 'cmp':
        # compare against near-equal strings often
        if rng.random() < 0.5:
            y = bytearray(ref.x)
            r = rng.random()
            if y and r < 0.4:
                y[rng.randrange(len(y))] = rng.randrange(256)
            elif r < 0.6:
                y = y[:rng.randint(0, len(y))]
            elif r < 0.8:
                y += bytes([rng.randrange(256)])
            return 'cmp:' + rng.choice('DS') + bytes(y).hex()
        return f'cmp:{rnd_arg(rng)}'
    if o == 'cmpc':
        r = rng.random()
        if r < 0.3:
            return 'cmpc:B' + ref.x[:rng.randint(0, n)].hex()            # a prefix of the contents
        if r < 0.6 and b'\x00' not in ref.x:
            return 'cmpc:B' + (ref.x + bytes(rng.choice(b'abXY 01') for _ in range(rng.randint(1, 3)))).hex()   # the contents are a strict prefix of the string
        return f'cmpc:{rnd_str(rng)}'
    if o == 'sch':
        c = rng.choice(ref.x) if ref.x and rng.random() < 0.7 else rng.randrange(256)
        return f'sch:{c:02x}:{rnd_pos(rng, n)}'
    if o in ('srch', 'srchc'):
        if ref.x and rng.random() < 0.7:
            a = rng.randrange(n)
            y = bytearray(ref.x[a:a + rng.randint(0, 4)])
            if y and rng.random() < 0.25:
                y[-1] ^= 1
        else:
            y = bytearray(rnd_bytes(rng, 3)[:3])
        pre = (rng.choice('DS') if o == 'srch' else 'B')
        if rng.random() < 0.04:
            return f'{o}:N:{rnd_pos(rng, n)}'
        return f'{o}:{pre}{bytes(y).hex()}:{rnd_pos(rng, n)}'
    if o == 'b2h':
        return f'b2h:{rng.randint(0, 1)}'
    if o == 'insself':
        return f'insself:{rnd_pos(rng, n)}'
    return o


def rnd_buf_history(rng, maxops, stats):
    r = rng.random()
    d = rnd_bytes(rng, 16)
    if r < 0.12:
        init = f'S:{d.hex() or "-"}'
    elif r < 0.16:
        init = f'DN:{rng.choice((0, 1, 20))}'
    else:
        init = f'D:{d.hex() or "-"}:{rng.choice((0, 0, 1, 2, max(0, len(d) - 1), len(d), len(d) + 1, 20, 100))}'
    ref = RefBuf(init)
    ops = []
    for _ in range(rng.randint(1, maxops)):
        if len(ref.x) > 160:       # keep lines short: trim instead of growing further
            op = f'del:{rng.randint(0, 40)}:{rng.randint(60, 100)}'
        else:
            op = rnd_op(rng, ref, stats)
        ops.append(op)
        if not ref.excluded(op):
            ref.apply(op)
        else:
            stats['excluded_deletes'] = stats.get('excluded_deletes', 0) + 1
    return 'BUF ' + init + ' ' + ' '.join(ops)


def rnd_list_history(rng, maxops):
    ops, n, nxt = [], 0, 1
    for _ in range(rng.randint(1, maxops)):
        r = rng.random()
        if r < 0.30:
            it = 0 if rng.random() < 0.05 else nxt; nxt += 1
            ops.append(f'app:{it}'); n += 1 if it else 0
        elif r < 0.60:
            it = 0 if rng.random() < 0.05 else nxt; nxt += 1
            ops.append(f'ins:{it}:{rnd_pos(rng, n)}'); n += 1 if it else 0
        elif r < 0.75:
            ops.append(f'get:{rnd_pos(rng, n)}')
        elif r < 0.92:
            ops.append('xf'); n = max(0, n - 1)
        else:
            ops.append('len')
    return 'LIST ' + ' '.join(ops)


SMALL_OPS = ['appself', 'insself:1', 'appch:20', 'appch:61', 'appd:B0920', 'ins:D2020:1', 'insc:B62:0', 'del:0:1', 'del:1:2', 'set:0:0a',
             'shrink', 'strip', 'nosp', 'rtz', 'h2b', 'b2h:1', 'd64', 'e64', 'srch:D:1', 'srch:D2020:0']
SMALL_INITS = ['D:-:0', 'D:612020:1', 'S:2061']
SMALL_LOPS = ['app:1', 'app:2', 'ins:3:0', 'ins:4:1', 'ins:5:9', 'xf', 'get:1', 'app:0']


def exhaustive_lines(depth):
    def rec(prefix, d, alphabet):
        if prefix:
            yield prefix
        if d == 0:
            return
        for o in alphabet:
            yield from rec(prefix + [o], d - 1, alphabet)
    for init in SMALL_INITS:
        for h in rec([], depth, SMALL_OPS):
            yield 'BUF ' + init + ' ' + ' '.join(h)
    for h in rec([], depth + 1, SMALL_LOPS):
        yield 'LIST ' + ' '.join(h)


# ------------------------------------------------------------------ running both sides

def run_harness(exe, env, lines, max_crashes=40):
    """Runs the harness over all lines, restarting after a sanitizer abort (at most `max_crashes`
    times: that many aborts are evidence enough; the remaining lines stay unanswered = None).
    Returns (outputs, crashes) with outputs[i] = response or None, crashes = [(index, stderr)]."""
    outs, crashes, start = [None] * len(lines), [], 0
    while start < len(lines) and len(crashes) < max_crashes:
        inp = '\n'.join(lines[start:]) + '\n'
        r = subprocess.run([exe], input=inp, env=env, stdout=subprocess.PIPE, stderr=subprocess.PIPE, text=True, errors='replace')
        got = r.stdout.split('\n')
        complete = got[:-1]       # the last element is '' or a partial line
        for k, o in enumerate(complete[:len(lines) - start]):
            outs[start + k] = o
        if r.returncode == 0 and len(complete) >= len(lines) - start:
            break
        k = start + len(complete)
        if k >= len(lines):
            # all lines answered but non-zero exit (leak report etc.)
            crashes.append((len(lines) - 1, f'exit {r.returncode} after the last line: ' + r.stderr[-1500:]))
            break
        outs[k] = 'CRASH ' + (got[-1] if got else '')
        crashes.append((k, r.stderr[-2500:]))
        start = k + 1
    return outs, crashes


def run_driver(lines):
    inp = '\n'.join(lines) + '\n'
    r = subprocess.run([DRIVER], input=inp, stdout=subprocess.PIPE, stderr=subprocess.PIPE, text=True)
    o = r.stdout.split('\n')
    return (o + [None] * len(lines))[:len(lines)]


def san_summary(stderr):
    for ln in stderr.split('\n'):
        if 'ERROR: AddressSanitizer' in ln or 'runtime error' in ln or 'SUMMARY' in ln:
            return ln.strip()[:300]
    return stderr.strip().split('\n')[-1][:300] if stderr.strip() else 'non-zero exit'


def judge(exe, env, line):
    """One line through harness, driver and oracle.  Returns dict(impl, model, crash, oracle)."""
    outs, crashes = run_harness(exe, env, [line])
    model = run_driver([line])[0]
    impl = outs[0]
    crash = san_summary(crashes[0][1]) if crashes else None
    if crash:
        orc = ('sanitizer', crash)
    elif line.startswith('BUF'):
        orc = check_buf_line(line, impl)
    else:
        orc = check_list_line(line, impl)
    return {'impl': impl, 'model': model, 'crash': crash, 'oracle': orc}


def shrink(exe, env, line, pred, budget=150):
    """Delta-debug the operation list while `pred(judge(line))` keeps holding."""
    toks = line.split()
    head = 2 if toks[0] == 'BUF' else 1
    ops = toks[head:]
    tries = 0

    def ok(cand):
        nonlocal tries
        tries += 1
        return pred(judge(exe, env, ' '.join(toks[:head] + cand)))

    n = 2
    while len(ops) >= 1 and tries < budget:
        chunk = max(1, len(ops) // n)
        reduced = False
        for i in range(0, len(ops), chunk):
            cand = ops[:i] + ops[i + chunk:]
            if ok(cand):
                ops, n, reduced = cand, max(n - 1, 2), True
                break
        if not reduced:
            if chunk == 1:
                break
            n = min(len(ops), n * 2)
    # shorten the initial contents of a BUF line
    if toks[0] == 'BUF' and tries < budget:
        f = toks[1].split(':')
        if f[0] in ('D', 'S') and f[1] != '-':
            raw = bytes.fromhex(f[1])
            for cut in (raw[:len(raw) // 2], raw[len(raw) // 2:], raw[1:], raw[:-1]):
                g = list(f); g[1] = cut.hex() or '-'
                cand = [toks[0], ':'.join(g)]
                if pred(judge(exe, env, ' '.join(cand + ops))):
                    toks = cand
                    break
    return ' '.join(toks[:head] + ops)


def match_known(known, line, j):
    """A known finding matches when its `match.ops` all occur in the minimised history and the
    failure class is the listed one."""
    for k in known:
        m = k.get('match', {})
        if all(any(t.split(':')[0] == o for t in line.split()[1:]) for o in m.get('ops', [])) and \
                (m.get('class') in (None, 'sanitizer' if j['crash'] else 'oracle')):
            return k
    return None


# ------------------------------------------------------------------ entry point

def run(res, args):
    rng = random.Random(res.seed)
    b = common.Build('asan')
    ok, failing = common.proof_step(res, ['Wbxml.Props.C19'], 'Wbxml.Props.C19', extra_targets=['driver_buf'])
    exe = b.harness('buf.c')
    env = b.env()
    # leaks are not part of C19 (wbxml_buffer_decode_base64 leaks its scratch block on failure: C02/C16)
    env['ASAN_OPTIONS'] = env['ASAN_OPTIONS'].replace('detect_leaks=1', 'detect_leaks=0')
    known = [k for k in common.load_known()['findings'] if k['property'] == 'C19']
    res.assumptions += ['every length and capacity < 2^31 (32-bit WB_ULONG sums and doublings do not wrap)',
                        'C locale (isspace = 0x09-0x0D, 0x20)', 'allocation never fails (C16 covers failure)']

    if args.replay:
        rp = json.load(open(args.replay))
        line = rp.get('request') or rp.get('input')
        j = judge(exe, env, line)
        bad = j['crash'] or j['oracle'] or j['impl'] != j['model']
        print(json.dumps({'request': line, **{k: v for k, v in j.items()}}, indent=1, default=str))
        if bad:
            res.violation({'kind': 'replay', 'request': line, **j}, 'replay')
        return res.finish('proof', checker_cmd='check.py C19 --replay')

    # ---- request lines: corpus first, then generated, then (thorough) exhaustive small histories
    lines, origin = [], []
    if os.path.isdir(CORPUS):
        for fn in sorted(os.listdir(CORPUS)):
            if fn.endswith('.txt'):
                for ln in open(os.path.join(CORPUS, fn)):
                    ln = ln.strip()
                    if ln and not ln.startswith('#'):
                        lines.append(ln); origin.append('corpus:' + fn)
    ncorpus = len(lines)
    stats = {}
    nbuf, nlist, maxops = (5000, 1500, 40) if res.tier == 'quick' else (300000, 30000, 40)
    for i in range(nbuf):
        # mostly short histories, a tail of long ones (thorough keeps the mean low to bound the volume)
        mo = maxops if (res.tier == 'quick' or i % 10 == 0) else 12
        lines.append(rnd_buf_history(rng, mo, stats)); origin.append('gen')
    for i in range(nlist):
        lines.append(rnd_list_history(rng, maxops)); origin.append('gen')
    nexh = 0
    if res.tier == 'thorough':
        for ln in exhaustive_lines(4):
            lines.append(ln); origin.append('exhaustive'); nexh += 1
    else:
        for ln in exhaustive_lines(2):
            lines.append(ln); origin.append('exhaustive'); nexh += 1

    # ---- run in chunks (bounded memory), compare, apply the oracle
    t0 = time.time()
    suspects = []      # (line, reason-kind, detail)
    ndiff = nor = ncrash = nskipped = 0
    opcount, lenhist, retkinds = {}, {}, {}
    oor = static_hist = nul_lines = grow = 0
    wsruns = set()
    CH = 20000
    for c0 in range(0, len(lines), CH):
        chunk = lines[c0:c0 + CH]
        impl, crashes = run_harness(exe, env, chunk)
        model = run_driver(chunk)
        crashed = {k: s for k, s in crashes}
        for k, ln in enumerate(chunk):
            res.add_eval(ln)
            if k in crashed:
                ncrash += 1
                suspects.append((ln, 'sanitizer', san_summary(crashed[k])))
                continue
            o = impl[k]
            if o is None:          # not run: the abort budget of this chunk was used up
                nskipped += 1
                continue
            orc = check_buf_line(ln, o) if ln.startswith('BUF') else check_list_line(ln, o)
            if orc:
                nor += 1
                suspects.append((ln, 'oracle', orc))
            elif o != model[k]:
                ndiff += 1
                suspects.append((ln, 'correspondence', (o, model[k])))
            # coverage
            toks = ln.split()
            ops = toks[2:] if toks[0] == 'BUF' else toks[1:]
            lenhist[len(ops)] = lenhist.get(len(ops), 0) + 1
            for t in ops:
                nm = toks[0][0] + ':' + t.split(':')[0]
                opcount[nm] = opcount.get(nm, 0) + 1
            if toks[0] == 'BUF':
                if toks[1].startswith('S:'):
                    static_hist += 1
                if '00' in ln:
                    nul_lines += 1
                if o:
                    prev_mal = None
                    for part in o.split(' / '):
                        pt = part.split(' ')
                        if len(pt) >= 4:
                            if pt[-2].isdigit():
                                if prev_mal is not None and int(pt[-2]) != prev_mal:
                                    grow += 1
                                prev_mal = int(pt[-2])
                            r0 = pt[0][:1]
                            retkinds[r0] = retkinds.get(r0, 0) + 1
        if len(suspects) > 200:
            break
    for ln in lines[:20000]:
        if ln.startswith('BUF'):
            for t in ln.split()[1:]:
                for fld in t.split(':')[1:]:
                    if fld[:1] in 'DSB' or len(fld) > 1:
                        hx = fld[1:] if fld[:1] in 'DSB' else fld
                        try:
                            raw = bytes.fromhex(hx)
                        except ValueError:
                            continue
                        run = 0
                        for c in raw + b'x':
                            if c in WS:
                                run += 1
                            else:
                                if run:
                                    wsruns.add(min(run, 7))
                                run = 0
    elapsed = time.time() - t0
    log(f'{len(lines)} histories ({ncorpus} corpus, {nexh} exhaustive) in {elapsed:.1f}s: '
        f'{ncrash} sanitizer aborts, {nor} oracle failures, {ndiff} model differences')

    # ---- decide: minimise each suspect class, classify
    seen_known, reported = set(), 0
    by_class = {}
    for ln, kind, detail in suspects:
        if kind == 'oracle':
            key = 'oracle:' + str(detail[1]).split(':')[0].split(' got ')[0][:60]
        elif kind == 'sanitizer':
            import re as _re
            m = _re.search(r'(AddressSanitizer: [a-zA-Z-]+|[\w./-]+\.c:\d+)', str(detail))
            key = 'sanitizer:' + (m.group(1) if m else str(detail)[:50])
        else:
            key = 'diff:' + ln.split()[0]
        by_class.setdefault(key, []).append((ln, kind, detail))
    for key, group in list(by_class.items())[:6]:
        ln, kind, detail = min(group, key=lambda g: len(g[0]))
        if kind == 'sanitizer':
            pred = lambda j: bool(j['crash'])
        elif kind == 'oracle':
            pred = lambda j: (not j['crash']) and bool(j['oracle'])
        else:
            pred = lambda j: (not j['crash']) and (not j['oracle']) and j['impl'] != j['model']
        small = shrink(exe, env, ln, pred)
        j = judge(exe, env, small)
        k = match_known(known, small, j) if kind != 'correspondence' else None
        if k:
            if k['id'] not in seen_known:
                seen_known.add(k['id'])
                res.known.append(f"{k['id']}: {k['what']} (replay: {small})")
            continue
        reported += 1
        name = f"{kind}-{reported}"
        if kind == 'correspondence':
            # the implementation still satisfies the oracle on this input but no longer behaves like the
            # model the theorems are about: look for an oracle failure nearby before giving up
            found = None
            r2 = random.Random(res.seed * 7919 + reported)
            toks = small.split()
            deadline = time.time() + (20 if res.tier == 'quick' else 150)
            while found is None and time.time() < deadline:
                cands = []
                for _ in range(400):
                    if toks[0] == 'BUF':
                        ref = RefBuf(toks[1])
                        ops = list(toks[2:])
                        for o in ops:
                            if not ref.excluded(o):
                                ref.apply(o)
                        for _ in range(r2.randint(1, 6)):
                            o = rnd_op(r2, ref, {})
                            ops.append(o)
                            if not ref.excluded(o):
                                ref.apply(o)
                        cands.append(' '.join(toks[:2] + ops))
                    else:
                        cands.append(small + ' ' + ' '.join(rnd_list_history(r2, 8).split()[1:]))
                impl2, crashes2 = run_harness(exe, env, cands)
                crashed2 = {k for k, _ in crashes2}
                for k, cnd in enumerate(cands):
                    bad = k in crashed2 or (check_buf_line(cnd, impl2[k]) if cnd.startswith('BUF') else check_list_line(cnd, impl2[k]))
                    if bad:
                        found = (cnd, judge(exe, env, cnd))
                        break
            if found:
                cand, jj = found
                small2 = shrink(exe, env, cand, lambda q: bool(q['crash'] or q['oracle']))
                res.violation({'kind': 'oracle-after-correspondence', 'request': small2, **judge(exe, env, small2)}, name)
            else:
                res.violation({'kind': 'correspondence', 'stream': toks[0], 'request': small, 'impl': j['impl'], 'model': j['model'],
                               'explain': 'the real container no longer behaves like the model the theorems are about; '
                                          'the plain-sequence oracle still passes on this input'}, name, no_input=True)
        else:
            res.violation({'kind': kind, 'request': small, 'impl': j['impl'], 'model': j['model'],
                           'oracle': j['oracle'], 'sanitizer': j['crash'],
                           'explain': 'the real container does not behave like a plain sequence on this history'}, name)
    # ---- large buffers (sizes a history line cannot carry): appends / inserts / deletes of 1 byte .. 300 KiB
    # on one buffer, against the plain byte-string reference (length, FNV-1a of the contents, terminator);
    # an overrun of the block is an ASan abort
    import corr as _corr
    big_lines, big_exp = [], []
    for _ in range(60 if res.tier == 'quick' else 1500):
        ref, toks, exps = b'', [], []
        for k in range(rng.randint(2, 7)):
            r = rng.random()
            n = rng.choice([1, 100, 4096, 65535, 65536, 65537, 70000, 100000, 131072, 200000, 300000, rng.randrange(1, 300000)])
            if r < 0.6 or not ref:
                blk = bytes((k * 31 + j * 7 + 1) & 0xff for j in range(n)); ref += blk; toks.append(f'a{n}')
            elif r < 0.85:
                pos = rng.randrange(len(ref) + 1)
                blk = bytes((k * 31 + j * 7 + 1) & 0xff for j in range(n)); ref = ref[:pos] + blk + ref[pos:]; toks.append(f'i{n}:{pos}')
            else:
                pos = rng.randrange(len(ref)); n = rng.randint(1, len(ref) - pos)
                ref = ref[:pos] + ref[pos + n:]; toks.append(f'd{n}:{pos}')
            h = 2166136261
            for c in ref:
                h = ((h ^ c) * 16777619) & 0xffffffff
            exps.append(f'{len(ref)}:{h}:Z')
        big_lines.append('BIG ' + ','.join(toks)); big_exp.append(' '.join(exps))
    big_out, big_inc = _corr.run_lines(exe, big_lines, env=env, chunk=10, timeout=900)
    nbig_bad = 0
    for ln, e, o in zip(big_lines, big_exp, big_out):
        res.add_eval(ln)
        if o != e:
            nbig_bad += 1
            if nbig_bad <= 2:
                r1, rc1, err1 = _corr.isolate(exe, ln, env=env, timeout=300)
                res.violation({'kind': 'large-buffer', 'request': ln, 'impl': (o or r1 or '<process died>')[:400], 'expected': e[:400], 'rc': rc1,
                               'stderr': (err1 or '')[-1500:],
                               'explain': 'a buffer grown by large steps does not hold the byte string it should (or the block was overrun)'}, f'big-{nbig_bad}')
    res.coverage['large_buffer_histories'] = {'histories': len(big_lines), 'failing': nbig_bad}
    if failing and not res.violations:
        res.violation({'kind': 'proof', 'theorems': failing,
                       'explain': 'Props/C19.lean (or the model it is about) no longer checks'}, 'proof', no_input=True)

    smp = [i for i in rng.sample(range(len(lines)), min(6, len(lines)))]
    impl_s, _ = run_harness(exe, env, [lines[i] for i in smp])
    model_s = run_driver([lines[i] for i in smp])
    res.samples = [{'request': lines[i][:400], 'impl': (impl_s[n] or '')[:400], 'model': (model_s[n] or '')[:400]} for n, i in enumerate(smp)]
    res.coverage.update({
        'traces_validated_against_impl': len(lines) - ndiff - nor - ncrash - nskipped,
        'lines_not_run_after_abort_budget': nskipped,
        'histories': {'buf_random': nbuf, 'list_random': nlist, 'exhaustive_small': nexh, 'corpus': ncorpus},
        'history_length_histogram': {str(k): v for k, v in sorted(lenhist.items())},
        'ops_hit': dict(sorted(opcount.items())),
        'static_histories': static_hist, 'lines_with_NUL_bytes': nul_lines,
        'whitespace_run_lengths_hit': sorted(wsruns), 'capacity_changes_observed': grow,
        'result_kinds': retkinds, 'excluded_deletes_generated': stats.get('excluded_deletes', 0),
        'sanitizer_aborts': ncrash, 'oracle_failures': nor, 'model_differences': ndiff,
        'correspondence_seconds': round(elapsed, 1),
        'rule': 'one request line = one whole history on one object; every op prints return value, length, contents, '
                'capacity and terminator flag; the line must be byte-identical between harness (real code, ASan+UBSan) and '
                'the Lean model, and must satisfy the plain-sequence reference; distinct = distinct request lines',
    })
    return res.finish('proof', checker_cmd='lake build Wbxml.Props.C19 driver_buf && #audit Wbxml.Props.C19 (lake env lean)')
