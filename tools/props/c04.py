"""C04 — the event parser reports exactly what the WBXML bytes denote.
Proof: Props/C04.lean over Model/Parser.lean. Tie: PARSE correspondence (model vs wbxml_parser.c
with recording handlers, byte-exact event streams) on grammar-directed documents over every
language table and every token in it; implementation-side oracle: the event stream the WBXML
specification assigns (tools/specgen.py), independent of model and code."""
import os, random, json
import common, corr, wbgen, specgen
from common import log


def todo_rows(d, lang):
    T = d['tables']
    def rows(k):
        return list(T[str(lang[k])]['rows']) if lang[k] is not None else []
    return {'tags': rows('tags'), 'attrs': rows('attrs'), 'vals': rows('values'), 'exts': rows('exts')}


def run(res, args):
    rng = random.Random(res.seed)
    b = common.Build('asan')
    with common.lean_lock():
        d, changed = common.regenerate(b)
    ok, failing = common.proof_step(res, ['Wbxml.Props.C04'], 'Wbxml.Props.C04', extra_targets=['driver'])
    known = [k for k in common.load_known()['findings'] if k['property'] == 'C04']
    h = b.harness('parse.c')
    drv = corr.driver_exe()

    # ---- spec stream: well-formed documents with the specification's events as oracle
    sg = specgen.SpecGen(d, rng); sg.deep = True
    spec_lines, expected = [], []
    per_lang = 12 if res.tier == 'quick' else 400
    for lang in d['langs']:
        todo = todo_rows(d, lang)
        for k in todo:
            rng.shuffle(todo[k])
        n = 0
        while n < per_lang or any(todo.values()):
            # hand out a slice of not-yet-hit rows to each document
            part = {k: [todo[k].pop() for _ in range(min(len(todo[k]), 6))] for k in todo}
            force, meta, doc, ev = sg.doc(lang, max_depth=rng.choice([2, 3, 4, 6]), todo=part)
            # rows the document did not get to use go back
            for k, lst in (('tags', sg.todo_tags), ('attrs', sg.todo_attrs), ('vals', sg.todo_vals), ('exts', sg.todo_exts)):
                todo[k].extend(lst)
            spec_lines.append(f'PARSE {force} {meta} {doc.hex()}')
            expected.append('R 0 ; ' + ev)
            n += 1
            if n > per_lang + 3000:
                break
    # ---- robustness stream: corpus, mutations, loose grammar, random bytes (model is the oracle)
    docs = wbgen.corpus_wbxml()
    rob = [f'PARSE 0 0 {doc.hex()}' for _, doc in docs]
    tg = wbgen.TableGen(d, rng)
    langs = [0] + [l['id'] for l in d['langs']]
    nrob = 2500 if res.tier == 'quick' else 120000
    for i in range(nrob):
        k = rng.random()
        if k < 0.4:
            lid, doc, needforce = tg.doc()
            force = lid if (needforce or rng.random() < 0.1) else 0
        elif k < 0.8:
            doc = rng.choice(docs)[1]
            for _ in range(rng.randint(1, 3)):
                doc = wbgen.mutate(rng, doc)
            force = rng.choice([0, 0, 0, rng.choice(langs)])
        elif k < 0.9:
            lid, doc, needforce = tg.doc()
            doc = wbgen.mutate(rng, doc)
            force = lid if needforce else rng.choice([0, lid])
        else:
            doc = bytes(rng.randrange(256) for _ in range(rng.randint(0, 40)))
            force = rng.choice(langs)
        cs = rng.choice([0, 0, 0, 106, 3, 4, 1000, 1015, 999])
        rob.append(f'PARSE {force} {cs} {doc.hex() or "-"}')
    # small-scope exhaustive stream: every body of at most k octets over the octets that steer the parser
    # (global tokens, tag forms with/without attributes and content, a letter, NUL, 7F, FF) behind a fixed
    # SI header with a two-entry string table; the model is the reference (boundaries between productions)
    import itertools
    alpha = [0x00, 0x01, 0x02, 0x03, 0x04, 0x05, 0x06, 0x40, 0x43, 0x44, 0x45, 0x80, 0x83, 0x84, 0x85, 0xC3, 0xC4, 0xC5, 0x61, 0x7F, 0xFF]
    hdrs = [bytes([3, 5, 0x6a, 0]), bytes([3, 5, 0x6a, 4]) + b'ab\x00c']
    kmax = 3 if res.tier == 'quick' else 5
    small = []
    for hd in hdrs:
        for k in range(0, kmax + 1):
            for body in itertools.product(alpha, repeat=k):
                small.append(f"PARSE 0 0 {(hd + bytes(body)).hex()}")
    rob += small
    res.coverage['small_scope_exhaustive'] = {'alphabet': len(alpha), 'max_body_octets': kmax, 'documents': len(small)}
    lines = spec_lines + rob
    impl, inc_i = corr.run_lines(h, lines, env=b.env())
    model, inc_m = corr.run_lines(drv, lines)

    # ---- second, Lean-side oracle: the strict BNF reader + Spec.events of Spec/Wbxml.lean (the very
    # definitions theorem parse_ser is about) applied to the same octets
    lspec, _ = corr.run_lines(drv, ['SPEC ' + ln.split(' ', 1)[1] for ln in spec_lines])
    # ---- evaluate
    nspec = len(spec_lines)
    oracle_fail, corr_diff = [], []
    err_kinds = {}
    lean_spec_checked = 0
    for i, ln in enumerate(lines):
        a, m = impl[i], model[i]
        res.add_eval(ln, nontrivial=(a or '').startswith('R 0 ;'))
        if a and a.startswith('R '):
            code = a.split()[1]
            err_kinds[code] = err_kinds.get(code, 0) + 1
        if i < nspec and a != expected[i]:
            oracle_fail.append(i)
        if i < nspec and lspec[i] and lspec[i].startswith('S 1 1 ; '):
            lean_spec_checked += 1
            if a != 'R 0 ; ' + lspec[i][len('S 1 1 ; '):] and i not in oracle_fail:
                oracle_fail.append(i); expected[i] = 'R 0 ; ' + lspec[i][len('S 1 1 ; '):] + '   (Lean Spec.events)'
        if corr.canon_err(a) != corr.canon_err(m):
            corr_diff.append(i)
    res.coverage['spec_documents'] = nspec
    res.coverage['spec_documents_also_checked_by_lean_spec'] = lean_spec_checked
    res.coverage['robustness_documents'] = len(rob)
    res.coverage['result_codes_hit'] = err_kinds
    allrows = sum(len(v) for l in d['langs'] for k, v in todo_rows(d, l).items() if k != 'vals' or True)
    res.coverage['table_rows_hit'] = len(sg.hits)
    res.coverage['traces_validated_against_impl'] = len(lines) - len(corr_diff)
    res.coverage['rule'] = ('spec stream: grammar-directed well-formed documents per language until every tag / attribute-start / '
                            'value / extension row has been used (oracle = events computed from the specification); robustness stream: '
                            'corpus, mutations, loose grammar, random bytes (oracle = model). non-trivial = parsed successfully; distinct = distinct request line')
    res.samples = [{'request': lines[i][:200], 'impl': (impl[i] or '')[:200]} for i in rng.sample(range(len(lines)), 5)]
    for idx, rc, err in inc_i:
        line = lines[idx] if idx < len(lines) else None
        if line is None:
            continue
        r1, rc1, err1 = corr.isolate(h, line, env=b.env())
        if rc1 != 0 or r1 is None:
            res.violation({'kind': 'sanitizer-or-crash', 'request': line, 'rc': rc1, 'stderr': err1[-3000:]}, f'crash-{idx}')
    reported = 0
    for i in oracle_fail:
        if reported >= 5:
            break
        res.violation({'kind': 'spec-oracle', 'request': lines[i], 'impl': impl[i], 'spec_events': expected[i], 'model': model[i],
                       'explain': 'the implementation\'s events differ from the events the specification assigns to this well-formed document'},
                      f'spec-{i}')
        reported += 1
    if corr_diff and not res.violations:
        i = corr_diff[0]
        res.violation({'kind': 'correspondence', 'stream': 'PARSE', 'request': lines[i], 'impl': impl[i], 'model': model[i],
                       'differences': len(corr_diff),
                       'explain': 'wbxml_parser.c no longer behaves like Model/Parser.lean on this input; no well-formed document with wrong events was found'},
                      'parse-correspondence', no_input=True)
    if failing and not res.violations:
        res.violation({'kind': 'proof', 'theorems': failing}, 'proof', no_input=True)
    return res.finish('proof', checker_cmd='lake build Wbxml.Props.C04 && #audit Wbxml.Props.C04')
