"""C13 — truncated documents and dangling references are rejected, never guessed.
Proof: Props/C13.lean (truncation / bounds theorems over Model/Parser.lean).
Tie: W2X correspondence on EVERY proper prefix (up to the end of the root element) of valid
documents and on every length/index field overwritten with values that exceed the bytes present;
implementation-side oracle: an error code, NULL output, zero length, sanitizers clean."""
import os, random
import common, corr, wbgen, specgen, wbwalk
from wbgen import mb


def exceeding_values(f, doc, strtbl, force):
    kind = f['kind']
    after = f['offset'] + f['nbytes']
    remaining = len(doc) - after
    if kind in ('strtbl_len', 'opaque_len'):
        base = remaining + 1
        return [base, base + 1, base + 127, max(base, 16384), 2 ** 28, 2 ** 32 - 1]
    # string-table indices
    start, tlen = strtbl
    if kind == 'pubid_index' and force:
        return []
    if tlen == 0:
        first = 1
    else:
        terminated = doc[start + tlen - 1] == 0
        first = tlen if terminated else tlen + 4
    return [first, first + 1, first + 128, 2 ** 21, 2 ** 32 - 2]


def run(res, args):
    rng = random.Random(res.seed)
    b = common.Build('asan')
    with common.lean_lock():
        d, changed = common.regenerate(b)
    mods = [m for m in ['Wbxml.Props.C13'] if os.path.exists(os.path.join(common.LEAN, *m.split('.')) + '.lean')]
    ok, failing = common.proof_step(res, mods, 'Wbxml.Props.C13', extra_targets=['driver'])
    h = b.harness('w2x.c')
    drv = corr.driver_exe()

    # ---- valid documents: corpus + specification-generated
    quick = res.tier == 'quick'
    docs = [(0, 0, doc, name.startswith('wv')) for name, doc in wbgen.corpus_wbxml()]
    rng.shuffle(docs)
    if quick:
        docs = docs[:60]
    sg = specgen.SpecGen(d, rng)
    for _ in range(120 if quick else 3000):
        lang = rng.choice(d['langs'])
        force, meta, doc, _ev = sg.doc(lang, max_depth=3)
        docs.append((force, meta, doc, lang['id'] in (2301, 2302) or lang['id'] < 1300))
    # consumed length of each document (model) — cross-checked with the structural walker
    pl, _ = corr.run_lines(drv, [f'PLEN {f} {m} {doc.hex()}' for f, m, doc, _ in docs])
    lines, meta_of = [], []
    nfields = {}
    for (force, meta, doc, ext_arg), p in zip(docs, pl):
        if not p or not p.startswith('LEN '):
            continue
        n = int(p.split()[1])
        w = wbwalk.fields(doc, ext_t_has_arg=ext_arg)
        opt = f'{rng.choice([0, 1, 2])} {rng.choice([0, 2])} {rng.choice([0, 1])}'
        # the whole document must convert (sanity of the sample)
        lines.append(f'W2X {force} {meta} {opt} {doc.hex()}'); meta_of.append(('valid', None))
        # every proper prefix that cuts header, string table or root element
        step = 1 if (quick and n <= 400) or not quick else max(1, n // 400)
        for k in range(0, n, step):
            lines.append(f'W2X {force} {meta} {opt} {doc[:k].hex() or "-"}'); meta_of.append(('prefix', (k, n)))
        if w is None:
            continue
        fields, end, strtbl = w
        for f in fields:
            for v in exceeding_values(f, doc, strtbl, force != 0):
                if v >= 2 ** 32:
                    continue
                mdoc = doc[:f['offset']] + mb(v) + doc[f['offset'] + f['nbytes']:]
                lines.append(f'W2X {force} {meta} {opt} {mdoc.hex()}'); meta_of.append(('field', (f['kind'], f['offset'], f['value'], v)))
                nfields[f['kind']] = nfields.get(f['kind'], 0) + 1
    impl, inc_i = corr.run_lines(h, lines, env=b.env())
    model, inc_m = corr.run_lines(drv, lines)

    bad, corr_diff, valid_fail = [], [], 0
    for i, ln in enumerate(lines):
        a, m = impl[i], model[i]
        kind, info = meta_of[i]
        res.add_eval(ln, nontrivial=kind != 'valid')
        if corr.canon_err(a) != corr.canon_err(m):
            corr_diff.append(i)
        if kind == 'valid':
            if not (a or '').startswith('R 0 ;'):
                valid_fail += 1
            continue
        if a is None or a.startswith('R 0 ') or 'CONTRACT' in a:
            bad.append(i)
    res.coverage.update({'documents': len(docs), 'prefix_cases': sum(1 for k, _ in meta_of if k == 'prefix'),
                         'field_cases': nfields, 'valid_documents_rejected': valid_fail,
                         'traces_validated_against_impl': len(lines) - len(corr_diff),
                         'rule': 'every proper prefix (shorter than the end of the root element) of corpus and specification-generated documents; '
                                 'every string-table length, opaque length, string reference, literal index and public-id index replaced by values exceeding the bytes present '
                                 '(re-encoded as minimal mb_u_int32). non-trivial = a truncated or dangling document; oracle = error status, NULL output'})
    res.samples = [{'request': lines[i][:160], 'what': meta_of[i], 'impl': (impl[i] or '')[:80]} for i in rng.sample(range(len(lines)), 6)]
    for idx, rc, err in inc_i:
        if idx < len(lines):
            r1, rc1, err1 = corr.isolate(h, lines[idx], env=b.env())
            if rc1 != 0 or r1 is None:
                res.violation({'kind': 'sanitizer-or-crash', 'request': lines[idx], 'what': meta_of[idx], 'rc': rc1, 'stderr': err1[-3000:]}, f'crash-{idx}')
    for i in bad[:3]:
        if impl[i] is None:
            continue
        res.violation({'kind': 'accepted-truncated-or-dangling', 'request': lines[i], 'what': meta_of[i], 'impl': impl[i][:400], 'model': (model[i] or '')[:400],
                       'explain': 'the conversion did not fail (or left output behind) on a document cut before the end of its root element / with a field pointing beyond the bytes present'},
                      f'accepted-{i}')
    if corr_diff and not res.violations:
        i = corr_diff[0]
        res.violation({'kind': 'correspondence', 'stream': 'W2X', 'request': lines[i], 'impl': (impl[i] or '')[:400], 'model': (model[i] or '')[:400], 'differences': len(corr_diff)},
                      'w2x-correspondence', no_input=True)
    if failing and not res.violations:
        res.violation({'kind': 'proof', 'theorems': failing}, 'proof', no_input=True)
    return res.finish('proof', checker_cmd='lake build Wbxml.Props.C13 && #audit Wbxml.Props.C13')
