#!/usr/bin/env python3
"""Development aid: X2W (XML -> WBXML) model vs implementation."""
import sys, os, random
sys.path.insert(0, os.path.dirname(os.path.abspath(__file__)))
import common, corr, xmlgen, xcorr
seed = int(sys.argv[1]) if len(sys.argv) > 1 else 1
N = int(sys.argv[2]) if len(sys.argv) > 2 else 1000
rng = random.Random(seed)
b = common.Build('asan')
d, _ = common.regenerate(b)
h = b.harness('x2w.c'); er = b.harness('expat_rec.c')
drv = corr.driver_exe()
docs = [x for _, x in xmlgen.corpus_xml()]
g = xmlgen.XmlTableGen(d, rng)
xs = list(docs)
for i in range(N):
    k = rng.random()
    if k < 0.45:
        x = rng.choice(docs)
        for _ in range(rng.randint(1, 3)): x = xmlgen.mutate_xml(rng, x)
    elif k < 0.9:
        x = g.doc()
        if rng.random() < 0.3: x = xmlgen.mutate_xml(rng, x)
    else:
        x = bytes(rng.randrange(256) for _ in range(rng.randint(1, 30)))
    if x: xs.append(x)
opts = [f'{rng.choice([0,1,2,3])} {rng.choice([0,1])} {rng.choice([0,1])} {rng.choice([0,1])}' for _ in xs]
impl, inc = corr.run_lines(h, [f'X2W {o} {x.hex()}' for o, x in zip(opts, xs)], env=b.env())
print('incidents', [(i, rc, e[-300:]) for i, rc, e in inc[:3]])
model = xcorr.model_with_expat(drv, er, b.env(), lambda i: f'X2W {opts[i]}', xs)
nd = 0
okc = sum(1 for a in impl if a and a.startswith('R 0 '))
for i, x in enumerate(xs):
    if impl[i] != model[i]:
        nd += 1
        if nd <= 6:
            print('DIFF', opts[i], x[:400]); print('  impl :', (impl[i] or '')[:400]); print('  model:', (model[i] or '')[:400])
print(f'{len(xs)} docs, {okc} ok, {nd} differences')
