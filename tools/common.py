#!/usr/bin/env python3
"""Shared machinery of every check: scratch builds of /repo's working tree, translators, lake build,
axiom audit, evidence writing, violation reporting. See DESIGN.md §2.3."""
import atexit, contextlib, fcntl, glob, json, os, re, shutil, subprocess, sys, tempfile, time

VERIF = os.path.dirname(os.path.dirname(os.path.abspath(__file__)))
REPO = os.environ.get('VERIF_REPO', '/repo')
LEAN = os.path.join(VERIF, 'lean')
HARNESS = os.path.join(VERIF, 'harness')
EVIDENCE = os.path.join(VERIF, 'evidence')
REPLAYS = os.path.join(VERIF, 'replays')
GUARD = 'LIBWBXML_VERIF'
NCPU = os.cpu_count() or 4

ALLOWED_AXIOMS = {'propext', 'Quot.sound', 'Classical.choice'}

_scratch_dirs = []


def _cleanup():
    for d in _scratch_dirs:
        shutil.rmtree(d, ignore_errors=True)


atexit.register(_cleanup)


def log(*a):
    print('[check]', *a, file=sys.stderr, flush=True)


def run(cmd, **kw):
    kw.setdefault('stdout', subprocess.PIPE)
    kw.setdefault('stderr', subprocess.STDOUT)
    kw.setdefault('text', True)
    return subprocess.run(cmd, **kw)


def mkscratch(prefix='wbxverif-'):
    d = tempfile.mkdtemp(prefix=prefix, dir=os.environ.get('VERIF_SCRATCH', '/tmp'))
    _scratch_dirs.append(d)
    return d


FLAVORS = {
    # name: (compiler, flags)
    'asan': ('clang-14', '-Wno-error -O1 -g -fsanitize=address,undefined -fno-sanitize-recover=all -fno-omit-frame-pointer'),
    'tsan': ('clang-14', '-Wno-error -O1 -g -fsanitize=thread -fno-omit-frame-pointer'),
    'plain': ('gcc', '-Wno-error'),
}


class Build:
    """A scratch build of /repo's current working tree (static library + tools)."""

    def __init__(self, flavor='asan'):
        self.flavor = flavor
        self.cc, self.cflags = FLAVORS[flavor]
        self.dir = mkscratch(f'wbxverif-{flavor}-')
        t0 = time.time()
        btype = 'RelWithDebInfo' if flavor == 'plain' else 'None'
        cfg = run(['cmake', '-S', REPO, '-B', self.dir, '-G', 'Ninja', '-Wno-dev', f'-DCMAKE_BUILD_TYPE={btype}',
                   '-DBUILD_SHARED_LIBS=OFF', '-DBUILD_STATIC_LIBS=ON', f'-DCMAKE_C_COMPILER={self.cc}',
                   f'-DCMAKE_C_FLAGS={self.cflags} -D{GUARD}'])
        if cfg.returncode != 0:
            raise BuildError('cmake configure failed:\n' + cfg.stdout[-3000:])
        b = run(['ninja', '-C', self.dir, 'src/libwbxml2.a', 'wbxml2xml', 'xml2wbxml'])
        if b.returncode != 0:
            raise BuildError('build of /repo failed:\n' + b.stdout[-3000:])
        self.lib = os.path.join(self.dir, 'src', 'libwbxml2.a')
        self.wbxml2xml = os.path.join(self.dir, 'tools', 'wbxml2xml')
        self.xml2wbxml = os.path.join(self.dir, 'tools', 'xml2wbxml')
        self.secs = time.time() - t0
        log(f'scratch build [{flavor}] of {REPO} in {self.secs:.1f}s -> {self.dir}')

    def includes(self):
        return ['-I', self.dir, '-I', os.path.join(REPO, 'src'), '-I', os.path.join(self.dir, 'src')]

    def harness(self, src, name=None, extra=(), link_lib=True, cxx=False):
        """Compile harness/<src> against this build; returns the executable path."""
        name = name or os.path.splitext(os.path.basename(src))[0]
        out = os.path.join(self.dir, name)
        cc = self.cc if not cxx else ('clang++-14' if self.cc.startswith('clang') else 'g++')
        cmd = [cc] + self.cflags.split() + [f'-D{GUARD}', '-DHAVE_EXPAT'] + self.includes() + \
              [os.path.join(HARNESS, src) if not os.path.isabs(src) else src, '-o', out] + list(extra)
        if link_lib:
            cmd += [self.lib]
        cmd += ['-lexpat', '-lpthread']
        r = run(cmd)
        if r.returncode != 0:
            raise BuildError(f'harness {src} failed to compile against the current tree:\n' + r.stdout[-4000:])
        return out

    def env(self):
        e = dict(os.environ)
        e['ASAN_OPTIONS'] = 'detect_leaks=1:abort_on_error=0:exitcode=99:allocator_may_return_null=1:detect_stack_use_after_return=0'
        e['UBSAN_OPTIONS'] = 'print_stacktrace=1:halt_on_error=1:exitcode=98'
        e['TSAN_OPTIONS'] = 'exitcode=97:halt_on_error=0'
        e['LC_ALL'] = 'C'
        return e


class BuildError(Exception):
    pass


# ---------------------------------------------------------------- Lean side

@contextlib.contextmanager
def lean_lock():
    os.makedirs(os.path.join(LEAN, '.lake'), exist_ok=True)
    with open(os.path.join(LEAN, '.lake', 'verif.lock'), 'w') as f:
        fcntl.flock(f, fcntl.LOCK_EX)
        try:
            yield
        finally:
            fcntl.flock(f, fcntl.LOCK_UN)


def regenerate(build):
    """Run the translators against `build` and rewrite lean/Wbxml/Gen/* when changed."""
    sys.path.insert(0, os.path.join(VERIF, 'tools'))
    import gen_lean
    dumper = build.harness('dump_tables.c')
    r = run([dumper], env=build.env(), stderr=subprocess.PIPE)
    if r.returncode != 0:
        raise BuildError('dump_tables failed: ' + (r.stderr or '')[-2000:])
    d = json.loads(r.stdout)
    changed = []
    if gen_lean.write_if_changed(os.path.join(LEAN, 'Wbxml', 'Gen', 'Tables.lean'), gen_lean.gen_tables(d)):
        changed.append('Tables')
    if gen_lean.write_if_changed(os.path.join(LEAN, 'Wbxml', 'Gen', 'Consts.lean'), gen_lean.gen_consts(d)):
        changed.append('Consts')
    if changed:
        log('regenerated Gen:', changed)
    return d, changed


def dump_only(build):
    """The table dump of `build` (no regeneration of Gen/*): for generators that only need the vocabulary."""
    dumper = build.harness('dump_tables.c')
    r = run([dumper], env=build.env(), stderr=subprocess.PIPE)
    if r.returncode != 0:
        raise BuildError('dump_tables failed: ' + (r.stderr or '')[-2000:])
    return json.loads(r.stdout)


def peak_rss(exe, line, timeout=900, stack_kb=None):
    """Run one request through a harness; returns (rc, stdout, peak resident set in bytes or None)."""
    d = mkscratch('wbxverif-rss-')
    tf = os.path.join(d, 'time.txt')
    pre = f'ulimit -s {stack_kb}; ' if stack_kb else ''
    try:
        r = subprocess.run(['bash', '-c', f'{pre}exec /usr/bin/time -f %M -o {tf} {exe}'], input=line, capture_output=True, text=True, timeout=timeout)
    except subprocess.TimeoutExpired:
        return -9, '', None
    try:
        kb = int(open(tf).read().strip().split('\n')[-1])
    except (OSError, ValueError):
        kb = None
    return r.returncode, r.stdout, (kb * 1024 if kb is not None else None)


def lake_build(targets, timeout=3000):
    """lake build the given module targets; returns (ok, output)."""
    t0 = time.time()
    r = run(['lake', 'build'] + list(targets), cwd=LEAN, timeout=timeout)
    log(f'lake build {" ".join(targets)}: rc={r.returncode} in {time.time()-t0:.1f}s')
    return r.returncode == 0, r.stdout


_FORBIDDEN = re.compile(r'\bsorry\b|\badmit\b|^\s*axiom\s|native_decide|bv_decide|implemented_by|\bunsafe\s|maxHeartbeats\s+0\b')


def strip_comments(src):
    # remove /- ... -/ (nested) and -- comments, and string literals
    out, i, depth, n = [], 0, 0, len(src)
    while i < n:
        if src.startswith('/-', i):
            depth += 1; i += 2; continue
        if depth and src.startswith('-/', i):
            depth -= 1; i += 2; continue
        if depth:
            if src[i] == '\n':
                out.append('\n')
            i += 1; continue
        if src.startswith('--', i):
            while i < n and src[i] != '\n':
                i += 1
            continue
        if src[i] == '"':
            i += 1
            while i < n and src[i] != '"':
                i += 2 if src[i] == '\\' else 1
            i += 1
            out.append('""'); continue
        out.append(src[i]); i += 1
    return ''.join(out)


def import_closure(modules):
    """Lean source files (of this project) transitively imported by the given modules."""
    seen, todo = {}, list(modules)
    while todo:
        m = todo.pop()
        if m in seen:
            continue
        path = os.path.join(LEAN, *m.split('.')) + '.lean'
        if not os.path.exists(path):
            continue
        seen[m] = path
        for line in open(path):
            mm = re.match(r'^\s*(?:public\s+)?import\s+([A-Za-z0-9_.]+)', line)
            if mm and (mm.group(1).startswith('Wbxml') or mm.group(1).startswith('Driver')):
                todo.append(mm.group(1))
    return sorted(seen.values())


def grep_forbidden(paths=None):
    """The stranger's grep over the Lean sources (comments and strings stripped)."""
    hits = []
    paths = paths if paths is not None else glob.glob(os.path.join(LEAN, '**', '*.lean'), recursive=True)
    for p in paths:
        if '/.lake/' in p:
            continue
        try:
            src = strip_comments(open(p).read())
        except OSError:
            continue
        for ln, line in enumerate(src.split('\n'), 1):
            if _FORBIDDEN.search(line):
                hits.append(f'{os.path.relpath(p, LEAN)}:{ln}: {line.strip()[:120]}')
    return hits


def audit(module, namespace):
    """Enumerate the theorems of `namespace` in compiled `module` and collect their axioms.
    Returns list of dicts {name, axioms, partial}."""
    src = f'import {module}\nimport Wbxml.Prim.Audit\n#audit {namespace}\n'
    d = mkscratch('wbxverif-audit-')
    f = os.path.join(d, 'Audit.lean')
    with open(f, 'w') as fh:
        fh.write(src)
    r = run(['lake', 'env', 'lean', f], cwd=LEAN, stderr=subprocess.STDOUT)
    res = []
    for line in r.stdout.split('\n'):
        m = re.match(r'^AUDIT (\S+) \[(.*)\]$', line.strip())
        if m:
            axs = [a.strip() for a in m.group(2).split(',') if a.strip()]
            res.append({'name': m.group(1), 'axioms': axs, 'partial': m.group(1).endswith('_partial')})
    if r.returncode != 0 and not res:
        raise BuildError('audit failed:\n' + r.stdout[-2000:])
    return res


# ---------------------------------------------------------------- reporting

class Result:
    def __init__(self, prop, tier, seed):
        self.prop, self.tier, self.seed = prop, tier, seed
        self.t0 = time.time()
        self.violations = []      # (replay_path, note, no_input)
        self.known = []           # strings
        self.coverage = {}
        self.assumptions = []
        self.obligations = 0
        self.discharged = 0
        self.samples = []
        self.evaluations = 0
        self.distinct = set()
        self.quiet = False        # collect the VIOLATION / KNOWN-FINDING lines instead of printing them (check.py decides)
        self.lines = []
        self.report_tier = None   # tier written into the evidence when a search stage runs with larger sizes
        self.trusted = ['Lean 4.33.0 kernel', 'axioms: propext, Quot.sound, Classical.choice only (audited this run)',
                        'translators/harness in /verif (dump what the compiler saw; byte-exact correspondence)']

    def add_eval(self, key, nontrivial=True):
        self.evaluations += 1
        if nontrivial:
            self.distinct.add(key)

    def violation(self, replay_obj, name, no_input=False):
        os.makedirs(REPLAYS, exist_ok=True)
        path = os.path.join(REPLAYS, f'{self.prop}-{name}.json')
        replay_obj = dict(replay_obj)
        replay_obj.update({'property': self.prop, 'tier': self.tier, 'seed': self.seed})
        with open(path, 'w') as f:
            json.dump(replay_obj, f, indent=1, default=str)
        self.violations.append((path, name, no_input))

    def finish(self, level='proof', checker_cmd='', extra=None):
        for path, name, no_input in self.violations:
            self.lines.append(f'VIOLATION property={self.prop} replay={path}' + (' no-failing-input-found' if no_input else ''))
        for k in self.known:
            self.lines.append(f'KNOWN-FINDING: property={self.prop} {k}')
        if not self.quiet:
            for ln in self.lines:
                print(ln, flush=True)
        cov = {
            'obligations': self.obligations,
            'discharged': self.discharged,
            'checker_cmd': checker_cmd or 'lake build (kernel) + #audit axioms',
            'trusted_base': self.trusted,
            'evaluations': self.evaluations,
            'distinct_nontrivial': len(self.distinct),
            'samples': self.samples[:12] or ['(none)'],
        }
        cov.update(self.coverage)
        if cov.get('obligations', 0) == 0:
            # no property theorem built for this run (Props module not written yet): fall back to the
            # generic counts rather than claim zero discharged obligations
            cov.pop('obligations', None); cov.pop('discharged', None)
            cov['explanation'] = 'no Lean theorems are registered for this property yet; this run only has the correspondence / oracle part'
        if extra:
            cov.update(extra)
        ev = {'property_id': self.prop, 'tier': self.report_tier or self.tier, 'seed': self.seed, 'level': level,
              'coverage': cov, 'assumptions': self.assumptions,
              'wall_s': round(time.time() - self.t0, 2), 'violations': len(self.violations)}
        os.makedirs(EVIDENCE, exist_ok=True)
        with open(os.path.join(EVIDENCE, f'{self.prop}.json'), 'w') as f:
            json.dump(ev, f, indent=1, default=str)
        return 1 if self.violations else 0


def load_known():
    p = os.path.join(VERIF, 'known_findings.json')
    try:
        with open(p) as f:
            return json.load(f)
    except FileNotFoundError:
        return {'findings': [], 'fixed': []}


# ---------------------------------------------------------------- proof step shared by all properties

def theorems_in(path):
    """[(line, name)] of theorem declarations in a Lean source file (comments stripped)."""
    src = strip_comments(open(path).read())
    out = []
    for ln, line in enumerate(src.split('\n'), 1):
        m = re.match(r'^\s*(?:private\s+|protected\s+)?theorem\s+([A-Za-z0-9_.\']+)', line)
        if m:
            out.append((ln, m.group(1)))
    return out


def _exe_root(target):
    """root module of a lean_exe target named in lakefile.toml"""
    try:
        txt = open(os.path.join(LEAN, 'lakefile.toml')).read()
    except OSError:
        return None
    m = re.search(r'name\s*=\s*"%s"\s*\nroot\s*=\s*"([^"]+)"' % re.escape(target), txt)
    return m.group(1) if m else None


def proof_step(res, modules, namespace, extra_targets=()):
    """Build the property's Props module(s), audit axioms, fill obligations/discharged.
    Returns (ok, failing) where failing is a list of theorem names whose proof no longer checks
    (or ['<build>'] when the failure could not be attributed)."""
    with lean_lock():
        ok, out = lake_build(list(modules) + list(extra_targets))
    thms = []
    for m in modules:
        path = os.path.join(LEAN, *m.split('.')) + '.lean'
        thms += [(path, ln, n) for ln, n in theorems_in(path)]
    res.obligations += len(thms)
    failing = []
    if not ok:
        for m in re.finditer(r'error: (\S+?\.lean):(\d+):(\d+): (.*)', out):
            f, ln = os.path.join(LEAN, m.group(1)), int(m.group(2))
            cands = [(p, l, n) for (p, l, n) in thms if os.path.samefile(p, f) and l <= ln] if os.path.exists(f) else []
            if cands:
                failing.append(cands[-1][2])
            else:
                failing.append(f'<{m.group(1)}:{ln}: {m.group(4)[:80]}>')
        if not failing:
            failing = ['<build>']
        res.coverage['build_log_tail'] = out[-1500:]
    failing = sorted(set(failing))
    res.discharged += len(thms) - len([f for f in failing if not f.startswith('<')]) if ok or failing != ['<build>'] else 0
    # stranger's audit
    # every source file the property's theorems (and the drivers used) depend on
    roots = list(modules) + [t2 for t2 in (_exe_root(t) for t in extra_targets) if t2]
    hits = grep_forbidden(import_closure(roots))
    res.coverage['forbidden_token_hits'] = hits
    if hits:
        failing.append('<forbidden:' + hits[0] + '>')
    if ok:
        aud = []
        for m in modules:
            aud += audit(m, namespace)
        bad = [a for a in aud if not set(a['axioms']) <= ALLOWED_AXIOMS]
        res.coverage['theorems_audited'] = len(aud)
        res.coverage['partial_theorems'] = [a['name'] for a in aud if a['partial']]
        res.coverage['axioms_used'] = sorted({x for a in aud for x in a['axioms']})
        for b in bad:
            failing.append(f"<axioms:{b['name']}:{','.join(b['axioms'])}>")
        if len(aud) < len(thms):
            failing.append(f'<audit saw {len(aud)} theorems, source has {len(thms)}>')
    if ok and res.tier == 'thorough' and res.report_tier is None:
        # second opinion: the compiled modules replayed through the toolchain's independent kernel re-checker
        lc_bad = []
        with lean_lock():
            for m in modules:
                r = run(['lake', 'env', 'leanchecker', m], cwd=LEAN, timeout=3600)
                if r.returncode != 0:
                    lc_bad.append(m)
        res.coverage['leanchecker'] = 'ok' if not lc_bad else 'FAILED: ' + ', '.join(lc_bad)
        for m in lc_bad:
            failing.append(f'<leanchecker:{m}>')
    return (ok and not failing), failing
