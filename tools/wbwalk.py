"""A small structural walker over WELL-FORMED WBXML bytes (no tables needed): locates the header
fields and every length / index field, for the C13 field-overwrite mutations.
Returns None when the bytes are not of the expected shape."""


def rd_mb(d, i):
    v, n = 0, 0
    while True:
        if i + n >= len(d) or n >= 5:
            raise ValueError('mb')
        b = d[i + n]
        v = (v << 7) | (b & 0x7F)
        n += 1
        if not b & 0x80:
            return v, n


class Walk:
    def __init__(self, d, ext_t_has_arg=True):
        self.d, self.fields, self.ext_t_has_arg = d, [], ext_t_has_arg

    def field(self, kind, i):
        v, n = rd_mb(self.d, i)
        self.fields.append({'kind': kind, 'offset': i, 'nbytes': n, 'value': v})
        return v, n

    def header(self):
        d = self.d
        i = 1
        if d[i] == 0:
            v, n = self.field('pubid_index', i + 1); i += 1 + n
        else:
            v, n = rd_mb(d, i); i += n
        if d[0] != 0:
            v, n = rd_mb(d, i); i += n
        v, n = self.field('strtbl_len', i); i += n
        self.strtbl = (i, v)
        return i + v

    def cstr(self, i):
        j = self.d.index(0, i)
        return j + 1

    def value_items(self, i, in_attr):
        """consume attribute-value / content string-like items; returns new index or None if not one"""
        d = self.d
        b = d[i]
        if b == 0x03:
            return self.cstr(i + 1)
        if b == 0x83:
            v, n = self.field('strt_index', i + 1); return i + 1 + n
        if b == 0x02:
            v, n = rd_mb(d, i + 1); return i + 1 + n
        if b == 0xC3:
            v, n = self.field('opaque_len', i + 1); return i + 1 + n + v
        if b in (0x40, 0x41, 0x42):
            return self.cstr(i + 1)
        if b in (0x80, 0x81, 0x82):
            if self.ext_t_has_arg:
                v, n = rd_mb(d, i + 1); return i + 1 + n
            return i + 1
        if b in (0xC0, 0xC1, 0xC2):
            return i + 1
        return None

    def attr_list(self, i):
        d = self.d
        while d[i] != 0x01:
            # attrStart
            if d[i] == 0x00:
                i += 2
            if d[i] == 0x04:
                v, n = self.field('literal_index', i + 1); i += 1 + n
            else:
                i += 1
            # values
            while True:
                # a switchPage in front of an attribute value token or of an extension (extension = [switchPage] ...)
                if d[i] == 0x00 and (d[i + 2] >= 0x80 or d[i + 2] in (0x40, 0x41, 0x42)):
                    i += 2
                j = self.value_items(i, True)
                if j is not None:
                    i = j
                elif d[i] >= 0x80 and d[i] not in (0x84, 0xC4):
                    i += 1
                else:
                    break
        return i + 1

    def pi(self, i):
        return self.attr_list(i + 1)

    def element(self, i, depth=0):
        d = self.d
        if depth > 200:
            raise ValueError('deep')
        if d[i] == 0x00:
            i += 2
        t = d[i]
        if t & 0x3F == 0x04:
            v, n = self.field('literal_index', i + 1); i += 1 + n
        else:
            i += 1
        if t & 0x80:
            i = self.attr_list(i)
        if t & 0x40:
            while d[i] != 0x01:
                j = self.value_items(i, False)
                if j is not None:
                    i = j
                elif d[i] == 0x43:
                    i = self.pi(i)
                elif d[i] == 0x00 and d[i + 2] in (0x80, 0x81, 0x82, 0x40, 0x41, 0x42, 0xC0, 0xC1, 0xC2):
                    i += 2
                else:
                    i = self.element(i, depth + 1)
            i += 1
        return i


def fields(d, ext_t_has_arg=True):
    """(fields, end_of_root) or None"""
    try:
        w = Walk(d, ext_t_has_arg)
        i = w.header()
        while d[i] == 0x43:
            i = w.pi(i)
        end = w.element(i)
        return w.fields, end, w.strtbl
    except (ValueError, IndexError):
        return None
