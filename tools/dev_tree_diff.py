#!/usr/bin/env python3
"""Development aid: W2T (tree of WBXML), then T2T and ENCX on the trees obtained."""
import sys, os, random, subprocess
sys.path.insert(0, os.path.dirname(os.path.abspath(__file__)))
import common, wbgen, corr
seed = int(sys.argv[1]) if len(sys.argv) > 1 else 1
N = int(sys.argv[2]) if len(sys.argv) > 2 else 1000
rng = random.Random(seed)
b = common.Build('asan')
d, _ = common.regenerate(b)
h = b.harness('encx.c')
drv = corr.driver_exe()
docs = wbgen.corpus_wbxml()
g = wbgen.TableGen(d, rng)
lines = [f'W2T 0 0 {doc.hex()}' for _, doc in docs]
for i in range(N):
    lid, doc, needforce = g.doc()
    if rng.random() < 0.3: doc = wbgen.mutate(rng, doc)
    lines.append(f'W2T {lid if needforce else 0} 0 {doc.hex()}')
impl, inc = corr.run_lines(h, lines, env=b.env())
model, _ = corr.run_lines(drv, lines)
print('incidents', inc[:3])
nd = 0
trees = []
for i, ln in enumerate(lines):
    if impl[i] != model[i]:
        nd += 1
        if nd <= 5: print('DIFF', ln[:300]); print('  impl :', (impl[i] or '')[:600]); print('  model:', (model[i] or '')[:600])
    if impl[i] and impl[i].startswith('R 0 ; '):
        trees.append(impl[i][6:])
print(f'W2T {len(lines)} lines, {len(trees)} trees, {nd} differences')
l2 = []
for t in trees:
    l2.append(f'T2T {t}')
    l2.append(f'ENCX {rng.choice([0,1,2])} {rng.choice([0,1,4,255])} {rng.choice([0,1])} {t}')
impl, inc = corr.run_lines(h, l2, env=b.env())
model, _ = corr.run_lines(drv, l2)
print('incidents', inc[:3])
nd = 0
for i, ln in enumerate(l2):
    if impl[i] != model[i]:
        nd += 1
        if nd <= 5: print('DIFF', ln[:300]); print('  impl :', (impl[i] or '')[:600]); print('  model:', (model[i] or '')[:600])
print(f'T2T/ENCX {len(l2)} lines, {nd} differences')
