#!/usr/bin/env python3
"""Translator for C15: clang JSON AST of src/wbxml_parser.c, src/wbxml_encoder.c, src/wbxml_conv.c
(compiled with the flags of the scratch build) -> lean/Wbxml/Gen/Fields.lean.

For each of the four object structs it dumps, as the compiler saw them:
  * the field list with types;
  * the `field = <normalised value>` assignments of the create function and of the
    re-initialisation function (reinit / reset), each with two flags: `cond` (the store does not
    happen on every path that returns an object) and `destroyedFirst` (the old value is handed to
    a `*_destroy` function earlier in the same function);
  * for EVERY function of the file: linkage, the stores it makes to fields of the struct (direct
    assignment, ++/--, compound assignment, `&obj->field` taken), the root of the object expression
    of each store (parameter k / a local that only ever holds freshly created objects / other),
    the kind of the stored value (parameter, literal, table look-up of parameters, other) and
    the names of all functions it calls.
Deliberately dumb: no data-flow, no path sensitivity beyond "top-level statement of the body, after
NULL-guards only".  Everything that is concluded from these facts is concluded in Lean
(`Wbxml/Model/Objects.lean`, `Wbxml/Props/C15.lean`).

Deterministic output; the file is written atomically and only when its content changes.
"""
import json, os, subprocess, sys

sys.path.insert(0, os.path.dirname(os.path.abspath(__file__)))
from gen_lean import write_if_changed

VERIF = os.path.dirname(os.path.dirname(os.path.abspath(__file__)))
OUT = os.path.join(VERIF, 'lean', 'Wbxml', 'Gen', 'Fields.lean')

# object name, source file, struct, create function, re-initialisation function, destroy function
OBJECTS = [
    ('parser', 'wbxml_parser.c', 'WBXMLParser_s', 'wbxml_parser_create', 'wbxml_parser_reinit', 'wbxml_parser_destroy'),
    ('encoder', 'wbxml_encoder.c', 'WBXMLEncoder_s', 'wbxml_encoder_create_real', 'wbxml_encoder_reset', 'wbxml_encoder_destroy'),
    ('convW2X', 'wbxml_conv.c', 'WBXMLConvWBXML2XML_s', 'wbxml_conv_wbxml2xml_create', None, 'wbxml_conv_wbxml2xml_destroy'),
    ('convX2W', 'wbxml_conv.c', 'WBXMLConvXML2WBXML_s', 'wbxml_conv_xml2wbxml_create', None, 'wbxml_conv_xml2wbxml_destroy'),
]

ALLOCATORS = {'wbxml_malloc', 'wbxml_realloc', 'malloc', 'calloc', 'realloc'}
WHOLE_OBJECT_WRITERS = {'memset', 'memcpy', 'memmove', '__builtin_memset', '__builtin_memcpy', '__builtin_memmove',
                        '__builtin___memset_chk', '__builtin___memcpy_chk', '__builtin___memmove_chk'}


class TranslateError(Exception):
    pass


def ast_of(repo, builddir, cfile):
    """Whole-translation-unit JSON AST with the include paths/defines of the scratch build."""
    cmd = ['clang-14', '-Xclang', '-ast-dump=json', '-fsyntax-only', '-w',
           '-I', repo, '-I', builddir, '-I', os.path.join(repo, 'src'), '-I', os.path.join(builddir, 'src'),
           '-DLIBWBXML_VERIF', os.path.join(repo, 'src', cfile)]
    r = subprocess.run(cmd, stdout=subprocess.PIPE, stderr=subprocess.PIPE, text=True)
    if not r.stdout.strip():
        raise TranslateError(f'clang produced no AST for {cfile}: {r.stderr[-500:]}')
    try:
        return json.loads(r.stdout)
    except json.JSONDecodeError as e:
        raise TranslateError(f'AST of {cfile} is not one JSON document: {e}')


def top_level_files(tu):
    """File of every top-level declaration.  clang prints "file" only when it differs from the
    previously printed location, so the whole tree is walked in print order."""
    cur = [None]
    out = {}

    def walk(n, key=None):
        if isinstance(n, dict):
            for k, v in n.items():
                if k == 'file' and isinstance(v, str) and key != 'includedFrom':
                    cur[0] = v
                elif isinstance(v, (dict, list)):
                    walk(v, k)
        else:
            for v in n:
                if isinstance(v, (dict, list)):
                    walk(v, key)

    for d in tu.get('inner', []):
        # the declaration's own location comes first in print order
        for k in ('loc', 'range'):
            if k in d:
                walk(d[k], k)
            if k == 'loc':
                out[d.get('id')] = cur[0]
        for k, v in d.items():
            if k not in ('loc', 'range') and isinstance(v, (dict, list)):
                walk(v, k)
    return out


# ------------------------------------------------------------------ expression helpers

def strip(e):
    """Remove parentheses and casts."""
    while e.get('kind') in ('ImplicitCastExpr', 'ParenExpr', 'CStyleCastExpr', 'ConstantExpr') and e.get('inner'):
        e = e['inner'][-1]
    return e


def callee_name(call):
    f = strip(call['inner'][0])
    if f.get('kind') == 'DeclRefExpr':
        return f['referencedDecl'].get('name', '?')
    return '<indirect>'


def is_null_const(e):
    e0 = e
    while e0.get('kind') in ('ImplicitCastExpr', 'ParenExpr', 'CStyleCastExpr') and e0.get('inner'):
        if e0.get('castKind') == 'NullToPointer':
            return True
        e0 = e0['inner'][-1]
    return False


def int_value(e):
    e = strip(e)
    if e.get('kind') == 'IntegerLiteral':
        return int(e['value'])
    if e.get('kind') == 'CharacterLiteral':
        return int(e['value'])
    if e.get('kind') == 'UnaryOperator' and e.get('opcode') == '-':
        v = int_value(e['inner'][0])
        return None if v is None else -v
    return None


class Fn:
    def __init__(self, node):
        self.node = node
        self.name = node['name']
        self.public = node.get('storageClass') != 'static'
        self.params = [c for c in node.get('inner', []) if c['kind'] == 'ParmVarDecl']
        self.body = next(c for c in node['inner'] if c['kind'] == 'CompoundStmt')
        self.param_ids = {p['id']: i for i, p in enumerate(self.params)}
        self.ret_type = node['type']['qualType'].split('(')[0].strip()
        # locals and all their definitions (initialiser + assignments)
        self.local_defs = {}
        self.local_names = {}
        self.calls = []
        self.deref_param0_defs = []      # right-hand sides of `*param0 = ...`
        self._outarg_nodes = set()
        self._scan(self.body)

    def _scan(self, n):
        k = n.get('kind')
        if k == 'VarDecl':
            self.local_names[n['id']] = n.get('name', '?')
            self.local_defs.setdefault(n['id'], [])
            ini = [c for c in n.get('inner', []) if 'kind' in c and c['kind'] not in ('FullComment',)]
            if n.get('init') and ini:
                self.local_defs[n['id']].append(ini[-1])
        elif k == 'BinaryOperator' and n.get('opcode') == '=':
            l = strip(n['inner'][0])
            if l.get('kind') == 'DeclRefExpr' and l['referencedDecl'].get('kind') == 'VarDecl':
                self.local_defs.setdefault(l['referencedDecl']['id'], []).append(n['inner'][1])
            if l.get('kind') == 'UnaryOperator' and l.get('opcode') == '*':
                b = strip(l['inner'][0])
                if b.get('kind') == 'DeclRefExpr' and self.param_ids.get(b['referencedDecl'].get('id')) == 0:
                    self.deref_param0_defs.append(n['inner'][1])
        elif k == 'UnaryOperator' and n.get('opcode') == '&':
            l = strip(n['inner'][0])
            if l.get('kind') == 'DeclRefExpr' and l['referencedDecl'].get('kind') == 'VarDecl' \
                    and n.get('id') not in self._outarg_nodes:
                self.local_defs.setdefault(l['referencedDecl']['id'], []).append({'kind': '<address-taken>'})
        elif k == 'CallExpr':
            self.calls.append(callee_name(n))
            args = n['inner'][1:]
            if args:
                a0 = strip(args[0])
                if a0.get('kind') == 'UnaryOperator' and a0.get('opcode') == '&':
                    l = strip(a0['inner'][0])
                    if l.get('kind') == 'DeclRefExpr' and l['referencedDecl'].get('kind') == 'VarDecl':
                        # `f(&local, ...)`: a definition of the local by f's out-parameter
                        self._outarg_nodes.add(a0.get('id'))
                        self.local_defs.setdefault(l['referencedDecl']['id'], []).append(
                            {'kind': '<out-arg>', 'callee': callee_name(n)})
        for c in n.get('inner', []):
            if isinstance(c, dict) and 'kind' in c:
                self._scan(c)


def fresh_functions(fns):
    """Functions that only ever return NULL or an object they allocated themselves (fixpoint)."""
    fresh = set(ALLOCATORS)
    changed = True
    while changed:
        changed = False
        for f in fns.values():
            # out-parameter constructors: every `*param0 = e` stores NULL or a freshly allocated object
            oc = 'out:' + f.name
            if oc not in fresh and f.deref_param0_defs and all(
                    is_null_const(e) or (strip(e).get('kind') == 'CallExpr' and callee_name(strip(e)) in fresh)
                    for e in f.deref_param0_defs):
                fresh.add(oc)
                changed = True
            if f.name in fresh or '*' not in f.ret_type:
                continue
            rets = []

            def rs(n):
                if n.get('kind') == 'ReturnStmt':
                    rets.append(n)
                for c in n.get('inner', []):
                    if isinstance(c, dict) and 'kind' in c:
                        rs(c)
            rs(f.body)
            ok = bool(rets)
            for r in rets:
                if not r.get('inner'):
                    ok = False
                    break
                e = r['inner'][0]
                if is_null_const(e):
                    continue
                e = strip(e)
                if e.get('kind') == 'CallExpr' and callee_name(e) in fresh:
                    continue
                if e.get('kind') == 'DeclRefExpr' and local_is_fresh(f, e['referencedDecl'].get('id'), fresh):
                    continue
                ok = False
                break
            if ok:
                fresh.add(f.name)
                changed = True
    return fresh


def local_is_fresh(f, vid, fresh):
    defs = f.local_defs.get(vid)
    if defs is None or not defs:
        return False
    for d in defs:
        if d.get('kind') == '<address-taken>':
            return False
        if d.get('kind') == '<out-arg>':
            if 'out:' + d['callee'] in fresh:
                continue
            return False
        if is_null_const(d):
            continue
        e = strip(d)
        if e.get('kind') == 'CallExpr' and callee_name(e) in fresh:
            continue
        return False
    return True


def base_of(f, member, fresh):
    """Root of the object expression of `member` (a MemberExpr on one of our structs)."""
    b = member['inner'][0]
    deref = 0
    b = strip(b)
    while b.get('kind') == 'UnaryOperator' and b.get('opcode') == '*':
        deref += 1
        b = strip(b['inner'][0])
    if b.get('kind') == 'DeclRefExpr':
        rd = b['referencedDecl']
        if rd.get('kind') == 'ParmVarDecl' and rd['id'] in f.param_ids:
            return f"param{f.param_ids[rd['id']]}" + ('*' * deref)
        if rd.get('kind') == 'VarDecl' and deref == 0 and local_is_fresh(f, rd['id'], fresh):
            return 'fresh'
        return 'other:' + rd.get('name', '?')
    return 'other'


def value_kind(f, e, field_type):
    """(normalised text, kind) of a stored value. kind in param | literal | lookup | other."""
    if is_null_const(e):
        return 'NULL', 'literal'
    iv = int_value(e)
    if iv is not None:
        if field_type == 'WB_BOOL' and iv in (0, 1):
            return ('TRUE' if iv else 'FALSE'), 'literal'
        if '*' in field_type and iv == 0:
            return 'NULL', 'literal'
        return str(iv), 'literal'
    s = strip(e)
    k = s.get('kind')
    if k == 'DeclRefExpr':
        rd = s['referencedDecl']
        if rd.get('kind') == 'EnumConstantDecl':
            return rd['name'], 'literal'
        if rd.get('kind') == 'ParmVarDecl':
            return 'param:' + rd['name'], 'param'
        return 'var:' + rd.get('name', '?'), 'other'
    if k == 'CallExpr':
        name = callee_name(s)
        args = [value_kind(f, a, '') for a in s['inner'][1:]]
        txt = name + '(' + ', '.join(a[0] for a in args) + ')'
        if name.startswith('wbxml_tables_get_') and all(a[1] in ('param', 'literal', 'lookup') for a in args):
            return txt, 'lookup'
        return txt, 'other'
    if k == 'MemberExpr':
        inner = value_kind(f, s['inner'][0], '')[0]
        return inner + ('->' if s.get('isArrow') else '.') + s.get('name', '?'), 'other'
    if k == 'UnaryOperator':
        return s.get('opcode', '?') + value_kind(f, s['inner'][0], '')[0], 'other'
    if k == 'BinaryOperator':
        return '(' + value_kind(f, s['inner'][0], '')[0] + ' ' + s.get('opcode', '?') + ' ' + \
               value_kind(f, s['inner'][1], '')[0] + ')', 'other'
    if k == 'UnaryExprOrTypeTraitExpr':
        return s.get('name', 'sizeof') + '(..)', 'literal'
    return '<' + str(k) + '>', 'other'


def is_pointer(e):
    return '*' in ((strip(e).get('type') or {}).get('qualType', ''))


def nonnull_block(ifstmt, f):
    """`if (param != NULL) { ... }` / `if (param) { ... }` without else, testing a PARAMETER: the block
    is the function's real body (the object does not exist otherwise). Returns the block or None."""
    inner = [c for c in ifstmt.get('inner', []) if isinstance(c, dict) and 'kind' in c]
    if ifstmt.get('hasElse') or len(inner) != 2:
        return None
    c = strip(inner[0])

    def is_param(e):
        e = strip(e)
        return e.get('kind') == 'DeclRefExpr' and e['referencedDecl'].get('id') in f.param_ids and is_pointer(e)
    ok = False
    if c.get('kind') == 'BinaryOperator' and c.get('opcode') == '!=':
        a, b2 = c['inner']
        ok = (is_param(a) and (is_null_const(b2) or int_value(b2) == 0)) or (is_param(b2) and (is_null_const(a) or int_value(a) == 0))
    elif is_param(c):
        ok = True
    return inner[1] if ok else None


def is_null_guard(ifstmt):
    """`if (X == NULL [|| Y == NULL ...]) return ...;` without else."""
    inner = [c for c in ifstmt.get('inner', []) if isinstance(c, dict) and 'kind' in c]
    if ifstmt.get('hasElse') or len(inner) != 2:
        return False

    def cond_ok(c):
        c = strip(c)
        if c.get('kind') == 'BinaryOperator' and c.get('opcode') == '||':
            return cond_ok(c['inner'][0]) and cond_ok(c['inner'][1])
        if c.get('kind') == 'BinaryOperator' and c.get('opcode') == '==':
            return is_null_const(c['inner'][0]) or is_null_const(c['inner'][1]) or \
                (is_pointer(c['inner'][0]) and int_value(c['inner'][1]) == 0) or \
                (is_pointer(c['inner'][1]) and int_value(c['inner'][0]) == 0)
        if c.get('kind') == 'UnaryOperator' and c.get('opcode') == '!':
            return is_pointer(c['inner'][0])
        return False

    def returns(s):
        if s.get('kind') == 'ReturnStmt':
            return True
        if s.get('kind') == 'CompoundStmt':
            ss = [c for c in s.get('inner', []) if isinstance(c, dict) and 'kind' in c]
            return bool(ss) and ss[-1].get('kind') == 'ReturnStmt'
        return False
    return cond_ok(inner[0]) and returns(inner[1])


def contains_kind(n, kinds):
    if n.get('kind') in kinds:
        return True
    return any(contains_kind(c, kinds) for c in n.get('inner', []) if isinstance(c, dict) and 'kind' in c)


def analyse(f, field_ids, field_types, fresh, struct_ptr_names):
    """All stores of function f to fields of the struct, in source order."""
    stores = []          # dicts: field, base, op, value, vkind, cond, destroyedFirst
    destroyed = set()    # (base, field) whose value is handed to a *_destroy call in this function
    alias = {}           # local variable id -> (base, field) it was assigned from
    cur = {}             # (base, field) -> (value, vkind) of its latest unconditional plain literal store
    saved = {}           # local variable id -> (base, field) whose ENTRY value it holds (save / restore brackets)
    whole = []
    obj_calls = []       # (callee, root of the first argument) when that argument has the struct pointer type

    def member_of(e):
        e = strip(e)
        if e.get('kind') == 'MemberExpr' and e.get('referencedMemberDecl') in field_ids:
            return e
        return None

    def note_saved(vid, key, cond):
        """`local = obj->field` on every path, before this function stores to the field: the local holds
        the value the field had on entry."""
        if not cond and not any((s_['base'], s_['field']) == key for s_ in stores) and vid not in saved:
            saved[vid] = key
        else:
            saved[vid] = None

    def holds_entry_value(vid, key):
        if saved.get(vid) != key:
            return False
        defs = f.local_defs.get(vid) or []
        nmember = 0
        for d in defs:
            if d.get('kind') in ('<address-taken>', '<out-arg>'):
                return False
            if is_null_const(d):
                continue
            m3 = member_of(d)
            if m3 is not None and (base_of(f, m3, fresh), field_ids[m3['referencedMemberDecl']]) == key:
                nmember += 1
                continue
            return False
        return nmember == 1

    def rhs_value(e, fld, base=None):
        """value of a right-hand side; `a = b = v` takes v, `x->f = x->g` takes g's literal value when
        g was stored unconditionally earlier in this function; `x->f = local` where the local only ever
        holds the value x->f had on entry is rendered `saved:f` (save / restore bracket)."""
        e0 = strip(e)
        if e0.get('kind') == 'BinaryOperator' and e0.get('opcode') == '=':
            return rhs_value(e0['inner'][1], fld, base)
        if base is not None and e0.get('kind') == 'DeclRefExpr' and e0['referencedDecl'].get('kind') == 'VarDecl' \
                and holds_entry_value(e0['referencedDecl'].get('id'), (base, fld)):
            return 'saved:' + fld, 'other'
        m2 = member_of(e)
        if m2 is not None:
            key = (base_of(f, m2, fresh), field_ids[m2['referencedMemberDecl']])
            if key in cur:
                return cur[key]
        return value_kind(f, e, field_types[fld])

    def visit(n, cond):
        k = n.get('kind')
        if k == 'VarDecl' and n.get('init'):
            ini = [c for c in n.get('inner', []) if isinstance(c, dict) and 'kind' in c]
            m = member_of(ini[-1]) if ini else None
            if m is not None:
                alias[n['id']] = (base_of(f, m, fresh), field_ids[m['referencedMemberDecl']])
                note_saved(n['id'], alias[n['id']], cond)
        if k == 'BinaryOperator' and n.get('opcode') == '=':
            l0 = strip(n['inner'][0])
            if l0.get('kind') == 'DeclRefExpr' and l0['referencedDecl'].get('kind') == 'VarDecl':
                m = member_of(n['inner'][1])
                if m is not None:
                    alias[l0['referencedDecl']['id']] = (base_of(f, m, fresh), field_ids[m['referencedMemberDecl']])
                    note_saved(l0['referencedDecl']['id'], alias[l0['referencedDecl']['id']], cond)
        if k == 'BinaryOperator' and (n.get('opcode') == '=' or n.get('opcode', '').endswith('=') and
                                      n.get('opcode') not in ('==', '!=', '<=', '>=')):
            m = member_of(n['inner'][0])
            if m is not None:
                fld = field_ids[m['referencedMemberDecl']]
                base = base_of(f, m, fresh)
                visit(n['inner'][1], cond)
                if n['opcode'] == '=':
                    val, vk = rhs_value(n['inner'][1], fld, base)
                else:
                    val, vk = n['opcode'] + value_kind(f, n['inner'][1], field_types[fld])[0], 'other'
                stores.append(dict(field=fld, base=base, op=n['opcode'], value=val, vkind=vk, cond=cond,
                                   destroyedFirst=False))
                if n['opcode'] == '=' and not cond and vk == 'literal':
                    cur[(base, fld)] = (val, vk)
                else:
                    cur.pop((base, fld), None)
                return
        if k == 'CompoundAssignOperator':
            m = member_of(n['inner'][0])
            if m is not None:
                fld = field_ids[m['referencedMemberDecl']]
                visit(n['inner'][1], cond)
                stores.append(dict(field=fld, base=base_of(f, m, fresh), op=n.get('opcode', '?='),
                                   value=n.get('opcode', '?=') + value_kind(f, n['inner'][1], '')[0], vkind='other',
                                   cond=cond, destroyedFirst=False))
                return
        if k == 'UnaryOperator' and n.get('opcode') in ('++', '--', '&'):
            m = member_of(n['inner'][0])
            if m is not None:
                fld = field_ids[m['referencedMemberDecl']]
                op = n['opcode'] if n['opcode'] != '&' else '&out'
                stores.append(dict(field=fld, base=base_of(f, m, fresh), op=op, value=op, vkind='other', cond=cond,
                                   destroyedFirst=False))
                return
        if k == 'CallExpr':
            name = callee_name(n)
            args = n['inner'][1:]
            if name.endswith('_destroy') or name.endswith('_free') or name == 'free':
                for a in args[:1]:
                    m = member_of(a)
                    if m is not None:
                        destroyed.add((base_of(f, m, fresh), field_ids[m['referencedMemberDecl']]))
                    a1 = strip(a)
                    if a1.get('kind') == 'DeclRefExpr' and a1['referencedDecl'].get('id') in alias:
                        destroyed.add(alias[a1['referencedDecl']['id']])
            if args:
                a0 = strip(args[0])
                t0 = (a0.get('type') or {}).get('qualType', '').replace('const ', '')
                if t0 in struct_ptr_names:
                    if a0.get('kind') == 'DeclRefExpr':
                        rd = a0['referencedDecl']
                        if rd.get('kind') == 'ParmVarDecl' and rd['id'] in f.param_ids:
                            root = f"param{f.param_ids[rd['id']]}"
                        elif rd.get('kind') == 'VarDecl' and local_is_fresh(f, rd['id'], fresh):
                            root = 'fresh'
                        else:
                            root = 'other:' + rd.get('name', '?')
                    else:
                        root = 'other'
                    obj_calls.append((name, root))
            if name in WHOLE_OBJECT_WRITERS and args:
                a = strip(args[0])
                t = (args[0].get('type') or {}).get('qualType', '') + ' ' + (a.get('type') or {}).get('qualType', '')
                if any(s in t for s in struct_ptr_names):
                    whole.append(name)
            for c in n.get('inner', []):
                visit(c, cond)
            return
        if k == 'IfStmt':
            parts = [c for c in n.get('inner', []) if isinstance(c, dict) and 'kind' in c]
            if parts:
                visit(parts[0], cond)          # the condition itself is evaluated unconditionally
                for p in parts[1:]:
                    visit(p, True)
            return
        if k in ('WhileStmt', 'ForStmt', 'DoStmt', 'SwitchStmt', 'ConditionalOperator'):
            for c in n.get('inner', []):
                if isinstance(c, dict) and 'kind' in c:
                    visit(c, True)
            return
        if k == 'BinaryOperator' and n.get('opcode') in ('&&', '||'):
            visit(n['inner'][0], cond)
            visit(n['inner'][1], True)
            return
        for c in n.get('inner', []):
            if isinstance(c, dict) and 'kind' in c:
                visit(c, cond)

    def top(stmts, cond):
        for st in stmts:
            if st.get('kind') == 'IfStmt' and is_null_guard(st):
                parts = [c for c in st['inner'] if isinstance(c, dict) and 'kind' in c]
                visit(parts[0], cond)     # stores inside the guard's condition (create: `(x->f = g()) == NULL`)
                visit(parts[1], True)
                continue
            blk = nonnull_block(st, f) if st.get('kind') == 'IfStmt' else None
            if blk is not None:
                inner = [c for c in blk.get('inner', []) if isinstance(c, dict) and 'kind' in c] \
                    if blk.get('kind') == 'CompoundStmt' else [blk]
                cond = top(inner, cond)
                continue
            visit(st, cond)
            if st.get('kind') != 'ReturnStmt' and contains_kind(st, ('ReturnStmt', 'GotoStmt')):
                cond = True               # a non-guard early exit: everything below is conditional
        return cond

    top([c for c in f.body.get('inner', []) if isinstance(c, dict) and 'kind' in c], False)
    for st_ in stores:
        # the old value is destroyed somewhere in this function (directly or through a temporary)
        st_['destroyedFirst'] = st_['op'] == '=' and (st_['base'], st_['field']) in destroyed
    # ---- save / restore brackets: fields that this function puts back on EVERY path to a return.
    # A small walk over the structured body with four states per path: U (no store to the field by this
    # function and no call on the object yet), C (no own store, but the object was passed to a call),
    # R (the last own store put the saved entry value back and the object was not passed on since),
    # O (anything else).  The field is bracketed iff the local was saved in state U and every path
    # reaches its return in U or R.  goto / switch with relevant effects: not bracketed (conservative).
    def passes_object(call):
        for a in call['inner'][1:]:
            a0 = strip(a)
            if a0.get('kind') == 'DeclRefExpr' and f.param_ids.get(a0['referencedDecl'].get('id')) == 0:
                return True
        return False

    def bracketed(fld):
        key = ('param0', fld)
        vids = {vid for vid, k_ in saved.items() if k_ == key and holds_entry_value(vid, key)}
        if not vids:
            return False
        ok = [True]
        rets = set()

        def is_save_rhs(e):
            m_ = member_of(e)
            return m_ is not None and (base_of(f, m_, fresh), field_ids[m_['referencedMemberDecl']]) == key

        def expr(n, st):
            """states after evaluating expression / declaration n"""
            k = n.get('kind')
            if k in ('GotoStmt', 'SwitchStmt', 'LabelStmt', 'IndirectGotoStmt'):
                ok[0] = False
                return st
            if k == 'VarDecl':
                ini = [c for c in n.get('inner', []) if isinstance(c, dict) and 'kind' in c]
                if n.get('init') and ini:
                    st = expr(ini[-1], st)
                    if n['id'] in vids and is_save_rhs(ini[-1]) and st != {'U'}:
                        ok[0] = False
                return st
            if k == 'BinaryOperator' and n.get('opcode') in ('&&', '||'):
                st = expr(n['inner'][0], st)
                return st | expr(n['inner'][1], st)
            if k == 'ConditionalOperator':
                st = expr(n['inner'][0], st)
                return expr(n['inner'][1], st) | expr(n['inner'][2], st)
            if k == 'BinaryOperator' and n.get('opcode') == '=':
                l0 = strip(n['inner'][0])
                st = expr(n['inner'][1], st)
                m_ = member_of(n['inner'][0])
                if m_ is not None and (base_of(f, m_, fresh), field_ids[m_['referencedMemberDecl']]) == key:
                    r0 = strip(n['inner'][1])
                    if r0.get('kind') == 'DeclRefExpr' and r0['referencedDecl'].get('id') in vids:
                        return {'R'}
                    return {'O'}
                if l0.get('kind') == 'DeclRefExpr' and l0['referencedDecl'].get('id') in vids:
                    if is_save_rhs(n['inner'][1]) and st != {'U'}:
                        ok[0] = False
                    return st
                return expr(n['inner'][0], st)
            m_ = member_of(n) if k == 'MemberExpr' else None
            if k in ('CompoundAssignOperator', 'UnaryOperator') and n.get('opcode') in ('++', '--', '&', '+=', '-=', '*=', '/=', '|=', '&=', '^=', '<<=', '>>=', '%='):
                m2 = member_of(n['inner'][0])
                if m2 is not None and (base_of(f, m2, fresh), field_ids[m2['referencedMemberDecl']]) == key:
                    for c in n['inner'][1:]:
                        st = expr(c, st)
                    return {'O'}
            if k == 'CallExpr':
                for c in n['inner'][1:]:
                    st = expr(c, st)
                if passes_object(n):
                    st = {{'U': 'C', 'R': 'O'}.get(x, x) for x in st}
                return st
            for c in n.get('inner', []):
                if isinstance(c, dict) and 'kind' in c:
                    st = expr(c, st)
            return st

        def stmt(n, st):
            """states with which control falls through statement n"""
            if not st:
                return st
            k = n.get('kind')
            if k == 'CompoundStmt':
                for c in n.get('inner', []):
                    if isinstance(c, dict) and 'kind' in c:
                        st = stmt(c, st)
                return st
            if k == 'ReturnStmt':
                for c in n.get('inner', []):
                    if isinstance(c, dict) and 'kind' in c:
                        st = expr(c, st)
                rets.update(st)
                return set()
            if k == 'IfStmt':
                parts = [c for c in n.get('inner', []) if isinstance(c, dict) and 'kind' in c]
                st = expr(parts[0], st)
                out = stmt(parts[1], st)
                out = out | (stmt(parts[2], st) if len(parts) > 2 else st)
                return out
            if k in ('WhileStmt', 'ForStmt', 'DoStmt'):
                parts = [c for c in n.get('inner', []) if isinstance(c, dict) and 'kind' in c]
                cur_ = set(st)
                for _ in range(6):
                    nxt = set(cur_)
                    x = cur_
                    for c in parts:
                        x = stmt(c, x) if c.get('kind') in ('CompoundStmt', 'IfStmt', 'ReturnStmt', 'WhileStmt', 'ForStmt', 'DoStmt') else expr(c, x)
                    nxt |= x
                    if nxt == cur_:
                        break
                    cur_ = nxt
                return cur_
            if k in ('BreakStmt', 'ContinueStmt'):
                return st      # over-approximation: the states also flow on
            if k == 'DeclStmt':
                for c in n.get('inner', []):
                    if isinstance(c, dict) and 'kind' in c:
                        st = expr(c, st)
                return st
            return expr(n, st)

        end = stmt(f.body, {'U'})
        rets.update(end)
        return ok[0] and rets <= {'U', 'R'} and 'R' in rets

    brackets = sorted({s_['field'] for s_ in stores if s_['base'] == 'param0' and s_['value'] == 'saved:' + s_['field']
                       and bracketed(s_['field'])})
    # whole-object stores: struct assignment `*obj = ...`
    def whole_assign(n):
        if n.get('kind') == 'BinaryOperator' and n.get('opcode') == '=':
            t = (n.get('type') or {}).get('qualType', '')
            if any(t.replace('struct ', '') == s.rstrip(' *') for s in struct_ptr_names):
                whole.append('struct-assignment')
        for c in n.get('inner', []):
            if isinstance(c, dict) and 'kind' in c:
                whole_assign(c)
    whole_assign(f.body)
    return stores, whole, sorted({fld for (_b, fld) in destroyed}), sorted(set(obj_calls)), brackets


def collect(repo, builddir):
    """-> dict object name -> facts."""
    res = {}
    asts = {}
    for oname, cfile, struct, create, reinit, destroy in OBJECTS:
        if cfile not in asts:
            tu = ast_of(repo, builddir, cfile)
            files = top_level_files(tu)
            main = os.path.join(repo, 'src', cfile)
            fns, recs, typedefs = {}, {}, {}
            for d in tu.get('inner', []):
                if d.get('kind') == 'RecordDecl' and d.get('completeDefinition') and d.get('name'):
                    recs[d['name']] = d
                if d.get('kind') == 'TypedefDecl':
                    typedefs[d.get('name')] = d['type'].get('qualType')
                if d.get('kind') == 'FunctionDecl' and any(c.get('kind') == 'CompoundStmt' for c in d.get('inner', [])):
                    fl = files.get(d.get('id'))
                    if fl is not None and os.path.realpath(fl) == os.path.realpath(main):
                        fns[d['name']] = Fn(d)
            asts[cfile] = (fns, recs, typedefs)
        fns, recs, typedefs = asts[cfile]
        if struct not in recs:
            raise TranslateError(f'struct {struct} not found in {cfile}')
        if create not in fns:
            raise TranslateError(f'function {create} not found in {cfile}')
        fields = [(c['name'], c['type']['qualType'], c['id']) for c in recs[struct].get('inner', [])
                  if c.get('kind') == 'FieldDecl']
        field_ids = {fid: n for n, _, fid in fields}
        field_types = {n: t for n, t, _ in fields}
        ptr_names = [f'struct {struct} *'] + [f'{td} *' for td, ty in sorted(typedefs.items()) if ty == f'struct {struct}']
        fresh = fresh_functions(fns)
        finfo = []
        for name in sorted(fns, key=lambda n: fns[n].node['loc'].get('offset', 0) if 'offset' in fns[n].node.get('loc', {}) else 0):
            f = fns[name]
            stores, whole, destroys, obj_calls, brackets = analyse(f, field_ids, field_types, fresh, ptr_names)
            first_is_obj = bool(f.params) and any(f.params[0]['type']['qualType'].replace('const ', '') == p for p in ptr_names)
            finfo.append(dict(name=name, public=f.public, firstParamIsObj=first_is_obj, stores=stores,
                              calls=sorted(set(f.calls)), whole=sorted(set(whole)), destroys=destroys, objCalls=obj_calls,
                              brackets=brackets))
        res[oname] = dict(struct=struct, file=cfile, fields=[(n, t) for n, t, _ in fields], create=create,
                          reinit=reinit, destroy=destroy, fns=finfo,
                          freshFns=sorted(n for n in fresh if n in fns))
    return res


# ------------------------------------------------------------------ Lean output

def lstr(s):
    return '"' + s.replace('\\', '\\\\').replace('"', '\\"') + '"'


def lbool(b):
    return 'true' if b else 'false'


def gen_fields(facts):
    o = ['/- GENERATED by tools/gen_fields.py from the clang AST of src/wbxml_parser.c, src/wbxml_encoder.c,',
         '   src/wbxml_conv.c as compiled in the current /repo build. Do not edit: regenerated on every check run. -/',
         'namespace Wbxml.Gen.Fields', '',
         '/-- One store to a struct field. `base`: "param<k>" (through the k-th parameter, `*` per extra',
         '    dereference), "fresh" (through a local that only ever holds objects allocated in this function),',
         '    "other:<name>". `op`: "=", "++", "--", "+=", …, "&out" (address taken).',
         '    `vkind`: "param" | "literal" | "lookup" (wbxml_tables_get_* of parameters/literals) | "other".',
         '    `cond`: not executed on every path that returns an object.',
         '    `value` "saved:<f>": a local that only ever holds the value field <f> of the same object had on entry',
         '    (assigned from it on every path before the function stores to <f>): the store puts the entry value back.',
         '    `destroyedFirst`: the value of the field is handed to a `*_destroy`/`*_free` call in the same function',
         '    (directly, or through a local that was assigned the field).',
         '    `Fn.wholeObject`: memset/memcpy/struct assignment over the whole object (writes every field).',
         '    `Fn.destroys`: fields handed to a `*_destroy`/`*_free` call.',
         '    `Fn.objCalls`: (callee, root of the first argument) for calls whose first argument is an object',
         '    of this struct; roots as for `base`.',
         '    `Fn.brackets`: fields of the first parameter that the function saves on entry (before it stores to',
         '    them or passes the object on) and puts back on EVERY path to a return, with nothing done to the',
         '    object after the restoring store (walk over the structured body; goto/switch: never listed). -/',
         'structure Store where',
         '  field : String', '  base : String', '  op : String', '  value : String', '  vkind : String',
         '  cond : Bool', '  destroyedFirst : Bool',
         '  deriving DecidableEq, Repr, Inhabited', '',
         'structure Fn where',
         '  name : String', '  isPublic : Bool', '  firstParamIsObj : Bool',
         '  stores : List Store', '  calls : List String', '  wholeObject : List String', '  destroys : List String', '  objCalls : List (String × String)',
         '  brackets : List String',
         '  deriving DecidableEq, Repr, Inhabited', '',
         'structure Obj where',
         '  struct : String', '  file : String',
         '  fields : List (String × String)',
         '  create : String', '  reinit : Option String', '  destroy : String',
         '  fns : List Fn',
         '  deriving Repr, Inhabited', '']
    for oname, *_ in OBJECTS:
        d = facts[oname]
        fn_names = []
        for f in d['fns']:
            if not f['stores'] and not f['whole'] and f['name'] not in (d['create'], d['reinit'], d['destroy']):
                # functions without stores still matter as callees (setter closure): keep name/linkage/calls
                pass
            nm = f"{oname}_fn_{f['name']}"
            fn_names.append(nm)
            o.append(f'def {nm} : Fn :=')
            o.append(f'  {{ name := {lstr(f["name"])}, isPublic := {lbool(f["public"])}, '
                     f'firstParamIsObj := {lbool(f["firstParamIsObj"])},')
            o.append('    stores := [' + ','.join(
                f'\n      ⟨{lstr(s["field"])}, {lstr(s["base"])}, {lstr(s["op"])}, {lstr(s["value"])}, {lstr(s["vkind"])}, '
                f'{lbool(s["cond"])}, {lbool(s["destroyedFirst"])}⟩' for s in f['stores']) + '],')
            o.append('    calls := [' + ', '.join(lstr(c) for c in f['calls']) + '],')
            o.append('    wholeObject := [' + ', '.join(lstr(c) for c in f['whole']) + '],')
            o.append('    destroys := [' + ', '.join(lstr(c) for c in f['destroys']) + '],')
            o.append('    objCalls := [' + ', '.join(f'({lstr(c)}, {lstr(r)})' for c, r in f['objCalls']) + '],')
            o.append('    brackets := [' + ', '.join(lstr(c) for c in f['brackets']) + '] }')
        o.append('')
        o.append(f'/-- `struct {d["struct"]}` of src/{d["file"]} and every function of that file. -/')
        o.append(f'def {oname} : Obj :=')
        o.append(f'  {{ struct := {lstr(d["struct"])}, file := {lstr(d["file"])},')
        o.append('    fields := [' + ', '.join(f'({lstr(n)}, {lstr(t)})' for n, t in d['fields']) + '],')
        o.append(f'    create := {lstr(d["create"])}, reinit := ' +
                 (f'some {lstr(d["reinit"])}' if d['reinit'] else 'none') + f', destroy := {lstr(d["destroy"])},')
        o.append('    fns := [' + ', '.join(fn_names) + '] }')
        o.append('')
    o.append('def all : List (String × Obj) := [' + ', '.join(f'({lstr(n)}, {n})' for n, *_ in OBJECTS) + ']')
    o.append('')
    o.append('end Wbxml.Gen.Fields')
    return '\n'.join(o) + '\n'


def regenerate(build, repo=None):
    """Called by tools/props/c15.py under the lean lock. Returns (facts, changed)."""
    import common
    facts = collect(repo or common.REPO, build.dir)
    changed = write_if_changed(OUT, gen_fields(facts))
    return facts, changed


def main():
    repo, builddir = sys.argv[1], sys.argv[2]
    facts = collect(repo, builddir)
    if len(sys.argv) > 3 and sys.argv[3] == '--print':
        sys.stdout.write(gen_fields(facts))
    else:
        print('changed' if write_if_changed(OUT, gen_fields(facts)) else 'unchanged')


if __name__ == '__main__':
    main()
