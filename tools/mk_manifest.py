#!/usr/bin/env python3
"""Writes /verif/MANIFEST.json from the table below (kept in one place so it stays valid)."""
import json, os
V = os.path.dirname(os.path.dirname(os.path.abspath(__file__)))

TB = ('Trusted: Lean 4.33 kernel (axioms propext, Quot.sound, Classical.choice only; no native_decide/bv_decide/sorry, audited every run); '
      'the translators (harness/dump_tables.c + tools/gen_lean.py print what the compiler saw); the correspondence harnesses and check.py; '
      'ASan/UBSan. All C code is modelled, not verified; the tie is checked on every run (regeneration + byte-exact differential run).')

CLAIMED = {
 'C08': dict(
   text='Kernel-checked theorems over the token tables regenerated from the current build: token ranges, no global-token collision, '
        'decode->encode and encode->decode->encode identities for tags (all pages), attribute starts, extension values, namespace<->page bijection, '
        'for all 29 languages / 3892 rows exhaustively. Proof is the right level: the domain is a finite table and the theorem covers every row.',
   ref='§5 C08', technique='Lean 4 proof by kernel evaluation over regenerated tables + correspondence of C look-ups',
   note=TB + ' Known finding: two Wireless-Village extension tokens alias one name (listed in known_findings.json; theorem ext_tables_dec_enc_partial excludes exactly those rows).'),
 'C14': dict(
   text='Theorem schedule_independence for an abstract machine with read-only shared state and per-thread local state (any number of threads, any programs, any two complete interleavings: every thread sees exactly its sequential outputs), instantiated for the library through structural premises proved by kernel evaluation over the symbol table regenerated from the current build: no writable global/static object or section, no external symbol that POSIX allows to be non-reentrant or that mutates process state. Partial: a C-level data race is not expressible in the model; ThreadSanitizer runs of 2-16 threads compared with sequential runs are validation and counter-example search, not proof.',
   ref='§5 C14', technique='Lean 4 proof (induction over schedules) + decide over regenerated symbol dump; TSan differential run as validation',
   note=TB + ' Additional trusted: nm/readelf output of the plain gcc build; the committed POSIX.1-2017 lists in Model/Posix.lean; Expat treated as per-parser-object API. Sequential expected outputs are the implementation\'s own single-thread results.'),
}

PENDING_REASON = 'check not built yet in this session (framework under construction; see DESIGN.md §9 staging)'


def main():
    props = [json.loads(l)['id'] for l in open(os.path.join(V, 'properties.jsonl'))]
    checks, na = [], []
    for p in props:
        if p in CLAIMED:
            c = CLAIMED[p]
            checks.append({
                'property_id': p,
                'quick_cmd': f'python3 tools/check.py {p} --tier quick',
                'thorough_cmd': f'python3 tools/check.py {p} --tier thorough',
                'evidence_file': f'/verif/evidence/{p}.json',
                'replay_cmd_template': f'python3 tools/check.py {p} --replay {{path}}',
                'engine': 'lean4-proof+correspondence',
                'level_claimed': {'category': 'proof', 'text': c['text'], 'design_ref': c['ref']},
                'level_note': c['note'],
                'technique': c['technique'],
            })
        else:
            na.append({'property_id': p, 'reason': PENDING_REASON})
    m = {
        'version': 1,
        'setup_cmd': 'cd /verif/lean && lake build',
        'hooks': {
            'guard': 'LIBWBXML_VERIF',
            'enable': 'check.py configures a scratch cmake build of /repo with -DCMAKE_C_FLAGS="... -DLIBWBXML_VERIF" (no source hooks are needed so far)',
            'baseline_off_cmd': 'rm -rf /tmp/wbx-baseline && cmake -S /repo -B /tmp/wbx-baseline -G Ninja -DCMAKE_BUILD_TYPE=RelWithDebInfo -DCMAKE_C_FLAGS=-Wno-error >/dev/null && cmake --build /tmp/wbx-baseline >/dev/null && ctest --test-dir /tmp/wbx-baseline -j8 --timeout 900; rc=$?; rm -rf /tmp/wbx-baseline; exit $rc',
            'source_commits': [],
            'add_only': True,
        },
        'engines': [{'name': 'lean4-proof+correspondence', 'path': '/verif/lean', 'serves_properties': sorted(CLAIMED),
                     'kind_free_text': 'Lean 4 model + theorems (lake project), regenerated Gen/* from the source, C harnesses diffed against the compiled model driver'}],
        'checks': checks,
        'not_applicable': na,
        'notes': 'See DESIGN.md. Every command rebuilds /repo\'s working tree into a scratch directory (removed on exit), regenerates lean/Wbxml/Gen, re-checks the proofs, audits axioms and runs the correspondence.',
    }
    with open(os.path.join(V, 'MANIFEST.json'), 'w') as f:
        json.dump(m, f, indent=1)


if __name__ == '__main__':
    main()
