#!/usr/bin/env python3
"""Writes /verif/MANIFEST.json from the table below (kept in one place so it stays valid)."""
import json, os
V = os.path.dirname(os.path.dirname(os.path.abspath(__file__)))

TB = ('Trusted: Lean 4.33 kernel (axioms propext, Quot.sound, Classical.choice only; no native_decide/bv_decide/sorry, audited every run); '
      'the translators (harness/dump_tables.c + tools/gen_lean.py print what the compiler saw); the correspondence harnesses and check.py; '
      'ASan/UBSan. All C code is modelled, not verified; the tie is checked on every run (regeneration + byte-exact differential run).')

CLAIMED = {
 'C08': dict(
   text='Kernel-checked theorems over the token tables regenerated from the current build: token ranges, no global-token collision, '
        'decode->encode and encode->decode->encode identities for tags (all pages), attribute starts, extension values, namespace<->page bijection, '
        'for all 29 languages / 3892 rows exhaustively. Proof is the right level: the domain is a finite table and the theorem covers every row.',
   ref='§5 C08', technique='Lean 4 proof by kernel evaluation over regenerated tables + correspondence of C look-ups',
   note=TB + ' Known finding: two Wireless-Village extension tokens alias one name (listed in known_findings.json; theorem ext_tables_dec_enc_partial excludes exactly those rows).'),
 'C01': dict(
   text='Theorems over the executable model of the whole WBXML->XML conversion (parser, tree builder incl. SyncML embedded documents and CDATA handling, XML printer), for ALL byte strings, ALL option tuples and arbitrary language tables: w2x_total (result is success or a non-zero error code: never fuel exhaustion, never one of the explicit UB flags that mark every unchecked pointer step of the C code, never a crash flag), w2x_contract, parser_depth_le_input, embedded_depth_le, w2x_generator_budget; size bounds: parse_events_size_le (events <= n(n+M+45), quadratic witness), w2x_output_le (output linear in tree size x depth x indent), w2x_bounded_partial (a fixed polynomial - quadratic compact, cubic indented - for documents WITHOUT embedded documents) and w2x_bounded_levels (one more degree per level of embedded documents; cubic_witness shows the clause "fixed polynomial" is false as worded: recorded as a known finding and measured by the check as a growth exponent). The model is tied byte-exactly to the C code by the W2X correspondence (corpus, grammar-directed, mutated, SyncML, random inputs x option tuples) under ASan/UBSan/LSan with the input in a read-only mapping. Partial by nature: heap use, leaks and real stack frames are runtime facts - observed (sanitizers; peak resident set on a size ladder against 8 MiB + 16 x (input + output); growth exponent of the output at two scales; 8 MiB stack ladder), not proved.',
   ref='§5 C01, §0', technique='Lean 4 proof over a byte-exact model + differential run under sanitizers + heap and stack ladders',
   note=TB + ' Known findings: nesting deeper than ~30k levels exhausts the 8 MiB stack; embedded documents reached through string-table references amplify the output by one degree per level (1 KB -> 8 MB). Model artefact stated by embedded_depth_le / embedded_cutoff_witness: embedded-document nesting beyond len levels is cut by the model (needs adversarial tables).'),
 'C04': dict(
   text='Theorems relating Model.parse to the WBXML grammar (Spec/Wbxml.lean: parse (ser d) = events d by induction on documents, staged by grammar fragment; unfinished fragments are visible as _partial). Tie: PARSE correspondence (event streams byte-exact) over every language and every table row, plus an independent specification oracle (tools/specgen.py) evaluated on the implementation.',
   ref='§5 C04', technique='Lean 4 proof (induction over the grammar) + byte-exact event-stream correspondence + independent spec oracle',
   note=TB + ' Typed opaque content is generated only where the parser\'s single current_tag slot agrees with the specification (observation recorded in DESIGN.md).'),
 'C11': dict(
   text='Universally quantified theorems: mb_u_int32 round trip and minimality for all v < 2^32, sixth octet rejected, base64 encode = RFC 4648 spec and decode(encode bs) = bs for every non-empty byte string, hex round trips, entity UTF-8 = Spec.utf8 for every scalar value, codes >= 2^31 rejected. Tie: CODEC correspondence against the real static functions and through the public API (all scalar values, all short strings; thorough: all 2^32 integers).',
   ref='§5 C11', technique='Lean 4 proof (induction / bit lemmas) + exhaustive and sampled correspondence',
   note=TB + ' Known finding: ENTITY 0 delivers no character. Fixed: UTF-8 length selection in parse_entity.'),
 'C12': dict(
   text='Universally quantified theorems for SI/EMN %Datetime (symbolic over digits, every legal truncation), Wireless-Village integers (round trip, overflow error) and date-times (all zones, exact opaque/inline form), and opaque<->base64 binary content, over models of the parser and encoder routines. Tie: TYPED correspondence against the static routines and end to end through minimal documents.',
   ref='§5 C12', technique='Lean 4 proof + correspondence (~300k lines quick)',
   note=TB + ' Five defects fixed (see known_findings.json), among them the base64 white-space truncation in OTA ICON / DRMREL KeyValue (37684c6); nothing _partial.'),
 'C13': dict(
   text='Theorems over Model.parse: every bounds test the property names (string-table length, opaque length, table references, literal and public-id indices, inline-string terminator, mb-int length) rejects out-of-range values, the four documented tolerances are exactly those, truncation theorems (Props/C13.lean, growing; _partial where unfinished). Tie: W2X correspondence on EVERY proper prefix of valid documents and on every length/index field overwritten with exceeding values; implementation-side oracle: error status and NULL output.',
   ref='§5 C13', technique='Lean 4 proof over the parser model + exhaustive prefix / field-overwrite differential run',
   note=TB),
 'C15': dict(
   text='decide-checked theorems over struct fields, create/reinit/reset assignments and writer sets regenerated from the clang AST of the current source (parser reinit complete, converter objects hold options only, encoder reset complete up to the recorded finding), plus history-freedom theorems by induction over all finite document histories for the object life-cycle model. Tie: translator + HIST/OBS correspondence on real objects vs fresh objects.',
   ref='§5 C15', technique='Lean 4 proof over regenerated field facts + induction over histories; differential histories',
   note=TB + ' Additional trusted: clang-14 JSON AST and tools/gen_fields.py. Known finding: encoder_encode_tree overwrites lang/output_charset/use_strtbl settings that reset cannot restore. Fixed: wbxml_encoder_reset string table / indent.'),
 'C19': dict(
   text='Refinement theorem history_refines: for ALL finite operation sequences on a buffer (31 operations) or list, the concrete model of the C struct (explicit capacity, memmove/memcpy as bounds-obligated primitives that flag UB) never faults, keeps the invariant (one NUL after the contents, len < malloced) and equals the plain-sequence specification; static buffers refuse mutation; out-of-range positions fail without effect. Tie: BUF/LIST correspondence of whole histories under ASan/UBSan.',
   ref='§5 C19', technique='Lean 4 proof (refinement by induction over operation lists) + lock-step differential histories',
   note=TB + ' The delete whose range extends beyond the contents is excluded exactly as the property excludes it. Four defects fixed.'),
 'C20': dict(
   text='Theorems over a model of both tools\' main functions and both option scanners with the library conversion as a parameter: whole input read under any fread chunking, output bytes = library bytes, exit status = library code mod 256, failed: line iff failure, no output file on failure, never crashes for any argv / file-system facts. Tie: TOOL correspondence against the freshly built executables on generated scenarios, fed with the in-process library verdict.',
   ref='§5 C20', technique='Lean 4 proof + scenario-based differential run of the real executables',
   note=TB + ' OS behaviour and glibc getopt are parameters (specified, tied by correspondence). Three defects fixed.'),
 'C02': dict(
   text='Theorems over the executable model of the whole XML->WBXML conversion (tree builder driven by Expat\'s events - Expat is a parameter recorded from the real library - and the WBXML encoder with string table, value tokenisation and typed content), for all inputs, option tuples and (where stated) arbitrary tables: x2w_contract (success, non-zero error code, or a request for a missing recorded run: never fuel, UB flag or crash flag), x2w_illformed (ill-formed text is always error 104), x2w_unknown_lang (101), x2w_empty; bounds: x2w_tree_size_le, x2w_depth_le / x2w_recursion_le, x2w_output_le, x2w_bounded (output <= 20 x events + 62 x documents for the compiled tables), x2w_linear_space. Hypotheses EnvWf (Expat\'s contract) and MainOk (no empty table names; proved for Gen.main) are shown necessary by witnesses. Tie: X2W correspondence (byte-exact WBXML, every option tuple, sources in several encodings, block-size boundaries) under ASan/UBSan/LSan with the input read-only. Partial by nature: allocator behaviour, leaks and real stack frames are runtime facts - observed (sanitizers; heap ladder against 8 MiB + 24 x (expanded input + output); 8 MiB stack ladder), not proved.',
   ref='§5 C02, §0', technique='Lean 4 proof over a byte-exact model (Expat as parameter) + differential run under sanitizers + heap and stack ladders',
   note=TB + ' Expat (well-formedness, entity expansion, event order) is assumed, and recorded for every input. Known finding: nesting deeper than ~60k levels exhausts the 8 MiB stack. x2w_embedded_fuel_partial: the bound on nested embedded documents is a property of Expat\'s runs, stated under the Ranked hypothesis.'),
 'C03': dict(
   text='Round-trip theorems over the conversion models (Props/C03.lean): build_reconstructs(_data), exact_row_main / tag_tables_names_uniq / attr_start_row_spec (token names and attribute start rows come back as the very same table rows; single exception: one ActiveSync alias, stated), rt_preserves_typed_partial (XML tree -> WBXML -> tree is EXACTLY the source in typed normal form normNodeTyped, for plain trees of 26 languages incl. typed content and <Data> elements whose SyncML type is normal, under the four recorded finding hypotheses), rt_preserves_exact_untyped, norm_typed_idempotent (hypotheses shown necessary), second trip with Expat as the single stated assumption: rt2_is_rt1_partial (14 languages without namespaces) and rt2_is_rt1_ns_partial (9 namespace languages): same tree and octet-identical XML text on the second trip. Negative witnesses: the WBXML octets of first and second trip may differ (known finding empty-element-form). Tie: correspondence of both conversions on every step; implementation-side oracle: Expat re-reads the round-tripped XML and tools/docmp.py compares nesting, names (alias classes), attributes, character data under exactly the documented normalisations; second round trip byte-identical.',
   ref='§5 C03, §0', technique='Lean 4 proof (composition of encoder, parser and builder theorems; Expat as stated assumption) + differential round trips with an independent document comparison',
   note=TB + ' _partial marks: Wireless Village / OTA typed views, <Data> with vObject / embedded types, CDATA and embedded documents in the source, attributes in the namespace second trip. Genuine data-changing corner cases are recorded as known findings (known_findings.json); nine defects found by this check were fixed.'),
 'C05': dict(
   text='A specification of XML 1.0 well-formedness written in Lean from the Recommendation (Spec/Xml.lean: strict reader for the productions the printer can emit, refusing unescaped markup, ]]> in content, mismatched tags, duplicate attributes, bad names, non-XML characters, ill-formed UTF-8) and theorems over the printer model: output_well_formed_partial and output_denotes_tree_partial (for every tree meeting the property\'s precondition xmlRepresentable - 16 necessity witnesses - the output of compact and canonical generation is accepted by the specification reader, carries the language\'s DOCTYPE, and reads back as exactly the tree\'s view: elements, attributes incl. namespace declarations, character data, CDATA contributing its text, embedded documents), indent_output_well_formed_partial / indent_output_denotes_tree_partial (any indentation: equal up to blanks), plus escaping laws, cdata_holds_character_data_only, namespace_in_scope_matches_page, xmlns_declared_iff_page_differs, no_indent_in_text_only_elements, doctype_matches_language. Tie: W2X correspondence (byte-exact) + three comparisons on the implementation\'s outputs: Expat (plain and namespace-aware) and the Lean reader must agree on accept / reject and on the events (also on a malformed stream of mutated outputs), and the document the theorem predicts must equal what is read from the real output.',
   ref='§5 C05, §0', technique='Lean 4 proof over the printer model against a Lean specification of XML well-formedness; Expat and the specification reader cross-validated on every output',
   note=TB + ' The specification reader is trusted as a transcription of the XML Recommendation for the subset (no comments, PIs, internal subsets); its agreement with Expat is measured on every run (0 disagreements on 111k outputs + 135k mutants in the thorough tier). _partial: CDATA nodes with several children or an embedded document inside. Five defects fixed (nested CDATA twice, ]]> in CDATA, literal-root namespace, namespace in scope).'),
 'C06': dict(
   text='Theorems over the WBXML encoder model: for every tree - header_is_ser, header fields (version, charset UTF-8 except WBXML 1.0, public id numeric / textual / 01 when anonymous), strtbl_len_exact, strtbl_invariant, switch_iff_page_changes; under the decidable table facts proved for all 29 compiled languages - enc_is_ser (output = Spec.ser d), refs_hit_entry_starts, literals_only_via_strtbl, token_under_own_page, and enc_is_ser_wf / decodes_by_spec for ALL languages incl. typed content (WV integers and date-times, SI/EMN date-times, base64 binary): the output is a well-formed grammar document and the parser delivers exactly Spec.events d, under four hypotheses on the source each of which is a recorded known finding and is shown necessary by a kernel-checked witness; by-value laws per typed form; denotes_source_partial (event view = source view) for plain trees of 21 languages. Tie: X2W correspondence over all option tuples; oracle on the implementation\'s bytes: structural walker (header, table, references), strict decode by the Lean specification reader (SPEC), decoded events = source document.',
   ref='§5 C06, §0', technique='Lean 4 proof over the encoder model + strict specification decoder as oracle',
   note=TB + ' Five defects fixed (string-table aliasing, WBXML 1.0 charset field, anonymous public id, base64 white space, namespace scope shared with C05).'),
 'C07': dict(
   text='Option-independence theorems over the conversion models (Props/C07.lean): charset_irrelevant, version_only_changes_header, anonymous_only_changes_publicid, enc_opts_same_events (same white-space class and same effective string-table switch: equal event lists for every language and tree), enc_opts_same_meaning (any two option tuples with the same white-space setting, all 29 languages incl. typed content compared by value, under the four recorded finding hypotheses), strtbl_irrelevant_tree_partial, strtbl_off_fails_on_literal (witness: only literal names need the table), gen_modes_same_markup_partial / indent_adds_only_whitespace (now through embedded documents), canonical_and_compact_read_back_same_partial and indent_read_back_same_up_to_blank_text_partial (Expat as the stated assumption ReadsBack). Tie: correspondence + oracle: all 32 encoder tuples decode to one document (within each keep-ws class; embedded documents compared as documents), compact / indent / canonical XML read back as the same tree with identical CDATA payloads, UTF-16 / ISO-8859-1 transcodings give byte-identical WBXML; search stage over the whole corpus when the correspondence breaks. A refusal that only the disabled string table causes must be explained by the document (a name outside the tables, or a value-only attribute whose value no start value begins): computed from the dumped tables.',
   ref='§5 C07, §0', technique='Lean 4 proof + cross-product differential run',
   note=TB + ' Transcoding equality and the read-back theorems additionally rest on Expat (parameter). _partial marks: CDATA / embedded documents across different string-table switches, canonical vs compact without keep-ws (differs by design), scope of ReadsBack.'),
 'C10': dict(
   text='Theorems over check_public_id / wbxml_tables_search_table models: forcing wins for every document, no identifier and no forcing is rejected, each route selects the first registered entry (general lemmas + decide over the regenerated 29-entry table; Props/C10.lean). Tie: exhaustive IDENT correspondence: 29 languages x routes x {no forcing, each forced language} (6630 WBXML + 179 XML cases), expectation computed independently from the dumped tables.',
   ref='§5 C10', technique='Lean 4 proof + exhaustive identification matrix',
   note=TB + ' Known finding: DRMREL cannot be recognised from its prefixed root element.'),
 'C17': dict(
   text='Theorems by induction over ALL operation histories of the flow-mode state machine, for an arbitrary per-node encoder: flow output = header ++ batch encoding of the surviving nodes, code pages track the output, delete restores output and code-page state (Props/C17.lean, nothing partial). Tie: FLOW correspondence (whole histories, output after every step) + oracle against fresh batch encodings.',
   ref='§5 C17', technique='Lean 4 proof (induction over histories, encoder as parameter) + differential histories',
   note=TB + ' The per-node WBXML encoding is a parameter measured on the real encoder (the separate encoder model is tied by C02/C06). Two defects fixed.'),
 'C09': dict(
   text='Kernel-checked theorem registry_preserved: every row of the registry pinned from the 0.11.10 tables (language entries, public identifiers numeric and textual, root, DTD, tags, attribute starts and values, extension values, namespace rows) is present with the same meaning in the tables regenerated from the current build, and decode/encode look-ups on published rows give the published answers (rows may be added). Exhaustive over every published row; the registry (lean/Wbxml/Registry.lean + corpus/registry_0_11_10.json) is committed once and never regenerated.',
   ref='§5 C09', technique='Lean 4 proof by kernel evaluation: pinned registry vs regenerated tables',
   note=TB + ' The pinned registry itself is trusted as the record of what 0.11.10 published. A failing row is replayed as a minimal WBXML document decoded by the current build.'),
 'C18': dict(
   text='Theorems over an index-linked heap model of wbxml_tree.c (nodes with parent / first-child / previous / next links as the C struct has them): the link invariant is preserved by every API call and by all finite histories, adjacent text siblings are merged by every insertion, abs (the plain tree) commutes with every operation, same_shape_same_bytes (any two histories ending in the same shape convert to the same WBXML and XML bytes), extract_then_reinsert_last_child, api_tree_equals_parsed_partial and api_built_converts_like_parsed_partial (the canonical document-order API history of an event list builds exactly the tree the XML front end builds, hence the same bytes under every option tuple; the four exclusions of plainEvents are extra work of the front end, each with a kernel-checked witness), teardown releases every node exactly once. Tie: TREE correspondence of whole histories on the real API under ASan/UBSan/LSan with the real links walked after each call; oracle: API-built tree vs wbxml_tree_from_xml of the equivalent text give identical XML and WBXML bytes.',
   ref='§5 C18, §0', technique='Lean 4 proof (invariant + abstraction by induction over histories; simulation of the XML front end) + lock-step differential histories',
   note=TB + ' Known finding: extracting a node between two text siblings leaves them adjacent (no_adjacent_text_partial). One defect fixed (extract_node on a detached node).'),
 'C16': dict(
   text='Theorems over an allocation-ledger model (free monad over malloc / realloc / free / dereference with a failure schedule; block ids never reused, so stale pointers, double frees and leaks are visible): for EVERY failure schedule (single failures and pairs are instances) the modelled functions - buffers, lists, names, attributes, tree nodes, parse_attribute / parse_element with the attribute table, the tree-building call-backs over arbitrary event lists (tree_from_wbxml_events_clean), encoder create / destroy / init_output, the whole string-table chain (collect_strings, split_words, collect_words, check_references, strtbl_initialize_clean with the explicit set of request sites whose failure is benign by design), fill_header, build_result, encoder_encode_tree with and without string table, tree_to_wbxml_no_leak - never fault, release everything they allocated, and report every non-benign failure; kernel-checked witnesses show the former code failing the clause. the WBXML parser main loop (parse_document_clean, tree_from_wbxml_clean), the XML printer (tree_to_xml_clean) and the Expat call-backs over arbitrary event lists (tree_from_xml_events_clean); oom_result_sound_partial is ONE theorem over the four pipelines wbxml2xml (strict), xml2wbxml, wbxml2wbxml (up to the explicit benign string-table sites) and xml2xml (strict). It keeps the suffix because some allocating code is in no model: temporaries of the WBXML value encoder and typed encoders, WV / date-time decoders, embedded documents, Expat itself - covered by exhaustive enumeration of k only (a test, labelled so).',
   ref='§5 C16, §0', technique='Lean 4 proof over an allocation-ledger monad + exhaustive single-failure enumeration (pairs in thorough) on the real code with an interposed allocator under ASan/LSan',
   note=TB + ' Allocation failure is injected by replacing wbxml_mem.c at link time (no source hook); Expat allocations are outside the property. Known finding: check_public_id() reports an out-of-memory while reading a textual public id of an embedded document as unknown public id. 21 defects fixed.'),
 'C14': dict(
   text='Theorem schedule_independence for an abstract machine with read-only shared state and per-thread local state (any number of threads, any programs, any two complete interleavings: every thread sees exactly its sequential outputs), instantiated for the library through structural premises proved by kernel evaluation over the symbol table regenerated from the current build: no writable global/static object or section, no external symbol that POSIX allows to be non-reentrant or that mutates process state. Partial: a C-level data race is not expressible in the model; ThreadSanitizer runs of 2-16 threads compared with sequential runs are validation and counter-example search, not proof.',
   ref='§5 C14', technique='Lean 4 proof (induction over schedules) + decide over regenerated symbol dump; TSan differential run as validation',
   note=TB + ' Additional trusted: nm/readelf output of the plain gcc build; the committed POSIX.1-2017 lists in Model/Posix.lean; Expat treated as per-parser-object API. Sequential expected outputs are the implementation\'s own single-thread results.'),
}

PENDING_REASON = 'not applicable (see DESIGN.md)'


def main():
    props = [json.loads(l)['id'] for l in open(os.path.join(V, 'properties.jsonl'))]
    checks, na = [], []
    for p in props:
        if p in CLAIMED:
            c = CLAIMED[p]
            checks.append({
                'property_id': p,
                'quick_cmd': f'python3 tools/check.py {p} --tier quick',
                'thorough_cmd': f'python3 tools/check.py {p} --tier thorough',
                'evidence_file': f'/verif/evidence/{p}.json',
                'replay_cmd_template': f'python3 tools/check.py {p} --replay {{path}}',
                'engine': 'lean4-proof+correspondence',
                'level_claimed': {'category': 'proof', 'text': c['text'], 'design_ref': c['ref']},
                'level_note': c['note'],
                'technique': c['technique'],
            })
        else:
            na.append({'property_id': p, 'reason': PENDING_REASON})
    m = {
        'version': 1,
        'setup_cmd': 'cd /verif/lean && lake build',
        'hooks': {
            'guard': 'LIBWBXML_VERIF',
            'enable': 'check.py configures a scratch cmake build of /repo with -DCMAKE_C_FLAGS="... -DLIBWBXML_VERIF" (no source hooks are needed so far)',
            'baseline_off_cmd': 'rm -rf /tmp/wbx-baseline && cmake -S /repo -B /tmp/wbx-baseline -G Ninja -DCMAKE_BUILD_TYPE=RelWithDebInfo -DCMAKE_C_FLAGS=-Wno-error >/dev/null && cmake --build /tmp/wbx-baseline >/dev/null && mkdir -p /tmp/wbx-baseline/tmp && TMPDIR=/tmp/wbx-baseline/tmp ctest --test-dir /tmp/wbx-baseline -j8 --timeout 900; rc=$?; rm -rf /tmp/wbx-baseline; exit $rc',
            'source_commits': [],
            'add_only': True,
        },
        'engines': [{'name': 'lean4-proof+correspondence', 'path': '/verif/lean', 'serves_properties': sorted(CLAIMED),
                     'kind_free_text': 'Lean 4 model + theorems (lake project), regenerated Gen/* from the source, C harnesses diffed against the compiled model driver'}],
        'checks': checks,
        'not_applicable': na,
        'notes': 'See DESIGN.md. Every command rebuilds /repo\'s working tree into a scratch directory (removed on exit), regenerates lean/Wbxml/Gen, re-checks the proofs, audits axioms and runs the correspondence.',
    }
    with open(os.path.join(V, 'MANIFEST.json'), 'w') as f:
        json.dump(m, f, indent=1)


if __name__ == '__main__':
    main()
