#!/usr/bin/env python3
"""Development aid: X2T (tree of XML) model vs implementation, Expat events recorded from Expat."""
import sys, os, random
sys.path.insert(0, os.path.dirname(os.path.abspath(__file__)))
import common, corr, xmlgen
seed = int(sys.argv[1]) if len(sys.argv) > 1 else 1
N = int(sys.argv[2]) if len(sys.argv) > 2 else 1000
rng = random.Random(seed)
b = common.Build('asan')
d, _ = common.regenerate(b)
h = b.harness('encx.c'); er = b.harness('expat_rec.c')
drv = corr.driver_exe()
docs = [x for _, x in xmlgen.corpus_xml()]
g = xmlgen.XmlTableGen(d, rng)
xs = list(docs)
for i in range(N):
    k = rng.random()
    if k < 0.45:
        x = rng.choice(docs)
        for _ in range(rng.randint(1, 3)): x = xmlgen.mutate_xml(rng, x)
    elif k < 0.9:
        x = g.doc()
        if rng.random() < 0.3: x = xmlgen.mutate_xml(rng, x)
    else:
        x = bytes(rng.randrange(256) for _ in range(rng.randint(1, 30)))
    if x: xs.append(x)
impl, inc = corr.run_lines(h, [f'X2T {x.hex()}' for x in xs], env=b.env())
print('incidents', inc[:3])
def expat(docs):
    out, _ = corr.run_lines(er, [f'EXPAT {x.hex()}' for x in docs], env=b.env())
    return out
runs = expat(xs)
env = [{x.hex(): runs[i][2:].replace(' ', '/', 1)} for i, x in enumerate(xs)]
pending = list(range(len(xs)))
model = [None] * len(xs)
for rnd in range(4):
    lines = [f'X2T {xs[i].hex()} ' + ' '.join(f'{k}={v}' for k, v in env[i].items()) for i in pending]
    out, _ = corr.run_lines(drv, lines)
    need = []
    for j, i in enumerate(pending):
        model[i] = out[j]
        if out[j] and out[j].startswith('NEED '):
            need.append((i, out[j][5:]))
    if not need: break
    rr = expat([bytes.fromhex(hx) for _, hx in need])
    for (i, hx), r in zip(need, rr):
        env[i][hx] = r[2:].replace(' ', '/', 1)
    pending = [i for i, _ in need]
nd = 0
okc = sum(1 for a in impl if a and a.startswith('R 0 '))
for i, x in enumerate(xs):
    if impl[i] != model[i]:
        nd += 1
        if nd <= 6:
            print('DIFF', x[:300]); print('  impl :', (impl[i] or '')[:500]); print('  model:', (model[i] or '')[:500])
print(f'{len(xs)} docs, {okc} ok, {nd} differences')
