"""Document-level comparison for C03 / C06 / C07: element nesting and names, attributes with values
in order, character data — modulo exactly the normalisations the properties document."""
import base64, re
import xmlcmp

WS = b' \t\n\r\x0b\x0c'


def doc_of_expat(resp):
    """Expat run (namespace mode, harness/expat_rec.c) -> (ok, doctype, flat events with merged text)."""
    ok, doctype, evs = xmlcmp.expat_events(resp)
    out = []
    in_cd = False
    for e in evs:
        if e[0] == 'CD':
            in_cd = e[1] == '['
            continue
        if e[0] == 'C':
            if out and out[-1][0] == 'C':
                # (3rd field: some piece came from a CDATA section; 4th: CDATA and plain pieces are mixed)
                out[-1] = ('C', out[-1][1] + e[1], out[-1][2] or in_cd, out[-1][3] or (out[-1][2] != in_cd))
            else:
                out.append(('C', e[1], in_cd, False))
        elif e[0] == 'S':
            out.append(('S', e[1], list(e[2])))
        else:
            out.append(e)
    return ok, doctype, out


XMLNS = b'http://www.w3.org/XML/1998/namespace|'


def local(n):
    # the reserved xml: attributes are reported by the namespace-aware reader under the XML namespace URI
    if n.startswith(XMLNS):
        return b'xml:' + n[len(XMLNS):]
    return n.rsplit(b'|', 1)[-1]


class Norm:
    """The documented normalisations, parameterised by the language's dumped tables."""

    def __init__(self, dump, lang):
        self.lang = lang
        T = dump['tables']
        self.tags = T[str(lang['tags'])]['rows'] if lang['tags'] is not None else []
        self.has_attrs = lang['attrs'] is not None
        # names sharing a (page, token): alias classes
        by_tok = {}
        for r in self.tags:
            by_tok.setdefault((r[1], r[2]), []).append(bytes.fromhex(r[0]))
        self.alias = {}
        for names in by_tok.values():
            for n in names:
                self.alias.setdefault(n, set()).update(names)
        self.binary = {bytes.fromhex(r[0]) for r in self.tags if r[3] & 1}
        lid = lang['id']
        self.wv = lid in (2301, 2302)
        self.dt_attrs = {b'created', b'si-expires'} if lid == 1301 else {b'timestamp'} if lid == 1701 else set()
        self.syncml = lid in (2001, 2101, 2201)
        self.strict_lineends = False
        self.typed = set(self.binary)
        try:
            import os, re as _re
            src = open(os.path.join(os.path.dirname(os.path.dirname(os.path.abspath(__file__))), 'lean', 'Wbxml', 'Model', 'TypedExpected.lean')).read()
            for m in _re.finditer(r'⟨(true|false), (\d+), (\d+), (\d+), \[([0-9,]*)\], (\d+), (\d+)⟩', src):
                if m.group(1) == 'false' and int(m.group(2)) == lid:
                    self.typed.add(bytes(int(x) for x in m.group(5).split(',') if x))
        except OSError:
            pass
        if lid == 1801:
            self.typed.add(b'ds:KeyValue')
        if self.syncml:
            self.typed.add(b'NextNonce')
        self.dst_binary_raw = False       # the right-hand side carries opaque octets, not their base64 text (C06)

    def same_name(self, a, b):
        a, b = local(a), local(b)
        return a == b or b in self.alias.get(a, ())

    def text_equiv(self, elem, a, b):
        if a == b:
            return True
        le = local(elem)
        # XML's own line-end normalisation on re-reading; when the right-hand side was NOT obtained by reading
        # XML (C06: events decoded from the WBXML) only the documented vObject rule remains: in a SyncML <Data>
        # a lone line feed is sent as CR LF
        if not (self.strict_lineends and not (self.syncml and le == b'Data')):
            if a.replace(b'\r\n', b'\n').replace(b'\r', b'\n') == b.replace(b'\r\n', b'\n').replace(b'\r', b'\n'):
                return True
        if le in self.binary:
            try:
                # (the event parser delivers the opaque bytes themselves; the XML carries them as base64)
                da = b64_lenient(a)
                return da == b or da.strip(WS) == b or da == b64_lenient(b)
            except Exception:
                return False
        if self.wv:
            # Wireless-Village integers are compared by value (decimal, or the 0x notation the encoder reads)
            va, vb = wv_int(a), wv_int(b)
            if va is not None and va == vb and va < 2 ** 32:
                return True
        if self.syncml and le == b'Type':
            return a.replace(b'+wbxml', b'+xml') == b.replace(b'+wbxml', b'+xml')
        return False

    def attr_equiv(self, name, a, b):
        if a == b:
            return True
        if self.lang['id'] == 1901 and local(name) == b'VALUE':
            # OTA settings: an ICON value is binary carried as base64 (compared by the bytes it denotes)
            try:
                return b64_lenient(a) == b64_lenient(b)
            except Exception:
                return False
        if local(name) in self.dt_attrs:
            pa, pb = parse_dt(a), parse_dt(b)
            return pa is not None and pa == pb
        return False


def b64_lenient(t):
    """binary content is compared by the bytes it carries: white space, missing padding and unused
    trailing bits of the base64 text are not significant"""
    t = re.sub(rb'\s', b'', t).rstrip(b'=')
    if not re.fullmatch(rb'[A-Za-z0-9+/]*', t) or len(t) % 4 == 1:
        raise ValueError('not base64')
    return base64.b64decode(t + b'=' * (-len(t) % 4))


def wv_int(t):
    t = t.strip(WS)
    if re.fullmatch(rb'\d[xX][0-9a-fA-F]+', t) or re.fullmatch(rb'0[xX][0-9a-fA-F]+', t):
        try:
            return int(t[2:], 16) if t[0:1] == b'0' else None
        except ValueError:
            return None
    if re.fullmatch(rb'\d+', t):
        return int(t)
    return None


def parse_dt(v):
    m = re.fullmatch(rb'(\d{4})-(\d\d)-(\d\d)T(\d\d):(\d\d):(\d\d)Z', v)
    return tuple(int(x) for x in m.groups()) if m else None


def trim_stream(evs, keep_ws, binary=(), raw=False):
    """leading/trailing white space trimmed and white-space-only text dropped unless preserved;
    the content of binary-flagged elements is data, never white space"""
    if keep_ws:
        return [e for e in evs if not (e[0] == 'C' and e[1] == b'')]
    out, stack = [], []
    for e in evs:
        if e[0] == 'S':
            stack.append(local(e[1]))
        elif e[0] == 'E' and stack:
            stack.pop()
        if e[0] == 'C':
            if stack and stack[-1] in binary:
                # raw: the opaque octets themselves (any octets are data); otherwise base64 text, where text
                # that carries no octets at all (white space only) denotes the empty content
                if e[1] and (raw or e[1].strip(WS)):
                    out.append(e)
                continue
            t = e[1].strip(WS)
            if t:
                out.append(('C', t) + tuple(e[2:]))
        else:
            out.append(e)
    return out


ANY = '*'


def excuses_scoped(norm, src):
    """Known-finding tags that apply to a source document (see known_findings.json), each with the
    set of element names (local) it can explain a difference in; ANY = anywhere in the document."""
    out = {}

    def add(tag, scope):
        out.setdefault(tag, set()).add(scope)
    names = {bytes.fromhex(r[0]) for r in norm.tags}
    has_ns = norm.lang['ns'] is not None
    typed_langs = norm.wv or norm.syncml or norm.lang['id'] in (1801, 2401, 2402)
    stack = []
    embedded_at = None     # depth of an embedded DevInf / DM tree document (elements of another language)
    n_embedded = n_labels = 0
    for e in src:
        if e[0] == 'S':
            if stack and (stack[-1] in norm.binary or (norm.lang['id'] == 1801 and stack[-1] == b'ds:KeyValue')):
                add('[mixed-content-in-binary-element]', stack[-1])
            stack.append(local(e[1]))
            if norm.syncml and stack[-1] in (b'DevInf', b'MgmtTree') and e[1].rsplit(b'|', 1)[0] not in (b'syncml:devinf', b'syncml:dmddf1.2'):
                # an embedded-document root outside its own namespace is not embedded, yet its character data is
                # withheld as if it were
                add('[syncml-embedded-root-in-foreign-namespace]', ANY)
            if norm.syncml and embedded_at is None and stack[-1] in (b'DevInf', b'MgmtTree'):
                embedded_at = len(stack)
                n_embedded += 1 if (len(stack) >= 2 and stack[-2] == b'Data') else 1000    # (not below <Data>: never announced)
            for an, av in e[2]:
                if local(an) in norm.dt_attrs and parse_dt(av) is None:
                    add('[invalid-datetime-attribute]', stack[-1])
            if norm.lang['id'] == 1901 and any(local(an) == b'NAME' and av == b'ICON' for an, av in e[2]):
                for an, av in e[2]:
                    if local(an) == b'VALUE':
                        try:
                            if not b64_lenient(av):
                                raise ValueError
                        except Exception:
                            add('[invalid-base64-in-binary-element]', stack[-1])
        elif e[0] == 'E':
            if embedded_at is not None and len(stack) == embedded_at:
                embedded_at = None
            if stack:
                stack.pop()
        else:
            if norm.syncml and len(stack) >= 2 and stack[-1] == b'Type' and stack[-2] == b'Meta' and embedded_at is None and \
                    e[1].strip(WS).lower() in (b'application/vnd.syncml-devinf+xml', b'application/vnd.syncml.dmtnds+xml'):
                n_labels += 1
            if norm.syncml and stack and stack[-1] == b'Type' and e[1] != e[1].strip(WS) and \
                    e[1].strip(WS).lower() in (b'application/vnd.syncml-devinf+xml', b'application/vnd.syncml.dmtnds+xml'):
                # with white space preserved the MIME label of an embedded document is not recognised
                for sc in (b'Type', b'Data', b'Item', b'Meta'):
                    add('[syncml-embedded-type-untrimmed]', sc)
            if norm.syncml and stack and stack[-1] == b'Data' and b'\r' in e[1]:
                # vObject payloads are carried in a CDATA section, where a carriage return cannot be escaped, and
                # lone line feeds are turned into CR LF by the encoder
                add('[syncml-vobject-carriage-return]', b'Data')
            if len(e) > 2 and e[2] and e[1] != e[1].strip(WS):
                # white space at the edges of a CDATA section survives the first conversion and not the second
                add('[cdata-edge-whitespace]', stack[-1] if stack else ANY)
            if len(e) > 2 and e[2]:
                # CDATA in an element whose content is typed; CDATA next to ordinary text in one element
                # (the parser keeps the last TOKEN tag as "current tag": below a typed element, literal
                # elements inherit its typed handling)
                owner = next((n for n in reversed(stack) if n in names), None)
                if stack and (stack[-1] in norm.typed or (stack[-1] not in names and owner in norm.typed)):
                    add('[cdata-in-typed-element]', stack[-1])
                elif len(e) > 3 and e[3]:
                    add('[cdata-adjacent-to-text]', stack[-1] if stack else ANY)
            if stack and (stack[-1] in norm.binary or (norm.lang['id'] == 1801 and stack[-1] == b'ds:KeyValue')):
                try:
                    b64_lenient(e[1])
                except Exception:
                    add('[invalid-base64-in-binary-element]', stack[-1])
    if n_embedded > n_labels:
        # a DevInf / DM tree document is always sent as WBXML, whether or not a <Type> announces it
        for sc in (b'Data', b'Item', b'Meta', b'Type'):
            add('[syncml-embedded-without-type-label]', sc)
    return out


def excuses(norm, src):
    """The tags of excuses_scoped, without their scopes (whole-document granularity)."""
    return set(excuses_scoped(norm, src))


def applicable(scoped, scope):
    """Tags of `scoped` that can explain a difference located in element `scope` (None = a
    difference that has no location: every tag applies)."""
    if scope is None:
        return set(scoped)
    return {t for t, sc in scoped.items() if ANY in sc or scope in sc}


def invalid_base64_in_binary(norm, src):
    """does the source carry text that is not base64 inside a binary-flagged element?"""
    stack = []
    for e in src:
        if e[0] == 'S':
            stack.append(local(e[1]))
        elif e[0] == 'E':
            if stack:
                stack.pop()
        elif stack and (stack[-1] in norm.binary or (norm.lang['id'] == 1801 and stack[-1] == b'ds:KeyValue')):
            try:
                b64_lenient(e[1])
            except Exception:
                return True
    return False


_EMPTY = re.compile(rb'<([A-Za-z_][^\s<>/]*)((?:\s[^<>]*)?)></\1>')


def same_up_to_empty_element_form(a, b):
    return _EMPTY.sub(rb'<\1\2/>', a) == _EMPTY.sub(rb'<\1\2/>', b)


def compare(norm, src, dst, keep_ws):
    """None when equal under the normalisations, else a description of the first difference."""
    r = compare_at(norm, src, dst, keep_ws)
    return r[0] if r else None


def compare_at(norm, src, dst, keep_ws):
    """None when equal, else (description of the first difference, local name of the element it lies in)."""
    a, b = trim_stream(src, keep_ws, norm.binary), trim_stream(dst, keep_ws, norm.binary, raw=norm.dst_binary_raw)
    stack = []
    i = j = 0
    while i < len(a) and j < len(b):
        x, y = a[i], b[j]
        if x[0] != y[0]:
            return f'item {i}: {x[:2]} vs {y[:2]}', (local(stack[-1]) if stack else None)
        if x[0] == 'S':
            if not norm.same_name(x[1], y[1]):
                return f'element name {x[1]} vs {y[1]}', local(x[1])
            ax = [(n, v) for n, v in x[2]]
            ay = [(n, v) for n, v in y[2]]
            if len(ax) != len(ay):
                return f'attributes of <{local(x[1]).decode("latin-1")}>: {ax} vs {ay}' + ('' if norm.has_attrs else ' [language without attribute table]'), local(x[1])
            for (n1, v1), (n2, v2) in zip(ax, ay):
                if local(n1) != local(n2) or not norm.attr_equiv(n1, v1, v2):
                    tag = ' [invalid-datetime-attribute]' if (local(n1) in norm.dt_attrs and parse_dt(v1) is None) else ''
                    return f'attribute {n1}={v1} vs {n2}={v2}' + tag, local(x[1])
            stack.append(x[1])
        elif x[0] == 'E':
            if stack:
                stack.pop()
        else:
            if not norm.text_equiv(stack[-1] if stack else b'', x[1], y[1]):
                tag = ''
                le = local(stack[-1]) if stack else b''
                if le in norm.binary:
                    try:
                        b64_lenient(x[1])
                    except Exception:
                        tag = ' [invalid-base64-in-binary-element]'
                if norm.syncml and le != b'Type' and x[1].strip(WS).lower() in (b'application/vnd.syncml-devinf+xml', b'application/vnd.syncml.dmtnds+xml'):
                    tag = ' [syncml-mime-rewrite-outside-type]'
                if norm.wv and len(x) > 2 and x[2]:
                    tag = ' [cdata-in-typed-element]'
                if norm.syncml and len(x) > 2 and x[2] and x[1].replace(b'\r\n', b'\n').replace(b'\r', b'\n') == y[1].replace(b'\r\n', b'\n').replace(b'\r', b'\n'):
                    tag = ' [syncml-cdata-lf-crlf]'
                if norm.wv and re.fullmatch(rb'\d{8}T\d{4}(\d\d)?', x[1].strip(WS)) and y[1].strip(WS) == x[1].strip(WS) + b'Z':
                    tag = ' [wv-datetime-without-zone]'
                return f'text in <{local(stack[-1]).decode("latin-1") if stack else ""}>: {x[1][:60]} vs {y[1][:60]}' + tag, (local(stack[-1]) if stack else None)
        i += 1; j += 1
    if i < len(a) or j < len(b):
        return f'length: {len(a)} vs {len(b)} items; next {a[i:i+1]} / {b[j:j+1]}', (local(stack[-1]) if stack else None)
    return None
