"""Generators of document trees in the treeio text format (harness/treeio.h, lean/Driver/TreeIO.lean).

Python shape of a tree:
    tree  = (langid, charset, root | None)
    node  = ('E', name, [(aname, value_bytes)], [node])  |  ('T', bytes)  |  ('C', [node])  |  ('R', tree)
    name  = ('t', page, token, name_bytes) | ('l', bytes)
    aname = ('t', page, token, name_bytes, value_prefix_bytes | None) | ('l', bytes)

Three sources (DESIGN §5 C06):
  1. trees the C code itself builds from the corpus XML / WBXML files (through the harness verbs X2T / W2T),
  2. mutations of given trees,
  3. trees synthesised from the dumped tables, language by language (`Synth`).
"""
import base64, glob, os, random

V = os.path.dirname(os.path.dirname(os.path.abspath(__file__)))


# ------------------------------------------------------------------ text format

def hx(b):
    return b.hex() if b else '-'


def unhx(s):
    return b'' if s == '-' else bytes.fromhex(s)


def fmt_name(n):
    return f't.{n[1]}.{n[2]}.{hx(n[3])}' if n[0] == 't' else f'l.{hx(n[1])}'


def fmt_aname(n):
    if n[0] == 't':
        return f't.{n[1]}.{n[2]}.{hx(n[3])}.' + ('~' if n[4] is None else hx(n[4]))
    return f'l.{hx(n[1])}'


def fmt_node(n):
    k = n[0]
    if k == 'E':
        return 'E' + fmt_name(n[1]) + ''.join(f';A{fmt_aname(a)}={hx(v)}' for a, v in n[2]) + '(' + ''.join(fmt_node(c) for c in n[3]) + ')'
    if k == 'T':
        return 'T' + hx(n[1]) + '.'
    if k == 'C':
        return 'C(' + ''.join(fmt_node(c) for c in n[1]) + ')'
    if k == 'R':
        return 'R' + fmt_tree(n[1]) + '$'
    raise ValueError(k)


def fmt_tree(t):
    return f'{t[0]}:{t[1]}:' + (fmt_node(t[2]) if t[2] is not None else '-')


class _P:
    def __init__(self, s):
        self.s, self.i = s, 0

    def until(self, stops):
        j = self.i
        while j < len(self.s) and self.s[j] not in stops:
            j += 1
        r = self.s[self.i:j]
        self.i = j
        return r

    def eat(self, c):
        if self.s[self.i:self.i + len(c)] != c:
            raise ValueError(f'expected {c!r} at {self.i}')
        self.i += len(c)

    def peek(self):
        return self.s[self.i] if self.i < len(self.s) else ''


def _parse_name(s):
    p = s.split('.')
    if p[0] == 't':
        return ('t', int(p[1]), int(p[2]), unhx(p[3]))
    return ('l', unhx(p[1]))


def _parse_aname(s):
    p = s.split('.')
    if p[0] == 't':
        return ('t', int(p[1]), int(p[2]), unhx(p[3]), None if p[4] == '~' else unhx(p[4]))
    return ('l', unhx(p[1]))


def _parse_kids(p):
    kids = []
    while p.peek() != ')':
        kids.append(_parse_node(p))
    p.eat(')')
    return kids


def _parse_node(p):
    k = p.peek()
    p.i += 1
    if k == 'E':
        name = _parse_name(p.until(';('))
        attrs = []
        while p.peek() == ';':
            p.eat(';A')
            an = p.until('=')
            p.eat('=')
            attrs.append((_parse_aname(an), unhx(p.until(';('))))
        p.eat('(')
        return ('E', name, attrs, _parse_kids(p))
    if k == 'T':
        h = p.until('.')
        p.eat('.')
        return ('T', unhx(h))
    if k == 'C':
        p.eat('(')
        return ('C', _parse_kids(p))
    if k == 'R':
        t = _parse_tree(p)
        p.eat('$')
        return ('R', t)
    raise ValueError(f'bad node kind {k!r} at {p.i}')


def _parse_tree(p):
    lang = int(p.until(':'))
    p.eat(':')
    cs = int(p.until(':'))
    p.eat(':')
    if p.peek() == '-':
        p.i += 1
        return (lang, cs, None)
    return (lang, cs, _parse_node(p))


def parse_tree(s):
    """Text -> tree; None when the text is not a single-rooted tree of the grammar."""
    try:
        p = _P(s)
        t = _parse_tree(p)
        return t if p.i == len(s) else None
    except (ValueError, IndexError):
        return None


# ------------------------------------------------------------------ corpus

def corpus_xml():
    return [(os.path.basename(f), open(f, 'rb').read()) for f in sorted(glob.glob(os.path.join(V, 'corpus', 'xml', '*.xml')))]


def corpus_wbxml():
    return [(os.path.basename(f), open(f, 'rb').read()) for f in sorted(glob.glob(os.path.join(V, 'corpus', 'wbxml', '*.wbxml')))]


def corpus_request_lines():
    """Request lines whose answers ('R 0 ; <tree>') are the trees the C code builds from the corpus."""
    return [f'X2T {x.hex()}' for _, x in corpus_xml()] + [f'W2T 0 0 {w.hex()}' for _, w in corpus_wbxml()]


def trees_of_answers(answers):
    out = []
    for a in answers:
        if a and a.startswith('R 0 ; '):
            t = parse_tree(a[6:])
            if t is not None and t[2] is not None:
                out.append(t)
    return out


# ------------------------------------------------------------------ tables

class Tables:
    def __init__(self, dump):
        self.d = dump
        self.langs = {l['id']: l for l in dump['langs']}

    def rows(self, lid, kind):
        l = self.langs.get(lid)
        if l is None or l[kind] is None:
            return None
        return self.d['tables'][str(l[kind])]['rows']

    def tags(self, lid):
        return [('t', r[1], r[2], bytes.fromhex(r[0])) for r in (self.rows(lid, 'tags') or [])]

    def tag_opts(self, lid):
        return {(r[1], r[2], bytes.fromhex(r[0])): r[3] for r in (self.rows(lid, 'tags') or [])}

    def attrs(self, lid):
        return [('t', r[2], r[3], bytes.fromhex(r[0]), None if r[1] is None else bytes.fromhex(r[1])) for r in (self.rows(lid, 'attrs') or [])]

    def values(self, lid):
        return [bytes.fromhex(r[0]) for r in (self.rows(lid, 'values') or [])]

    def exts(self, lid):
        return [bytes.fromhex(r[0]) for r in (self.rows(lid, 'exts') or [])]

    def lang_ids(self):
        return [l['id'] for l in self.d['langs']]


WV = (2301, 2302)
SYNCML = (2001, 2101, 2201)
WV_INT = [(0, 0x0B), (0, 0x0F), (0, 0x1A), (0, 0x3C), (1, 0x1C), (1, 0x25), (1, 0x26), (1, 0x27), (1, 0x28), (1, 0x32),
          (3, 0x05), (3, 0x06), (3, 0x0C), (3, 0x0D), (3, 0x0E), (3, 0x12), (3, 0x13), (9, 0x08), (9, 0x0A), (5, 0x05)]
WV_DATE = [(0, 0x11), (6, 0x1A)]
WV_BOOL = [(0, 0x05), (0, 0x18), (0, 0x21), (1, 0x06), (3, 0x09), (4, 0x0B), (7, 0x21)]

INT_TEXTS = [b'0', b'1', b'7', b'127', b'128', b'255', b'256', b'65535', b'65536', b'16777215', b'16777216', b'4294967295',
             b'4294967296', b'4294967297', b'18446744073709551615', b'18446744073709551616', b'99999999999999999999999',
             b'0x0', b'0x1F', b'0Xff', b'0xFFFFFFFF', b'0x100000000', b'0x', b'0xg', b'1x2', b'5x', b'00012', b'12a', b'12 ',
             b' 12', b'-1', b'+5', b'1.5', b'T', b'abc', b'1\x002', b'0x1\x00F', b'9', b'0012x', b'1e3']
DATE_TEXTS = [b'20011019T095031Z', b'20011019T0950Z', b'20011019T095031', b'20011019T0950', b'20011019T095031A',
              b'20011019T0950A', b'20011019T095031J', b'20011019T095031a', b'20011019T095031@', b'2001-10-19T09:50:31Z',
              b'2001-10-19T09:50:31+01:00', b'20011019X095031', b'2001101T9095031', b'99991231T235959', b'40951231T235959',
              b'40961231T235959', b'40961231T2359', b'00000000T000000', b'20011019T09503', b'20011019T0950311B',
              b'2001a019T095031', b'20011019T09:50', b'Z', b'T', b'1', b'20011399T256199', b'20011019T095031\x00Z',
              b'20011019T095031B', b'19991231T2359Y', b'20011019T095031Z ']
SI_DATES = [b'2002-11-19T13:30:00Z', b'1999-04-30T06:40:00Z', b'1999-04-30T00:00:00Z', b'2000-01-01T00:00:00Z',
            b'20021119133000', b'2002', b'T', b'Z-:', b'2002-11-19 13:30', b'2002-11-19T13:30:00+01', b'1', b'12', b'123',
            b'0000-00-00T00:00:00Z', b'2002-11-1', b'abcd', b'2002-11-19T13:30:00Z\x00x', b'9999-99-99T99:99:99Z']
B64S = [b'', b'QQ==', b'QUI=', b'QUJD', b'QUJDRA==', b'R0lGODlhAQABAAAAACw=', b'Q', b'QQ', b'QUJ', b'QUJDR', b'====', b'!!!!',
        b'QUJD QUJD', b'QUJD\nQUJD', b'AAAA', b'////', b'++++', b'QUJD=QUJD', b'QUJDRE', b'A']
PLAIN_TEXTS = [b'hello', b'hello world', b'the quick brown fox', b'quick brown', b'  padded  ', b' x ', b'abc', b'abcd', b'a',
               b'', b' ', b'\n', b'\r\n', b' \t\n ', b'wordone wordtwo wordone', b'wordtwo', b'long-word-number-one another-long-word',
               b'another-long-word here', b'tab\tseparated\twords', b'nul\x00inside', b'\x00', b'\x00lead', b'trail\x00',
               b'nul\x00inside', b'\xc3\xa9t\xc3\xa9 fran\xc3\xa7ais', b'\xe2\x82\xac 100', b'x' * 40, b'yz' * 70,
               b'http://www.example.com/', b'www.example.org', b'.com/', b'application/vnd.syncml-devinf+xml',
               b'APPLICATION/VND.SYNCML-DEVINF+XML', b'application/vnd.syncml.dmtnds+xml', b'application/vnd.syncml-devinf+wbxml',
               b'text/x-vcard', b'  hello world  ', b'hello world', b'\n  hello world', b'BEGIN:VCARD\r\nVERSION:2.1\r\nEND:VCARD\r\n']


def text(b):
    return ('T', b)


def elt(name, kids=(), attrs=()):
    return ('E', name, list(attrs), list(kids))


# ------------------------------------------------------------------ 3. synthesis from the tables

class Synth:
    def __init__(self, dump, rng):
        self.T = Tables(dump)
        self.rng = rng

    # --- pieces
    def root_row(self, lid):
        tags = self.T.tags(lid)
        l = self.T.langs[lid]
        rootname = bytes.fromhex(l['pub']['root']) if l['pub'] and l['pub']['root'] else None
        for t in tags:
            if t[3] == rootname:
                return t
        return tags[0] if tags else ('l', rootname or b'root')

    def wrap(self, lid, kids, cs=None):
        return (lid, 106 if cs is None else cs, elt(self.root_row(lid), kids))

    def some_text(self):
        return self.rng.choice(PLAIN_TEXTS)

    # --- exhaustive families (every row of every table of one language)
    def all_tags(self, lid):
        """Every tag row: as empty element, with text, with a child; siblings in table order so that pages switch
        between consecutive siblings and between parent and child."""
        tags = self.T.tags(lid)
        out = []
        kids = []
        for i, t in enumerate(tags):
            k = i % 4
            if k == 0:
                kids.append(elt(t))
            elif k == 1:
                kids.append(elt(t, [text(b'text-' + t[3])]))
            elif k == 2:
                kids.append(elt(t, [elt(tags[(i * 7 + 3) % len(tags)], [text(b'inner text')])]))
            else:
                kids.append(elt(t, [text(b'text-' + t[3]), elt(tags[(i * 5 + 1) % len(tags)]), text(b'tail')]))
            if len(kids) == 24:
                out.append(self.wrap(lid, kids)); kids = []
        if kids:
            out.append(self.wrap(lid, kids))
        # the same names as literal nodes (looked up by name, current page first) + perturbed names
        kids = []
        for i, t in enumerate(tags):
            nm = t[3]
            for v in (nm, nm + b'x', nm[:-1] or b'q', nm.swapcase(), nm + b'\x00junk'):
                kids.append(elt(('l', v), [text(b'lit')] if i % 2 else []))
            if len(kids) >= 30:
                out.append(self.wrap(lid, kids)); kids = []
        if kids:
            out.append(self.wrap(lid, kids))
        return out

    def attr_values_for(self, lid, a):
        """Values probing one attribute-start row: exact / extended / truncated / unrelated / with value tokens."""
        vals = self.T.values(lid)
        p = a[4] or b''
        vs = [p, p + b'zz', p + b'/path/index.wml', p[:-1] if p else b'q', b'', b'unrelated value', p + b'\x00', p + b'\x00tail',
              p.swapcase() if p else b'Q']
        for v in self.rng.sample(vals, min(3, len(vals))):
            vs += [p + v, p + b'ab' + v + b'cd', p + v + v, v, p + v[:-1], b'xx' + v + b'yy' + (self.rng.choice(vals) if vals else b'')]
        return vs

    def all_attrs(self, lid):
        attrs = self.T.attrs(lid)
        tags = self.T.tags(lid)
        if not attrs or not tags:
            return []
        out, kids = [], []
        for i, a in enumerate(attrs):
            for j, v in enumerate(self.attr_values_for(lid, a)):
                e = tags[(i + j) % len(tags)]
                # token attribute name, and the same name as a literal (table look-up at encoding time)
                kids.append(elt(e, [], [(a, v)]))
                kids.append(elt(e, [text(b'c')], [(('l', a[3]), v)]))
                if j % 4 == 1:
                    # the literal name is read as a C string (twice: the value is a string-table candidate or not)
                    kids.append(elt(e, [], [(('l', a[3] + b'\x00zz'), v + b'-rep')]))
                    kids.append(elt(e, [], [(('l', a[3] + b'\x00zz'), v + b'-rep')]))
            if len(kids) >= 40:
                out.append(self.wrap(lid, kids)); kids = []
        if kids:
            out.append(self.wrap(lid, kids))
        # several attributes on one element, attribute pages alternating
        for i in range(0, len(attrs), 5):
            grp = attrs[i:i + 5]
            out.append(self.wrap(lid, [elt(tags[i % len(tags)], [], [(a, (a[4] or b'') + b'-v%d' % k) for k, a in enumerate(grp)])]))
        # unknown literal attribute names
        out.append(self.wrap(lid, [elt(tags[0], [], [(('l', b'x-unknown'), b'some value'), (('l', b'x-unknown'), b'some value'),
                                                       (('l', b'other'), b'')])]))
        return out

    def all_values(self, lid):
        vals = self.T.values(lid)
        attrs = self.T.attrs(lid)
        tags = self.T.tags(lid)
        if not vals or not attrs or not tags:
            return []
        free = [a for a in attrs if a[4] is None] or attrs
        out, kids = [], []
        for i, v in enumerate(vals):
            a = free[i % len(free)]
            w = vals[(i * 3 + 1) % len(vals)]
            for val in (v, b'pre' + v, v + b'post', b'pre' + v + b'mid' + w + b'post', v + v, v[:-1], v[1:], v + w, b'a' + v + b'b' + v + b'c'):
                kids.append(elt(tags[i % len(tags)], [], [(a, (a[4] or b'') + val)]))
            if len(kids) >= 40:
                out.append(self.wrap(lid, kids)); kids = []
        if kids:
            out.append(self.wrap(lid, kids))
        return out

    def all_exts(self, lid):
        exts = self.T.exts(lid)
        tags = self.T.tags(lid)
        if not exts:
            return []
        row = {(t[1], t[2]): t for t in tags}
        plain = [t for t in tags if (t[1], t[2]) not in WV_INT + WV_DATE]
        ints = [row[k] for k in WV_INT if k in row]
        dates = [row[k] for k in WV_DATE if k in row]
        out, kids = [], []
        for i, x in enumerate(exts):
            holders = [plain[i % len(plain)], plain[(i * 11 + 5) % len(plain)]]
            if ints:
                holders.append(ints[i % len(ints)])
            if dates and i % 7 == 0:
                holders.append(dates[i % len(dates)])
            for h in holders:
                for v in (x, x + b' ', b' ' + x, x + b'x', x.lower(), x + b'\x00zz'):
                    kids.append(elt(h, [text(v)]))
            # second child of an element: current_tag is already NULL there
            kids.append(elt(plain[0], [elt(plain[1]), text(x)]))
            if len(kids) >= 40:
                out.append(self.wrap(lid, kids)); kids = []
        if kids:
            out.append(self.wrap(lid, kids))
        return out

    def wv_typed(self, lid):
        if lid not in WV:
            return []
        tags = self.T.tags(lid)
        row = {(t[1], t[2]): t for t in tags}
        out = []
        # one value per tree: a value that is refused ends the whole run
        for n, k in enumerate(WV_INT):
            if k in row:
                for v in (INT_TEXTS if n < 3 else self.rng.sample(INT_TEXTS, 6)):
                    out.append(self.wrap(lid, [elt(tags[1], [text(b'before')]), elt(row[k], [text(v)]), elt(tags[2], [text(b'after')])]))
        for k in WV_DATE:
            if k in row:
                for v in DATE_TEXTS:
                    out.append(self.wrap(lid, [elt(row[k], [text(v)]), elt(tags[2], [text(b'after')])]))
        for k in WV_BOOL:
            if k in row:
                out.append(self.wrap(lid, [elt(row[k], [text(v)]) for v in (b'T', b'F', b't', b'TRUE', b'1', b'', b' T ')]))
        # the typed element's tag is the current tag only for its FIRST child, and never for what follows the element
        k = WV_INT[0]
        if k in row:
            out.append(self.wrap(lid, [elt(row[k], [text(b'12'), text(b'13')]), elt(row[k], [elt(tags[3]), text(b'14')]),
                                       elt(row[k], [('C', [text(b'15')]), text(b'16')]),
                                       elt(tags[3], [elt(row[k]), text(b'17')]), elt(tags[3], [elt(row[k], [text(b'18')]), text(b'19')]),
                                       elt(tags[3], [elt(row[k], [elt(row[k])]), text(b'20')]), elt(row[k]), text(b'21')]))
        return out

    def datetimes(self, lid):
        if lid not in (1301, 1701):
            return []
        attrs = self.T.attrs(lid)
        tags = self.T.tags(lid)
        want = [(0, 0x0a), (0, 0x10)] if lid == 1301 else [(0, 0x05)]
        out = []
        for a in attrs:
            if (a[1], a[2]) in want:
                for i, v in enumerate(SI_DATES):
                    out.append(self.wrap(lid, [elt(tags[i % len(tags)], [text(b'x')], [(a, v)]), elt(tags[0])]))
                    # the same attribute as a literal name: looked up, becomes current_attr
                    out.append(self.wrap(lid, [elt(tags[i % len(tags)], [], [(('l', a[3]), v), (a, v)])]))
        other = [a for a in attrs if (a[1], a[2]) not in want][:3]
        for a in other:
            out.append(self.wrap(lid, [elt(tags[0], [], [(a, (a[4] or b'') + v)]) for v in SI_DATES[:4]]))
        return out

    def ota_icons(self, lid):
        if lid != 1901:
            return []
        attrs = self.T.attrs(lid)
        tags = self.T.tags(lid)
        by = {(a[3], a[4]): a for a in attrs}
        name_any, value_any = by[(b'NAME', None)], by[(b'VALUE', None)]
        parm = next(t for t in tags if t[3] == b'PARM')
        kids = []
        for v in B64S:
            kids.append(elt(parm, [], [(name_any, b'ICON'), (value_any, v)]))
            kids.append(elt(parm, [], [(value_any, v), (name_any, b'ICON')]))
            kids.append(elt(parm, [], [(name_any, b'ICONS'), (value_any, v)]))
            kids.append(elt(parm, [], [(('l', b'NAME'), b'ICON'), (('l', b'VALUE'), v)]))
            kids.append(elt(('l', b'PARM'), [], [(name_any, b'ICON'), (value_any, v)]))
            kids.append(elt(parm, [], [(name_any, b'ICON\x00x'), (value_any, v)]))
            kids.append(elt(parm, [], [(by[(b'NAME', b'NAME')], b'NAME'), (value_any, v), (name_any, b'ICON'), (value_any, v)]))
        out = [self.wrap(lid, kids[i:i + 35]) for i in range(0, len(kids), 35)]
        # an element the table does not know needs the string table, which this language never has: error 100
        out.append(self.wrap(lid, [elt(('l', b'unknown-elt'), [], [(name_any, b'ICON'), (value_any, b'QUJD')])]))
        out.append(self.wrap(lid, [elt(parm, [], [(('l', b'x-unknown-attr'), b'ICON'), (value_any, b'QUJD')])]))
        return out

    def binaries(self, lid):
        opts = self.T.tag_opts(lid)
        tags = self.T.tags(lid)
        bins = [t for t in tags if opts[(t[1], t[2], t[3])] & 1]
        if not bins:
            return []
        out = []
        for i in range(0, len(bins), 6):
            kids = []
            for t in bins[i:i + 6]:
                for v in (b'', b'\x00', b'raw\x00bytes\xff', b'  spaced  ', b' ', b'QUJD', bytes(range(256))):
                    kids.append(elt(t, [text(v)]))
                kids.append(elt(t, [text(b'first'), text(b'second')]))
                kids.append(elt(tags[0], [elt(t), text(b'  after an empty binary element  ')]))
                kids.append(elt(t, [('C', [text(b'in cdata')])]))
                kids.append(elt(('l', t[3]), [text(b'  via literal name  ')]))
            out.append(self.wrap(lid, kids))
        return out

    def syncml_bits(self, lid):
        tags = self.T.tags(lid)
        row = {t[3]: t for t in reversed(tags)}
        out = []
        if lid in SYNCML:
            ty, data, item, meta = row[b'Type'], row[b'Data'], row[b'Item'], row[b'Meta']
            out.append(self.wrap(lid, [elt(meta, [elt(ty, [text(v)])]) for v in
                                       (b'application/vnd.syncml-devinf+xml', b'Application/VND.syncml-DevInf+XML', b'application/vnd.syncml.dmtnds+xml',
                                        b'application/vnd.syncml-devinf+xmlx', b' application/vnd.syncml-devinf+xml ', b'text/x-vcard')] +
                                 [elt(data, [text(b'application/vnd.syncml-devinf+xml')])]))
            for cd in ([text(b'\n')], [text(b'BEGIN:VCARD'), text(b'\n'), text(b'END:VCARD'), text(b'\n')], [text(b'\n\n')], [text(b'')], [],
                       [text(b' keep  blanks ')], [text(b'a\x00b')], [elt(item, [text(b'elt in cdata')])], [('C', [text(b'nested')])]):
                out.append(self.wrap(lid, [elt(item, [elt(data, [('C', cd)])])]))
            out.append(self.wrap(lid, [elt(item, [elt(data, [('C', [text(b'one')]), ('C', [text(b'two')])]), elt(data, [('C', [text(b'\n')])])])]))
            # embedded DevInf document
            dv = {2001: 2002, 2101: 2102, 2201: 2202}[lid]
            if dv in self.T.langs:
                dtags = self.T.tags(dv)
                drow = {t[3]: t for t in reversed(dtags)}
                inner = (dv, 106, elt(drow[b'DevInf'], [elt(drow[b'VerDTD'], [text(b'1.1')]), elt(drow[b'Man'], [text(b'repeated maker')]),
                                                        elt(drow[b'Mod'], [text(b'repeated maker')]), elt(('l', b'X-Ext'), [text(b'repeated maker')])]))
                out.append(self.wrap(lid, [elt(item, [elt(data, [('R', inner)])]), elt(item, [elt(data, [('R', inner)]), text(b'after tree')])]))
                out.append(self.wrap(lid, [elt(data, [('R', (dv, 106, elt(drow[b'DevInf'], [])))]), elt(data, [('R', (0, 0, None))])]))
        return out

    def drmrel(self, lid):
        if lid != 1801:
            return []
        tags = self.T.tags(lid)
        row = {(t[1], t[2]): t for t in tags}
        kv = row[(0, 0x0C)]
        other = tags[0]
        kids = []
        for v in B64S:
            kids.append(elt(kv, [text(v)]))
            kids.append(elt(other, [text(v)]))
            kids.append(elt(('l', kv[3]), [text(v)]))           # literal parent: current_text_parent has no token
            kids.append(elt(kv, [elt(other), text(v)]))
        return [self.wrap(lid, kids[i:i + 40]) for i in range(0, len(kids), 40)]

    def strtbl_cases(self, lid):
        tags = self.T.tags(lid)
        attrs = self.T.attrs(lid)
        if not tags:
            return []
        t = lambda i: tags[i % len(tags)]
        out = []
        rep = [b'repeated string', b'  repeated string  ', b'repeated', b'string', b'long-word-number-one and more', b'and more long-word-number-one',
               b'abcd', b'abc', b'abcd efgh abcd', b'efgh', b'a\x00bcdef', b'a\x00bcdef', b'\t tabbed text\n', b'\t tabbed text\n']
        out.append(self.wrap(lid, [elt(t(i), [text(v)]) for i, v in enumerate(rep)]))
        out.append(self.wrap(lid, [elt(t(i), [text(v)]) for i, v in enumerate(rep + rep)]))
        # first occurrence stripped in place (the table element is the node's own buffer), later entries' offsets
        out.append(self.wrap(lid, [elt(t(1), [text(b'  first twice  ')]), elt(t(2), [text(b'  first twice  ')]),
                                   elt(t(3), [text(b'second twice')]), elt(t(4), [text(b'second twice')]),
                                   elt(('l', b'lit-after'), [text(b'first twice'), elt(('l', b'lit-after'))])]))
        # first occurrence inside CDATA (not stripped), second outside
        out.append(self.wrap(lid, [elt(t(1), [('C', [text(b'  cdata twice  ')])]), elt(t(2), [text(b'  cdata twice  ')]), elt(t(3), [text(b'cdata twice')])]))
        # words
        out.append(self.wrap(lid, [elt(t(1), [text(b'alpha-word beta-word gamma')]), elt(t(2), [text(b'delta beta-word alpha-word')]),
                                   elt(t(3), [text(b'xalpha-wordx'), text(b'beta-word')]), elt(t(4), [text(b'alpha-wordbeta-wordalpha-word')])]))
        # strings in attribute values (collected only when not tokenisable)
        if attrs:
            free = [a for a in attrs if a[4] is None][:2] or attrs[:1]
            pref = [a for a in attrs if a[4]][:2]
            kids = []
            for a in free + pref + [('l', b'lit-attr')]:
                p = (a[4] if a[0] == 't' else None) or b''
                for v in (b'attr repeated value', b'attr repeated value', b'abc', b'abcd', b'abcd'):
                    kids.append(elt(t(len(kids)), [text(b'attr repeated value')], [(a, p + v)]))
            out.append(self.wrap(lid, kids))
            vals = self.T.values(lid)
            if vals:
                v = vals[0]
                out.append(self.wrap(lid, [elt(t(i), [], [(free[0], b'shared ' + v + b' value')]) for i in range(3)] +
                                     [elt(t(5), [text(b'shared ' + v + b' value')]), elt(t(6), [text(b'shared ' + v + b' value')])]))
        # the textual public identifier is already in the table when the header is built
        pub = self.T.langs[lid]['pub']
        if pub and pub['xml']:
            pid = bytes.fromhex(pub['xml'])
            out.append(self.wrap(lid, [elt(t(1), [text(pid)]), elt(t(2), [text(pid)]), elt(t(3), [text(b'other text twice')]), elt(t(4), [text(b'other text twice')])]))
            out.append(self.wrap(lid, [elt(('l', pid), [text(b'x')])]))
        # literal names: same name twice, name equal to a collected string, names with NUL
        out.append(self.wrap(lid, [elt(('l', b'custom-name'), [text(b'custom-name')]), elt(('l', b'custom-name'), [text(b'custom-name and custom-name')]),
                                   elt(('l', b'nul\x00name'), []), elt(('l', b'other-name'), [text(b'x')], [(('l', b'custom-name'), b'other-name')])]))
        return out

    def language(self, lid):
        """All deterministic families for one language."""
        out = []
        for f in (self.all_tags, self.all_attrs, self.all_values, self.all_exts, self.wv_typed, self.datetimes, self.ota_icons,
                  self.binaries, self.syncml_bits, self.drmrel, self.strtbl_cases):
            out += f(lid)
        return out

    # --- random trees over one language's tables
    def random_tree(self, lid=None, max_depth=4):
        rng = self.rng
        lid = lid or rng.choice(self.T.lang_ids())
        self.lid = lid
        self.tg, self.at, self.vl, self.ex = self.T.tags(lid), self.T.attrs(lid), self.T.values(lid), self.T.exts(lid)
        self.pool = [rng.choice(PLAIN_TEXTS) for _ in range(4)] + [b'pool string %d' % rng.randrange(3)]
        return (lid, rng.choice([106, 106, 0, 3, 4]), self._relt(0, max_depth))

    def _rtext(self):
        rng = self.rng
        k = rng.random()
        if k < 0.35:
            return rng.choice(self.pool)
        if k < 0.55:
            return rng.choice(PLAIN_TEXTS)
        if k < 0.65 and self.ex:
            x = rng.choice(self.ex)
            return rng.choice([x, x + b' ', x + b'.'])
        if k < 0.75:
            return rng.choice(INT_TEXTS + DATE_TEXTS)
        if k < 0.85:
            return b' '.join(rng.choice([b'tok', b'longer-token', b'four', b'wordy-word', b'ab']) for _ in range(rng.randint(1, 6)))
        if k < 0.9:
            return rng.choice(B64S)
        return bytes(rng.choice(b'ab \n\x00<&;') for _ in range(rng.randint(0, 8)))

    def _rvalue(self, prefix):
        rng = self.rng
        p = prefix or b''
        k = rng.random()
        if k < 0.15:
            return p
        if k < 0.3:
            return p + rng.choice([b'x', b'/index', b'.example.com', b'\x00', b' '])
        if k < 0.55 and self.vl:
            parts = [rng.choice(self.vl + [b'mid', b'-']) for _ in range(rng.randint(1, 4))]
            return p + b''.join(parts)
        if k < 0.7:
            return p + rng.choice(self.pool)
        if k < 0.8:
            return (p[:-1] if p else b'') + rng.choice([b'', b'q'])
        if k < 0.9:
            return rng.choice(SI_DATES + B64S)
        return rng.choice(PLAIN_TEXTS)

    def _rattrs(self):
        rng = self.rng
        out = []
        for _ in range(rng.choice([0, 0, 0, 1, 1, 2, 3])):
            k = rng.random()
            if self.at and k < 0.6:
                a = rng.choice(self.at)
                out.append((a, self._rvalue(a[4])))
            elif self.at and k < 0.8:
                a = rng.choice(self.at)
                out.append((('l', a[3]), self._rvalue(a[4])))
            else:
                out.append((('l', rng.choice([b'x-attr', b'id', b'NAME', b'pool string 1'])), self._rvalue(None)))
        return out

    def _rname(self):
        rng = self.rng
        k = rng.random()
        if self.tg and k < 0.8:
            return rng.choice(self.tg)
        if self.tg and k < 0.9:
            return ('l', rng.choice(self.tg)[3])
        return ('l', rng.choice([b'X-Custom', b'unknown', b'pool string 1', b'a']))

    def _relt(self, depth, max_depth):
        rng = self.rng
        kids = []
        n = rng.choice([0, 1, 1, 2, 3, 4]) if depth < max_depth else rng.choice([0, 1])
        for _ in range(n):
            k = rng.random()
            if k < 0.45 and depth < max_depth:
                kids.append(self._relt(depth + 1, max_depth))
            elif k < 0.9:
                kids.append(text(self._rtext()))
            elif k < 0.96:
                kids.append(('C', [text(self._rtext()) for _ in range(rng.randint(0, 3))]))
            else:
                sub = Synth.__new__(Synth)
                sub.T, sub.rng = self.T, rng
                saved = (self.lid, self.tg, self.at, self.vl, self.ex, self.pool)
                kids.append(('R', sub.random_tree(rng.choice(self.T.lang_ids()), max_depth=2)))
                self.lid, self.tg, self.at, self.vl, self.ex, self.pool = saved
        return elt(self._rname(), kids, self._rattrs())


# ------------------------------------------------------------------ 2. mutations

def _paths(n, path=()):
    """All (path, node) pairs below and including n."""
    yield path, n
    kids = n[3] if n[0] == 'E' else n[1] if n[0] == 'C' else []
    for i, c in enumerate(kids):
        yield from _paths(c, path + (i,))


def _replace(n, path, f):
    """Copy of n with the node at path replaced by f(node) (a node, or a list of nodes to splice in)."""
    if not path:
        r = f(n)
        return r
    kids = n[3] if n[0] == 'E' else n[1]
    i = path[0]
    sub = _replace(kids[i], path[1:], f)
    new = kids[:i] + (sub if isinstance(sub, list) else [sub]) + kids[i + 1:]
    return ('E', n[1], n[2], new) if n[0] == 'E' else ('C', new)


def mutate(rng, tree, tables):
    """One structural/textual mutation of a tree (the root stays a single element)."""
    lid, cs, root = tree
    if root is None:
        return tree
    nodes = list(_paths(root))
    tags, attrs, vals, exts = tables.tags(lid), tables.attrs(lid), tables.values(lid), tables.exts(lid)
    texts = [n[1] for _, n in nodes if n[0] == 'T']
    k = rng.randrange(16)
    path, n = rng.choice(nodes)

    def pick(kind):
        c = [(p, x) for p, x in nodes if x[0] == kind]
        return rng.choice(c) if c else (None, None)

    if k == 0:      # rename to an unknown literal name
        p, e = pick('E')
        return (lid, cs, _replace(root, p, lambda x: ('E', ('l', rng.choice([b'X-Unknown', b'zz', x[1][-1] + b'x', x[1][-1]])), x[2], x[3])))
    if k == 1:      # duplicate a subtree (strings repeat -> string table)
        if not path:
            return (lid, cs, ('E', root[1], root[2], root[3] + root[3])) if root[0] == 'E' else tree
        return (lid, cs, _replace(root, path, lambda x: [x, x]))
    if k == 2:      # insert text with NUL / white space / long words
        p, e = pick('E')
        t = rng.choice([b'nul\x00in text', b'   ', b'\n', b' lead and trail ', b'supercalifragilistic-word twice supercalifragilistic-word',
                        b'\x00', b'', rng.choice(texts) if texts else b'again', b'  ' + (rng.choice(texts) if texts else b'again') + b'\n'])
        pos = rng.randint(0, len(e[3]))
        return (lid, cs, _replace(root, p, lambda x: ('E', x[1], x[2], x[3][:pos] + [text(t)] + x[3][pos:])))
    if k == 3:      # change an attribute value: partial matches of prefixes and value tokens
        c = [(p, x) for p, x in nodes if x[0] == 'E' and x[2]]
        if not c:
            return tree
        p, e = rng.choice(c)
        i = rng.randrange(len(e[2]))
        a, v = e[2][i]
        pre = (a[4] if a[0] == 't' else None) or b''
        choices = [v[:-1], v + b'x', pre, pre[:-1], pre + b'-more', v.replace(b'\x00', b''), v + b'\x00', b'']
        if vals:
            w = rng.choice(vals)
            choices += [pre + w, pre + b'a' + w + b'b', pre + w[:-1], v + w, w + v]
        if texts:
            choices.append(pre + rng.choice(texts))
        nv = rng.choice(choices)
        return (lid, cs, _replace(root, p, lambda x: ('E', x[1], x[2][:i] + [(a, nv)] + x[2][i + 1:], x[3])))
    if k == 4:      # move a node to another code page / another token
        p, e = pick('E')
        if not tags:
            return tree
        return (lid, cs, _replace(root, p, lambda x: ('E', rng.choice(tags), x[2], x[3])))
    if k == 5:      # wrap children in CDATA
        p, e = pick('E')
        return (lid, cs, _replace(root, p, lambda x: ('E', x[1], x[2], [('C', x[3])] if rng.random() < 0.5 else x[3] + [('C', [text(b'cdata text'), text(b'\n')])])))
    if k == 6:      # nested tree (same language, a copy of the document) under some element
        p, e = pick('E')
        inner = (lid, cs, root) if len(nodes) < 60 else (lid, cs, elt(root[1] if root[0] == 'E' else ('l', b'r'), [text(b'inner')]))
        return (lid, cs, _replace(root, p, lambda x: ('E', x[1], x[2], x[3] + [('R', inner)])))
    if k == 7:      # token attribute name -> literal name and back
        c = [(p, x) for p, x in nodes if x[0] == 'E' and x[2]]
        if not c:
            return tree
        p, e = rng.choice(c)
        i = rng.randrange(len(e[2]))
        a, v = e[2][i]
        na = ('l', a[3]) if a[0] == 't' else (rng.choice(attrs) if attrs else ('l', a[1] + b'2'))
        return (lid, cs, _replace(root, p, lambda x: ('E', x[1], x[2][:i] + [(na, v)] + x[2][i + 1:], x[3])))
    if k == 8:      # add an attribute
        p, e = pick('E')
        if attrs and rng.random() < 0.7:
            a = rng.choice(attrs)
            na, nv = a, (a[4] or b'') + rng.choice([b'', b'x', rng.choice(vals) if vals else b'y', rng.choice(texts) if texts else b'zz zz zz'])
        else:
            na, nv = ('l', rng.choice([b'x-added', b'id'])), rng.choice(texts) if texts else b'added value'
        return (lid, cs, _replace(root, p, lambda x: ('E', x[1], x[2] + [(na, nv)], x[3])))
    if k == 9:      # text -> an extension value / typed sample
        p, t = pick('T')
        if p is None:
            return tree
        nv = rng.choice((exts or [b'T']) + INT_TEXTS[:12] + DATE_TEXTS[:8] + B64S[:6])
        return (lid, cs, _replace(root, p, lambda x: text(nv)))
    if k == 10:     # pad a text with white space
        p, t = pick('T')
        if p is None:
            return tree
        return (lid, cs, _replace(root, p, lambda x: text(rng.choice([b' ', b'\n\t', b'']) + x[1] + rng.choice([b'  ', b'\r\n', b'']))))
    if k == 11:     # delete a node
        if not path:
            return tree
        return (lid, cs, _replace(root, path, lambda x: []))
    if k == 12:     # token tag -> literal with the same name
        p, e = pick('E')
        return (lid, cs, _replace(root, p, lambda x: ('E', ('l', x[1][-1]), x[2], x[3])))
    if k == 13:     # copy a text into an attribute value and another element (cross attr/text repeats)
        p, e = pick('E')
        s = rng.choice(texts) if texts else b'shared text value'
        a = (rng.choice(attrs) if attrs else ('l', b'x-shared'))
        return (lid, cs, _replace(root, p, lambda x: ('E', x[1], x[2] + [(a, ((a[4] if a[0] == 't' else None) or b'') + s)], x[3] + [text(s)])))
    if k == 14:     # split a text into two adjacent text nodes
        p, t = pick('T')
        if p is None or len(t[1]) < 2:
            return tree
        c = rng.randrange(1, len(t[1]))
        return (lid, cs, _replace(root, p, lambda x: [text(x[1][:c]), text(x[1][c:])]))
    # change charset field / nothing structural
    return (lid, rng.choice([0, 3, 4, 106, 1015]), root)


def size(n):
    return sum(1 for _ in _paths(n))
