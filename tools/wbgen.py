"""Input generators for WBXML-side correspondence: corpus documents, mutations, prefixes,
grammar-directed random documents over the dumped tables."""
import glob, os, random

V = os.path.dirname(os.path.dirname(os.path.abspath(__file__)))


def corpus_wbxml():
    out = []
    for f in sorted(glob.glob(os.path.join(V, 'corpus', 'wbxml', '*.wbxml'))):
        out.append((os.path.basename(f)[:-6], open(f, 'rb').read()))
    return out


def mb(v):
    bs = [v & 0x7F]
    v >>= 7
    while v:
        bs.append(0x80 | (v & 0x7F))
        v >>= 7
    return bytes(reversed(bs))


def mutate(rng, d):
    d = bytearray(d)
    k = rng.randint(0, 7)
    if not d:
        return bytes([rng.randrange(256)])
    if k == 0:
        i = rng.randrange(len(d)); d[i] ^= 1 << rng.randrange(8)
    elif k == 1:
        i = rng.randrange(len(d)); d[i] = rng.randrange(256)
    elif k == 2:
        i = rng.randrange(len(d)); del d[i:i + rng.randint(1, 4)]
    elif k == 3:
        i = rng.randrange(len(d) + 1); d[i:i] = bytes(rng.randrange(256) for _ in range(rng.randint(1, 4)))
    elif k == 4:
        d = d[:rng.randrange(len(d) + 1)]
    elif k == 5:
        i = rng.randrange(len(d)); d[i] = rng.choice([0x00, 0x01, 0x02, 0x03, 0x04, 0x40, 0x41, 0x42, 0x43, 0x44, 0x80, 0x81, 0x82, 0x83, 0x84, 0xC0, 0xC1, 0xC2, 0xC3, 0xC4])
    elif k == 6:
        i = rng.randrange(len(d)); j = rng.randrange(len(d)); d[i], d[j] = d[j], d[i]
    else:
        i = rng.randrange(len(d)); d[i:i + 1] = mb(rng.choice([0, 1, 127, 128, 300, 16383, 16384, 2 ** 31, 2 ** 32 - 1, len(d), len(d) - i, len(d) - i + 1]))
    return bytes(d)


class TableGen:
    """Grammar-directed random documents over one language's dumped tables."""

    def __init__(self, dump, rng):
        self.d, self.rng = dump, rng
        self.T = dump['tables']

    def rows(self, lang, kind):
        k = lang[kind]
        return self.T[str(k)]['rows'] if k is not None else None

    def text(self, n=None):
        rng = self.rng
        n = rng.randint(0, 12) if n is None else n
        alphabet = b'abcXYZ 019<>&"\'\t\n\r-:/.+=;]'
        s = bytes(rng.choice(alphabet) for _ in range(n))
        if rng.random() < 0.15:
            s += rng.choice(['é', '€', '𝄞', 'ü']).encode('utf-8')
        if rng.random() < 0.06:
            s += rng.choice([b']]>', b']]]>', b']]]]>', b']] >', b']]'])
        return s

    def doc(self, lang=None, max_depth=4, version=None, with_pubid=True):
        rng = self.rng
        lang = lang or rng.choice(self.d['langs'])
        self.lang = lang
        self.strs = []          # string table entries
        self.tagpage = 0
        self.attrpage = 0
        body = self.element(0, max_depth)
        # string table
        tbl = b''.join(s + b'\x00' for s in self.strs)
        if tbl and rng.random() < 0.1:
            tbl = tbl[:-1]        # unterminated table (padded by the parser)
        ver = version if version is not None else rng.choice([1, 2, 3, 3, 3, 0])
        pub = lang['pub']['wbxml'] if lang['pub'] else 1
        hdr = bytes([ver])
        if pub != 1 and with_pubid:
            hdr += mb(pub)
        else:
            hdr += mb(1)
        if ver != 0:
            hdr += mb(rng.choice([106, 106, 106, 3, 0]))
        return lang['id'], hdr + mb(len(tbl)) + tbl + body, (pub == 1 or not with_pubid)

    def strref(self, s):
        # offset of an entry, adding it when new; sometimes mid-string references
        off = 0
        for e in self.strs:
            if e == s:
                return off
            off += len(e) + 1
        self.strs.append(s)
        return off

    def string(self, s=None):
        rng = self.rng
        s = self.text() if s is None else s
        s = s.replace(b'\x00', b'')
        if rng.random() < 0.7:
            return b'\x03' + s + b'\x00'
        return b'\x83' + mb(self.strref(s))

    def content_item(self, depth, max_depth):
        rng = self.rng
        lid = self.lang['id']
        r = rng.random()
        if r < 0.35 and depth < max_depth:
            return self.element(depth + 1, max_depth)
        if r < 0.65:
            return self.string()
        if r < 0.72:
            return b'\x02' + mb(rng.choice([0x41, 0xE9, 0x20AC, 0x7FF, 0x800, 0xFFFF, 0x10000, 0x10FFFF, 0x26, 0x3C, rng.randrange(1, 0x110000)]))
        if r < 0.84:
            n = rng.choice([0, 1, 2, 3, 4, 5, 6, 6, 8, rng.randint(0, 20)])
            return b'\xC3' + mb(n) + bytes(rng.randrange(256) for _ in range(n))
        if r < 0.90:
            exts = self.rows(self.lang, 'exts')
            if exts and rng.random() < 0.8:
                return b'\x80' + mb(rng.choice(exts)[1])
            tok = rng.choice([0x40, 0x41, 0x42, 0x80, 0x81, 0x82, 0xC0, 0xC1, 0xC2])
            if tok in (0x40, 0x41, 0x42):
                return bytes([tok]) + self.text(4).replace(b'\x00', b'') + b'\x00'
            if tok in (0x80, 0x81, 0x82):
                return bytes([tok]) + mb(self.strref(b'var')) if lid < 1300 else bytes([tok])
            return bytes([tok])
        if r < 0.93:
            return b'\x00' + bytes([rng.choice(self.pages('tags'))])   # bare switch page (Nokia)
        if r < 0.96:
            return self.pi()
        return self.string(b'')

    def pages(self, kind):
        rows = self.rows(self.lang, kind)
        return sorted({r[-2] if kind != 'attrs' else r[2] for r in rows}) if rows else [0]

    def pi(self):
        b = self.attr()
        if self.rng.random() < 0.4:
            # PI data made of several pieces, one of them an extension that delivers nothing
            b += self.string() + bytes([self.rng.choice([0xC0, 0xC1, 0xC2])]) + (self.string() if self.rng.random() < 0.5 else b'')
        return b'\x43' + b + b'\x01'

    def attr(self):
        rng = self.rng
        attrs = self.rows(self.lang, 'attrs')
        out = b''
        if attrs and rng.random() < 0.85:
            r = rng.choice(attrs)
            if r[2] != self.attrpage or rng.random() < 0.05:
                out += b'\x00' + bytes([r[2]]); self.attrpage = r[2]
            out += bytes([r[3]])
        else:
            out += b'\x04' + mb(self.strref(rng.choice([b'xattr', b'foo', b'a-b'])))
        for _ in range(rng.choice([0, 1, 1, 2, 3])):
            k = rng.random()
            vals = self.rows(self.lang, 'values')
            if k < 0.35 and vals:
                v = rng.choice(vals)
                if v[1] != self.attrpage:
                    out += b'\x00' + bytes([v[1]]); self.attrpage = v[1]
                out += bytes([v[2]])
            elif k < 0.8:
                out += self.string()
            elif k < 0.88:
                out += b'\x02' + mb(rng.choice([0x41, 0xE9, 0x20AC, 0x10000]))
            elif k < 0.94:
                # extension = [switchPage] (EXT_I termstr | EXT_T index | EXT) inside an attribute / PI value; the
                # single-octet forms are ignored by every language, a piece that delivers nothing after one that did
                if rng.random() < 0.3:
                    pg = rng.choice(self.pages('attrs')); out += b'\x00' + bytes([pg]); self.attrpage = pg
                tok = rng.choice([0xC0, 0xC1, 0xC2, 0xC0, 0x40, 0x41, 0x42, 0x80, 0x81, 0x82])
                exts = self.rows(self.lang, 'exts')
                if tok >= 0xC0:
                    out += bytes([tok])
                elif tok >= 0x80:
                    out += bytes([tok]) + mb(rng.choice(exts)[1] if exts and rng.random() < 0.7 else self.strref(b'var'))
                else:
                    out += bytes([tok]) + self.text(4).replace(b'\x00', b'') + b'\x00'
            else:
                n = rng.choice([0, 1, 4, 7, rng.randint(0, 9)])
                out += b'\xC3' + mb(n) + bytes(rng.randrange(256) for _ in range(n))
        return out

    def element(self, depth, max_depth):
        rng = self.rng
        tags = self.rows(self.lang, 'tags')
        has_attrs = rng.random() < 0.3
        has_content = rng.random() < 0.75
        flags = (0x80 if has_attrs else 0) | (0x40 if has_content else 0)
        out = b''
        if rng.random() < 0.9:
            r = rng.choice(tags)
            if r[1] != self.tagpage or rng.random() < 0.03:
                out += b'\x00' + bytes([r[1]]); self.tagpage = r[1]
            out += bytes([r[2] | flags])
        elif rng.random() < 0.5:
            out += bytes([0x04 | flags]) + mb(self.strref(rng.choice([b'lit', b'X-Custom', b'Data'])))
        else:
            out += bytes([rng.randrange(5, 0x40) | flags])   # possibly unknown token
        if has_attrs:
            for _ in range(rng.choice([1, 1, 2, 3])):
                out += self.attr()
            out += b'\x01'
        if has_content:
            for _ in range(rng.choice([0, 1, 1, 2, 3, 5])):
                out += self.content_item(depth, max_depth)
            out += b'\x01'
        return out


def _tok(dump, lang, name):
    rows = dump['tables'][str(lang['tags'])]['rows']
    for r in rows:
        if bytes.fromhex(r[0]) == name:
            return r[1], r[2]
    raise KeyError(name)


def syncml_doc(dump, rng, inner_docs):
    """SyncML documents exercising the Data/Meta/Type machinery: vObject payloads in several
    content items (CDATA), embedded DevInf WBXML documents, the Add/Replace heuristic."""
    lid = rng.choice([2101, 2201])
    lang = next(l for l in dump['langs'] if l['id'] == lid)
    def t(name, content=True, page_state=[0]):
        p, k = _tok(dump, lang, name)
        pre = b''
        if p != page_state[0]:
            pre = b'\x00' + bytes([p]); page_state[0] = p
        return pre + bytes([k | (0x40 if content else 0)])
    def s(b):
        return b'\x03' + b.replace(b'\x00', b'') + b'\x00'
    mime = rng.choice([b'text/x-vcard', b'text/x-vcalendar', b'text/clear', b'text/directory;profile=vCard',
                       b'application/vnd.syncml-devinf+wbxml', b'application/vnd.syncml.dmtnds+wbxml',
                       b'application/vnd.syncml-devinf+xml', b'text/plain'])
    if mime.endswith(b'+wbxml'):
        inner = rng.choice(inner_docs)
        if rng.random() < 0.2:
            inner = mutate(rng, inner)
        payload = b'\xC3' + mb(len(inner)) + inner
    else:
        chunks = rng.choice([[b'BEGIN:VCARD\r\nN:Doe;John\r\nEND:VCARD\r\n'], [b'BEGIN:VCARD', b'\n', b'END:VCARD'], [b'a]]>b', b'<x>&'], [b'\n'], [b' ', b'x '],
                             [b'NOTE:a[b[c]]]>d'], [b']]', b']>'], [b']]]]>>', b']'], [b']]>]]>'], [b'x]', b']', b'>']])
        payload = b''.join(s(c) if rng.random() < 0.7 else (b'\xC3' + mb(len(c)) + c) for c in chunks)
    cmd = rng.choice([b'Add', b'Replace', b'Results', b'Put'])
    meta_where = rng.choice(['item', 'cmd', 'none'])
    # (tokens are produced in document order: `t` tracks the current code page)
    def meta():
        return t(b'Meta') + t(b'Type') + s(mime) + b'\x01' + b'\x01'
    body = t(b'SyncML') + t(b'SyncBody') + t(cmd) + t(b'CmdID') + s(b'1') + b'\x01'
    if meta_where == 'cmd':
        body += meta()
    body += t(b'Item')
    if meta_where == 'item':
        body += meta()
    elif meta_where == 'cmd' and rng.random() < 0.3:
        # the item has a <Meta> of its own that says nothing about the type (the command's <Meta> does)
        body += t(b'Meta') + t(b'Format') + s(b'b64') + b'\x01' + b'\x01'
    body += t(b'Data')
    if rng.random() < 0.15:
        body += t(b'MoreData', content=False)        # an element beside the (CDATA / embedded) payload
    body += payload + b'\x01' + b'\x01' + b'\x01' + b'\x01' + b'\x01'
    pub = lang['pub']['wbxml']
    return bytes([2]) + mb(pub) + mb(106) + mb(0) + body


def literal_syncml_shape(dump, rng):
    """A document of a NON-SyncML language that uses the element names the SyncML payload machinery looks for
    (Add / Replace / Item / Meta / Type / Data) as literal tags: the tree builder decides by name alone, so vObject
    CDATA sections and embedded-document parsing happen here too; elements follow and sit beside the payload."""
    lang = rng.choice([l for l in dump['langs'] if l['id'] not in (2001, 2101, 2201) and l['pub'] and l['pub']['wbxml'] not in (None, 1)])
    strs, offs = [], {}

    def lit(name, content=True, attrs=False):
        if name not in offs:
            offs[name] = sum(len(x) + 1 for x in strs); strs.append(name)
        return bytes([0x04 | (0x40 if content else 0)]) + mb(offs[name])

    def s(b):
        return b'\x03' + b + b'\x00'
    mime = rng.choice([b'text/x-vcard', b'text/x-vcalendar', b'text/clear', b'text/plain', b'application/vnd.syncml-devinf+wbxml'])
    cmd = rng.choice([b'Add', b'Replace', b'Results'])
    body = lit(cmd) + lit(b'Item')
    if rng.random() < 0.7:
        body += lit(b'Meta') + lit(b'Type') + s(mime) + b'\x01\x01'
    body += lit(b'Data') + s(rng.choice([b'hello', b'BEGIN:VCARD', b'a]]>b', b'\n']))
    if rng.random() < 0.5:
        body += lit(b'Next', content=False) + s(b'more')
    body += b'\x01'                                  # </Data>
    if rng.random() < 0.7:
        body += lit(b'After', content=False)
    body += b'\x01\x01'                              # </Item></cmd>
    tbl = b''.join(x + b'\x00' for x in strs)
    return lang['id'], bytes([3]) + mb(lang['pub']['wbxml']) + mb(106) + mb(len(tbl)) + tbl + body
