"""XML-side input generators: corpus documents, textual/structural mutations, documents
synthesised from the dumped token tables."""
import glob, os, random, re

V = os.path.dirname(os.path.dirname(os.path.abspath(__file__)))


def corpus_xml():
    out = []
    for f in sorted(glob.glob(os.path.join(V, 'corpus', 'xml', '*.xml'))):
        out.append((os.path.basename(f)[:-4], open(f, 'rb').read()))
    return out


TEXTS = [b'x', b' ', b'\n', b'  a  b ', b'&amp;', b'&lt;tag&gt;', b'&#13;&#10;', b'<![CDATA[raw <&> ]]>', b'\xc3\xa9\xe2\x82\xac',
         b'20240131T120000Z', b'1999-04-30T06:40:00Z', b'4294967295', b'4294967296', b'abc', b'-1', b'SGVsbG8=', b'SGVs bG8=\n', b'!!!!',
         b'text/x-vcard', b'application/vnd.syncml-devinf+xml', b'http://www.example.com/', b'https://www.a.org/x.wml', b'BEGIN:VCARD\nEND:VCARD\n']


def mutate_xml(rng, d):
    k = rng.randint(0, 9)
    if k == 0 and d:
        i = rng.randrange(len(d)); return d[:i] + bytes([d[i] ^ (1 << rng.randrange(7))]) + d[i + 1:]
    if k == 1 and d:
        i = rng.randrange(len(d)); return d[:i] + d[i + rng.randint(1, 8):]
    if k == 2:
        return d[:rng.randrange(len(d) + 1)]
    if k == 3:
        # replace the text between a '>' and the next '<'
        ms = list(re.finditer(rb'>([^<>]*)<', d))
        if ms:
            m = rng.choice(ms); return d[:m.start(1)] + rng.choice(TEXTS) + d[m.end(1):]
    if k == 4:
        # duplicate an element-looking span
        ms = list(re.finditer(rb'<([A-Za-z][\w:.-]*)[^<>]*>[^<>]*</\1>', d))
        if ms:
            m = rng.choice(ms); return d[:m.end()] + m.group(0) + d[m.end():]
    if k == 5:
        # change an attribute value
        ms = list(re.finditer(rb'="([^"]*)"', d))
        if ms:
            m = rng.choice(ms); return d[:m.start(1)] + rng.choice(TEXTS).replace(b'"', b'').replace(b'<', b'').replace(b'&', b'') + d[m.end(1):]
    if k == 6:
        # rename a tag (start and end occurrences)
        ms = list(re.finditer(rb'<([A-Za-z][\w.-]*)', d))
        if ms:
            nm = rng.choice(ms).group(1)
            return d.replace(b'<' + nm, b'<X' + nm).replace(b'</' + nm, b'</X' + nm)
    if k == 7:
        # add an attribute to some start tag
        ms = list(re.finditer(rb'<([A-Za-z][\w:.-]*)', d))
        if ms:
            m = rng.choice(ms); return d[:m.end()] + b' ' + rng.choice([b'foo', b'id', b'xml:lang', b'href', b'class', b'value']) + b'="' + rng.choice([b'bar', b'http://www.x.com/', b'1', b'']) + b'"' + d[m.end():]
    if k == 8:
        # wrap a text in CDATA or insert a comment / PI
        ms = list(re.finditer(rb'>([^<>]+)<', d))
        if ms:
            m = rng.choice(ms)
            ins = rng.choice([b'<![CDATA[' + m.group(1) + b']]>', m.group(1) + b'<!-- c -->', b'<?pi x?>' + m.group(1)])
            return d[:m.start(1)] + ins + d[m.end(1):]
    # drop the DOCTYPE
    return re.sub(rb'<!DOCTYPE[^>]*>', b'', d, count=1)


class XmlTableGen:
    """Documents synthesised from one language's tables."""

    def __init__(self, dump, rng):
        self.d, self.rng, self.T = dump, rng, dump['tables']

    def rows(self, lang, kind):
        k = lang[kind]
        return self.T[str(k)]['rows'] if k is not None else None

    def doc(self, lang=None, n=8):
        rng = self.rng
        lang = lang or rng.choice(self.d['langs'])
        pub = lang['pub']
        tags = self.rows(lang, 'tags')
        root = bytes.fromhex(pub['root'])
        # the registered root of some languages (ActiveSync, AirSync) is not an element of the
        # language: real documents of those start with one of its elements
        root_row = next((t for t in tags if bytes.fromhex(t[0]) == root), None)
        if root_row is None:
            root_row = rng.choice(tags)
            root = bytes.fromhex(root_row[0])
        attrs = self.rows(lang, 'attrs')
        vals = self.rows(lang, 'values')
        ns = self.rows(lang, 'ns')
        nsmap = {r[1]: bytes.fromhex(r[0]) for r in ns} if ns else {}
        head = b'<?xml version="1.0"?>'
        r = rng.random()
        if pub['xml'] and (r < 0.6 or bytes.fromhex(pub['root']) != root):
            head += b'<!DOCTYPE ' + root + b' PUBLIC "' + bytes.fromhex(pub['xml']) + b'" "' + bytes.fromhex(pub['dtd'] or '') + b'">'
        elif pub['dtd'] and r < 0.8:
            head += b'<!DOCTYPE ' + root + b' SYSTEM "' + bytes.fromhex(pub['dtd']) + b'">'

        # unknown (literal) names, some of which are proper prefixes of other strings of the document
        fam = rng.choice([b'x-foobar', b'Statusline', b'vendorext', b'zz-long-name'])
        lit_pool = [fam, fam[:len(fam) - 3], fam[:4], b'unk', b'X-Custom']
        all_names = {bytes.fromhex(t[0]) for t in tags}
        # strings the conversion itself handles for this language (public identifier, DTD, root,
        # namespace names): as repeated content they meet the header / string-table code on its own data
        selfs = [bytes.fromhex(x) for x in (pub['xml'], pub['dtd'], pub['root']) if x] + list(nsmap.values())
        own = rng.choice(selfs) if selfs else b'hello'

        bins = [r for r in tags if len(r) > 3 and r[3] & 1]
        # names that exist in several code pages (ActiveSync: Status, Add, Class ...): which row is meant is
        # decided by the namespace in scope
        seen_pages = {}
        for r in tags:
            seen_pages.setdefault(r[0], set()).add(r[1])
        dups = [r for r in tags if len(seen_pages[r[0]]) > 1]

        def elt(depth, page):
            t = rng.choice(tags)
            if bins and rng.random() < 0.2:
                t = rng.choice(bins)          # rows with special handling are few: boost them
            elif dups and rng.random() < 0.25:
                # preferably a row of ANOTHER page whose name also exists in the parent's page: only the
                # namespace declaration tells the two apart
                amb = [r for r in dups if r[1] != page and page in seen_pages[r[0]]]
                t = rng.choice(amb if amb and rng.random() < 0.7 else dups)
            name = bytes.fromhex(t[0])
            if rng.random() < 0.12:
                name = rng.choice(lit_pool)
                if name in all_names:
                    name = b'q' + name
                t = [name.hex(), page, 0, 0]
            out = b'<' + name
            if t[1] != page and t[1] in nsmap:
                out += b' xmlns="' + nsmap[t[1]] + b'"'
            if attrs and rng.random() < 0.4:
                for _ in range(rng.randint(1, 2)):
                    a = rng.choice(attrs)
                    v = bytes.fromhex(a[1]) if a[1] else b''
                    k = rng.random()
                    if k < 0.4 and vals:
                        vt = bytes.fromhex(rng.choice(vals)[0])
                        # (a value that differs from a token only in letter case is a different value)
                        v += rng.choice([vt, vt, vt, vt.upper(), vt.lower(), vt.swapcase(), vt.capitalize()])
                    elif k < 0.8:
                        v += rng.choice([b'abc', b'www.example.com/', b'1', b'x y'])
                    if rng.random() < 0.15:
                        # a value spliced from the start values of TWO rows of this attribute name (begins like one,
                        # goes on like the other from that offset): the longest matching start value is the only one
                        # that may be taken, and the rest must follow unchanged
                        sib = [bytes.fromhex(x[1]) for x in attrs if x[0] == a[0] and x[1]]
                        if len(sib) >= 2:
                            A, B = rng.sample(sib, 2)
                            if len(A) > len(B):
                                A, B = B, A
                            j = rng.choice([len(A), len(A), rng.randint(0, len(A))])
                            v = A[:j] + B[j:] + rng.choice([b'', b'text', b'x/y', B[-2:]])
                    nm = bytes.fromhex(a[0])
                    if rng.random() < 0.1:
                        nm = rng.choice(lit_pool)
                    if (b' ' + nm + b'="') not in out:
                        out += b' ' + nm + b'="' + v.replace(b'&', b'&amp;').replace(b'"', b'&quot;').replace(b'<', b'&lt;') + b'"'
            kids = b''
            if len(t) > 3 and t[3] & 1 and rng.random() < 0.8:
                # binary-flagged element: base64 text of some bytes (white-space-only payloads included)
                import base64 as _b64
                payload = rng.choice([b'\r\n', b' ', b'\n', b'hello', b'\x00\x01\xff', bytes(rng.randrange(256) for _ in range(rng.randint(1, 9)))])
                return out + b'>' + _b64.b64encode(payload) + b'</' + name + b'>'
            if rng.random() < 0.06:
                # a CDATA section as the only content, with line breaks (character data like any other)
                return out + b'>' + rng.choice([b'<![CDATA[line1\nline2]]>', b'<![CDATA[\n]]>', b'<![CDATA[a<b>&c\n\nd]]>']) + b'</' + name + b'>'
            for _ in range(rng.choice([0, 1, 1, 2, 3]) if depth < 3 else 0):
                if rng.random() < 0.5:
                    kids += elt(depth + 1, t[1])
                else:
                    kids += rng.choice(TEXTS) if rng.random() < 0.4 else rng.choice([b'hello', b'hello', b'repeat me please', b'repeat me please', b' ', fam, fam, fam + b' again', own, own])
            if kids or rng.random() < 0.3:
                return out + b'>' + kids + b'</' + name + b'>'
            return out + b'/>'

        body = b'<' + root
        if root_row[1] in nsmap:
            body += b' xmlns="' + nsmap[root_row[1]] + b'"'
        echo = b''
        if rng.random() < 0.25:
            # the same complete text twice (so that it is in the string table), taken from the language's own data
            t = rng.choice([r for r in tags if r[1] == root_row[1]] or tags)
            if t[1] == root_row[1]:
                e1 = b'<' + bytes.fromhex(t[0]) + b'>' + own.replace(b'&', b'&amp;').replace(b'<', b'&lt;') + b'</' + bytes.fromhex(t[0]) + b'>'
                echo = e1 + e1
        if rng.random() < 0.2:
            # a word that occurs twice as a white-space delimited word (the table is built from such words), first
            # in a text with leading white space, and before that as a mere substring of another text
            t = rng.choice([r for r in tags if r[1] == root_row[1]] or tags)
            if t[1] == root_row[1]:
                w = rng.choice([b'form', b'status', b'repeat', fam[:5], b'table'])
                tn = bytes.fromhex(t[0])
                mk = lambda txt: b'<' + tn + b'>' + txt + b'</' + tn + b'>'
                echo += mk(rng.choice([b'in', b'x', b'']) + w + rng.choice([b'ation', b'ed', b's'])) + mk(rng.choice([b' ', b'\n  ', b'\t']) + w + b' one') + mk(w + rng.choice([b' two', b'', b' ']))
        body += b'>' + echo + b''.join(elt(1, root_row[1]) for _ in range(rng.randint(0, n))) + b'</' + root + b'>'
        return head + body


def transcode(x, enc):
    """re-encode an UTF-8 XML document and declare the encoding; None when it cannot be done faithfully"""
    try:
        t = x.decode('utf-8')
    except UnicodeDecodeError:
        return None
    if re.search(r'<\?xml[^>]*encoding=', t):
        t2 = re.sub(r'(<\?xml[^>]*encoding=)["\'][^"\']*["\']', r'\1"%s"' % enc, t, count=1)
    elif t.startswith('<?xml'):
        t2 = re.sub(r'<\?xml([^>]*)\?>', r'<?xml\1 encoding="%s"?>' % enc, t, count=1)
    else:
        t2 = '<?xml version="1.0" encoding="%s"?>' % enc + t
    try:
        return t2.encode('utf-16') if enc == 'UTF-16' else t2.encode('latin-1' if enc == 'ISO-8859-1' else 'ascii')
    except UnicodeEncodeError:
        return None


def as_utf8(x):
    """the text of an XML source in UTF-8, whatever encoding it is in (best effort, for oracles that look for a string in it)"""
    try:
        if x[:2] in (b'\xff\xfe', b'\xfe\xff'):
            return x.decode('utf-16').encode('utf-8')
        if re.search(rb'<\?xml[^>]*encoding=["\']ISO-8859-1', x[:200], re.I):
            return x.decode('latin-1').encode('utf-8')
    except UnicodeError:
        pass
    return x


def syncml_xml(rng, devinf=None):
    """SyncML 1.1 / 1.2 messages around the Data / Meta / Type machinery, as XML text: the type announced at the
    command or at the item, items with a <Meta> of their own that carries no <Type>, vObject payloads (plain or in
    a CDATA section, several lines), embedded DevInf documents, payloads of other types."""
    ver = rng.choice(['1.1', '1.2'])
    ns = 'SYNCML:SYNCML' + ver
    mime = rng.choice(['text/x-vcard', 'text/x-vcalendar', 'text/clear', 'text/plain', 'application/vnd.syncml-devinf+xml',
                       'application/vnd.syncml-devinf+xml', 'text/directory;profile=vCard'])
    cmd = rng.choice(['Add', 'Replace', 'Results', 'Put', 'Alert'])
    where = rng.choice(['item', 'cmd', 'cmd', 'none'])
    meta = f"<Meta><Type xmlns='syncml:metinf'>{mime}</Type></Meta>"
    if mime.endswith('+xml'):
        payload = devinf or ("<DevInf xmlns='syncml:devinf'><VerDTD>" + ver + "</VerDTD><Man>Big Factory, Ltd.</Man><Mod>4119</Mod><DevID>1218182THD000001-2</DevID><DevTyp>phone</DevTyp></DevInf>")
    else:
        lines = rng.choice([['BEGIN:VCARD', 'VERSION:2.1', 'N:Doe;John', 'END:VCARD'], ['line1', 'line2'], ['a]]>b'], ['x'], [' padded ', '']])
        text = '\n'.join(lines) + rng.choice(['', '\n'])
        payload = ('<![CDATA[' + text.replace(']]>', ']]]]><![CDATA[>') + ']]>') if rng.random() < 0.5 else text.replace('&', '&amp;').replace('<', '&lt;').replace(']]>', ']]&gt;')
    item_meta = ''
    if where == 'item':
        item_meta = meta
    elif where == 'cmd' and rng.random() < 0.4:
        item_meta = "<Meta><Format xmlns='syncml:metinf'>b64</Format><Size xmlns='syncml:metinf'>12</Size></Meta>"
    body = f"<{cmd}><CmdID>1</CmdID>{meta if where == 'cmd' else ''}<Item><Source><LocURI>./x</LocURI></Source>{item_meta}<Data>{payload}</Data></Item></{cmd}>"
    head = '<?xml version="1.0"?>' + rng.choice(['', f'<!DOCTYPE SyncML PUBLIC "-//SYNCML//DTD SyncML {ver}//EN" "http://www.openmobilealliance.org/tech/DTD/OMA-TS-SyncML_RepPro_DTD-V1_2.dtd">' if ver == '1.2' else '<!DOCTYPE SyncML PUBLIC "-//SYNCML//DTD SyncML 1.1//EN" "http://www.syncml.org/docs/syncml_represent_v11_20020213.dtd">'])
    return (head + f'<SyncML xmlns="{ns}"><SyncHdr><VerDTD>{ver}</VerDTD><VerProto>SyncML/{ver}</VerProto><SessionID>1</SessionID><MsgID>1</MsgID></SyncHdr><SyncBody>{body}<Final/></SyncBody></SyncML>').encode()


def ambiguous_name_docs(dump, rng, limit):
    """Directed documents for languages with namespaces: a child element whose local name exists both in its own
    code page and in its parent's - only the namespace declaration tells which row is meant."""
    out = []
    T = dump['tables']
    for lang in dump['langs']:
        if lang['ns'] is None or lang['tags'] is None:
            continue
        tags = T[str(lang['tags'])]['rows']
        nsmap = {r[1]: bytes.fromhex(r[0]) for r in T[str(lang['ns'])]['rows']}
        pages = {}
        for r in tags:
            pages.setdefault(r[0], set()).add(r[1])
        by_page = {}
        for r in tags:
            by_page.setdefault(r[1], []).append(r)
        cands = []
        for r in tags:
            for P in pages[r[0]]:
                if P != r[1] and P in nsmap and r[1] in nsmap:
                    cands.append((P, r))
        rng.shuffle(cands)
        pub = lang['pub']
        root_name = bytes.fromhex(pub['root']) if pub.get('root') else None
        for P, r in cands[:limit]:
            parent = rng.choice([x for x in by_page[P] if not (len(x) > 3 and x[3] & 1)] or by_page[P])
            pn, cn = bytes.fromhex(parent[0]), bytes.fromhex(r[0])
            head = b'<?xml version="1.0"?>'
            if pub.get('xml'):
                head += b'<!DOCTYPE ' + (root_name or pn) + b' PUBLIC "' + bytes.fromhex(pub['xml']) + b'" "' + bytes.fromhex(pub['dtd'] or '') + b'">'
            out.append(head + b'<' + pn + b' xmlns="' + nsmap[P] + b'"><' + cn + b' xmlns="' + nsmap[r[1]] + b'">x</' + cn + b'></' + pn + b'>')
    return out
