"""Comparison of the parser's event stream (harness/parse.c format) with what an independent XML
parser (Expat, harness/expat_rec.c format) reads from the generated XML."""
import re


def unhx(h):
    return b'' if h in ('-', '') else bytes.fromhex(h)


def parse_events(resp):
    """'R 0 ; SD.. / SE..' -> list of ('S', name, [(an, av)]) / ('C', bytes) / ('E', name) / ('P',)"""
    body = resp.split(' ; ', 1)[1] if ' ; ' in resp else ''
    out = []
    for ev in body.split(' / '):
        t = ev.split(' ')
        if t[0] == 'SE':
            name = unhx(t[1].split(':')[-1])
            tok = t[1].startswith('t:')
            page = int(t[1].split(':')[1]) if tok else None
            attrs = []
            for a in t[2:]:
                k, v = a.rsplit('=', 1)
                kn = k.split(':')
                an = unhx(kn[3]) if kn[0] == 't' else unhx(kn[1])
                av = unhx(v)
                av = av.split(b'\x00')[0]
                attrs.append((an, av))
            out.append(('S', name, attrs, page))
        elif t[0] == 'EE':
            out.append(('E', unhx(t[1].split(':')[-1])))
        elif t[0] == 'CH':
            out.append(('C', unhx(t[1])))
        elif t[0] == 'PI':
            out.append(('P',))
    return out


def expat_events(resp):
    """'X 1 D:..,S:..' -> (ok, doctype, events)"""
    t = resp.split(' ', 2)
    ok = t[1] == '1'
    evs, doctype = [], None
    for e in (t[2].split(',') if len(t) > 2 and t[2] else []):
        if e == '[' or e == ']':
            evs.append(('CD', e)); continue
        if e == 'P':
            continue
        f = e.split(':')
        if f[0] == 'Y':
            doctype = (None if f[1] == '~' else unhx(f[1]), None if f[2] == '~' else unhx(f[2]))
        elif f[0] == 'S':
            parts = f[2].split(';')
            attrs = []
            for a in parts[1:]:
                k, v = a.split('=')
                attrs.append((unhx(k), unhx(v)))
            evs.append(('S', unhx(parts[0]), attrs))
        elif f[0] == 'E':
            evs.append(('E', unhx(f[2])))
        elif f[0] == 'C':
            evs.append(('C', unhx(f[1])))
    return ok, doctype, evs


_NAME = re.compile(rb'^[A-Za-z_:][A-Za-z0-9_.:\-]*$')


def is_xml_text(b):
    try:
        s = b.decode('utf-8')
    except UnicodeDecodeError:
        return False
    for ch in s:
        c = ord(ch)
        if not (c in (9, 10, 13) or 0x20 <= c <= 0xD7FF or 0xE000 <= c <= 0xFFFD or 0x10000 <= c <= 0x10FFFF):
            return False
    return True


def preconditions(pev, has_attr_table):
    """names are XML names, character data consists of XML characters, no duplicate attribute"""
    for e in pev:
        if e[0] == 'S':
            if not _NAME.match(e[1]):
                return False
            names = [a for a, _ in e[2]] if has_attr_table else []
            if len(set(names)) != len(names):
                return False
            for a, v in (e[2] if has_attr_table else []):
                if not _NAME.match(a) or not is_xml_text(v):
                    return False
        elif e[0] == 'C' and not is_xml_text(e[1]):
            return False
    return True


WS = b' \t\n\r\x0b\x0c'


def norm_stream(evs, trim, lineends, attr_ws, drop_xmlns=True, has_attr_table=True):
    """Merge adjacent character data; optionally trim / drop white-space-only text and apply XML's
    line-end and attribute-value normalisation."""
    out = []
    for e in evs:
        if e[0] == 'CD' or e[0] == 'P':
            continue
        if e[0] == 'C':
            if out and out[-1][0] == 'C':
                out[-1] = ('C', out[-1][1] + e[1])
            else:
                out.append(('C', e[1]))
        elif e[0] == 'S':
            attrs = [(a, v) for a, v in e[2] if not (drop_xmlns and a == b'xmlns')] if has_attr_table or True else []
            if attr_ws:
                # (a carriage return is always written as &#13; and therefore survives re-reading; literal
                # line feeds and tabs in an attribute value are normalised to spaces by the reader)
                attrs = [(a, v.replace(b'\n', b' ').replace(b'\t', b' ')) for a, v in attrs]
            out.append(('S', e[1], attrs))
        else:
            out.append(('E', e[1]))
    res = []
    for e in out:
        if e[0] == 'C':
            t = e[1]
            if lineends:
                t = t.replace(b'\r\n', b'\n').replace(b'\r', b'\n')
            if trim:
                t = t.strip(WS)
            if t == b'':
                continue
            res.append(('C', t))
        else:
            res.append(e)
    return res
