#!/usr/bin/env python3
"""Development aid for the WBXML-encoder model: N trees x option tuples through harness/encw.c (ENCW)
and the Lean driver, exact comparison of codes and bytes.

  python3 tools/dev_encw_diff.py [seed] [N] [--cov] [--hazards] [--keep FILE]

  seed, N     random part: N random/mutated trees on top of the deterministic families
  --cov       additionally run the request lines through a gcc --coverage build and report which lines
              of the WBXML output path of wbxml_encoder.c were reached
  --hazards   run the (few) inputs on which the C code crashes or does not terminate, one process each
  --keep F    write all request lines to F

The Lean side is `driver` (verb ENCW) or the executable named by $ENCW_DRIVER.
"""
import collections, os, random, re, subprocess, sys, time
sys.path.insert(0, os.path.dirname(os.path.abspath(__file__)))
import common, corr, treegen

args = [a for a in sys.argv[1:] if not a.startswith('--')]
flags = [a for a in sys.argv[1:] if a.startswith('--')]
seed = int(args[0]) if len(args) > 0 else 1
N = int(args[1]) if len(args) > 1 else 2000
keep = None
if '--keep' in sys.argv:
    keep = sys.argv[sys.argv.index('--keep') + 1]
    args = [a for a in args if a != keep]
rng = random.Random(seed)
t0 = time.time()

b = common.Build('asan')
d, _ = common.regenerate(b)
h = b.harness('encw.c')
drv = os.environ.get('ENCW_DRIVER') or corr.driver_exe()
T = treegen.Tables(d)

OPTS = [(v, k, s, a) for v in (0, 1, 2, 3) for k in (0, 1) for s in (0, 1) for a in (0, 1)]


def opt_lines(tree_txt, n):
    """n option tuples for one tree (all 32 when n >= 32)."""
    sel = OPTS if n >= len(OPTS) else rng.sample(OPTS, n)
    if n < len(OPTS) and ('El.' in tree_txt or ';Al.' in tree_txt):
        # literal names need the string table (error 100 otherwise): mostly ask for it
        sel = [(v, k, 1 if rng.random() < 0.8 else s, a) for v, k, s, a in sel]
    return [f'ENCW {v} {k} {s} {a} {tree_txt}' for v, k, s, a in sel]


# ---- 1. trees the C code builds from the corpus
req = treegen.corpus_request_lines()
ans, inc = corr.run_lines(h, req, env=b.env())
corpus = treegen.trees_of_answers(ans)
print(f'corpus: {len(req)} documents -> {len(corpus)} single-rooted trees; incidents {inc[:2]}')

lines, origin = [], collections.Counter()


def add(tree, n, why):
    txt = treegen.fmt_tree(tree)
    if len(txt) > 400000:
        return
    for ln in opt_lines(txt, n):
        lines.append(ln)
        origin[why] += 1


for t in corpus:
    add(t, 8, 'corpus')

# ---- 3. synthesised from the tables, every language
sy = treegen.Synth(d, rng)
synth = []
for lid in T.lang_ids():
    fam = sy.language(lid)
    synth += fam
    for t in fam:
        add(t, 4, 'synth')

# ---- 2. mutations + random trees
pool = corpus + synth
for i in range(N):
    k = rng.random()
    if k < 0.45:
        t = rng.choice(corpus)
        for _ in range(rng.randint(1, 4)):
            t = treegen.mutate(rng, t, T)
        add(t, 2, 'corpus-mut')
    elif k < 0.6:
        t = rng.choice(synth)
        for _ in range(rng.randint(1, 3)):
            t = treegen.mutate(rng, t, T)
        add(t, 2, 'synth-mut')
    else:
        t = sy.random_tree()
        if rng.random() < 0.3:
            t = treegen.mutate(rng, t, T)
        add(t, 2, 'random')

if keep:
    with open(keep, 'w') as f:
        f.write('\n'.join(lines) + '\n')
print(f'{len(lines)} ENCW lines ({dict(origin)}), generation {time.time()-t0:.1f}s')

t1 = time.time()
impl, inc = corr.run_lines(h, lines, env=b.env(), chunk=200)
t2 = time.time()
model, minc = corr.run_lines(drv, lines, chunk=200)
t3 = time.time()
print(f'impl {t2-t1:.1f}s incidents {[(i, rc, e[-300:]) for i, rc, e in inc[:3]]}')
print(f'model {t3-t2:.1f}s incidents {[(i, rc, e[-300:]) for i, rc, e in minc[:3]]}')

nd = 0
codes = collections.Counter()
tuples = collections.Counter()
distinct = set()
for i, ln in enumerate(lines):
    f = ln.split(' ', 5)
    tuples[' '.join(f[1:5])] += 1
    distinct.add(f[5])
    r = impl[i]
    m = re.match(r'R (\S+) ;', r or '')
    codes[m.group(1) if m else str(r)[:20]] += 1
    if impl[i] != model[i]:
        nd += 1
        if nd <= 8:
            print('DIFF', ln[:600])
            print('  impl :', (impl[i] or 'None')[:600])
            print('  model:', (model[i] or 'None')[:600])
print(f'{len(lines)} lines, {len(distinct)} distinct trees, {nd} differences')
print('result codes:', dict(codes))
print('option tuples (version keepws strtbl anon): min/max per tuple', min(tuples.values()), max(tuples.values()), 'tuples', len(tuples))


# ---- token kinds in the implementation's outputs (cheap proxy for what the generators reach)
def scan_kinds(w):
    ks = collections.Counter()
    for name, byte in (('STR_I', 0x03), ('STR_T', 0x83), ('OPAQUE', 0xC3), ('EXT_T_0', 0x80), ('LITERAL', 0x04), ('LITERAL_C', 0x44),
                       ('LITERAL_A', 0x84), ('LITERAL_AC', 0xC4), ('SWITCH_PAGE', 0x00)):
        if byte in w:
            ks[name] += 1
    return ks


kinds = collections.Counter()
strtbl_nonempty = 0
for r in impl:
    if r and r.startswith('R 0 ; ') and len(r) > 6 and r[6:] != '-':
        try:
            w = bytes.fromhex(r[6:])
        except ValueError:
            continue
        kinds.update(scan_kinds(w[4:]))
print('outputs containing byte of kind (approximate):', dict(kinds))

# ---- hazards: inputs the C code does not survive (one process each, short timeout)
if '--hazards' in flags:
    any_l = T.lang_ids()[0]
    r0 = sy.root_row(2101)
    hz = [('tree without root', f'ENCW 3 0 1 0 2101:106:-'),
          ('empty literal tag name then text (string-table search for the empty string never ends)',
           'ENCW 3 0 1 0 ' + treegen.fmt_tree((2101, 106, treegen.elt(r0, [treegen.elt(('l', b''), [treegen.text(b'abc')])])))),
          ('nested tree without root', 'ENCW 3 0 1 0 ' + treegen.fmt_tree((2101, 106, treegen.elt(r0, [('R', (2101, 106, None))]))))]
    for what, ln in hz:
        e = b.env()
        try:
            e['ASAN_OPTIONS'] = e['ASAN_OPTIONS'] + ':hard_rss_limit_mb=1500'
            r = subprocess.run([h], input=ln + '\n', capture_output=True, text=True, env=e, timeout=20)
            ci = f'rc={r.returncode} out={r.stdout.strip()[:80]!r} err={r.stderr.strip().splitlines()[1][:160] if len(r.stderr.strip().splitlines()) > 1 else r.stderr.strip()[:160]!r}'
        except subprocess.TimeoutExpired:
            ci = 'TIMEOUT (20 s)'
        mo, _, _ = corr.isolate(drv, ln)
        print(f'HAZARD {what}\n  impl : {ci}\n  model: {mo}')

# ---- coverage of the C code
if '--cov' in flags:
    cd = common.mkscratch('wbxverif-cov-')
    cfgr = common.run(['cmake', '-S', common.REPO, '-B', cd, '-G', 'Ninja', '-Wno-dev', '-DCMAKE_BUILD_TYPE=None', '-DBUILD_SHARED_LIBS=OFF',
                       '-DBUILD_STATIC_LIBS=ON', '-DCMAKE_C_COMPILER=gcc', '-DCMAKE_C_FLAGS=-Wno-error -O0 -g --coverage'])
    bb = common.run(['ninja', '-C', cd, 'src/libwbxml2.a'])
    if cfgr.returncode or bb.returncode:
        print('coverage build failed', cfgr.stdout[-500:], bb.stdout[-500:])
        sys.exit(1)
    exe = os.path.join(cd, 'encw_cov')
    r = common.run(['gcc', '-O0', '-g', '--coverage', '-DHAVE_EXPAT', '-I', cd, '-I', os.path.join(common.REPO, 'src'), '-I', os.path.join(cd, 'src'),
                    os.path.join(common.HARNESS, 'encw.c'), '-o', exe, os.path.join(cd, 'src', 'libwbxml2.a'), '-lexpat', '-lpthread'])
    if r.returncode:
        print(r.stdout[-2000:]); sys.exit(1)
    # one process at a time keeps the .gcda merging simple
    _o, cinc = corr.run_lines(exe, req + lines, chunk=2000, workers=1)
    objdir = None
    for root, _d, files in os.walk(cd):
        if 'wbxml_encoder.c.gcda' in files:
            objdir = root
    g = common.run(['gcov', '-o', objdir, os.path.join(objdir, 'wbxml_encoder.c.gcda')], cwd=cd)
    if not os.path.exists(os.path.join(cd, 'wbxml_encoder.c.gcov')):
        print('gcov:', objdir, g.stdout[-1500:], cinc[:2])
    gc = open(os.path.join(cd, 'wbxml_encoder.c.gcov'), errors='replace').read().split('\n')
    # functions of the WBXML output path
    fn_at = {}
    src = open(os.path.join(common.REPO, 'src', 'wbxml_encoder.c'), errors='replace').read().split('\n')
    cur = None
    want = ['encoder_encode_tree', 'parse_node', 'parse_element', 'parse_attribute', 'parse_text', 'parse_cdata', 'parse_tree', 'wbxml_build_result',
            'wbxml_fill_header', 'wbxml_encode_end', 'wbxml_encode_tag', 'wbxml_encode_tag_literal', 'wbxml_encode_tag_token', 'wbxml_encode_attr',
            'wbxml_encode_attr_start', 'wbxml_encode_value_element_buffer', 'wbxml_encode_value_element_list', 'wbxml_encode_attr_start_literal',
            'wbxml_encode_attr_token', 'wbxml_encode_inline_string', 'wbxml_encode_inline_integer_extension_token', 'wbxml_encode_opaque',
            'wbxml_encode_opaque_data', 'wbxml_encode_tableref', 'wbxml_encode_tree', 'wbxml_encode_datetime', 'wbxml_encode_wv_content',
            'wbxml_encode_wv_integer', 'wbxml_encode_wv_datetime_inline', 'wbxml_encode_wv_datetime_opaque', 'wbxml_encode_wv_datetime',
            'wbxml_encode_drmrel_content', 'wbxml_encode_ota_nokia_icon', 'wbxml_strtbl_initialize', 'wbxml_strtbl_collect_strings',
            'wbxml_strtbl_collect_words', 'wbxml_strtbl_construct', 'wbxml_strtbl_check_references', 'wbxml_strtbl_add_element', 'encoder_duplicate']
    starts = []
    for i, l in enumerate(src, 1):
        m = re.match(r'^(?:static |WBXML_DECLARE\()[^;]*?\b(\w+)\(', l)
        if m and not l.rstrip().endswith(';') and i > 370:
            starts.append((i, m.group(1)))
    starts.append((len(src) + 1, '<end>'))
    spans = {name: (s, starts[k + 1][0] - 1) for k, (s, name) in enumerate(starts[:-1])}
    per = {}
    missed = {}
    for l in gc:
        m = re.match(r'\s*([#=\-0-9*]+):\s*(\d+):(.*)', l)
        if not m:
            continue
        cnt, no, txt = m.group(1), int(m.group(2)), m.group(3)
        for name in want:
            s, e = spans.get(name, (0, -1))
            if s <= no <= e and cnt != '-':
                hit = not cnt.startswith('#') and not cnt.startswith('=')
                a, bb_ = per.get(name, (0, 0))
                per[name] = (a + (1 if hit else 0), bb_ + 1)
                if not hit:
                    missed.setdefault(name, []).append((no, txt.strip()[:90]))
    # execution counts of the decisions hand models usually get wrong
    probes = [('attribute value token found inside a value', 'new_elt->type = WBXML_VALUE_ELEMENT_ATTR_TOKEN;'),
              ('extension token (whole text) in the generic path', 'new_elt->type = WBXML_VALUE_ELEMENT_EXTENSION;'),
              ('string table entry found inside a value/text', 'new_elt->type = WBXML_VALUE_ELEMENT_TABLEREF;'),
              ('remainder behind an occurrence becomes a new string element', 'new_elt->type = WBXML_VALUE_ELEMENT_STRING;'),
              ('string table: element added from the counted references (strings and words)', 'if (!wbxml_strtbl_add_element(encoder, ref, NULL, &added)) {'),
              ('string table: candidate that is already in the table', 'if (!added) {'),
              ('string table: text node collected', 'wbxml_list_append(strings, node->content);'),
              ('string table: attribute value collected', 'wbxml_list_append(strings, attr->value);'),
              ('string table: word moved to the word list', 'if (!wbxml_list_append(list, word)) {'),
              ('text stripped in place', 'wbxml_buffer_strip_blanks(node->content);'),
              ('SyncML lone newline in CDATA', 'wbxml_buffer_insert_cstr(node->content, (WB_UTINY*) "\\r", 0);'),
              ('binary-flagged text as OPAQUE', 'return wbxml_encode_opaque(encoder, node->content);'),
              ('CDATA buffer as OPAQUE', 'if ((ret = wbxml_encode_opaque(encoder, encoder->cdata)) != WBXML_OK)'),
              ('nested document', 'if ((new_encoder = encoder_duplicate(encoder)) == NULL)'),
              ('attribute start: value prefix mismatch / unknown name -> literal', 'return wbxml_encode_attr_start_literal(encoder, wbxml_attribute_get_xml_name(attribute));'),
              ('attribute start: value fully covered by the start token', '*value = NULL;'),
              ('attribute start: rest of the value behind the prefix', '*value = wbxml_buffer_get_cstr(attribute->value) + WBXML_STRLEN(attribute->name->u.token->xmlValue);'),
              ('attribute start: literal name found in the table', '*value = value_left;'),
              ('SI/EMN date-time attribute', 'return wbxml_encode_datetime(encoder, buffer);'),
              ('WV integer', 'return wbxml_encode_wv_integer(encoder, buffer);'),
              ('WV integer out of range', 'return WBXML_ERROR_WV_INTEGER_OVERFLOW;'),
              ('WV integer: not a number', 'return WBXML_NOT_ENCODED;'),
              ('WV date-time', 'return wbxml_encode_wv_datetime(encoder, buffer);'),
              ('WV date-time inline', 'return wbxml_encode_wv_datetime_inline(encoder, buffer);'),
              ('WV date-time 6-octet opaque', 'ret = wbxml_encode_opaque_data(encoder, octets, 6);'),
              ('WV exact extension value', 'return wbxml_encode_inline_integer_extension_token(encoder, WBXML_EXT_T_0, ext->wbxmlToken);'),
              ('OTA icon', 'if ((ret = wbxml_encode_opaque_data(encoder, data, data_len)) != WBXML_OK) {'),
              ('DRMREL KeyValue', 'if (!wbxml_buffer_append_mb_uint_32(encoder->output, (WB_ULONG) data_len))'),
              ('literal tag', 'return wbxml_encode_tag_literal(encoder, (WB_UTINY *) wbxml_tag_get_xml_name(node->name), token);'),
              ('literal node found in the tag table', 'if ((tag = wbxml_tables_get_tag_from_xml(encoder->lang, encoder->tagCodePage, wbxml_tag_get_xml_name(node->name))) != NULL)'),
              ('tag SWITCH_PAGE', 'encoder->tagCodePage = page;'),
              ('attribute SWITCH_PAGE', 'encoder->attrCodePage = page;'),
              ('textual public id', 'pi_in_strtbl = TRUE;'),
              ('public id text already in the table', 'pid = NULL;')]
    print('execution counts of selected statements (gcov):')
    for what, pat in probes:
        tot_c = 0; hits = 0
        for l in gc:
            m = re.match(r'\s*([#=\-0-9*]+):\s*(\d+):(.*)', l)
            if m and m.group(3).strip() == pat:
                hits += 1
                c = m.group(1).rstrip('*')
                tot_c += int(c) if c.isdigit() else 0
        print(f'  {tot_c:9d}  {what}' + ('' if hits else '   [statement not found in the source]'))
    tot_h = sum(a for a, _ in per.values()); tot = sum(b_ for _, b_ in per.values())
    print(f'COVERAGE of the WBXML output path (gcov, executable lines): {tot_h}/{tot} = {100.0*tot_h/tot:.1f}%')
    for name in want:
        if name in per:
            a, b_ = per[name]
            print(f'  {name:48s} {a:4d}/{b_:4d}')
    print('lines not reached (other than allocation-failure / append-failure returns):')
    noise = re.compile(r'NOT_ENOUGH_MEMORY|ENCODER_APPEND_DATA|wbxml_list_destroy|wbxml_free\(|wbxml_buffer_destroy|element_destroy|goto error|'
                       r'\*strings = NULL|^continue;|return FALSE|return NULL|if \(!stat_buff\)|string = NULL|^!wbxml_list_insert|^if \(\(new_elt->u.str == NULL\)')
    nn = 0
    for name in want:
        for no, txt in missed.get(name, []):
            if noise.search(txt):
                nn += 1
            else:
                print(f'  {name}:{no}: {txt}')
    print(f'  (+ {nn} lines of allocation-failure / append-failure / NULL-list-item handling)')
print(f'total {time.time()-t0:.1f}s')
