"""Correspondence runner: feed the same request lines to a C harness and to the Lean driver,
in parallel chunks, and diff the response streams line by line."""
import os, subprocess, concurrent.futures as cf
import common


def _run_chunk(args):
    exe, lines, env, timeout = args
    inp = '\n'.join(lines) + '\n'
    try:
        r = subprocess.run([exe], input=inp, capture_output=True, text=True, env=env, timeout=timeout)
        out = r.stdout.split('\n')
        if out and out[-1] == '':
            out.pop()
        return r.returncode, out, r.stderr[-4000:]
    except subprocess.TimeoutExpired as e:
        out = (e.stdout or b'')
        if isinstance(out, bytes):
            out = out.decode('latin-1')
        out = out.split('\n')
        if out and out[-1] == '':
            out.pop()
        return -9, out, 'TIMEOUT'


def run_lines(exe, lines, env=None, chunk=400, timeout=600, workers=None):
    """Returns (outputs, incidents). outputs[i] is the response to lines[i] or None when the
    process died/hung before answering; incidents = [(first_unanswered_index, rc, stderr)]."""
    workers = workers or common.NCPU
    chunks = [(i, lines[i:i + chunk]) for i in range(0, len(lines), chunk)]
    outs = [None] * len(lines)
    incidents = []
    with cf.ThreadPoolExecutor(max_workers=workers) as ex:
        futs = {ex.submit(_run_chunk, (exe, c, env, timeout)): (i, c) for i, c in chunks}
        for f in cf.as_completed(futs):
            i, c = futs[f]
            rc, out, err = f.result()
            for k in range(min(len(out), len(c))):
                outs[i + k] = out[k]
            if rc != 0 or len(out) < len(c):
                if len(out) < len(c):
                    # the process died or hung while answering this request (harness output is line
                    # buffered, so the first unanswered request is the one it died in); the requests
                    # behind it are run again in a new process so that they are answered too
                    k = len(out)
                    incidents.append((i + k, rc, err))
                    rest_at = k + 1
                    while rest_at < len(c):
                        rc2, out2, err2 = _run_chunk((exe, c[rest_at:], env, timeout))
                        for q in range(min(len(out2), len(c) - rest_at)):
                            outs[i + rest_at + q] = out2[q]
                        if len(out2) >= len(c) - rest_at:
                            break
                        incidents.append((i + rest_at + len(out2), rc2, err2))
                        rest_at += len(out2) + 1
                else:
                    # every request was answered but the process reported a problem at exit
                    # (LeakSanitizer): bisect the chunk for a single request that reproduces it
                    j = culprit(exe, c, env, timeout)
                    incidents.append((i + (j if j is not None else 0), rc, err))
    return outs, incidents


def culprit(exe, lines, env, timeout):
    """Index of one request in `lines` that alone makes the process exit non-zero (or None)."""
    lo, hi = 0, len(lines)
    rc, _, _ = _run_chunk((exe, lines, env, timeout))
    if rc == 0:
        return None
    while hi - lo > 1:
        mid = (lo + hi) // 2
        rc1, _, _ = _run_chunk((exe, lines[lo:mid], env, timeout))
        if rc1 != 0:
            hi = mid
        else:
            rc2, _, _ = _run_chunk((exe, lines[mid:hi], env, timeout))
            if rc2 != 0:
                lo = mid
            else:
                return lo      # only the combination fails: report the first
    return lo


def isolate(exe, line, env=None, timeout=60):
    """Run one request alone: (response or None, rc, stderr)."""
    rc, out, err = _run_chunk((exe, [line], env, timeout))
    return (out[0] if out else None), rc, err


def driver_exe(name='driver'):
    return os.path.join(common.LEAN, '.lake', 'build', 'bin', name)


def canon_err(resp):
    """Map 'R <nonzero> ; …' to 'ERR' (any non-zero code satisfies "an error code")."""
    if resp is None:
        return None
    if resp.startswith('R 0 ;') or resp.startswith('R 0 '):
        return resp
    if resp.startswith('R UB') or resp.startswith('R FUEL') or resp.startswith('R CRASH'):
        return resp            # model-only flags are never a legitimate error code
    if resp.startswith('R '):
        return 'ERR' + (' CONTRACT' if 'CONTRACT' in resp else '')
    return resp
