"""Correspondence runner: feed the same request lines to a C harness and to the Lean driver,
in parallel chunks, and diff the response streams line by line."""
import os, subprocess, concurrent.futures as cf
import common


def _run_chunk(args):
    exe, lines, env, timeout = args
    inp = '\n'.join(lines) + '\n'
    try:
        r = subprocess.run([exe], input=inp, capture_output=True, text=True, env=env, timeout=timeout)
        out = r.stdout.split('\n')
        if out and out[-1] == '':
            out.pop()
        return r.returncode, out, r.stderr[-4000:]
    except subprocess.TimeoutExpired as e:
        out = (e.stdout or b'')
        if isinstance(out, bytes):
            out = out.decode('latin-1')
        out = out.split('\n')
        if out and out[-1] == '':
            out.pop()
        return -9, out, 'TIMEOUT'


def run_lines(exe, lines, env=None, chunk=400, timeout=600, workers=None):
    """Returns (outputs, incidents). outputs[i] is the response to lines[i] or None when the
    process died/hung before answering; incidents = [(first_unanswered_index, rc, stderr)]."""
    workers = workers or common.NCPU
    chunks = [(i, lines[i:i + chunk]) for i in range(0, len(lines), chunk)]
    outs = [None] * len(lines)
    incidents = []
    with cf.ThreadPoolExecutor(max_workers=workers) as ex:
        futs = {ex.submit(_run_chunk, (exe, c, env, timeout)): (i, c) for i, c in chunks}
        for f in cf.as_completed(futs):
            i, c = futs[f]
            rc, out, err = f.result()
            for k in range(min(len(out), len(c))):
                outs[i + k] = out[k]
            if rc != 0 or len(out) < len(c):
                incidents.append((i + min(len(out), len(c)), rc, err))
    return outs, incidents


def isolate(exe, line, env=None, timeout=60):
    """Run one request alone: (response or None, rc, stderr)."""
    rc, out, err = _run_chunk((exe, [line], env, timeout))
    return (out[0] if out else None), rc, err


def driver_exe(name='driver'):
    return os.path.join(common.LEAN, '.lake', 'build', 'bin', name)


def canon_err(resp):
    """Map 'R <nonzero> ; …' to 'ERR' (any non-zero code satisfies "an error code")."""
    if resp is None:
        return None
    if resp.startswith('R 0 ;') or resp.startswith('R 0 '):
        return resp
    if resp.startswith('R '):
        return 'ERR'
    return resp
