#!/usr/bin/env python3
"""Translator for C14: the freshly built static library -> lean/Wbxml/Gen/Globals.lean.

Sources of truth (binutils, run on `Build.lib` = libwbxml2.a of the *plain* gcc flavour, so that no
sanitizer runtime symbol pollutes the dump):

  readelf -S -s -W lib.a     per archive member: section headers (name, type, flags, size) and the
                             symbol table (type, binding, section index) -> every OBJECT / TLS / COMMON
                             symbol, function-local statics included (gcc names them `x.N`, clang `f.x`),
                             with the *name of the section* it lives in; every non-empty section that
                             is both writable and allocated (catches anonymous data without a symbol)
  nm -S --defined-only lib.a cross-check: every data-class symbol nm sees must have been picked up
  nm -u lib.a                undefined symbols per member; those not defined by another member are the
                             library's externals

Deliberately dumb: it prints what the linker will see. Output is deterministic (sorted, no paths, no
addresses) and the file is rewritten atomically and only when its content changes.
Only the library archive is dumped. The command-line tools are not part of the property (their
`tools/attgetopt.c` keeps static locals `sp`, `optind`-style state: single-threaded programs).
"""
import os, re, subprocess, sys, tempfile

GEN_DIR = os.path.join(os.path.dirname(os.path.abspath(__file__)), '..', 'lean', 'Wbxml', 'Gen')
OUT = os.path.join(GEN_DIR, 'Globals.lean')


class TranslatorError(Exception):
    """binutils output could not be read: the obligations fed by Gen/Globals are 'no longer shown'."""


def write_if_changed(path, content):
    try:
        with open(path) as f:
            if f.read() == content:
                return False
    except FileNotFoundError:
        pass
    d = os.path.dirname(path)
    os.makedirs(d, exist_ok=True)
    fd, tmp = tempfile.mkstemp(dir=d, suffix='.tmp')
    with os.fdopen(fd, 'w') as f:
        f.write(content)
    os.replace(tmp, path)
    return True


def _run(cmd):
    env = dict(os.environ, LC_ALL='C')
    r = subprocess.run(cmd, stdout=subprocess.PIPE, stderr=subprocess.PIPE, text=True, env=env)
    if r.returncode != 0:
        raise TranslatorError(f'{" ".join(cmd)} failed: {r.stderr[-500:]}')
    return r.stdout


_SEC = re.compile(r'^\s*\[\s*(\d+)\]\s*(.*)$')
_SYM = re.compile(r'^\s*(\d+):\s+([0-9a-fA-F]+)\s+(\d+|0x[0-9a-fA-F]+)\s+(\S+)\s+(\S+)\s+(\S+)(?:\s+\[[^\]]*\])?\s+(\S+)(?:\s+(.*))?$')


def parse_readelf(text):
    """-> {member: {'sections': {idx: (name, type, flags, size)}, 'symbols': [(name, type, bind, ndx, size)]}}"""
    members, cur = {}, None
    for line in text.split('\n'):
        if line.startswith('File: '):
            m = re.match(r'^File: .*\((.*)\)\s*$', line)
            name = m.group(1) if m else line[6:].strip()
            cur = members.setdefault(name, {'sections': {}, 'symbols': []})
            continue
        if cur is None:
            if line.startswith('There are ') or line.startswith('Section Headers') or line.startswith('Symbol table'):
                cur = members.setdefault('<object>', {'sections': {}, 'symbols': []})   # plain .o, not an archive
            else:
                continue
        m = _SEC.match(line)
        if m and 'Name' not in line:
            toks = m.group(2).split()
            # from the right: Al Inf Lk [Flg] ES Size Off Address Type [Name]
            if len(toks) < 8:
                continue
            al, inf, lk = toks[-1], toks[-2], toks[-3]
            rest = toks[:-3]
            flags = ''
            if rest and not re.fullmatch(r'[0-9a-fA-F]{2}', rest[-1]):
                flags = rest.pop()
            if len(rest) < 5:
                raise TranslatorError('unreadable section header: ' + line)
            es, size, off, addr, typ = rest[-1], rest[-2], rest[-3], rest[-4], rest[-5]
            name = rest[-6] if len(rest) >= 6 else ''
            cur['sections'][int(m.group(1))] = (name, typ, flags, int(size, 16))
            continue
        m = _SYM.match(line)
        if m:
            sz = m.group(3)
            size = int(sz, 16) if sz.startswith('0x') else int(sz)
            cur['symbols'].append((m.group(8) or '', m.group(4), m.group(5), m.group(7), size))
    return members


def parse_nm(text):
    """-> {member: [(name, class_letter, size)]}"""
    out, cur = {}, None
    for line in text.split('\n'):
        if not line.strip():
            continue
        m = re.match(r'^(\S+):$', line)
        if m and ' ' not in line.strip():
            cur = out.setdefault(m.group(1), [])
            continue
        if cur is None:
            cur = out.setdefault('<object>', [])
        toks = line.split()
        # "addr size C name" | "addr C name" | "C name"
        cls_i = next((i for i, t in enumerate(toks) if len(t) == 1 and t.isalpha() or t in ('?', '-')), None)
        if cls_i is None or cls_i + 1 >= len(toks):
            continue
        size = int(toks[1], 16) if cls_i == 2 else 0
        cur.append((toks[cls_i + 1], toks[cls_i], size))
    return out


OBJECT_TYPES = ('OBJECT', 'TLS', 'COMMON')
DATA_CLASSES = set('BbDdRrGgSsCcVv')


def dump(lib):
    re_text = _run(['readelf', '-S', '-s', '-W', lib])
    members = parse_readelf(re_text)
    if not members or not any(m['symbols'] for m in members.values()):
        raise TranslatorError('readelf produced no symbol tables for ' + lib)
    nm_def = parse_nm(_run(['nm', '-S', '--defined-only', lib]))
    nm_und = parse_nm(_run(['nm', '-u', lib]))

    objects, wsections, defined_global = [], [], set()
    for mem, d in members.items():
        secs = d['sections']
        for idx, (name, typ, flags, size) in secs.items():
            if 'W' in flags and 'A' in flags and size > 0:
                wsections.append({'file': mem, 'sec': name, 'type': typ, 'flags': flags, 'size': size})
        for (name, typ, bind, ndx, size) in d['symbols']:
            if ndx == 'UND' or not name:
                continue
            if bind in ('GLOBAL', 'WEAK', 'UNIQUE'):
                defined_global.add(name)
            if typ in OBJECT_TYPES or ndx == 'COM':
                if ndx == 'COM':
                    sec = 'COMMON'
                elif ndx == 'ABS':
                    sec = 'ABS'
                else:
                    try:
                        sec = secs[int(ndx)][0]
                    except (ValueError, KeyError):
                        raise TranslatorError(f'symbol {name} of {mem} has unreadable section index {ndx}')
                objects.append({'file': mem, 'name': name, 'kind': 'COMMON' if ndx == 'COM' else typ,
                                'bind': bind, 'sec': sec, 'size': size})
    # cross-check with nm: every data-class symbol (labels `.L*` aside) must have been picked up
    have = {(o['file'], o['name']) for o in objects}
    for mem, syms in nm_def.items():
        for (name, cls, size) in syms:
            if cls in DATA_CLASSES and not name.startswith('.L') and (mem, name) not in have:
                # NOTYPE data symbol (hand-written asm or unusual compiler): record it with nm's view
                d = members.get(mem)
                secname = None
                if d:
                    for (n2, typ, bind, ndx, sz) in d['symbols']:
                        if n2 == name and ndx not in ('UND', 'ABS', 'COM'):
                            secname = d['sections'].get(int(ndx), ('?',))[0]
                if secname is None:
                    raise TranslatorError(f'nm sees data symbol {name} ({cls}) in {mem} that readelf did not show')
                objects.append({'file': mem, 'name': name, 'kind': 'NOTYPE', 'bind': 'LOCAL' if cls.islower() else 'GLOBAL',
                                'sec': secname, 'size': size})
    undefined, undefined_by = set(), {}
    for mem, syms in nm_und.items():
        for (name, cls, size) in syms:
            if cls in ('U', 'w', 'v') and name not in defined_global:
                undefined.add(name)
                undefined_by.setdefault(name, []).append(mem)
    objects.sort(key=lambda o: (o['file'], o['sec'], o['name']))
    wsections.sort(key=lambda s: (s['file'], s['sec']))
    return {'members': sorted(members), 'objects': objects, 'wsections': wsections, 'undefined': sorted(undefined),
            'undefined_by': undefined_by}   # undefined_by: for replays only, not emitted


def lstr(s):
    """A Lean byte-list literal for an ELF name."""
    if all(32 <= ord(c) < 127 and c not in '"\\' for c in s):
        return f'b!"{s}"'
    return '[' + ','.join(str(b) for b in s.encode('utf-8', 'surrogateescape')) + ']'


def cmt(s):
    return s.replace('-/', '- /').replace('/-', '/ -')


def gen_globals(d):
    out = ['/- GENERATED by tools/gen_globals.py from `readelf -S -s -W`, `nm -S --defined-only`, `nm -u` run on the',
           '   freshly built libwbxml2.a (plain gcc flavour). Do not edit: regenerated on every check run. -/',
           'import Wbxml.Prim.Basic',
           'set_option maxRecDepth 100000',
           'namespace Wbxml.Gen.Globals',
           'open Wbxml',
           '',
           '/-- One OBJECT / TLS / COMMON symbol of an archive member (function-local statics included). -/',
           'structure Obj where',
           '  file : Bytes',
           '  name : Bytes',
           '  kind : Bytes',
           '  bind : Bytes',
           '  sec : Bytes',
           '  size : Nat',
           '  deriving Repr, DecidableEq, Inhabited',
           '',
           '/-- A non-empty section with ELF flags W and A. -/',
           'structure WSec where',
           '  file : Bytes',
           '  sec : Bytes',
           '  type : Bytes',
           '  flags : Bytes',
           '  size : Nat',
           '  deriving Repr, DecidableEq, Inhabited',
           '',
           '/-- Archive members, sorted. -/',
           'def members : List Bytes := [' + ', '.join(lstr(m) for m in d['members']) + ']',
           '',
           f'/-- Every data symbol of the library ({len(d["objects"])}), sorted by (member, section, name). -/',
           'def objects : List Obj := [']
    out.append(',\n'.join(
        f'  ⟨{lstr(o["file"])}, {lstr(o["name"])}, {lstr(o["kind"])}, {lstr(o["bind"])}, {lstr(o["sec"])}, {o["size"]}⟩'
        for o in d['objects']))
    out += [']', '',
            f'/-- Every non-empty writable allocated section ({len(d["wsections"])}). -/',
            'def wsections : List WSec := [']
    out.append(',\n'.join(
        f'  ⟨{lstr(s["file"])}, {lstr(s["sec"])}, {lstr(s["type"])}, {lstr(s["flags"])}, {s["size"]}⟩' for s in d['wsections']))
    out += [']', '',
            f'/-- Symbols the library references and does not define ({len(d["undefined"])}), sorted. -/',
            'def undefined : List Bytes := [']
    und = d['undefined']
    rows = []
    for i in range(0, len(und), 5):
        rows.append('  ' + ', '.join(lstr(u) for u in und[i:i + 5]))
    out.append(',\n'.join(rows))
    out += [']', '', 'end Wbxml.Gen.Globals']
    return '\n'.join(out) + '\n'


def regenerate(build):
    """Dump `build.lib` and rewrite Gen/Globals.lean when changed. Returns (dump, changed:bool)."""
    d = dump(build.lib)
    return d, write_if_changed(OUT, gen_globals(d))


def main():
    lib = sys.argv[1]
    d = dump(lib)
    if len(sys.argv) > 2 and sys.argv[2] == '--print':
        sys.stdout.write(gen_globals(d))
        return
    print('changed:', write_if_changed(OUT, gen_globals(d)))


if __name__ == '__main__':
    main()
