"""XML-side correspondence helper: runs requests that need Expat's recorded runs, resolving the
model's NEED requests for embedded documents iteratively."""
import corr


def expat_runs(er, env, docs, ns=True):
    verb = 'EXPAT' if ns else 'EXPATN'
    out, _ = corr.run_lines(er, [f'{verb} {x.hex()}' for x in docs], env=env)
    return out


def run_token(r):
    """'X <ok> <events>' -> '<ok>/<events>'"""
    return r[2:].replace(' ', '/', 1) if r and r.startswith('X ') else '0/'


def model_with_expat(drv, er, env, prefix_of, xmls, rounds=5):
    """prefix_of(i) -> request prefix (e.g. 'X2W 3 0 1 0'); returns the model responses."""
    runs = expat_runs(er, env, xmls)
    envs = [{x.hex(): run_token(runs[i])} for i, x in enumerate(xmls)]
    pending = list(range(len(xmls)))
    model = [None] * len(xmls)
    for _ in range(rounds):
        lines = [f'{prefix_of(i)} {xmls[i].hex()} ' + ' '.join(f'{k}={v}' for k, v in envs[i].items()) for i in pending]
        out, _ = corr.run_lines(drv, lines)
        need = []
        for j, i in enumerate(pending):
            model[i] = out[j]
            if out[j] and out[j].startswith('NEED '):
                need.append((i, out[j][5:]))
        if not need:
            break
        rr = expat_runs(er, env, [bytes.fromhex(h) if h != '-' else b'' for _, h in need])
        for (i, h), r in zip(need, rr):
            envs[i][h] = run_token(r)
        pending = [i for i, _ in need]
    return model
