#!/usr/bin/env python3
"""Evaluate a seeded change: tools/seed_eval.py <Cxx> <seed_out dir> [name] [extra props...]
Copies the seed into /verif/seeded/<name>/, applies it to a scratch worktree of /repo HEAD,
confirms (a) it builds, (b) the 229 baseline tests pass, (c) the demonstration fails with the
change and passes without it, then runs the registered quick checks against it and records what
they reported in meta.json. The scratch worktree is removed afterwards."""
import json, os, shutil, subprocess, sys, tempfile, time

V = os.path.dirname(os.path.dirname(os.path.abspath(__file__)))
prop, src = sys.argv[1], sys.argv[2]
name = sys.argv[3] if len(sys.argv) > 3 else f'{prop}-{os.path.basename(os.path.dirname(src.rstrip("/")))}'
props = [prop] + sys.argv[4:]
dst = os.path.join(V, 'seeded', name)
os.makedirs(dst, exist_ok=True)
for f in os.listdir(src):
    p = os.path.join(src, f)
    if os.path.isfile(p) and os.path.getsize(p) < 2_000_000 and os.path.abspath(p) != os.path.abspath(os.path.join(dst, f)):
        shutil.copy(p, os.path.join(dst, f))
patch = os.path.join(dst, 'patch.diff')


def sh(cmd, **kw):
    return subprocess.run(cmd, shell=True, capture_output=True, text=True, **kw)


wt = tempfile.mkdtemp(prefix='seedwt-', dir='/tmp')
os.rmdir(wt)
meta = {'property': prop, 'name': name, 'ran': [], 'at_repo_head': sh('git -C /repo rev-parse --short HEAD').stdout.strip()}
try:
    sh(f'git -C /repo worktree add -q {wt} HEAD')
    ap = sh(f'git -C {wt} apply --3way {patch}')
    if ap.returncode != 0:
        ap = sh(f'git -C {wt} apply --reject {patch}')
    meta['patch_applies'] = ap.returncode == 0
    meta['patch_apply_log'] = (ap.stdout + ap.stderr)[-600:]
    if ap.returncode == 0:
        # (a)+(b) build and baseline, with and without
        for tag, tree in (('with', wt),):
            b = sh(f'rm -rf {tree}/_b && cmake -S {tree} -B {tree}/_b -G Ninja -DCMAKE_BUILD_TYPE=RelWithDebInfo -DCMAKE_C_FLAGS=-Wno-error >/dev/null 2>&1 && cmake --build {tree}/_b >/dev/null 2>&1 && mkdir -p {tree}/_b/tmp && TMPDIR={tree}/_b/tmp ctest --test-dir {tree}/_b -j8 --timeout 900 | tail -3')
            meta[f'baseline_{tag}_change'] = b.stdout.strip()[-200:]
        wt0 = tempfile.mkdtemp(prefix='seedbase-', dir='/tmp')
        os.rmdir(wt0)
        sh(f'git -C /repo worktree add -q {wt0} HEAD')
        base = os.path.join(wt0, '_b')
        sh(f'cmake -S {wt0} -B {base} -G Ninja -DCMAKE_BUILD_TYPE=RelWithDebInfo -DCMAKE_C_FLAGS=-Wno-error >/dev/null 2>&1 && cmake --build {base} >/dev/null 2>&1')
        demo = os.path.join(dst, 'demo.sh')
        if os.path.exists(demo):
            os.chmod(demo, 0o755)
            # the demonstration may expect to live in <tree>/seed_out
            for tree in (wt, wt0):
                shutil.copytree(dst, os.path.join(tree, 'seed_out'), dirs_exist_ok=True)
            d1 = sh(f'{wt}/seed_out/demo.sh {wt}/_b', timeout=300)
            d0 = sh(f'{wt0}/seed_out/demo.sh {base}', timeout=300)
            meta['demo_with_change'] = {'rc': d1.returncode, 'tail': (d1.stdout + d1.stderr)[-300:]}
            meta['demo_without_change'] = {'rc': d0.returncode, 'tail': (d0.stdout + d0.stderr)[-300:]}
        sh(f'git -C /repo worktree remove --force {wt0}')
        shutil.rmtree(os.path.join(wt, '_b'), ignore_errors=True)
        # the checks
        for p in props:
            t0 = time.time()
            env = dict(os.environ, VERIF_REPO=wt)
            r = subprocess.run(['python3', os.path.join(V, 'tools', 'check.py'), p, '--tier', 'quick'], capture_output=True, text=True, env=env, cwd=V)
            lines = [l for l in r.stdout.split('\n') if l.startswith('VIOLATION') or l.startswith('KNOWN-FINDING')]
            entry = {'check': p, 'rc': r.returncode, 'lines': [l[:300] for l in lines][:6], 'wall_s': round(time.time() - t0, 1)}
            # keep one replay as illustration
            for l in lines:
                if l.startswith('VIOLATION'):
                    rp = l.split('replay=')[1].split()[0]
                    try:
                        shutil.copy(rp, os.path.join(dst, f'replay-{p}.json'))
                    except OSError:
                        pass
                    break
            meta['ran'].append(entry)
finally:
    sh(f'git -C /repo worktree remove --force {wt}')
    # restore generated files / evidence to the unchanged tree's state
    # (the checks regenerated lean/Wbxml/Gen/* and rewrote evidence/* from the seeded tree: back to the committed state)
    sh(f'git -C {V} checkout -- lean/Wbxml/Gen evidence corpus')
json.dump(meta, open(os.path.join(dst, 'meta.json'), 'w'), indent=1)
print(json.dumps(meta, indent=1)[:2500])
