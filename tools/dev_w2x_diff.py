#!/usr/bin/env python3
"""Development aid: diff the W2X stream of model and implementation."""
import sys, os, random, subprocess
sys.path.insert(0, os.path.dirname(os.path.abspath(__file__)))
import common, wbgen

seed = int(sys.argv[1]) if len(sys.argv) > 1 else 1
N = int(sys.argv[2]) if len(sys.argv) > 2 else 1000
rng = random.Random(seed)
b = common.Build('asan')
d, _ = common.regenerate(b)
h = b.harness('w2x.c')
docs = wbgen.corpus_wbxml()
lines = []
langs = [0] + [l['id'] for l in d['langs']]
def opts():
    return f"{rng.choice([0,1,2])} {rng.choice([0,0,1,2,3,8,255])} {rng.choice([0,1])}"
for name, doc in docs:
    lines.append(f'W2X 0 0 {opts()} {doc.hex()}')
g = wbgen.TableGen(d, rng)
for i in range(N):
    k = rng.random()
    if k < 0.45:
        lid, doc, needforce = g.doc()
        force = lid if (needforce or rng.random() < 0.1) else 0
    elif k < 0.8:
        doc = rng.choice(docs)[1]
        for _ in range(rng.randint(1, 3)):
            doc = wbgen.mutate(rng, doc)
        force = rng.choice([0, 0, 0, rng.choice(langs)])
    elif k < 0.9:
        lid, doc, needforce = g.doc()
        doc = wbgen.mutate(rng, doc)
        force = lid if needforce else rng.choice([0, lid])
    else:
        doc = bytes(rng.randrange(256) for _ in range(rng.randint(0, 40)))
        force = rng.choice(langs)
    cs = rng.choice([0, 0, 0, 106, 3, 4, 1000])
    lines.append(f'W2X {force} {cs} {opts()} {doc.hex() or "-"}')
inp = '\n'.join(lines) + '\n'
rc = subprocess.run([h], input=inp, capture_output=True, text=True, env=b.env(), timeout=300)
rl = subprocess.run([os.path.join(common.LEAN, ".lake/build/bin/driver")], input=inp, capture_output=True, text=True, timeout=300)
co, lo = rc.stdout.split('\n'), rl.stdout.split('\n')
print('impl rc', rc.returncode, rc.stderr[-3000:])
nd = 0
okc = sum(1 for x in co if x.startswith('R 0 '))
def show(x):
    if x.startswith('R 0 ; '):
        try: return 'R 0 ; ' + bytes.fromhex(x[6:].split()[0]).decode('latin-1')
        except Exception: return x
    return x
for i, ln in enumerate(lines):
    a = co[i] if i < len(co) else '<none>'
    m = lo[i] if i < len(lo) else '<none>'
    if a != m:
        nd += 1
        if nd <= 6:
            print('DIFF', ln[:400]); print('  impl :', show(a)[:1500]); print('  model:', show(m)[:1500])
print(f'{len(lines)} lines, {okc} ok, {nd} differences')
