#!/usr/bin/env python3
"""Show the first difference of a C03 replay in context."""
import sys, json, difflib
r = json.load(open(sys.argv[1]))
a = bytes.fromhex(r['xml_hex']); b = bytes.fromhex(r['first_output_hex'])
print('WHAT', r['what'][:300]); print('OPTS', r['options(version,keepws,strtbl)'])
print('--- source'); print(a.decode('latin-1')[:int(sys.argv[2]) if len(sys.argv) > 2 else 3000])
print('--- first output'); print(b.decode('latin-1')[:int(sys.argv[2]) if len(sys.argv) > 2 else 3000])
