"""Grammar-directed generator of WELL-FORMED WBXML documents together with the event stream the
WBXML specification assigns to them (an oracle written from the specification, independent of
both the C code and the Lean model). Event text format = harness/parse.c.

Deliberate exclusions (each is a recorded observation in DESIGN.md §5 C04): typed (WV / DRMREL /
SyncML) opaque content is generated only as the sole content of a token-named element, because
the parser keeps a single `current_tag` slot; ENTITY 0 is not generated (known finding C11)."""
import random
from wbgen import mb

WV_INT = {0: {0x0B, 0x0F, 0x1A, 0x3C}, 1: {0x1C, 0x25, 0x26, 0x27, 0x28, 0x32},
          3: {0x05, 0x06, 0x0C, 0x0D, 0x0E, 0x12, 0x13}, 5: {0x05, 0x09, 0x32}, 9: {0x08, 0x0A}}
WV_DATE = {0: {0x11}, 6: {0x1A}}
WML_LANGS = {1101, 1102, 1103, 1104, 1202}
WV_LANGS = {2301, 2302}
SYNCML_LANGS = {2001, 2101, 2201}


def hx(b):
    return b.hex() if b else '-'


def utf8(c):
    return chr(c).encode('utf-8', 'surrogatepass')


def b64(b):
    import base64
    return base64.b64encode(b)


class SpecGen:
    def __init__(self, dump, rng):
        self.deep = False      # C04 sets it: raw opaques in untyped SyncML / DRMREL elements
        self.d, self.rng, self.T = dump, rng, dump['tables']
        self.hits = set()

    def rows(self, kind):
        k = self.lang[kind]
        return self.T[str(k)]['rows'] if k is not None else None

    # ---- names as the parser reports them: first row with that (page, token)
    def tag_name(self, page, token):
        for r in self.rows('tags'):
            if r[1] == page and r[2] == token:
                return r
        return None

    def text(self, lo=1, hi=10):
        rng = self.rng
        alphabet = b'abcXYZ 019<>&"\'\t\n-:/.+=;]'
        s = bytes(rng.choice(alphabet) for _ in range(rng.randint(lo, hi)))
        if rng.random() < 0.2:
            s += rng.choice(['é', '€', '𝄞']).encode('utf-8')
        return s

    def strref(self, s, allow_suffix=True):
        """offset of s in the string table (adding it); sometimes as a suffix of a longer entry"""
        off = 0
        for e in self.strs:
            if e == s:
                return off
            if allow_suffix and len(e) > len(s) and e.endswith(s) and self.rng.random() < 0.5:
                return off + len(e) - len(s)
            off += len(e) + 1
        if allow_suffix and self.rng.random() < 0.25:
            pre = self.text(1, 4).replace(b'\x00', b'')
            self.strs.append(pre + s)
            return off + len(pre)
        self.strs.append(s)
        return off

    def string(self, s):
        """(bytes, value) for a string item carrying s"""
        if self.rng.random() < 0.65:
            return b'\x03' + s + b'\x00'
        return b'\x83' + mb(self.strref(s))

    def switch(self, space, page, force=False):
        cur = self.tagpage if space == 'tag' else self.attrpage
        if cur != page or force:
            if space == 'tag':
                self.tagpage = page
            else:
                self.attrpage = page
            return b'\x00' + bytes([page])
        return b''

    def datetime_bcd(self):
        rng = self.rng
        y, mo, d = rng.randint(0, 9999), rng.randint(1, 12), rng.randint(1, 28)
        h, mi, s = rng.randint(0, 23), rng.randint(0, 59), rng.randint(0, 59)
        k = rng.choice([4, 5, 6, 7])          # number of BCD octets kept
        digits = f'{y:04d}{mo:02d}{d:02d}{h:02d}{mi:02d}{s:02d}'[:2 * k]
        txt = digits.ljust(14, '0')
        exp = f'{txt[0:4]}-{txt[4:6]}-{txt[6:8]}T{txt[8:10]}:{txt[10:12]}:{txt[12:14]}Z'
        return bytes.fromhex(digits), exp.encode()

    def attr(self, for_pi=False):
        """returns (bytes, event-text-of-attr or (target, data) for a PI)"""
        rng = self.rng
        lid = self.lang['id']
        attrs = self.rows('attrs')
        vals = self.rows('values')
        out = b''
        if attrs and rng.random() < 0.9:
            r = rng.choice(attrs) if not self.todo_attrs else self.todo_attrs.pop()
            self.hits.add(('attr', lid, r[2], r[3]))
            out += self.switch('attr', r[2], force=rng.random() < 0.03) + bytes([r[3]])
            first = next(x for x in attrs if x[2] == r[2] and x[3] == r[3])
            name_txt = f't:{first[2]}:{first[3]}:{hx(bytes.fromhex(first[0]))}:' + (hx(bytes.fromhex(first[1])) if first[1] is not None else '~')
            if first[1] == '':
                name_txt = f't:{first[2]}:{first[3]}:{hx(bytes.fromhex(first[0]))}:-'
            value = bytes.fromhex(first[1]) if first[1] else b''
            target = bytes.fromhex(first[0])
            is_dt = (lid == 1301 and first[2] == 0 and first[3] in (0x0a, 0x10)) or (lid == 1701 and first[2] == 0 and first[3] == 0x05)
        else:
            nm = rng.choice([b'xattr', b'foo', b'a-b', b'xml:lang'])
            out += b'\x04' + mb(self.strref(nm))
            name_txt = f'l:{hx(nm)}'
            value, target, is_dt = b'', nm, False
        if is_dt and not for_pi:
            bcd, exp = self.datetime_bcd()
            out += b'\xC3' + mb(len(bcd)) + bcd
            value = exp
        else:
            for _ in range(rng.choice([0, 1, 1, 2, 3])):
                k = rng.random()
                if k < 0.35 and vals:
                    v = rng.choice(vals) if not self.todo_vals else self.todo_vals.pop()
                    self.hits.add(('val', lid, v[1], v[2]))
                    out += self.switch('attr', v[1]) + bytes([v[2]])
                    firstv = next(x for x in vals if x[1] == v[1] and x[2] == v[2])
                    value += bytes.fromhex(firstv[0])
                elif k < 0.45 and lid in WML_LANGS:
                    # a WML variable reference inside the value; the grammar allows a switchPage in front of an
                    # extension (extension = [switchPage] ...), which only changes the attribute code page
                    tok = rng.choice([0x40, 0x41, 0x42, 0x80, 0x81, 0x82])
                    suffix = {0: b':escape', 1: b':unesc', 2: b':noesc'}[tok & 3]
                    var = rng.choice([b'v', b'name', b'X1'])
                    if rng.random() < 0.5:
                        pages = sorted({x[2] for x in attrs}) if attrs else [0]
                        out += self.switch('attr', rng.choice(pages), force=True)
                    out += (bytes([tok]) + var + b'\x00') if tok < 0x80 else (bytes([tok]) + mb(self.strref(var)))
                    value += b'$(' + var + suffix + b')'
                elif k < 0.50:
                    # extension = [switchPage] EXT_0|1|2: a single-octet extension carries no text in any language
                    # (reserved in WML, not defined elsewhere) - a piece that delivers nothing, possibly after one
                    # that did; its switchPage only changes the attribute code page
                    if rng.random() < 0.4:
                        pages = sorted({x[2] for x in attrs}) if attrs else [0]
                        out += self.switch('attr', rng.choice(pages), force=True)
                    out += bytes([rng.choice([0xC0, 0xC1, 0xC2])])
                elif k < 0.8:
                    s = self.text()
                    out += self.string(s)
                    value += s
                elif k < 0.9:
                    c = rng.choice([0x41, 0xE9, 0x20AC, 0x7FF, 0x800, 0xFFFF, 0x10000, 0x10FFFF, rng.randrange(1, 0xD800)])
                    out += b'\x02' + mb(c)
                    value += utf8(c)
                elif lid != 1901 or True:
                    n = rng.randint(1, 6)
                    raw = bytes(rng.randrange(1, 256) for _ in range(n))
                    out += b'\xC3' + mb(n) + raw
                    value += b64(raw) if lid == 1901 else raw
        if for_pi:
            return out, (target, value)
        return out, name_txt + '=' + hx(value + (b'\x00' if value else b''))

    def element(self, depth, max_depth):
        rng = self.rng
        lid = self.lang['id']
        tags = self.rows('tags')
        has_attrs = rng.random() < 0.3 and (self.rows('attrs') is not None or True)
        literal = rng.random() < 0.08
        ev, out = [], b''
        if not literal:
            r = rng.choice(tags) if not self.todo_tags else self.todo_tags.pop()
            self.hits.add(('tag', lid, r[1], r[2]))
            first = self.tag_name(r[1], r[2])
            name = f't:{first[1]}:{first[2]}:{hx(bytes.fromhex(first[0]))}'
            page, token = r[1], r[2]
            typed = None
            if lid in WV_LANGS:
                typed = 'int' if token in WV_INT.get(page, ()) else 'date' if token in WV_DATE.get(page, ()) else None
            elif lid == 1801 and page == 0 and token == 0x0C:
                typed = 'b64'
            elif lid in SYNCML_LANGS and page == 1 and token == 0x10:
                typed = 'b64'
        else:
            nm = rng.choice([b'lit', b'X-Custom', b'ns:elem'])
            name = f'l:{hx(nm)}'
            typed = None
        # content plan
        items = []
        if typed and rng.random() < 0.7:
            # the typed rule belongs to the ELEMENT: a page switch in front of the opaque (grammatical only as part
            # of an extension) does not change it
            items = ['extsw', 'typed'] if rng.random() < 0.3 else ['typed']
        elif not literal and typed is None and self.deep and (lid in SYNCML_LANGS or lid == 1801) and rng.random() < (0.8 if (lid in SYNCML_LANGS and token == 0x10) else 0.1):
            # ... and an element that only shares its token number with a typed one stays untyped when the page of
            # the typed one is switched in
            items = ['extsw1', 'raw']
        else:
            for _ in range(rng.choice([0, 1, 1, 2, 3, 4])):
                items.append('any')
        has_content = len(items) > 0 or rng.random() < 0.2
        flags = (0x80 if has_attrs else 0) | (0x40 if has_content else 0)
        if not literal:
            out += self.switch('tag', page, force=rng.random() < 0.02) + bytes([token | flags])
        else:
            out += bytes([0x04 | flags]) + mb(self.strref(nm))
        atxt = []
        if has_attrs:
            for _ in range(rng.choice([1, 1, 2, 3])):
                b, t = self.attr()
                out += b
                atxt.append(t)
            out += b'\x01'
        ev.append('SE ' + name + ''.join(' ' + a for a in atxt))
        if has_content:
            for it in items:
                if it == 'typed':
                    b, e = self.typed_opaque(typed)
                elif it == 'extsw':
                    b, e = self.ext_ignored(to_page=None if rng.random() < 0.2 else rng.choice([p for p in sorted({x[1] for x in tags}) if p != self.tagpage] or [self.tagpage])), []
                elif it == 'extsw1':
                    b, e = self.ext_ignored(to_page=1 if lid in SYNCML_LANGS else 0), []
                elif it == 'raw':
                    raw = bytes(rng.randrange(256) for _ in range(rng.randint(1, 9)))
                    b, e = b'\xC3' + mb(len(raw)) + raw, ['CH ' + hx(raw)]
                else:
                    b, e = self.content_item(depth, max_depth, in_wv_typed=(typed is not None) or (lid in WV_LANGS))
                out += b
                ev += e
            out += b'\x01'
        ev.append('EE ' + name)
        return out, ev

    def ext_ignored(self, to_page=None):
        """[switchPage] EXT_0|1|2 in content: no text in any language; the switchPage changes the tag code page for
        the tags that follow, never the identity of the element it stands in"""
        rng = self.rng
        pages = sorted({x[1] for x in self.rows('tags')})
        sw = b''
        if to_page is not None or rng.random() < 0.6:
            others = [p for p in pages if p != self.tagpage] or pages
            sw = self.switch('tag', to_page if to_page is not None else rng.choice(others), force=True)
        return sw + bytes([rng.choice([0xC0, 0xC1, 0xC2])])

    def typed_opaque(self, typed):
        rng = self.rng
        if typed == 'int':
            v = rng.choice([0, 1, 255, 256, 65535, 2 ** 24, 2 ** 32 - 1, rng.randrange(2 ** 32)])
            n = max(1, (v.bit_length() + 7) // 8)
            raw = v.to_bytes(n, 'big')
            if rng.random() < 0.1 and n < 4:
                raw = b'\x00' + raw          # non-minimal but still 32-bit
            return b'\xC3' + mb(len(raw)) + raw, ['CH ' + hx(str(v).encode())]
        if typed == 'date':
            y, mo, d = rng.randint(0, 4095), rng.randint(1, 12), rng.randint(1, 28)
            h, mi, s = rng.randint(0, 23), rng.randint(0, 59), rng.randint(0, 59)
            z = rng.choice([0] + [c for c in range(65, 91) if c != 74])
            bits = (y << 26) | (mo << 22) | (d << 17) | (h << 12) | (mi << 6) | s
            raw = bits.to_bytes(5, 'big') + bytes([z])
            txt = f'{y:04d}{mo:02d}{d:02d}T{h:02d}{mi:02d}' + (f'{s:02d}' if s else '') + ('Z' if z == 0 else chr(z))
            return b'\xC3\x06' + raw, ['CH ' + hx(txt.encode())]
        raw = bytes(rng.randrange(256) for _ in range(rng.randint(1, 12)))
        return b'\xC3' + mb(len(raw)) + raw, ['CH ' + hx(b64(raw))]

    def content_item(self, depth, max_depth, in_wv_typed):
        rng = self.rng
        lid = self.lang['id']
        r = rng.random()
        if r < 0.35 and depth < max_depth:
            return self.element(depth + 1, max_depth)
        if r < 0.62:
            s = self.text()
            return self.string(s), ['CH ' + hx(s)]
        if r < 0.70:
            c = rng.choice([0x41, 0xE9, 0x20AC, 0x7FF, 0x800, 0xFFFF, 0x10000, 0x10FFFF, 0x26, 0x3C, rng.randrange(1, 0xD800), rng.randrange(0xE000, 0x110000)])
            return b'\x02' + mb(c), ['CH ' + hx(utf8(c))]
        if r < 0.80 and not in_wv_typed and lid not in SYNCML_LANGS and lid != 1801:
            n = rng.randint(1, 9)
            raw = bytes(rng.randrange(256) for _ in range(n))
            return b'\xC3' + mb(n) + raw, ['CH ' + hx(raw)]
        if r < 0.88:
            exts = self.rows('exts')
            if lid in WV_LANGS and exts and not self.todo_exts and rng.random() < 0.2:
                # a value that is no row of the extension table carries no text - in particular one that is
                # wider than a token octet and whose low octet happens to be a row
                known = {x[1] for x in exts}
                v = rng.choice([0x100 + rng.choice(sorted(known)), 0x4000 + rng.choice(sorted(known)), rng.choice([k for k in range(1, 256) if k not in known] or [0x1FF])])
                return b'\x80' + mb(v), []
            if lid in WV_LANGS and exts:
                e = rng.choice(exts) if not self.todo_exts else self.todo_exts.pop()
                self.hits.add(('ext', lid, e[1]))
                first = next(x for x in exts if x[1] == e[1])
                return b'\x80' + mb(e[1]), ['CH ' + hx(bytes.fromhex(first[0]))]
            if lid in WML_LANGS:
                tok = rng.choice([0x40, 0x41, 0x42, 0x80, 0x81, 0x82, 0xC0, 0xC1, 0xC2])
                suffix = {0: b':escape', 1: b':unesc', 2: b':noesc'}[tok & 3]
                var = rng.choice([b'v', b'name', b'X1'])
                tags_ = self.rows('tags')
                sw = self.switch('tag', rng.choice(sorted({x[1] for x in tags_})), force=True) if rng.random() < 0.3 else b''
                if tok < 0x80:
                    return sw + bytes([tok]) + var + b'\x00', ['CH ' + hx(b'$(' + var + suffix + b')')]
                if tok < 0xC0:
                    return sw + bytes([tok]) + mb(self.strref(var)), ['CH ' + hx(b'$(' + var + suffix + b')')]
                return sw + bytes([tok]), []
            if rng.random() < 0.5:
                return self.ext_ignored(), []
            s = self.text()
            return self.string(s), ['CH ' + hx(s)]
        if r < 0.93 and self.rows('attrs') is not None:
            b, (target, data) = self.attr(for_pi=True)
            # the harness prints target and data as C strings
            data_c = data.split(b'\x00')[0]
            return b'\x43' + b + b'\x01', [f'PI {hx(target)} {hx(data_c)}']
        s = self.text()
        return self.string(s), ['CH ' + hx(s)]

    def doc(self, lang, max_depth=4, todo=None):
        """returns (forced_lang, meta_charset, bytes, expected events joined)"""
        rng = self.rng
        self.lang = lang
        self.strs = []
        self.tagpage = self.attrpage = 0
        self.todo_tags = list(todo.get('tags', [])) if todo else []
        self.todo_attrs = list(todo.get('attrs', [])) if todo else []
        self.todo_vals = list(todo.get('vals', [])) if todo else []
        self.todo_exts = list(todo.get('exts', [])) if todo else []
        pre_ev = []
        body, ev = self.element(0, max_depth)
        # header
        ver = rng.choice([1, 2, 3, 3, 3, 0])
        pub = lang['pub']['wbxml'] if lang['pub'] else 1
        xmlid = bytes.fromhex(lang['pub']['xml']) if lang['pub'] and lang['pub']['xml'] else None
        force = 0
        # which earlier language would the identifier select? use it only when it selects this entry
        def first_with(pred):
            for l in self.d['langs']:
                if l['pub'] and pred(l):
                    return l['id']
            return None
        hdr = bytes([ver])
        route = rng.random()
        if pub != 1 and first_with(lambda l: l['pub']['wbxml'] == pub) == lang['id'] and route < 0.6:
            hdr += mb(pub)
        elif xmlid and first_with(lambda l: l['pub']['xml'] and bytes.fromhex(l['pub']['xml']).lower() == xmlid.lower()) == lang['id'] and route < 0.85:
            s = xmlid if rng.random() < 0.7 else xmlid.swapcase()
            hdr += b'\x00' + mb(self.strref(s, allow_suffix=False))
        else:
            hdr += mb(1)
            force = lang['id']
        meta = 0
        if ver != 0:
            cs = rng.choice([106, 106, 3, 0])
            hdr += mb(cs)
            if cs == 0:
                meta = rng.choice([0, 3, 106])
                cs = meta or 106
        else:
            meta = rng.choice([0, 3, 106])
            cs = meta or 106
        tbl = b''.join(s + b'\x00' for s in self.strs)
        doc = hdr + mb(len(tbl)) + tbl + body
        if rng.random() < 0.1:
            doc += bytes(rng.randrange(256) for _ in range(rng.randint(1, 5))).replace(b'\x43', b'\x44')   # trailing bytes are ignored
        events = [f'SD {cs} {lang["id"]}'] + ev + ['ED']
        return force, meta, doc, ' / '.join(events)
