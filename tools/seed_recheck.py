#!/usr/bin/env python3
"""Re-run every kept seeded change (seeded/<id>/patch.diff) against the check of its own property and print
whether it is still reported, with a concrete input or not:  tools/seed_recheck.py [id-prefix ...]
(maintenance tool: run after changing generators or oracles; takes about a minute per seed)."""
import glob, json, os, subprocess, sys
V = os.path.dirname(os.path.dirname(os.path.abspath(__file__)))
sel = sys.argv[1:]
bad = 0
for d in sorted(glob.glob(os.path.join(V, 'seeded', 'C*'))):
    n = os.path.basename(d)
    if sel and not any(n.startswith(s) for s in sel):
        continue
    subprocess.run(['python3', os.path.join(V, 'tools', 'seed_eval.py'), n[:3], d, n], capture_output=True, text=True)
    r = json.load(open(os.path.join(d, 'meta.json')))['ran'][0]
    v = [l for l in r['lines'] if l.startswith('VIOLATION')]
    verdict = 'concrete' if any('no-failing' not in l for l in v) else ('no-input' if v else 'MISSED')
    bad += verdict == 'MISSED'
    print(n, r['check'], verdict, flush=True)
sys.exit(1 if bad else 0)
