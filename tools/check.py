#!/usr/bin/env python3
"""Entry point of every registered command:  tools/check.py <Cxx> [--tier quick|thorough] [--replay f]"""
import argparse, importlib, os, sys, traceback
sys.path.insert(0, os.path.dirname(os.path.abspath(__file__)))
import common


# properties whose thorough tier is cheap enough (a few minutes) to serve as the search stage of the quick tier
SEARCH_BY_THOROUGH = {'C02', 'C03', 'C04', 'C05', 'C06', 'C13'}


def main():
    ap = argparse.ArgumentParser()
    ap.add_argument('prop')
    ap.add_argument('--tier', default=os.environ.get('VERIF_TIER', 'quick'), choices=['quick', 'thorough'])
    ap.add_argument('--replay', default=None)
    a = ap.parse_args()
    seed = int(os.environ.get('VERIF_SEED', '1') or 1)
    prop = a.prop.upper()
    mod = importlib.import_module(f'props.{prop.lower()}')
    res = common.Result(prop, a.tier, seed)
    escalate = a.tier == 'quick' and not a.replay and prop in SEARCH_BY_THOROUGH
    res.quiet = escalate
    try:
        rc = mod.run(res, a)
        if escalate and res.violations and all(v[2] for v in res.violations):
            # DESIGN 6.1: a proof obligation or the correspondence broke but no sampled input violates the
            # property: search with the thorough tier's generators (same seed) for a concrete failing input
            common.log('no failing input in the quick sample: searching with the thorough generators')
            res2 = common.Result(prop, 'thorough', seed)
            res2.quiet = True
            res2.report_tier = 'quick'
            res2.coverage['search'] = 'quick sample showed a broken proof / correspondence without a failing input; this run is the search stage (thorough generators)'
            a.tier = 'thorough'
            rc2 = mod.run(res2, a)
            if any(not v[2] for v in res2.violations):
                res, rc = res2, rc2
            # (nothing found: the quick verdict stands; the evidence file is the search run's)
        if res.quiet:
            for ln in res.lines:
                print(ln, flush=True)
    except common.BuildError as e:
        # /repo's current tree (or a harness against it) does not build: not a verdict about the property
        print(f'[check] build error: {e}', file=sys.stderr)
        sys.exit(2)
    sys.exit(rc)


if __name__ == '__main__':
    main()
