#!/usr/bin/env python3
"""Entry point of every registered command:  tools/check.py <Cxx> [--tier quick|thorough] [--replay f]"""
import argparse, importlib, os, sys, traceback
sys.path.insert(0, os.path.dirname(os.path.abspath(__file__)))
import common


def main():
    ap = argparse.ArgumentParser()
    ap.add_argument('prop')
    ap.add_argument('--tier', default=os.environ.get('VERIF_TIER', 'quick'), choices=['quick', 'thorough'])
    ap.add_argument('--replay', default=None)
    a = ap.parse_args()
    seed = int(os.environ.get('VERIF_SEED', '1') or 1)
    prop = a.prop.upper()
    mod = importlib.import_module(f'props.{prop.lower()}')
    res = common.Result(prop, a.tier, seed)
    try:
        rc = mod.run(res, a)
    except common.BuildError as e:
        # /repo's current tree (or a harness against it) does not build: not a verdict about the property
        print(f'[check] build error: {e}', file=sys.stderr)
        sys.exit(2)
    sys.exit(rc)


if __name__ == '__main__':
    main()
