/*
 * Regression program for /repo 8c66acc (must print "encode_node: ..." and exit 0, clean under ASan/UBSan).
 * The same history runs first on every C15 check: corpus/c15/encoder-ota-literal-attr-node-run.json.
 *
 * Defect found by the C15 history harness (NOT a C15 violation: a single run on a new
 * encoder showed it).  NULL dereference in wbxml_encode_value_element_buffer(), src/wbxml_encoder.c:
 *
 *     case WBXML_LANG_OTA_SETTINGS:
 *         if ((encoder->current_attr->wbxmlCodePage == 0x00) && ...      <- current_attr is NULL
 *
 * The SI and EMN arms above it test `encoder->current_attr == NULL` first; the OTA arm does not.
 * current_attr is NULL for an attribute whose name is not in the table (encoded as LITERAL through
 * the string table).  set_tree + encode_tree_to_wbxml never gets there (encoder_encode_tree() switches
 * the string table off for OTA settings, so the literal attribute fails with String Table Disabled
 * first), and in flow mode the string table is off as well; the node API with the string table on
 * (the default of a new encoder) does:
 *
 *     wbxml_encoder_encode_node(enc, root)   /   wbxml_encoder_encode_tree(enc, tree)
 *
 * Build:  cc -I<build>/ -I/repo/src ota-literal-attr-null-deref.c <build>/src/libwbxml2.a -lexpat
 * Harness line (harness/hist.c, -DHIST_ENC):  HIST E Nw0l:0   with document 0 = the XML below.
 * Before the fix: UBSan wbxml_encoder.c:2086:41: runtime error: member access within null pointer of type
 * 'const WBXMLAttrEntry'; without sanitizer: SIGSEGV.
 */
#include <stdio.h>
#include <string.h>
#include "wbxml.h"
#include "wbxml_tree.h"
#include "wbxml_encoder.h"

static const char OTA[] =
    "<?xml version=\"1.0\"?>\n"
    "<!DOCTYPE CHARACTERISTIC-LIST SYSTEM \"/DTD/characteristic_list.xml\">\n"
    "<CHARACTERISTIC-LIST><CHARACTERISTIC TYPE=\"ADDRESS\" zzattr=\"v\"/></CHARACTERISTIC-LIST>\n";

int main(void)
{
    WBXMLTree *tree = NULL;
    WBXMLEncoder *enc;
    WBXMLError ret = wbxml_tree_from_xml((WB_UTINY *) OTA, (WB_ULONG) strlen(OTA), &tree);
    if (ret != WBXML_OK || tree == NULL) { printf("no tree: %s\n", (const char *) wbxml_errors_string(ret)); return 2; }
    enc = wbxml_encoder_create();
    wbxml_encoder_set_output_type(enc, WBXML_ENCODER_OUTPUT_WBXML);
    wbxml_encoder_set_lang(enc, WBXML_LANG_OTA_SETTINGS);
    ret = wbxml_encoder_encode_node(enc, tree->root);          /* crashed here before 8c66acc */
    printf("encode_node: %s\n", (const char *) wbxml_errors_string(ret));
    wbxml_encoder_destroy(enc);
    wbxml_tree_destroy(tree);
    return 0;
}
