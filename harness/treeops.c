/* TREE: one request line = one history of tree-API calls on one WBXMLTree (C18).
 *
 *   TREE <langid> <charset> <op> <op> ...
 *     ae,<par>,<name>                      wbxml_tree_add_elt
 *     aa,<par>,<name>,<attrs|->            wbxml_tree_add_elt_with_attrs     attrs = <aname>=<hex>+...
 *     ax,<par>,<hexname>                   wbxml_tree_add_xml_elt
 *     ay,<par>,<hexname>,<xattrs|->        wbxml_tree_add_xml_elt_with_attrs xattrs = <hexn>=<hexv>+...
 *     az,<par>,<hexname>,<xattrs|->,<hex>  wbxml_tree_add_xml_elt_with_attrs_and_text
 *     at,<par>,<hex>                       wbxml_tree_add_text
 *     ac,<par>                             wbxml_tree_add_cdata
 *     ar,<par>,<tree>                      wbxml_tree_add_tree (tree in the treeio.h grammar)
 *     an,<par>,<node>                      wbxml_tree_add_node (re-insertion of an extracted node)
 *     ex,<node>                            wbxml_tree_extract_node
 *     de,<node>                            wbxml_tree_node_destroy_all
 *   <par>/<node> = index of the op that returned the node, "-" = NULL. name/aname as in treeio.h.
 *
 * Response: one segment per op, joined by " / ":
 *     <ret>|<inv>|<adj>|<tree>|<detached>
 *   ret  = N (node returned) | 0 (NULL) | T | F | R<code> | V | SKIP (argument outside the
 *          contract: dead or NULL handle, parent that is no element/CDATA, node not detached,
 *          insertion below itself -- decided here by looking at the real memory and links)
 *   inv  = ok | BAD:<what>   (parent/children/prev/next walked on the real links)
 *   adj  = number of adjacent text sibling pairs in the forest
 *   tree = tio_print_tree;  detached = d<op>=<node>&... | -
 * then " // X <code> <hexxml|->"  (wbxml_tree_to_xml, default parameters; "X -" without element root)
 * then " ## W <code> <hex> ; T2 <same> X2 <same> W2 <same> ; leak=<0|1>[ ; P <code> x=<same> w=<same> ; pleak=<0|1>]"
 *   (the P part only for the verb TREEP; leak = LSan after teardown of the tree and of every detached sub-tree)
 *   T2 = a second tree rebuilt through the API in document order (same dump required),
 *   P  = wbxml_tree_from_xml of the XML bytes, re-encoded both ways and compared.
 */
#include "treeio.h"
#include "wbxml_conv.h"
#include <sanitizer/asan_interface.h>
#include <sanitizer/lsan_interface.h>
#include <unistd.h>

#define MAXOPS 512
#define MAXNODES 4096

static WBXMLTreeNode *H[MAXOPS];
static int nH;
static WBXMLTree *T;

static int alive(WBXMLTreeNode *n) { return n != NULL && !__asan_address_is_poisoned(n); }

/* ---------- link check on the real pointers ---------- */
static WBXMLTreeNode *seen[MAXNODES];
static int nseen;
static const char *bad;
static int adj;

static void walk(WBXMLTreeNode *n, int depth)
{
    WBXMLTreeNode *c, *pv = NULL;
    int i;
    if (bad) return;
    if (depth > 2000 || nseen >= MAXNODES) { bad = "too-deep-or-cyclic"; return; }
    for (i = 0; i < nseen; i++) if (seen[i] == n) { bad = "reached-twice"; return; }
    seen[nseen++] = n;
    if ((n->type == WBXML_TREE_TEXT_NODE || n->type == WBXML_TREE_TREE_NODE) && n->children) { bad = "leaf-with-children"; return; }
    for (c = n->children; c; pv = c, c = c->next) {
        if (!alive(c)) { bad = "child-freed"; return; }
        if (c->parent != n) { bad = "child-parent"; return; }
        if (c->prev != pv) { bad = "child-prev"; return; }
        if (pv && pv->type == WBXML_TREE_TEXT_NODE && c->type == WBXML_TREE_TEXT_NODE) adj++;
        walk(c, depth + 1);
        if (bad) return;
    }
}

static int is_detached(WBXMLTreeNode *n)
{
    return alive(n) && n->parent == NULL && n->next == NULL && n->prev == NULL && T->root != n;
}

static void check_links(void)
{
    int k, i;
    nseen = 0; bad = NULL; adj = 0;
    if (T->root) {
        if (!alive(T->root)) { bad = "root-freed"; return; }
        if (T->root->parent || T->root->prev || T->root->next) { bad = "root-links"; return; }
        walk(T->root, 0);
    }
    for (k = 0; k < nH && !bad; k++)
        if (alive(H[k]) && H[k]->parent == NULL && H[k] != T->root) {
            int dup = 0;
            for (i = 0; i < k; i++) if (H[i] == H[k]) dup = 1;
            if (dup) continue;
            if (H[k]->prev || H[k]->next) { bad = "detached-links"; return; }
            walk(H[k], 0);
        }
    for (k = 0; k < nH && !bad; k++)
        if (alive(H[k])) {
            int f = 0;
            for (i = 0; i < nseen; i++) if (seen[i] == H[k]) f = 1;
            if (!f) { bad = "unreachable"; return; }
        }
}

static int below(WBXMLTreeNode *node, WBXMLTreeNode *p, int depth)
{   /* is p strictly below node? */
    WBXMLTreeNode *c;
    if (depth > 2000) return 1;
    for (c = node->children; c; c = c->next) {
        if (c == p) return 1;
        if (below(c, p, depth + 1)) return 1;
    }
    return 0;
}

static void dump_state(const char *ret)
{
    int k, i, first = 1;
    check_links();
    printf("%s|%s%s|%d|", ret, bad ? "BAD:" : "ok", bad ? bad : "", adj);
    if (bad) { printf("?|?"); return; }
    tio_print_tree(stdout, T);
    putchar('|');
    for (k = 0; k < nH; k++)
        if (alive(H[k]) && H[k]->parent == NULL && H[k] != T->root) {
            int dup = 0;
            for (i = 0; i < k; i++) if (H[i] == H[k]) dup = 1;
            if (dup) continue;
            printf("%sd%d=", first ? "" : "&", k); first = 0;
            tio_print_node(stdout, H[k]);
        }
    if (first) putchar('-');
}

/* ---------- argument decoding ---------- */
static int split(char *s, char sep, char **out, int max)
{
    int n = 0;
    out[n++] = s;
    for (; *s; s++) if (*s == sep && n < max) { *s = 0; out[n++] = s + 1; }
    return n;
}

/* 0 = NULL handle, 1 = usable, -1 = not usable (dead, or refers to an op that returned no node) */
static int get_ref(const char *a, WBXMLTreeNode **out, int allow_null)
{
    int k;
    *out = NULL;
    if (!strcmp(a, "-")) return allow_null ? 0 : -1;
    k = atoi(a);
    if (k < 0 || k >= nH || H[k] == NULL || !alive(H[k])) return -1;
    *out = H[k];
    return 1;
}

static int parent_ok(const char *a, WBXMLTreeNode **out)
{
    int r = get_ref(a, out, 1);
    if (r < 0) return 0;
    if (r == 0) return 1;
    return (*out)->type == WBXML_TREE_ELEMENT_NODE || (*out)->type == WBXML_TREE_CDATA_NODE;
}

static WBXMLTag *mk_tag(const char *nm)
{
    size_t len;
    if (nm[0] == 't') {
        unsigned page, tok; char hexn[4096]; unsigned char *raw; const WBXMLTagEntry *row;
        if (sscanf(nm, "t.%u.%u.%4095s", &page, &tok, hexn) != 3) return NULL;
        raw = hx_unhex(hexn, &len); row = tio_tag_row(T->lang, page, tok, (char *)raw); free(raw);
        return row ? wbxml_tag_create_token(row) : NULL;
    } else {
        unsigned char *raw = hx_unhex(nm + 2, &len); WBXMLTag *t = wbxml_tag_create_literal(raw); free(raw); return t;
    }
}

static WBXMLAttribute *mk_attr(char *spec)
{   /* <aname>=<hex> */
    char *eq = strchr(spec, '='); size_t len; unsigned char *val; WBXMLAttribute *a;
    if (!eq) return NULL;
    *eq = 0;
    a = wbxml_attribute_create();
    if (spec[0] == 't') {
        unsigned page, tok; char *d1, *d2, *d3; unsigned char *rn, *rv = NULL; const WBXMLAttrEntry *row;
        d1 = strchr(spec + 2, '.'); d2 = d1 ? strchr(d1 + 1, '.') : NULL; d3 = d2 ? strchr(d2 + 1, '.') : NULL;
        if (!d3) { wbxml_attribute_destroy(a); return NULL; }
        page = atoi(spec + 2); tok = atoi(d1 + 1); *d3 = 0;
        rn = hx_unhex(d2 + 1, &len); if (strcmp(d3 + 1, "~")) rv = hx_unhex(d3 + 1, &len);
        row = tio_attr_row(T->lang, page, tok, (char *)rn, (char *)rv); free(rn); free(rv);
        if (!row) { wbxml_attribute_destroy(a); return NULL; }
        a->name = wbxml_attribute_name_create_token(row);
    } else { unsigned char *raw = hx_unhex(spec + 2, &len); a->name = wbxml_attribute_name_create_literal(raw); free(raw); }
    val = hx_unhex(eq + 1, &len);
    a->value = wbxml_buffer_create(val, (WB_ULONG)len, (WB_ULONG)(len ? len : 1));
    free(val);
    return a;
}

/* ---------- second history: the same shape rebuilt through the API in document order ---------- */
static WBXMLTree *dup_tree(WBXMLTree *t);

static int rebuild(WBXMLTree *t2, WBXMLTreeNode *par2, WBXMLTreeNode *n, WBXMLTreeNode *prev1)
{
    WBXMLTreeNode *c, *e = NULL, *pv = NULL;
    switch (n->type) {
    case WBXML_TREE_ELEMENT_NODE: {
        WBXMLAttribute **arr = NULL; WB_ULONG i, na = n->attrs ? wbxml_list_len(n->attrs) : 0;
        if (na) { arr = calloc(na + 1, sizeof *arr); for (i = 0; i < na; i++) arr[i] = wbxml_list_get(n->attrs, i); }
        e = wbxml_tree_add_elt_with_attrs(t2, par2, n->name, arr);
        free(arr);
        if (!e) return 0;
        if (n->attrs && !na) e->attrs = wbxml_list_create();   /* empty but non-NULL list */
        break; }
    case WBXML_TREE_TEXT_NODE:
        if (prev1 && prev1->type == WBXML_TREE_TEXT_NODE) {
            /* adjacent text siblings: only reachable with an extraction in between */
            WBXMLTag *tg = wbxml_tag_create_literal((WB_UTINY *)"x"); WBXMLTreeNode *d = wbxml_tree_add_elt(t2, par2, tg);
            wbxml_tag_destroy(tg);
            if (!d) return 0;
            e = wbxml_tree_add_text(t2, par2, wbxml_buffer_get_cstr(n->content), wbxml_buffer_len(n->content));
            wbxml_tree_extract_node(t2, d); wbxml_tree_node_destroy_all(d);
        } else
            e = wbxml_tree_add_text(t2, par2, wbxml_buffer_get_cstr(n->content), wbxml_buffer_len(n->content));
        return e != NULL;
    case WBXML_TREE_CDATA_NODE:
        e = wbxml_tree_add_cdata(t2, par2);
        if (!e) return 0;
        break;
    case WBXML_TREE_TREE_NODE: {
        WBXMLTree *nt = n->tree ? dup_tree(n->tree) : NULL;
        e = wbxml_tree_add_tree(t2, par2, nt);
        if (!e) { if (nt) wbxml_tree_destroy(nt); return 0; }
        return 1; }
    default:
        return 0;
    }
    for (c = n->children; c; pv = c, c = c->next) if (!rebuild(t2, e, c, pv)) return 0;
    return 1;
}

static WBXMLTree *dup_tree(WBXMLTree *t)
{
    WBXMLTree *t2 = wbxml_tree_create(t->lang ? t->lang->langID : WBXML_LANG_UNKNOWN, t->orig_charset);
    if (t->root && !rebuild(t2, NULL, t->root, NULL)) { wbxml_tree_destroy(t2); return NULL; }
    return t2;
}

static char *dump_str(WBXMLTree *t)
{
    char *buf = NULL; size_t sz = 0; FILE *m = open_memstream(&buf, &sz);
    tio_print_tree(m, t); fclose(m); return buf;
}

static int same(const WB_UTINY *a, WB_ULONG la, WBXMLError ra, const WB_UTINY *b, WB_ULONG lb, WBXMLError rb)
{
    if (ra != rb) return 0;
    if (ra != WBXML_OK) return 1;
    return la == lb && (la == 0 || !memcmp(a, b, la));
}

static WB_UTINY *x1, *w1;
static WB_ULONG lx1, lw1;
static WBXMLError rx1, rw1;

/* both encoders on the tree, and on a second tree rebuilt through the API */
static void final_report(void)
{
    WB_UTINY *x2 = NULL, *w2 = NULL;
    WB_ULONG lx2 = 0, lw2 = 0;
    WBXMLError rx2 = WBXML_OK, rw2 = WBXML_OK;
    WBXMLTree *t2;
    int t2same = 0;
    x1 = w1 = NULL; lx1 = lw1 = 0; rx1 = rw1 = WBXML_OK;
    if (!T->root || T->root->type != WBXML_TREE_ELEMENT_NODE || !T->lang) { printf(" // X - ## W - ; T2 -"); return; }
    /* the second tree is built BEFORE anything is encoded: wbxml_tree_to_wbxml edits the text nodes of
     * the tree it is given (blank stripping, CR before a lone LF in SyncML CDATA) */
    t2 = dup_tree(T);
    if (t2) {
        char *d2 = dump_str(t2); char *d1b = dump_str(T);
        t2same = !strcmp(d1b, d2);
        free(d2); free(d1b);
    }
    rx1 = wbxml_tree_to_xml(T, &x1, &lx1, NULL);
    printf(" // X %d ", (int)rx1);
    if (rx1 == WBXML_OK && x1) hx_out(stdout, x1, lx1); else putchar('-');
    rw1 = wbxml_tree_to_wbxml(T, &w1, &lw1, NULL);
    printf(" ## W %d ", (int)rw1);
    if (rw1 == WBXML_OK && w1) hx_out(stdout, w1, lw1); else putchar('-');
    if (t2) {
        rx2 = wbxml_tree_to_xml(t2, &x2, &lx2, NULL);
        rw2 = wbxml_tree_to_wbxml(t2, &w2, &lw2, NULL);
        printf(" ; T2 %d X2 %d W2 %d", t2same, same(x1, lx1, rx1, x2, lx2, rx2), same(w1, lw1, rw1, w2, lw2, rw2));
        wbxml_tree_destroy(t2);
    } else printf(" ; T2 - X2 - W2 -");
    if (x2) wbxml_free(x2); if (w2) wbxml_free(w2);
}

/* the same document parsed from its XML text, re-encoded both ways */
static void parse_back(void)
{
    WB_UTINY *x3 = NULL, *w3 = NULL;
    WB_ULONG lx3 = 0, lw3 = 0;
    WBXMLError rp, rx3 = WBXML_OK, rw3 = WBXML_OK;
    WBXMLTree *t3 = NULL;
    if (rx1 == WBXML_OK && x1 && lx1) {
        rp = wbxml_tree_from_xml(x1, lx1, &t3);
        if (rp == WBXML_OK && t3) {
            int xs, ws;
            rx3 = wbxml_tree_to_xml(t3, &x3, &lx3, NULL);
            rw3 = wbxml_tree_to_wbxml(t3, &w3, &lw3, NULL);
            xs = same(x1, lx1, rx1, x3, lx3, rx3); ws = same(w1, lw1, rw1, w3, lw3, rw3);
            printf(" ; P 0 x=%d w=%d", xs, ws);
            if (!xs) { printf(" x3=%d:", (int)rx3); if (x3) hx_out(stdout, x3, lx3); else putchar('-'); }
            if (!ws) { printf(" w3=%d:", (int)rw3); if (w3) hx_out(stdout, w3, lw3); else putchar('-'); }
            wbxml_tree_destroy(t3);
        } else printf(" ; P %d", (int)rp);
    } else printf(" ; P -");
    if (x3) wbxml_free(x3); if (w3) wbxml_free(w3);
}

static void run_op(char *op)
{
    char *f[8]; int nf = split(op, ',', f, 8);
    WBXMLTreeNode *par = NULL, *node = NULL, *r = NULL;
    const char *ret = "SKIP";
    int slot = nH++;
    H[slot] = NULL;
    if (!strcmp(f[0], "ae") && nf == 3) {
        if (parent_ok(f[1], &par)) {
            WBXMLTag *tg = mk_tag(f[2]);
            if (tg) { r = wbxml_tree_add_elt(T, par, tg); wbxml_tag_destroy(tg); ret = r ? "N" : "0"; } else ret = "BADOP";
        }
    } else if (!strcmp(f[0], "aa") && nf == 4) {
        if (parent_ok(f[1], &par)) {
            WBXMLTag *tg = mk_tag(f[2]); WBXMLAttribute *arr[65]; int na = 0, i, okk = tg != NULL;
            if (okk && strcmp(f[3], "-")) {
                char *parts[64]; int np = split(f[3], '+', parts, 64);
                for (i = 0; i < np && okk; i++) { arr[na] = mk_attr(parts[i]); if (arr[na]) na++; else okk = 0; }
            }
            arr[na] = NULL;
            if (okk) { r = wbxml_tree_add_elt_with_attrs(T, par, tg, arr); ret = r ? "N" : "0"; } else ret = "BADOP";
            for (i = 0; i < na; i++) wbxml_attribute_destroy(arr[i]);
            if (tg) wbxml_tag_destroy(tg);
        }
    } else if ((!strcmp(f[0], "ax") && nf == 3) || (!strcmp(f[0], "ay") && nf == 4) || (!strcmp(f[0], "az") && nf == 5)) {
        if (parent_ok(f[1], &par) && T->lang) {
            size_t len, tl = 0; unsigned char *nm = hx_unhex(f[2], &len), *txt = NULL;
            const WB_UTINY *av[130]; unsigned char *own[130]; int na = 0, i;
            if (nf >= 4 && strcmp(f[3], "-")) {
                char *parts[64]; int np = split(f[3], '+', parts, 64);
                for (i = 0; i < np; i++) {
                    char *eq = strchr(parts[i], '='); size_t l2;
                    if (!eq) continue;
                    *eq = 0;
                    own[na] = hx_unhex(parts[i], &l2); av[na] = own[na]; na++;
                    own[na] = hx_unhex(eq + 1, &l2); av[na] = own[na]; na++;
                }
            }
            av[na] = NULL;
            if (!strcmp(f[0], "ax")) r = wbxml_tree_add_xml_elt(T, par, nm);
            else if (!strcmp(f[0], "ay")) r = wbxml_tree_add_xml_elt_with_attrs(T, par, nm, na ? av : NULL);
            else { txt = hx_unhex(f[4], &tl); r = wbxml_tree_add_xml_elt_with_attrs_and_text(T, par, nm, na ? av : NULL, txt, (WB_ULONG)tl); free(txt); }
            for (i = 0; i < na; i++) free(own[i]);
            free(nm);
            ret = r ? "N" : "0";
        }
    } else if (!strcmp(f[0], "at") && nf == 3) {
        if (parent_ok(f[1], &par)) {
            size_t len; unsigned char *txt = hx_unhex(f[2], &len);
            r = wbxml_tree_add_text(T, par, txt, (WB_ULONG)len); free(txt); ret = r ? "N" : "0";
        }
    } else if (!strcmp(f[0], "ac") && nf == 2) {
        if (parent_ok(f[1], &par)) { r = wbxml_tree_add_cdata(T, par); ret = r ? "N" : "0"; }
    } else if (!strcmp(f[0], "ar") && nf == 3) {
        if (parent_ok(f[1], &par)) {
            WBXMLTree *nt = tio_read_tree(f[2]);
            if (!nt) ret = "BADOP";
            else { r = wbxml_tree_add_tree(T, par, nt); if (!r) wbxml_tree_destroy(nt); ret = r ? "N" : "0"; }
        }
    } else if (!strcmp(f[0], "an") && nf == 3) {
        if (parent_ok(f[1], &par) && get_ref(f[2], &node, 0) == 1 && is_detached(node) && par != node && !(par && below(node, par, 0)))
            ret = wbxml_tree_add_node(T, par, node) ? "T" : "F";
    } else if (!strcmp(f[0], "ex") && nf == 2) {
        if (get_ref(f[1], &node, 0) == 1) {
            static char rb[32]; snprintf(rb, sizeof rb, "R%d", (int)wbxml_tree_extract_node(T, node)); ret = rb;
        }
    } else if (!strcmp(f[0], "de") && nf == 2) {
        if (get_ref(f[1], &node, 0) == 1 && is_detached(node)) { wbxml_tree_node_destroy_all(node); ret = "V"; }
    } else ret = "BADOP";
    H[slot] = r;
    dump_state(ret);
}

int main(void)
{
    char *line;
    while ((line = hx_getline(stdin))) {
        char *save = NULL, *p = strtok_r(line, " ", &save);
        if (p && (!strcmp(p, "TREE") || !strcmp(p, "TREEP"))) {
            int want_parse = !strcmp(p, "TREEP"), lk, plk = 0;
            char *lang = strtok_r(NULL, " ", &save), *cs = strtok_r(NULL, " ", &save);
            int first = 1, k, i;
            if (!lang || !cs) { puts("BADARG"); free(line); continue; }
            T = wbxml_tree_create((WBXMLLanguage)atoi(lang), (WBXMLCharsetMIBEnum)atoi(cs));
            nH = 0;
            while ((p = strtok_r(NULL, " ", &save)) && nH < MAXOPS) {
                if (!first) fputs(" / ", stdout);
                first = 0;
                run_op(p);
                if (bad) break;
            }
            if (!bad) final_report(); else { x1 = w1 = NULL; printf(" // X - ## W - ; T2 -"); }
            /* teardown: every detached sub-tree, then the tree */
            if (!bad) {
                for (k = 0; k < nH; k++)
                    if (alive(H[k]) && H[k]->parent == NULL && H[k] != T->root) {
                        int dup = 0;
                        for (i = 0; i < k; i++) if (H[i] == H[k]) dup = 1;
                        if (!dup) { WBXMLTreeNode *n = H[k]; wbxml_tree_node_destroy_all(n); }
                    }
                wbxml_tree_destroy(T);
            }
            T = NULL;
            for (k = 0; k < MAXOPS; k++) H[k] = NULL;
            nseen = 0; memset(seen, 0, sizeof seen);
            if (bad) {
                /* the links are inconsistent: nothing can be torn down safely, and the rest of this process
                 * would only report the memory lost here */
                printf(" ; leak=-1\n"); fflush(stdout); _exit(77);
            }
            lk = __lsan_do_recoverable_leak_check();
            printf(" ; leak=%d", lk);
            if (want_parse && !bad) { parse_back(); plk = __lsan_do_recoverable_leak_check(); printf(" ; pleak=%d", plk); }
            putchar('\n');
            /* LSan keeps reporting a block once it is lost: start the next line in a fresh process */
            if (lk > 0 || plk > 0) { fflush(stdout); _exit(77); }
            if (x1) wbxml_free(x1); if (w1) wbxml_free(w1);
            x1 = w1 = NULL;
        } else puts("BADVERB");
        fflush(stdout);
        free(line);
    }
    return 0;
}
