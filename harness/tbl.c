/* Correspondence harness for the table look-ups: same line protocol as Driver/Tbl.lean. */
#include <stdio.h>
#include <stdlib.h>
#include <string.h>
#include "wbxml.h"
#include "wbxml_tables.h"

static unsigned char *unhex(const char *h, size_t *n)
{
    size_t l = strlen(h), i;
    unsigned char *o;
    if (strcmp(h, "-") == 0) { o = calloc(1, 1); *n = 0; return o; }
    o = calloc(l / 2 + 1, 1);
    for (i = 0; i + 1 < l; i += 2) { unsigned v; sscanf(h + i, "%2x", &v); o[i / 2] = (unsigned char)v; }
    *n = l / 2;
    return o;
}

static void hexout(const char *s) { for (; *s; s++) printf("%02x", (unsigned char)*s); }

int main(void)
{
    char line[1 << 16];
    while (fgets(line, sizeof line, stdin)) {
        char *tok[8]; int nt = 0; char *p = strtok(line, " \r\n");
        while (p && nt < 8) { tok[nt++] = p; p = strtok(NULL, " \r\n"); }
        if (nt < 2 || strcmp(tok[0], "TBL")) { puts(nt ? "BADVERB" : ""); continue; }
        {
            const WBXMLLangEntry *l = nt > 2 ? wbxml_tables_get_table((WBXMLLanguage)atoi(tok[2])) : NULL;
            size_t n, m;
            if (!l) { puts("BADARG"); continue; }
            if (!strcmp(tok[1], "TAGENC") && nt == 5) {
                unsigned char *name = unhex(tok[4], &n);
                const WBXMLTagEntry *r = wbxml_tables_get_tag_from_xml(l, atoi(tok[3]), name);
                if (r) { printf("ROW %u %u ", r->wbxmlCodePage, r->wbxmlToken); hexout(r->xmlName); puts(""); } else puts("NONE");
                free(name);
            } else if (!strcmp(tok[1], "ATTRENC") && nt == 5) {
                unsigned char *name = unhex(tok[3], &n), *val = unhex(tok[4], &m), *left = NULL;
                const WBXMLAttrEntry *r = wbxml_tables_get_attr_from_xml(l, name, val, &left);
                if (r) printf("ROW %u %u %lu\n", r->wbxmlCodePage, r->wbxmlToken, (unsigned long)(left ? (size_t)(left - val) : m)); else puts("NONE");
                free(name); free(val);
            } else if (!strcmp(tok[1], "EXTENC") && nt == 4) {
                unsigned char *name = unhex(tok[3], &n);
                const WBXMLExtValueEntry *r = wbxml_tables_get_ext_from_xml(l, name);
                if (r) printf("ROW %u\n", r->wbxmlToken); else puts("NONE");
                free(name);
            } else if (!strcmp(tok[1], "NSPAGE") && nt == 4) {
                unsigned char *name = unhex(tok[3], &n);
                printf("PAGE %u\n", wbxml_tables_get_code_page(l->nsTable, (const WB_TINY *)name));
                free(name);
            } else if (!strcmp(tok[1], "PAGENS") && nt == 4) {
                const WB_TINY *ns = wbxml_tables_get_xmlns(l->nsTable, (WB_UTINY)atoi(tok[3]));
                if (ns) { printf("NS "); hexout(ns); puts(""); } else puts("NONE");
            } else puts("BADVERB");
        }
    }
    return 0;
}
