/* C20 helper harness: the pieces of the command-line tools that can be reached in-process, and the
 * library's own verdict for a (parameter block, input) pair.
 *
 *   TOOL ATOI <hex>                         -> OK <atoi(s)> <(WB_UTINY)(WB_TINY)atoi(s)>
 *   TOOL NAME LANG|CHARSET|VERSION <hex>    -> OK <id>          (static get_lang/get_charset/get_version)
 *   TOOL GETOPT att <optshex> <argv>        -> OK optind=.. argv=.. evs=..   (wbxml_getopt of attgetopt.c)
 *   TOOL LIB w2x <gen> <lang> <charset> <indent> <keep> <hex>   -> OK <hex> | ERR <code> <msghex>
 *   TOOL LIB x2w <version> <keep> <strtbl> <anon> <hex>         -> OK <hex> | ERR <code> <msghex>
 *
 * Hex payloads are lowercase, "-" is the empty string, argv is comma separated ("_" = no element).
 */
#define _GNU_SOURCE
#include <stdio.h>
#include <stdlib.h>
#include <string.h>

/* the AT&T getopt of the tools, before tools/getopt.h can rename it */
#include "../tools/attgetopt.c"

#define main w2x_tool_main
#define help w2x_tool_help
#include "../tools/wbxml2xml_tool.c"
#undef main
#undef help
#undef INPUT_BUFFER_SIZE
#define main x2w_tool_main
#define help x2w_tool_help
#include "../tools/xml2wbxml_tool.c"
#undef main
#undef help
#ifdef wbxml_getopt
#undef wbxml_getopt
#endif

static char *unhex(const char *s, size_t *len)
{
    size_t n, i;
    char *b;
    if (strcmp(s, "-") == 0) { *len = 0; b = malloc(1); b[0] = 0; return b; }
    n = strlen(s) / 2;
    b = malloc(n + 1);
    for (i = 0; i < n; i++) { unsigned v; sscanf(s + 2 * i, "%2x", &v); b[i] = (char)v; }
    b[n] = 0; *len = n; return b;
}

static void puthex(const unsigned char *b, size_t n)
{
    size_t i;
    if (n == 0) { putchar('-'); return; }
    for (i = 0; i < n; i++) printf("%02x", b[i]);
}

static void do_getopt(char *opts_hex, char *argv_spec)
{
    size_t ol, l;
    char *opts = unhex(opts_hex, &ol);
    char *argv[4096];
    int argc = 0, c, first = 1, i;
    if (strcmp(argv_spec, "_") != 0) {
        char *save = NULL, *t;
        for (t = strtok_r(argv_spec, ",", &save); t && argc < 4095; t = strtok_r(NULL, ",", &save))
            argv[argc++] = unhex(t, &l);
    }
    argv[argc] = NULL;
    optind = 1; optarg = NULL;
    {
        /* events are collected first (stderr is captured per call), then printed */
        char *evbuf = NULL; size_t evlen = 0;
        FILE *ev = open_memstream(&evbuf, &evlen);
        for (;;) {
            char *ebuf = NULL; size_t elen = 0;
            FILE *saved = stderr, *cap = open_memstream(&ebuf, &elen);
            stderr = cap;
            c = wbxml_getopt(argc, argv, opts);
            stderr = saved;
            fclose(cap);
            if (c == EOF) { free(ebuf); break; }
            fprintf(ev, "%s%d:", first ? "" : ";", c & 0xff);
            first = 0;
            if (optarg && elen == 0) {   /* after an error return optarg is stale and main never looks at it */
                size_t k, n = strlen(optarg);
                fputc('S', ev);
                if (n == 0) fputc('-', ev);
                for (k = 0; k < n; k++) fprintf(ev, "%02x", (unsigned char)optarg[k]);
            } else fputc('N', ev);
            fputc(':', ev);
            if (elen == 0) fputc('_', ev);
            else {
                /* one or more lines, each ended by a new line */
                size_t k, start = 0; int firstl = 1;
                for (k = 0; k < elen; k++) if (ebuf[k] == '\n') {
                    size_t j;
                    if (!firstl) fputc('+', ev);
                    firstl = 0;
                    if (k == start) fputc('-', ev);
                    for (j = start; j < k; j++) fprintf(ev, "%02x", (unsigned char)ebuf[j]);
                    start = k + 1;
                }
            }
            free(ebuf);
        }
        fclose(ev);
        printf("OK optind=%d argv=", optind);
        if (argc == 0) putchar('_');
        for (i = 0; i < argc; i++) { if (i) putchar(','); puthex((unsigned char *)argv[i], strlen(argv[i])); }
        printf(" evs=%s\n", evlen ? evbuf : "_");
        free(evbuf);
    }
    /* argv is not permuted by attgetopt, so the pointers are still ours */
    for (i = 0; i < argc; i++) free(argv[i]);
    free(opts);
}

int main(void)
{
    char *line = NULL; size_t cap = 0; ssize_t n;
    while ((n = getline(&line, &cap, stdin)) > 0) {
        char *tok[16]; int nt = 0; char *save = NULL, *t;
        for (t = strtok_r(line, " \r\n", &save); t && nt < 16; t = strtok_r(NULL, " \r\n", &save)) tok[nt++] = t;
        if (nt < 2 || strcmp(tok[0], "TOOL") != 0) { puts("BADVERB"); continue; }
        if (strcmp(tok[1], "ATOI") == 0 && nt == 3) {
            size_t l; char *s = unhex(tok[2], &l);
            int a = atoi((const WB_TINY *)s);
            WB_UTINY u = (WB_UTINY)(WB_TINY)atoi((const WB_TINY *)s);
            printf("OK %d %u\n", a, (unsigned)u);
            free(s);
        } else if (strcmp(tok[1], "NAME") == 0 && nt == 4) {
            size_t l; char *s = unhex(tok[3], &l);
            if (strcmp(tok[2], "LANG") == 0) printf("OK %d\n", (int)get_lang(s));
            else if (strcmp(tok[2], "CHARSET") == 0) printf("OK %d\n", (int)get_charset(s));
            else if (strcmp(tok[2], "VERSION") == 0) printf("OK %d\n", (int)get_version(s));
            else puts("BADARG");
            free(s);
        } else if (strcmp(tok[1], "GETOPT") == 0 && nt == 5 && strcmp(tok[2], "att") == 0) {
            do_getopt(tok[3], tok[4]);
        } else if (strcmp(tok[1], "LIB") == 0 && nt >= 3) {
            WBXMLError ret; WB_UTINY *out = NULL; WB_ULONG out_len = 0; size_t l; char *in;
            if (strcmp(tok[2], "w2x") == 0 && nt == 9) {
                WBXMLGenXMLParams p;
                p.gen_type = (WBXMLGenXMLType)atoi(tok[3]);
                p.lang = (WBXMLLanguage)atoi(tok[4]);
                p.charset = (WBXMLCharsetMIBEnum)atoi(tok[5]);
                p.indent = (WB_UTINY)atoi(tok[6]);
                p.keep_ignorable_ws = atoi(tok[7]) ? TRUE : FALSE;
                in = unhex(tok[8], &l);
                ret = wbxml_conv_wbxml2xml_withlen((WB_UTINY *)in, (WB_ULONG)l, &out, &out_len, &p);
            } else if (strcmp(tok[2], "x2w") == 0 && nt == 8) {
                WBXMLGenWBXMLParams p;
                p.wbxml_version = (WBXMLVersion)atoi(tok[3]);
                p.keep_ignorable_ws = atoi(tok[4]) ? TRUE : FALSE;
                p.use_strtbl = atoi(tok[5]) ? TRUE : FALSE;
                p.produce_anonymous = atoi(tok[6]) ? TRUE : FALSE;
                in = unhex(tok[7], &l);
                ret = wbxml_conv_xml2wbxml_withlen((WB_UTINY *)in, (WB_ULONG)l, &out, &out_len, &p);
            } else { puts("BADARG"); continue; }
            if (ret == WBXML_OK) { printf("OK "); puthex(out, out_len); putchar('\n'); }
            else {
                const WB_UTINY *m = wbxml_errors_string(ret);
                printf("ERR %d ", (int)ret); puthex(m, strlen((const char *)m)); putchar('\n');
            }
            if (out) free(out);
            free(in);
        } else puts("BADVERB");
        fflush(stdout);
    }
    free(line);
    return 0;
}
