/* X2W correspondence: the real XML -> WBXML conversion through the converter object.
 * Request:  X2W <version 0-3> <keepws> <use_strtbl> <anonymous> <hexxml> [ignored…]
 *           X2WN <mode> <hexxml>     mode 0: legacy entry point with params == NULL
 * Response: R <code> ; <hex wbxml>   (+ " CONTRACT:<what>" when the output contract is broken)
 */
#include "hx.h"
#include <sys/mman.h>
#include <unistd.h>
#include "wbxml.h"
#include "wbxml_conv.h"

int main(void)
{
    char *line;
    long pg = sysconf(_SC_PAGESIZE);
    while ((line = hx_getline(stdin))) {
        char *t[8]; int nt = 0; char *p = strtok(line, " ");
        while (p && nt < 8) { t[nt++] = p; p = strtok(NULL, " "); }
        if (nt >= 3 && !strcmp(t[0], "X2WN")) {
            size_t n; unsigned char *doc = hx_unhex(t[2], &n);
            WB_UTINY *out = NULL; WB_ULONG len = 0;
            WBXMLError ret = n ? wbxml_conv_xml2wbxml_withlen(doc, (WB_ULONG)n, &out, &len, NULL) : WBXML_ERROR_BAD_PARAMETER;
            printf("R %d ; ", (int)ret);
            if (ret == WBXML_OK && out) hx_out(stdout, out, len);
            printf("%s\n", (ret != WBXML_OK && (out != NULL || len != 0)) ? " CONTRACT:error-with-output" : "");
            if (out) wbxml_free(out);
            free(doc); free(line); continue;
        }
        if (nt < 6 || strcmp(t[0], "X2W")) { puts("BADVERB"); free(line); continue; }
        {
            size_t n; unsigned char *doc = hx_unhex(t[5], &n);
            size_t maplen = ((n ? n : 1) + pg - 1) / pg * pg;
            unsigned char *ro = mmap(NULL, maplen, PROT_READ | PROT_WRITE, MAP_PRIVATE | MAP_ANONYMOUS, -1, 0);
            WBXMLConvXML2WBXML *conv = NULL;
            WB_UTINY *out = (WB_UTINY *)0x1; WB_ULONG len = 12345;
            WBXMLError ret;
            const char *contract = "";
            memcpy(ro, doc, n);
            /* NB: libwbxml's XML tree builder temporarily writes into the element names Expat hands it,
             * not into the caller's buffer; the caller's input stays read-only here. */
            mprotect(ro, maplen, PROT_READ);
            wbxml_conv_xml2wbxml_create(&conv);
            wbxml_conv_xml2wbxml_set_version(conv, (WBXMLVersion)atoi(t[1]));
            if (atoi(t[2])) wbxml_conv_xml2wbxml_enable_preserve_whitespaces(conv);
            if (!atoi(t[3])) wbxml_conv_xml2wbxml_disable_string_table(conv);
            if (atoi(t[4])) wbxml_conv_xml2wbxml_disable_public_id(conv);
            ret = wbxml_conv_xml2wbxml_run(conv, ro, (WB_ULONG)n, &out, &len);
            if (n == 0) { if (ret == WBXML_OK) contract = " CONTRACT:ok-on-empty"; out = NULL; len = 0; }
            if (ret != WBXML_OK && (out != NULL || len != 0)) contract = " CONTRACT:error-with-output";
            if (ret == WBXML_OK && out == NULL) contract = " CONTRACT:ok-without-output";
            printf("R %d ; ", (int)ret);
            if (ret == WBXML_OK && out) hx_out(stdout, out, len);
            printf("%s\n", contract);
            if (out) wbxml_free(out);
            wbxml_conv_xml2wbxml_destroy(conv);
            munmap(ro, maplen);
            free(doc);
        }
        free(line);
    }
    return 0;
}
