/* C16 harness — "running out of memory yields a clean error, never a crash or a leak".
 *
 * Linked against the objects of the scratch static library EXCEPT wbxml_mem.o (the allocator is
 * oom_alloc.c: failure schedule + live-block ledger) and EXCEPT wbxml_parser.o / wbxml_encoder.o,
 * whose sources are included below so that the hand-unwound static functions the property names
 * can be driven directly (same technique as /repo/test/api/ *_internals.c).
 *
 * Modes
 *   oom unit                      line protocol on stdin/stdout (verb OOM, see below)
 *   oom conv <w2x|x2w> <file> <optset> <single|pairs> [maxpairs]
 *                                 the k-loop of the conversion-level oracle for one document
 */
#include "hx.h"
#include <unistd.h>
#include <signal.h>
#include <sys/mman.h>
#include <sys/wait.h>
#include <sys/stat.h>
#include <fcntl.h>
#include <errno.h>

#include <expat.h>
#include "oom_alloc.c"

#include "wbxml_parser.c"
#define parse_attribute enc_parse_attribute
#define parse_element   enc_parse_element
#define parse_pi        enc_parse_pi
#include "wbxml_encoder.c"
#undef parse_attribute
#undef parse_element
#undef parse_pi

#include "wbxml_conv.h"

/* ------------------------------------------------------------------ conversion level */

typedef struct { int gen, lang, charset, indent, keepws; } W2XOpt;
typedef struct { int version, keepws, nostrtbl, anonymous; } X2WOpt;

static const W2XOpt w2x_opts[] = {
    { WBXML_GEN_XML_INDENT,    0, 0, 0, 0 },   /* 0: library defaults */
    { WBXML_GEN_XML_COMPACT,   0, 0, 0, 0 },   /* 1 */
    { WBXML_GEN_XML_CANONICAL, 0, 0, 0, 0 },   /* 2 */
    { WBXML_GEN_XML_INDENT,    0, 0, 2, 1 },   /* 3: indent 2, keep white space */
    { WBXML_GEN_XML_COMPACT,   0, WBXML_CHARSET_UTF_8, 0, 1 },  /* 4: meta charset given */
    { WBXML_GEN_XML_INDENT,    0, 0, 4, 0 },   /* 5 */
};
static const X2WOpt x2w_opts[] = {
    { WBXML_VERSION_13, 0, 0, 0 },   /* 0: library defaults */
    { WBXML_VERSION_13, 0, 1, 0 },   /* 1: no string table */
    { WBXML_VERSION_11, 1, 0, 0 },   /* 2: WBXML 1.1, keep white space */
    { WBXML_VERSION_12, 0, 0, 1 },   /* 3: anonymous */
    { WBXML_VERSION_10, 1, 1, 0 },   /* 4 */
    { WBXML_VERSION_13, 1, 0, 1 },   /* 5 */
};
#define N_OPTS 6

typedef struct {
    WBXMLError ret;
    WB_UTINY *out;
    WB_ULONG len;
    int created;
} ConvRes;

/* The whole conversion as an application performs it: create the converter, set the options,
 * run, destroy the converter.  Every allocation request in between is in the failure window. */
static ConvRes do_conv(int dir, int optset, unsigned char *doc, size_t n)
{
    ConvRes r; r.ret = WBXML_OK; r.out = NULL; r.len = 0; r.created = 0;
    if (dir == 0) {
        const W2XOpt *o = &w2x_opts[optset];
        WBXMLConvWBXML2XML *conv = NULL;
        r.ret = wbxml_conv_wbxml2xml_create(&conv);
        if (r.ret != WBXML_OK || conv == NULL) { if (r.ret == WBXML_OK) r.ret = WBXML_ERROR_INTERNAL; return r; }
        r.created = 1;
        wbxml_conv_wbxml2xml_set_gen_type(conv, (WBXMLGenXMLType)o->gen);
        if (o->lang) wbxml_conv_wbxml2xml_set_language(conv, (WBXMLLanguage)o->lang);
        if (o->charset) wbxml_conv_wbxml2xml_set_charset(conv, (WBXMLCharsetMIBEnum)o->charset);
        wbxml_conv_wbxml2xml_set_indent(conv, (WB_UTINY)o->indent);
        if (o->keepws) wbxml_conv_wbxml2xml_enable_preserve_whitespaces(conv);
        r.ret = wbxml_conv_wbxml2xml_run(conv, doc, (WB_ULONG)n, &r.out, &r.len);
        wbxml_conv_wbxml2xml_destroy(conv);
    } else {
        const X2WOpt *o = &x2w_opts[optset];
        WBXMLConvXML2WBXML *conv = NULL;
        r.ret = wbxml_conv_xml2wbxml_create(&conv);
        if (r.ret != WBXML_OK || conv == NULL) { if (r.ret == WBXML_OK) r.ret = WBXML_ERROR_INTERNAL; return r; }
        r.created = 1;
        wbxml_conv_xml2wbxml_set_version(conv, (WBXMLVersion)o->version);
        if (o->keepws) wbxml_conv_xml2wbxml_enable_preserve_whitespaces(conv);
        if (o->nostrtbl) wbxml_conv_xml2wbxml_disable_string_table(conv);
        if (o->anonymous) wbxml_conv_xml2wbxml_disable_public_id(conv);
        r.ret = wbxml_conv_xml2wbxml_run(conv, doc, (WB_ULONG)n, &r.out, &r.len);
        wbxml_conv_xml2wbxml_destroy(conv);
    }
    return r;
}

/* progress page shared between the parent and the forked worker */
typedef struct {
    volatile unsigned long cur_k1, cur_k2;   /* run in progress */
    volatile unsigned long done_runs;
    volatile int finished;
    volatile unsigned long hits;
    uintptr_t failpc[2][OOM_NPC];            /* stacks of the failures delivered in the run in progress */
    volatile unsigned long base_n;
    volatile int base_ret;
    volatile unsigned long base_len;
    volatile unsigned long n_err, n_oksame, n_okequiv, n_anom, n_unreached;
} Shared;

static Shared *sh;
static unsigned char *base_out; static unsigned long base_len; static int base_ret;

static void print_blocks(FILE *f)
{
    OomBlk *bl[8]; int n = oom_live_list(bl, 8), i;
    for (i = 0; i < n; i++) { fprintf(f, " blk=req%lu/%zu@", bl[i]->req, bl[i]->size); oom_print_pcs(f, bl[i]->pc); }
}

/* "Still a correct result" for an inessential allocation: a WBXML result that differs from the
 * un-failed one (e.g. fewer strings moved to the string table) is accepted when both decode, with
 * no failure scheduled, to the same canonical XML. */
static unsigned char *base_xml; static unsigned long base_xml_len; static int base_xml_ret = -1;

static int doc_lang;   /* language of the XML input (x2w), forced when decoding: anonymous results carry no public id */

static int decode_canon(unsigned char *w, unsigned long n, unsigned char **xml, unsigned long *len)
{
    ConvRes r; WBXMLConvWBXML2XML *conv = NULL;
    r.ret = WBXML_ERROR_INTERNAL; r.out = NULL; r.len = 0;
    if (wbxml_conv_wbxml2xml_create(&conv) == WBXML_OK) {
        wbxml_conv_wbxml2xml_set_gen_type(conv, WBXML_GEN_XML_CANONICAL);
        if (doc_lang) wbxml_conv_wbxml2xml_set_language(conv, (WBXMLLanguage)doc_lang);
        r.ret = wbxml_conv_wbxml2xml_run(conv, w, (WB_ULONG)n, &r.out, &r.len);
        wbxml_conv_wbxml2xml_destroy(conv);
    }
    *xml = NULL; *len = 0;
    if (r.ret == WBXML_OK && r.out) { *xml = malloc(r.len + 1); memcpy(*xml, r.out, r.len); *len = r.len; }
    if (r.out) wbxml_free(r.out);
    return (int)r.ret;
}

static int equivalent_wbxml(unsigned char *out, unsigned long len)
{
    unsigned char *x = NULL; unsigned long xl = 0; int rr, eq;
    if (base_xml_ret < 0) base_xml_ret = decode_canon(base_out, base_len, &base_xml, &base_xml_len);
    rr = decode_canon(out, len, &x, &xl);
    eq = (rr == WBXML_OK && base_xml_ret == WBXML_OK && xl == base_xml_len && memcmp(x, base_xml, xl) == 0);
    free(x);
    return eq;
}

/* one run with the given schedule; prints a K line when the oracle fails; returns requests made */
static unsigned long one_run(int dir, int optset, unsigned char *doc, size_t n, unsigned long k1, unsigned long k2)
{
    ConvRes r;
    unsigned long req, hits;
    char cls[128]; int equiv = 0; cls[0] = 0;
    sh->cur_k1 = k1; sh->cur_k2 = k2; sh->hits = 0;
    memset((void *)sh->failpc, 0, sizeof(sh->failpc));
    oom_window(k1, k2);
    r = do_conv(dir, optset, doc, n);
    oom_stop();
    req = oom.req; hits = oom.hits;
    if (hits == 0 && (k1 || k2)) { sh->n_unreached++; }
    if (oom.fault != OOM_F_NONE) { strcat(cls, "+FAULT:"); strcat(cls, oom_fault_name[oom.fault]); }
    if (r.ret != WBXML_OK) {
        if (r.out != NULL || r.len != 0) strcat(cls, "+ERR_OUT");
        if (oom.live_blocks != 0) strcat(cls, "+LEAK");
        if (hits == 0 && base_ret == WBXML_OK) strcat(cls, "+ERR_NOHIT");
    } else {
        if (base_ret != WBXML_OK) strcat(cls, "+OK_BUT_BASE_ERR");
        else if (r.len != base_len || (r.len && (r.out == NULL || memcmp(r.out, base_out, r.len) != 0))) {
            unsigned long lb = oom.live_blocks; int flt = oom.fault;
            if (dir == 1 && r.out && hits > 0 && equivalent_wbxml(r.out, r.len)) equiv = 1;
            else strcat(cls, "+OK_DIFF");
            if (oom.live_blocks != lb && !flt) strcat(cls, "+ORACLE_LEAK");
        }
        if (oom.live_blocks != (r.out ? 1u : 0u)) strcat(cls, "+LEAK");
    }
    if (cls[0]) {
        sh->n_anom++;
        printf("K %lu %lu %s ret=%d req=%lu hits=%lu live=%lu bytes=%zu faults=%lu", k1, k2, cls + 1, (int)r.ret, req, hits,
               oom.live_blocks - ((r.ret == WBXML_OK && r.out) ? 1 : 0), oom.live_bytes - ((r.ret == WBXML_OK && r.out) ? 0 : 0), oom.nfaults);
        printf(" fail1="); oom_print_pcs(stdout, oom.failpc[0]);
        if (k2) { printf(" fail2="); oom_print_pcs(stdout, oom.failpc[1]); }
        if (oom.fault != OOM_F_NONE) { printf(" faultpc="); oom_print_pcs(stdout, oom.faultpc); }
        if (strstr(cls, "LEAK")) {
            /* do not list the returned output among the leaked blocks */
            if (r.ret == WBXML_OK && r.out) { wbxml_free(r.out); r.out = NULL; }
            print_blocks(stdout);
        }
        if (strstr(cls, "OK_DIFF") && r.out) { printf(" out="); hx_out(stdout, r.out, r.len > 4096 ? 4096 : r.len); }
        printf("\n");
        fflush(stdout);
    } else if (r.ret != WBXML_OK) sh->n_err++;
    else if (equiv) sh->n_okequiv++;
    else sh->n_oksame++;
    if (r.out && oom_find(r.out) && oom_find(r.out)->live) wbxml_free(r.out);
    oom_reset();
    sh->done_runs++;
    return req;
}

/* mirror the failure stacks into the shared page so the parent can name the site after a crash */
static void publish_fail(void)
{
    memcpy((void *)sh->failpc, oom.failpc, sizeof(sh->failpc)); sh->hits = oom.hits;
}

static unsigned char *read_file(const char *path, size_t *n)
{
    FILE *f = fopen(path, "rb"); unsigned char *b; long sz;
    if (!f) return NULL;
    fseek(f, 0, SEEK_END); sz = ftell(f); fseek(f, 0, SEEK_SET);
    b = malloc(sz + 1); *n = fread(b, 1, sz, f); b[*n] = 0; fclose(f);
    return b;
}

static void dump_stderr_tail(int fd, const char *tag)
{
    /* re-emit the sanitizer report of the dead worker on stdout, one line, for the checker */
    char buf[16384]; ssize_t n; off_t sz = lseek(fd, 0, SEEK_END);
    off_t start = 0; (void)start;
    lseek(fd, 0, SEEK_SET);
    n = read(fd, buf, sizeof(buf) - 1);
    if (n < 0) n = 0;
    buf[n] = 0; (void)sz;
    printf(" %s=", tag);
    hx_out(stdout, (unsigned char *)buf, (size_t)n);
}

static int conv_main(int argc, char **argv)
{
    int dir, optset, pairs; size_t n; unsigned char *doc;
    unsigned long maxruns = 0, start_k1 = 1, start_k2 = 0, restarts = 0, crashes = 0;
    if (argc < 6) { fprintf(stderr, "usage: oom conv <w2x|x2w> <file> <optset> <single|pairs> [maxruns]\n"); return 2; }
    dir = strcmp(argv[2], "x2w") == 0;
    optset = atoi(argv[4]) % N_OPTS;
    pairs = strcmp(argv[5], "pairs") == 0;
    if (argc > 6) maxruns = strtoul(argv[6], NULL, 10);
    doc = read_file(argv[3], &n);
    if (!doc) { printf("NOFILE %s\n", argv[3]); return 2; }
    oom_on_fail = publish_fail;
    sh = mmap(NULL, sizeof(Shared), PROT_READ | PROT_WRITE, MAP_SHARED | MAP_ANONYMOUS, -1, 0);
    memset(sh, 0, sizeof(*sh));
    setvbuf(stdout, NULL, _IOLBF, 0);

    /* worker loop: (re)started after every crash at the run following the one that died */
    for (;;) {
        char tmpl[] = "/tmp/oomerrXXXXXX"; int efd = mkstemp(tmpl); pid_t pid; int st;
        unlink(tmpl);
        fflush(stdout);
        pid = fork();
        if (pid == 0) {
            unsigned long k1, k2, N, runs = 0;
            ConvRes b;
            dup2(efd, 2);
            if (dir == 1) {
                WBXMLTree *t = NULL;
                if (wbxml_tree_from_xml(doc, (WB_ULONG)n, &t) == WBXML_OK && t) { if (t->lang) doc_lang = (int)t->lang->langID; wbxml_tree_destroy(t); }
                oom_reset();
            }
            /* the un-failed run: request count and reference output */
            sh->cur_k1 = 0; sh->cur_k2 = 0;
            oom_window(0, 0);
            b = do_conv(dir, optset, doc, n);
            oom_stop();
            N = oom.req;
            base_ret = b.ret; base_len = b.len; base_out = NULL;
            if (b.out) { base_out = malloc(b.len + 1); memcpy(base_out, b.out, b.len); wbxml_free(b.out); }
            if (restarts == 0) {
                sh->base_n = N; sh->base_ret = b.ret; sh->base_len = b.len;
                printf("BASE N=%lu ret=%d len=%lu live=%lu fault=%s maxlive=%lu\n", N, (int)b.ret, (unsigned long)b.len,
                       oom.live_blocks, oom_fault_name[oom.fault], oom.max_live);
                if (oom.live_blocks || oom.fault) { printf("K 0 0 %s%s ret=%d req=%lu hits=0 live=%lu bytes=%zu faults=%lu fail1=-",
                        oom.fault ? "FAULT:" : "LEAK", oom.fault ? oom_fault_name[oom.fault] : "", (int)b.ret, N, oom.live_blocks, oom.live_bytes, oom.nfaults);
                    if (oom.fault) { printf(" faultpc="); oom_print_pcs(stdout, oom.faultpc); }
                    print_blocks(stdout); printf("\n"); }
            }
            oom_reset();
            for (k1 = start_k1; k1 <= N; k1++) {
                unsigned long n1;
                if (!(pairs && k1 == start_k1 && start_k2)) {
                    n1 = one_run(dir, optset, doc, n, k1, 0);
                    runs++;
                } else {
                    /* restarted in the middle of the pairs of k1: recount its requests */
                    oom_window(k1, 0); { ConvRes t = do_conv(dir, optset, doc, n); oom_stop(); n1 = oom.req; if (t.out && oom_find(t.out)) wbxml_free(t.out); } oom_reset();
                }
                if (pairs) {
                    for (k2 = (k1 == start_k1 && start_k2) ? start_k2 : k1 + 1; k2 <= n1; k2++) {
                        one_run(dir, optset, doc, n, k1, k2);
                        runs++;
                        if (maxruns && sh->done_runs >= maxruns) break;
                    }
                }
                if (maxruns && sh->done_runs >= maxruns) break;
            }
            sh->finished = 1;
            fflush(stdout);
            free(base_out);
            exit(0);   /* LSan runs here */
        }
        waitpid(pid, &st, 0);
        if (sh->finished && WIFEXITED(st) && WEXITSTATUS(st) == 0) { close(efd); break; }
        if (sh->finished) {
            /* every run completed, the exit-time leak check (or an exit handler) complained */
            printf("LSAN status=%d", st); dump_stderr_tail(efd, "report"); printf("\n");
            close(efd);
            break;
        }
        /* the worker died inside run (cur_k1, cur_k2) */
        crashes++;
        printf("CRASH %lu %lu status=%d sig=%d hits=%lu", sh->cur_k1, sh->cur_k2, WIFEXITED(st) ? WEXITSTATUS(st) : -1,
               WIFSIGNALED(st) ? WTERMSIG(st) : 0, sh->hits);
        printf(" fail1="); oom_print_pcs(stdout, (const uintptr_t *)sh->failpc[0]);
        if (sh->cur_k2) { printf(" fail2="); oom_print_pcs(stdout, (const uintptr_t *)sh->failpc[1]); }
        dump_stderr_tail(efd, "report");
        printf("\n");
        close(efd);
        sh->n_anom++; sh->done_runs++;
        if (sh->cur_k1 == 0) { printf("BASECRASH\n"); break; }
        restarts++;
        if (pairs && sh->cur_k2) { start_k1 = sh->cur_k1; start_k2 = sh->cur_k2 + 1; }
        else if (pairs) { start_k1 = sh->cur_k1; start_k2 = sh->cur_k1 + 1; /* k1 alone crashed: its pairs cannot be reached */ start_k1 = sh->cur_k1 + 1; start_k2 = 0; }
        else { start_k1 = sh->cur_k1 + 1; start_k2 = 0; }
        if (restarts > 100000) break;
        if (maxruns && sh->done_runs >= maxruns) break;
    }
    printf("DONE N=%lu baseret=%d runs=%lu err=%lu oksame=%lu okequiv=%lu anomalies=%lu crashes=%lu unreached=%lu\n", (unsigned long)sh->base_n, sh->base_ret,
           (unsigned long)sh->done_runs, (unsigned long)sh->n_err, (unsigned long)sh->n_oksame, (unsigned long)sh->n_okequiv, (unsigned long)sh->n_anom, crashes, (unsigned long)sh->n_unreached);
    free(doc);
    return 0;
}

/* ------------------------------------------------------------------ unit level (verb OOM) */
static int unit_main(void) { return 0; }

int main(int argc, char **argv)
{
    if (argc >= 2 && strcmp(argv[1], "conv") == 0) return conv_main(argc, argv);
    if (argc >= 2 && strcmp(argv[1], "marker") == 0) { puts(oom_alloc_marker); return 0; }
    return unit_main();
}
