/* C16 harness — "running out of memory yields a clean error, never a crash or a leak".
 *
 * Linked against the objects of the scratch static library EXCEPT wbxml_mem.o (the allocator is
 * oom_alloc.c: failure schedule + live-block ledger) and EXCEPT wbxml_parser.o / wbxml_encoder.o,
 * whose sources are included below so that the hand-unwound static functions the property names
 * can be driven directly (same technique as /repo/test/api/ *_internals.c).
 *
 * Modes
 *   oom unit                      line protocol on stdin/stdout (verb OOM, see below)
 *   oom conv <w2x|x2w> <file> <optset> <single|pairs> [maxruns [kfrom [kto]]]
 *                                 the k-loop of the conversion-level oracle for one document
 */
#include "hx.h"
#include <unistd.h>
#include <signal.h>
#include <sys/mman.h>
#include <sys/wait.h>
#include <sys/stat.h>
#include <fcntl.h>
#include <errno.h>

#include <expat.h>
#include "oom_alloc.c"

#include "wbxml_parser.c"
#define parse_attribute enc_parse_attribute
#define parse_element   enc_parse_element
#define parse_pi        enc_parse_pi
#include "wbxml_encoder.c"
#undef parse_attribute
#undef parse_element
#undef parse_pi

#include "wbxml_conv.h"

/* ------------------------------------------------------------------ conversion level */

typedef struct { int gen, lang, charset, indent, keepws; } W2XOpt;
typedef struct { int version, keepws, nostrtbl, anonymous; } X2WOpt;

static const W2XOpt w2x_opts[] = {
    { WBXML_GEN_XML_INDENT,    0, 0, 0, 0 },   /* 0: library defaults */
    { WBXML_GEN_XML_COMPACT,   0, 0, 0, 0 },   /* 1 */
    { WBXML_GEN_XML_CANONICAL, 0, 0, 0, 0 },   /* 2 */
    { WBXML_GEN_XML_INDENT,    0, 0, 2, 1 },   /* 3: indent 2, keep white space */
    { WBXML_GEN_XML_COMPACT,   0, WBXML_CHARSET_UTF_8, 0, 1 },  /* 4: meta charset given */
    { WBXML_GEN_XML_INDENT,    0, 0, 4, 0 },   /* 5 */
};
static const X2WOpt x2w_opts[] = {
    { WBXML_VERSION_13, 0, 0, 0 },   /* 0: library defaults */
    { WBXML_VERSION_13, 0, 1, 0 },   /* 1: no string table */
    { WBXML_VERSION_11, 1, 0, 0 },   /* 2: WBXML 1.1, keep white space */
    { WBXML_VERSION_12, 0, 0, 1 },   /* 3: anonymous */
    { WBXML_VERSION_10, 1, 1, 0 },   /* 4 */
    { WBXML_VERSION_13, 1, 0, 1 },   /* 5 */
};
#define N_OPTS 6

typedef struct {
    WBXMLError ret;
    WB_UTINY *out;
    WB_ULONG len;
    int created;
} ConvRes;

/* The whole conversion as an application performs it: create the converter, set the options,
 * run, destroy the converter.  Every allocation request in between is in the failure window. */
static ConvRes do_conv(int dir, int optset, unsigned char *doc, size_t n)
{
    ConvRes r; r.ret = WBXML_OK; r.out = NULL; r.len = 0; r.created = 0;
    if (dir == 0) {
        const W2XOpt *o = &w2x_opts[optset];
        WBXMLConvWBXML2XML *conv = NULL;
        r.ret = wbxml_conv_wbxml2xml_create(&conv);
        if (r.ret != WBXML_OK || conv == NULL) { if (r.ret == WBXML_OK) r.ret = WBXML_ERROR_INTERNAL; return r; }
        r.created = 1;
        wbxml_conv_wbxml2xml_set_gen_type(conv, (WBXMLGenXMLType)o->gen);
        if (o->lang) wbxml_conv_wbxml2xml_set_language(conv, (WBXMLLanguage)o->lang);
        if (o->charset) wbxml_conv_wbxml2xml_set_charset(conv, (WBXMLCharsetMIBEnum)o->charset);
        wbxml_conv_wbxml2xml_set_indent(conv, (WB_UTINY)o->indent);
        if (o->keepws) wbxml_conv_wbxml2xml_enable_preserve_whitespaces(conv);
        r.ret = wbxml_conv_wbxml2xml_run(conv, doc, (WB_ULONG)n, &r.out, &r.len);
        wbxml_conv_wbxml2xml_destroy(conv);
    } else {
        const X2WOpt *o = &x2w_opts[optset];
        WBXMLConvXML2WBXML *conv = NULL;
        r.ret = wbxml_conv_xml2wbxml_create(&conv);
        if (r.ret != WBXML_OK || conv == NULL) { if (r.ret == WBXML_OK) r.ret = WBXML_ERROR_INTERNAL; return r; }
        r.created = 1;
        wbxml_conv_xml2wbxml_set_version(conv, (WBXMLVersion)o->version);
        if (o->keepws) wbxml_conv_xml2wbxml_enable_preserve_whitespaces(conv);
        if (o->nostrtbl) wbxml_conv_xml2wbxml_disable_string_table(conv);
        if (o->anonymous) wbxml_conv_xml2wbxml_disable_public_id(conv);
        r.ret = wbxml_conv_xml2wbxml_run(conv, doc, (WB_ULONG)n, &r.out, &r.len);
        wbxml_conv_xml2wbxml_destroy(conv);
    }
    return r;
}

/* progress page shared between the parent and the forked worker */
typedef struct {
    volatile unsigned long cur_k1, cur_k2;   /* run in progress */
    volatile unsigned long done_runs;
    volatile int finished;
    volatile unsigned long hits;
    uintptr_t failpc[2][OOM_NPC];            /* stacks of the failures delivered in the run in progress */
    volatile unsigned long base_n;
    volatile int base_ret;
    volatile unsigned long base_len;
    volatile unsigned long n_err, n_oksame, n_okequiv, n_anom, n_unreached;
} Shared;

static Shared *sh;
static unsigned char *base_out; static unsigned long base_len; static int base_ret;

static void print_blocks(FILE *f)
{
    OomBlk *bl[8]; int n = oom_live_list(bl, 8), i;
    for (i = 0; i < n; i++) { fprintf(f, " blk=req%lu/%zu@", bl[i]->req, bl[i]->size); oom_print_pcs(f, bl[i]->pc); }
}

/* "Still a correct result" for an inessential allocation: a WBXML result that differs from the
 * un-failed one (e.g. fewer strings moved to the string table) is accepted when both decode, with
 * no failure scheduled, to the same canonical XML. */
static unsigned char *base_xml; static unsigned long base_xml_len; static int base_xml_ret = -1;

static int doc_lang;   /* language of the XML input (x2w), forced when decoding: anonymous results carry no public id */

static int decode_canon(unsigned char *w, unsigned long n, unsigned char **xml, unsigned long *len)
{
    ConvRes r; WBXMLConvWBXML2XML *conv = NULL;
    r.ret = WBXML_ERROR_INTERNAL; r.out = NULL; r.len = 0;
    if (wbxml_conv_wbxml2xml_create(&conv) == WBXML_OK) {
        wbxml_conv_wbxml2xml_set_gen_type(conv, WBXML_GEN_XML_CANONICAL);
        if (doc_lang) wbxml_conv_wbxml2xml_set_language(conv, (WBXMLLanguage)doc_lang);
        r.ret = wbxml_conv_wbxml2xml_run(conv, w, (WB_ULONG)n, &r.out, &r.len);
        wbxml_conv_wbxml2xml_destroy(conv);
    }
    *xml = NULL; *len = 0;
    if (r.ret == WBXML_OK && r.out) { *xml = malloc(r.len + 1); memcpy(*xml, r.out, r.len); *len = r.len; }
    if (r.out) wbxml_free(r.out);
    return (int)r.ret;
}

/* Structural comparison of two parsed documents. Text that is itself a WBXML document (an embedded
 * SyncML DevInf / DM payload carried as opaque data) is compared as a document (DESIGN 6.4 #2): its
 * own string table may legitimately differ. */
static int equiv_wbxml_bytes(const unsigned char *a, unsigned long an, const unsigned char *b, unsigned long bn, int lang, int depth);

static int equiv_buf(WBXMLBuffer *a, WBXMLBuffer *b, int depth)
{
    unsigned long an = wbxml_buffer_len(a), bn = wbxml_buffer_len(b);
    if (an == bn && (an == 0 || memcmp(wbxml_buffer_get_cstr(a), wbxml_buffer_get_cstr(b), an) == 0)) return 1;
    if (depth > 3 || an < 4 || bn < 4) return 0;
    return equiv_wbxml_bytes(wbxml_buffer_get_cstr(a), an, wbxml_buffer_get_cstr(b), bn, 0, depth + 1);
}

static int equiv_nodes(WBXMLTreeNode *a, WBXMLTreeNode *b, int depth)
{
    for (; a && b; a = a->next, b = b->next) {
        WB_ULONG i, na, nb;
        if (a->type != b->type) return 0;
        if ((a->name == NULL) != (b->name == NULL)) return 0;
        if (a->name && strcmp((const char *)wbxml_tag_get_xml_name(a->name), (const char *)wbxml_tag_get_xml_name(b->name))) return 0;
        na = wbxml_list_len(a->attrs); nb = wbxml_list_len(b->attrs);
        if (na != nb) return 0;
        for (i = 0; i < na; i++) {
            WBXMLAttribute *x = wbxml_list_get(a->attrs, i), *y = wbxml_list_get(b->attrs, i);
            if (strcmp((const char *)wbxml_attribute_get_xml_name(x), (const char *)wbxml_attribute_get_xml_name(y))) return 0;
            if (strcmp((const char *)wbxml_attribute_get_xml_value(x), (const char *)wbxml_attribute_get_xml_value(y))) return 0;
        }
        if ((a->content == NULL) != (b->content == NULL)) return 0;
        if (a->content && !equiv_buf(a->content, b->content, depth)) return 0;
        if ((a->tree == NULL) != (b->tree == NULL)) return 0;
        if (a->tree && (a->tree->lang != b->tree->lang || !equiv_nodes(a->tree->root, b->tree->root, depth))) return 0;
        if (!equiv_nodes(a->children, b->children, depth)) return 0;
    }
    return a == NULL && b == NULL;
}

static int equiv_wbxml_bytes(const unsigned char *a, unsigned long an, const unsigned char *b, unsigned long bn, int lang, int depth)
{
    WBXMLTree *ta = NULL, *tb = NULL; int eq = 0;
    if (wbxml_tree_from_wbxml((WB_UTINY *)a, (WB_ULONG)an, (WBXMLLanguage)lang, WBXML_CHARSET_UNKNOWN, &ta) == WBXML_OK &&
        wbxml_tree_from_wbxml((WB_UTINY *)b, (WB_ULONG)bn, (WBXMLLanguage)lang, WBXML_CHARSET_UNKNOWN, &tb) == WBXML_OK)
        eq = ta->lang == tb->lang && equiv_nodes(ta->root, tb->root, depth);
    if (ta) wbxml_tree_destroy(ta);
    if (tb) wbxml_tree_destroy(tb);
    return eq;
}

static int equivalent_wbxml(unsigned char *out, unsigned long len)
{
    unsigned char *x = NULL; unsigned long xl = 0; int rr, eq;
    if (base_xml_ret < 0) base_xml_ret = decode_canon(base_out, base_len, &base_xml, &base_xml_len);
    rr = decode_canon(out, len, &x, &xl);
    eq = (rr == WBXML_OK && base_xml_ret == WBXML_OK && xl == base_xml_len && memcmp(x, base_xml, xl) == 0);
    free(x);
    if (!eq) eq = equiv_wbxml_bytes(base_out, base_len, out, len, doc_lang, 0);
    return eq;
}

/* one run with the given schedule; prints a K line when the oracle fails; returns requests made */
static unsigned long one_run(int dir, int optset, unsigned char *doc, size_t n, unsigned long k1, unsigned long k2)
{
    ConvRes r;
    unsigned long req, hits;
    char cls[128]; int equiv = 0; cls[0] = 0;
    sh->cur_k1 = k1; sh->cur_k2 = k2; sh->hits = 0;
    memset((void *)sh->failpc, 0, sizeof(sh->failpc));
    oom_window(k1, k2);
    r = do_conv(dir, optset, doc, n);
    oom_stop();
    req = oom.req; hits = oom.hits;
    if (hits == 0 && (k1 || k2)) { sh->n_unreached++; }
    if (oom.fault != OOM_F_NONE) { strcat(cls, "+FAULT:"); strcat(cls, oom_fault_name[oom.fault]); }
    if (r.ret != WBXML_OK) {
        if (r.out != NULL || r.len != 0) strcat(cls, "+ERR_OUT");
        if (oom.live_blocks != 0) strcat(cls, "+LEAK");
        if (hits == 0 && base_ret == WBXML_OK) strcat(cls, "+ERR_NOHIT");
    } else {
        if (base_ret != WBXML_OK) strcat(cls, "+OK_BUT_BASE_ERR");
        else if (r.len != base_len || (r.len && (r.out == NULL || memcmp(r.out, base_out, r.len) != 0))) {
            unsigned long lb = oom.live_blocks; int flt = oom.fault;
            if (dir == 1 && r.out && hits > 0 && equivalent_wbxml(r.out, r.len)) equiv = 1;
            else strcat(cls, "+OK_DIFF");
            if (oom.live_blocks != lb && !flt) strcat(cls, "+ORACLE_LEAK");
        }
        if (oom.live_blocks != (r.out ? 1u : 0u)) strcat(cls, "+LEAK");
    }
    if (cls[0]) {
        sh->n_anom++;
        printf("K %lu %lu %s ret=%d req=%lu hits=%lu live=%lu bytes=%zu faults=%lu", k1, k2, cls + 1, (int)r.ret, req, hits,
               oom.live_blocks - ((r.ret == WBXML_OK && r.out) ? 1 : 0), oom.live_bytes - ((r.ret == WBXML_OK && r.out) ? 0 : 0), oom.nfaults);
        printf(" fail1="); oom_print_pcs(stdout, oom.failpc[0]);
        if (k2) { printf(" fail2="); oom_print_pcs(stdout, oom.failpc[1]); }
        if (oom.fault != OOM_F_NONE) { printf(" faultpc="); oom_print_pcs(stdout, oom.faultpc); }
        if (strstr(cls, "LEAK")) {
            /* do not list the returned output among the leaked blocks */
            if (r.ret == WBXML_OK && r.out) { wbxml_free(r.out); r.out = NULL; }
            print_blocks(stdout);
        }
        if (strstr(cls, "OK_DIFF") && r.out) { printf(" out="); hx_out(stdout, r.out, r.len > 4096 ? 4096 : r.len); }
        printf("\n");
        fflush(stdout);
    } else if (r.ret != WBXML_OK) sh->n_err++;
    else if (equiv) sh->n_okequiv++;
    else sh->n_oksame++;
    if (r.out && oom_find(r.out) && oom_find(r.out)->live) wbxml_free(r.out);
    oom_reset();
    sh->done_runs++;
    return req;
}

/* mirror the failure stacks into the shared page so the parent can name the site after a crash */
static void publish_fail(void)
{
    memcpy((void *)sh->failpc, oom.failpc, sizeof(sh->failpc)); sh->hits = oom.hits;
}

static unsigned char *read_file(const char *path, size_t *n)
{
    FILE *f = fopen(path, "rb"); unsigned char *b; long sz;
    if (!f) return NULL;
    fseek(f, 0, SEEK_END); sz = ftell(f); fseek(f, 0, SEEK_SET);
    b = malloc(sz + 1); *n = fread(b, 1, sz, f); b[*n] = 0; fclose(f);
    return b;
}

static void dump_stderr_tail(int fd, const char *tag)
{
    /* re-emit the sanitizer report of the dead worker on stdout, one line, for the checker */
    char buf[16384]; ssize_t n; off_t sz = lseek(fd, 0, SEEK_END);
    off_t start = 0; (void)start;
    lseek(fd, 0, SEEK_SET);
    n = read(fd, buf, sizeof(buf) - 1);
    if (n < 0) n = 0;
    buf[n] = 0; (void)sz;
    printf(" %s=", tag);
    hx_out(stdout, (unsigned char *)buf, (size_t)n);
}

static int conv_main(int argc, char **argv)
{
    int dir, optset, pairs; size_t n; unsigned char *doc;
    unsigned long maxruns = 0, start_k1 = 1, start_k2 = 0, restarts = 0, crashes = 0, end_k1 = 0;
    if (argc < 6) { fprintf(stderr, "usage: oom conv <w2x|x2w> <file> <optset> <single|pairs> [maxruns]\n"); return 2; }
    dir = strcmp(argv[2], "x2w") == 0;
    optset = atoi(argv[4]) % N_OPTS;
    pairs = strcmp(argv[5], "pairs") == 0;
    if (argc > 6) maxruns = strtoul(argv[6], NULL, 10);
    if (argc > 7) start_k1 = strtoul(argv[7], NULL, 10);
    if (argc > 8) end_k1 = strtoul(argv[8], NULL, 10);
    doc = read_file(argv[3], &n);
    if (!doc) { printf("NOFILE %s\n", argv[3]); return 2; }
    oom_on_fail = publish_fail;
    sh = mmap(NULL, sizeof(Shared), PROT_READ | PROT_WRITE, MAP_SHARED | MAP_ANONYMOUS, -1, 0);
    memset(sh, 0, sizeof(*sh));
    setvbuf(stdout, NULL, _IOLBF, 0);

    /* worker loop: (re)started after every crash at the run following the one that died */
    for (;;) {
        char tmpl[] = "/tmp/oomerrXXXXXX"; int efd = mkstemp(tmpl); pid_t pid; int st;
        unlink(tmpl);
        fflush(stdout);
        pid = fork();
        if (pid == 0) {
            unsigned long k1, k2, N, runs = 0;
            ConvRes b;
            dup2(efd, 2);
            if (dir == 1) {
                WBXMLTree *t = NULL;
                if (wbxml_tree_from_xml(doc, (WB_ULONG)n, &t) == WBXML_OK && t) { if (t->lang) doc_lang = (int)t->lang->langID; wbxml_tree_destroy(t); }
                oom_reset();
            }
            /* the un-failed run: request count and reference output */
            sh->cur_k1 = 0; sh->cur_k2 = 0;
            oom_window(0, 0);
            b = do_conv(dir, optset, doc, n);
            oom_stop();
            N = oom.req;
            base_ret = b.ret; base_len = b.len; base_out = NULL;
            if (b.out) { base_out = malloc(b.len + 1); memcpy(base_out, b.out, b.len); wbxml_free(b.out); }
            if (restarts == 0) {
                sh->base_n = N; sh->base_ret = b.ret; sh->base_len = b.len;
                printf("BASE N=%lu ret=%d len=%lu live=%lu fault=%s maxlive=%lu\n", N, (int)b.ret, (unsigned long)b.len,
                       oom.live_blocks, oom_fault_name[oom.fault], oom.max_live);
                if (oom.live_blocks || oom.fault) { printf("K 0 0 %s%s ret=%d req=%lu hits=0 live=%lu bytes=%zu faults=%lu fail1=-",
                        oom.fault ? "FAULT:" : "LEAK", oom.fault ? oom_fault_name[oom.fault] : "", (int)b.ret, N, oom.live_blocks, oom.live_bytes, oom.nfaults);
                    if (oom.fault) { printf(" faultpc="); oom_print_pcs(stdout, oom.faultpc); }
                    print_blocks(stdout); printf("\n"); }
            }
            oom_reset();
            for (k1 = start_k1; k1 <= N && (!end_k1 || k1 <= end_k1); k1++) {
                unsigned long n1;
                if (!(pairs && k1 == start_k1 && start_k2)) {
                    n1 = one_run(dir, optset, doc, n, k1, 0);
                    runs++;
                } else {
                    /* restarted in the middle of the pairs of k1: recount its requests */
                    oom_window(k1, 0); { ConvRes t = do_conv(dir, optset, doc, n); oom_stop(); n1 = oom.req; if (t.out && oom_find(t.out)) wbxml_free(t.out); } oom_reset();
                }
                if (pairs) {
                    for (k2 = (k1 == start_k1 && start_k2) ? start_k2 : k1 + 1; k2 <= n1; k2++) {
                        one_run(dir, optset, doc, n, k1, k2);
                        runs++;
                        if (maxruns && sh->done_runs >= maxruns) break;
                    }
                }
                if (maxruns && sh->done_runs >= maxruns) break;
            }
            sh->finished = 1;
            fflush(stdout);
            free(base_out);
            exit(0);   /* LSan runs here */
        }
        waitpid(pid, &st, 0);
        if (sh->finished && WIFEXITED(st) && WEXITSTATUS(st) == 0) { close(efd); break; }
        if (sh->finished) {
            /* every run completed, the exit-time leak check (or an exit handler) complained */
            printf("LSAN status=%d", st); dump_stderr_tail(efd, "report"); printf("\n");
            close(efd);
            break;
        }
        /* the worker died inside run (cur_k1, cur_k2) */
        crashes++;
        printf("CRASH %lu %lu status=%d sig=%d hits=%lu", sh->cur_k1, sh->cur_k2, WIFEXITED(st) ? WEXITSTATUS(st) : -1,
               WIFSIGNALED(st) ? WTERMSIG(st) : 0, sh->hits);
        printf(" fail1="); oom_print_pcs(stdout, (const uintptr_t *)sh->failpc[0]);
        if (sh->cur_k2) { printf(" fail2="); oom_print_pcs(stdout, (const uintptr_t *)sh->failpc[1]); }
        dump_stderr_tail(efd, "report");
        printf("\n");
        close(efd);
        sh->n_anom++; sh->done_runs++;
        if (sh->cur_k1 == 0) { printf("BASECRASH\n"); break; }
        restarts++;
        if (pairs && sh->cur_k2) { start_k1 = sh->cur_k1; start_k2 = sh->cur_k2 + 1; }
        else if (pairs) { start_k1 = sh->cur_k1; start_k2 = sh->cur_k1 + 1; /* k1 alone crashed: its pairs cannot be reached */ start_k1 = sh->cur_k1 + 1; start_k2 = 0; }
        else { start_k1 = sh->cur_k1 + 1; start_k2 = 0; }
        if (restarts > 100000) break;
        if (maxruns && sh->done_runs >= maxruns) break;
    }
    printf("DONE N=%lu baseret=%d runs=%lu err=%lu oksame=%lu okequiv=%lu anomalies=%lu crashes=%lu unreached=%lu\n", (unsigned long)sh->base_n, sh->base_ret,
           (unsigned long)sh->done_runs, (unsigned long)sh->n_err, (unsigned long)sh->n_oksame, (unsigned long)sh->n_okequiv, (unsigned long)sh->n_anom, crashes, (unsigned long)sh->n_unreached);
    free(doc);
    return 0;
}

/* ------------------------------------------------------------------ unit level (verb OOM)
 *
 * Request lines (see lean/Driver/Alloc.lean for the model side):
 *   OOM U <k1> <k2> <op> <op> ...        container / element op machine (public API only)
 *   OOM P <k1> <k2> <tag> <attrs>        parse_element() on the bytes built from the shapes
 *   OOM S <k1> <k2> <texts>              wbxml_strtbl_initialize() on a tree with these text nodes
 *   OOM T <k1> <k2> <strtbl> <ver> <pubid> <tree> <chunks>   wbxml_tree_to_wbxml() on an element-only tree
 *   OOM B <k1> <k2> <events>             wbxml_tree_create() + the wbxml_tree_clb_wbxml_* call-backs on these
 *                                        events + wbxml_tree_destroy() on error, as wbxml_tree_from_wbxml() does;
 *                                        events: S<tag>[/<name>=<value>;...] start  E end  C<hex> / V<hex> characters
 *                                        (V: the generator expects a CDATA section; the harness does not look at it)
 * Response: R <results> | req=<requests> hits=<failures delivered> live=<blocks more than before>
 *           fault=<ledger fault> | <canonical state>
 * k1/k2 = request numbers (counted from the start of the observed call) that fail; 0 = none.
 */
static const WBXMLLangEntry *U_lang;

#define NB 8
#define NL 4
#define NT 4
#define NA 4
#define NO 2
static WBXMLBuffer *ub[NB]; static int ub_static[NB];
static WBXMLList *ul[NL], *um[NL];
static WBXMLTag *ut[NT];
static WBXMLAttributeName *un[NT];
static WBXMLAttribute *ua[NA];
static WBXMLTreeNode *uo[NO];

static void put_tail(unsigned long live0)
{
    printf("req=%lu hits=%lu live=%ld fault=%s", oom.req, oom.hits, (long)oom.live_blocks - (long)live0, oom_fault_name[oom.fault]);
}

static void put_buf(WBXMLBuffer *b) { hx_out(stdout, wbxml_buffer_get_cstr(b), wbxml_buffer_len(b)); }

static void put_tagname(int type, const void *tok, const void *base, size_t esz, WBXMLBuffer *lit)
{
    if (type == WBXML_VALUE_TOKEN) printf("T%ld", (long)(((const char *)tok - (const char *)base) / (long)esz));
    else if (lit == NULL) printf("LN");
    else { printf("L"); put_buf(lit); }
}

static void put_attr(WBXMLAttribute *a)
{
    printf("(");
    if (a->name == NULL) printf("N");
    else put_tagname(a->name->type, a->name->u.token, U_lang->attrTable, sizeof(WBXMLAttrEntry), a->name->type == WBXML_VALUE_LITERAL ? a->name->u.literal : NULL);
    printf(";");
    if (a->value == NULL) printf("N"); else put_buf(a->value);
    printf(")");
}

static int slot(const char *s, int max) { int v = atoi(s); return (v >= 0 && v < max) ? v : 0; }

static void do_U(char **t, int nt)
{
    int i, first = 1; unsigned long live0;
    memset(ub, 0, sizeof ub); memset(ub_static, 0, sizeof ub_static); memset(ul, 0, sizeof ul); memset(um, 0, sizeof um);
    memset(ut, 0, sizeof ut); memset(un, 0, sizeof un); memset(ua, 0, sizeof ua); memset(uo, 0, sizeof uo);
    oom_reset();
    live0 = oom.live_blocks;
    oom_window(strtoul(t[2], NULL, 10), strtoul(t[3], NULL, 10));
    printf("R");
    for (i = 4; i < nt; i++) {
        char *f[6]; int nf = 0; char *p = t[i], *q; const char *res = "BAD"; char tmp[32];
        while (nf < 6 && (q = strchr(p, '.'))) { *q = 0; f[nf++] = p; p = q + 1; }
        if (nf < 6) f[nf++] = p;
        (void)first;
#define IS(name, n) (strcmp(f[0], name) == 0 && nf == (n))
        if (IS("bc", 4)) { int d = slot(f[1], NB); size_t n; unsigned char *x = NULL;
            if (strcmp(f[2], "N")) x = hx_unhex(f[2], &n); else n = 0;
            ub[d] = wbxml_buffer_create_real(x, (WB_ULONG)n, (WB_ULONG)atoi(f[3])); ub_static[d] = 0; free(x); res = ub[d] ? "P" : "0"; }
        else if (IS("bs", 3)) { int d = slot(f[1], NB); size_t n; unsigned char *x = hx_unhex(f[2], &n);
            /* the aliased bytes must outlive the buffer: leaked on purpose (plain malloc, not ledgered) */
            ub[d] = wbxml_buffer_sta_create_real(x, (WB_ULONG)n); ub_static[d] = 1; res = ub[d] ? "P" : "0"; }
        else if (IS("bx", 2)) { int d = slot(f[1], NB); wbxml_buffer_destroy(ub[d]); ub[d] = NULL; res = "v"; }
        else if (IS("bap", 3)) { int d = slot(f[1], NB); if (!ub[d]) res = "-"; else { size_t n; unsigned char *x = hx_unhex(f[2], &n);
            res = wbxml_buffer_append_data_real(ub[d], x, (WB_ULONG)n) ? "T" : "F"; free(x); } }
        else if (IS("bac", 3)) { int d = slot(f[1], NB); size_t n; unsigned char *x = hx_unhex(f[2], &n);
            if (!ub[d] || n != 1) res = "-"; else res = wbxml_buffer_append_char(ub[d], x[0]) ? "T" : "F"; free(x); }
        else if (IS("bab", 3)) { int d = slot(f[1], NB); if (!ub[d]) res = "-"; else {
            WBXMLBuffer *src = strcmp(f[2], "N") ? ub[slot(f[2], NB)] : NULL; res = wbxml_buffer_append(ub[d], src) ? "T" : "F"; } }
        else if (IS("bic", 4)) { int d = slot(f[1], NB); if (!ub[d]) res = "-"; else { size_t n; unsigned char *x = hx_unhex(f[3], &n);
            res = wbxml_buffer_insert_cstr(ub[d], x, (WB_ULONG)atoi(f[2])) ? "T" : "F"; free(x); } }
        else if (IS("bd", 3)) { int d = slot(f[1], NB); ub[d] = wbxml_buffer_duplicate(ub[slot(f[2], NB)]); ub_static[d] = 0; res = ub[d] ? "P" : "0"; }
        else if (IS("lc", 2)) { int d = slot(f[1], NL); ul[d] = wbxml_list_create_real(); res = ul[d] ? "P" : "0"; }
        else if (IS("la", 3)) { int d = slot(f[1], NL); if (!ul[d]) res = "-"; else res = wbxml_list_append(ul[d], (void *)(uintptr_t)atoi(f[2])) ? "T" : "F"; }
        else if (IS("li", 4)) { int d = slot(f[1], NL); if (!ul[d]) res = "-"; else res = wbxml_list_insert(ul[d], (void *)(uintptr_t)atoi(f[2]), (WB_ULONG)atoi(f[3])) ? "T" : "F"; }
        else if (IS("le", 2)) { int d = slot(f[1], NL); if (!ul[d]) res = "-"; else { snprintf(tmp, sizeof tmp, "%lu", (unsigned long)(uintptr_t)wbxml_list_extract_first(ul[d])); res = tmp; } }
        else if (IS("lx", 2)) { int d = slot(f[1], NL); wbxml_list_destroy(ul[d], NULL); ul[d] = NULL; res = "v"; }
        else if (IS("mc", 2)) { int d = slot(f[1], NL); um[d] = wbxml_list_create_real(); res = um[d] ? "P" : "0"; }
        else if (IS("ma", 3)) { int d = slot(f[1], NL), b = slot(f[2], NB); if (!um[d] || !ub[b]) res = "-"; else {
            if (wbxml_list_append(um[d], ub[b])) { ub[b] = NULL; res = "T"; } else res = "F"; } }
        else if (IS("me", 3)) { int d = slot(f[1], NL), b = slot(f[2], NB); if (!um[d] || ub[b]) res = "-"; else {
            ub[b] = wbxml_list_extract_first(um[d]); ub_static[b] = 0; res = ub[b] ? "P" : "0"; } }
        else if (IS("mx", 2)) { int d = slot(f[1], NL); wbxml_list_destroy(um[d], wbxml_buffer_destroy_item); um[d] = NULL; res = "v"; }
        else if (IS("tl", 3) || IS("nl", 3)) { int d = slot(f[1], NT); size_t n = 0; unsigned char *x = strcmp(f[2], "N") ? hx_unhex(f[2], &n) : NULL;
            if (f[0][0] == 't') { ut[d] = wbxml_tag_create_literal(x); res = ut[d] ? "P" : "0"; }
            else { un[d] = wbxml_attribute_name_create_literal(x); res = un[d] ? "P" : "0"; } free(x); }
        else if (IS("tt", 3)) { int d = slot(f[1], NT); ut[d] = wbxml_tag_create_token(&U_lang->tagTable[atoi(f[2])]); res = ut[d] ? "P" : "0"; }
        else if (IS("nt", 3)) { int d = slot(f[1], NT); un[d] = wbxml_attribute_name_create_token(&U_lang->attrTable[atoi(f[2])]); res = un[d] ? "P" : "0"; }
        else if (IS("td", 3)) { int d = slot(f[1], NT); ut[d] = wbxml_tag_duplicate(ut[slot(f[2], NT)]); res = ut[d] ? "P" : "0"; }
        else if (IS("nd", 3)) { int d = slot(f[1], NT); un[d] = wbxml_attribute_name_duplicate(un[slot(f[2], NT)]); res = un[d] ? "P" : "0"; }
        else if (IS("tx", 2)) { int d = slot(f[1], NT); wbxml_tag_destroy(ut[d]); ut[d] = NULL; res = "v"; }
        else if (IS("nx", 2)) { int d = slot(f[1], NT); wbxml_attribute_name_destroy(un[d]); un[d] = NULL; res = "v"; }
        else if (IS("ac", 2)) { int d = slot(f[1], NA); ua[d] = wbxml_attribute_create(); res = ua[d] ? "P" : "0"; }
        else if (IS("as", 4)) { int d = slot(f[1], NA); if (!ua[d] || ua[d]->name || ua[d]->value) res = "-"; else {
            if (strcmp(f[2], "N")) { int x = slot(f[2], NT); ua[d]->name = un[x]; un[x] = NULL; }
            if (strcmp(f[3], "N")) { int x = slot(f[3], NB); ua[d]->value = ub[x]; ub[x] = NULL; }
            res = "v"; } }
        else if (IS("ad", 3)) { int d = slot(f[1], NA); ua[d] = wbxml_attribute_duplicate(ua[slot(f[2], NA)]); res = ua[d] ? "P" : "0"; }
        else if (IS("ax", 2)) { int d = slot(f[1], NA); wbxml_attribute_destroy(ua[d]); ua[d] = NULL; res = "v"; }
        else if (IS("oc", 2)) { int d = slot(f[1], NO); uo[d] = wbxml_tree_node_create(WBXML_TREE_ELEMENT_NODE); res = uo[d] ? "P" : "0"; }
        else if (IS("oa", 3)) { int d = slot(f[1], NO), a = slot(f[2], NA); if (!uo[d] || !ua[a]) res = "-"; else {
            snprintf(tmp, sizeof tmp, "%d", (int)wbxml_tree_node_add_attr(uo[d], ua[a])); res = tmp; } }
        else if (IS("ox", 2)) { int d = slot(f[1], NO); wbxml_tree_node_destroy(uo[d]); uo[d] = NULL; res = "v"; }
#undef IS
        printf(" %s", res);
    }
    oom_stop();
    printf(" | "); put_tail(live0); printf(" |");
    for (i = 0; i < NB; i++) if (ub[i]) { printf(" b%d=%lu:", i, (unsigned long)wbxml_buffer_len(ub[i])); put_buf(ub[i]); printf(":%s", ub_static[i] ? "S" : "D"); }
    for (i = 0; i < NL; i++) if (ul[i]) { WB_ULONG j; printf(" l%d=[", i);
        for (j = 0; j < wbxml_list_len(ul[i]); j++) printf("%s%lu", j ? "," : "", (unsigned long)(uintptr_t)wbxml_list_get(ul[i], j)); printf("]"); }
    for (i = 0; i < NL; i++) if (um[i]) { WB_ULONG j; printf(" m%d=[", i);
        for (j = 0; j < wbxml_list_len(um[i]); j++) { if (j) printf(","); put_buf(wbxml_list_get(um[i], j)); } printf("]"); }
    for (i = 0; i < NT; i++) if (ut[i]) { printf(" t%d=", i); put_tagname(ut[i]->type, ut[i]->u.token, U_lang->tagTable, sizeof(WBXMLTagEntry), ut[i]->type == WBXML_VALUE_LITERAL ? ut[i]->u.literal : NULL); }
    for (i = 0; i < NT; i++) if (un[i]) { printf(" n%d=", i); put_tagname(un[i]->type, un[i]->u.token, U_lang->attrTable, sizeof(WBXMLAttrEntry), un[i]->type == WBXML_VALUE_LITERAL ? un[i]->u.literal : NULL); }
    for (i = 0; i < NA; i++) if (ua[i]) { printf(" a%d=", i); put_attr(ua[i]); }
    for (i = 0; i < NO; i++) if (uo[i]) { printf(" o%d=", i); if (!uo[i]->attrs) printf("N"); else { WB_ULONG j; for (j = 0; j < wbxml_list_len(uo[i]->attrs); j++) put_attr(wbxml_list_get(uo[i]->attrs, j)); } }
    printf("\n");
    oom_reset();
}

/* ---- P: parse_element on bytes built from the shapes ---- */
typedef struct { unsigned char *p; size_t n, cap; } Bld;
static void bput(Bld *b, const void *x, size_t n) { if (b->n + n + 1 > b->cap) { b->cap = (b->n + n + 1) * 2; b->p = realloc(b->p, b->cap); } memcpy(b->p + b->n, x, n); b->n += n; }
static void bputc(Bld *b, unsigned c) { unsigned char x = (unsigned char)c; bput(b, &x, 1); }
static void bput_mb(Bld *b, unsigned long v) { unsigned char o[5]; int i = 4; o[4] = v & 0x7f; v >>= 7; while (v && i > 0) { o[--i] = 0x80 | (v & 0x7f); v >>= 7; } bput(b, o + i, 5 - i); }

static int unused_tag_token(void) { int tk, i; for (tk = 0x3f; tk >= 5; tk--) { for (i = 0; U_lang->tagTable[i].xmlName; i++) if (U_lang->tagTable[i].wbxmlCodePage == 0 && U_lang->tagTable[i].wbxmlToken == tk) break; if (!U_lang->tagTable[i].xmlName) return tk; } return -1; }
static int unused_attr_token(void) { int tk, i; for (tk = 0x7f; tk >= 5; tk--) { if (tk >= 0x40 && tk <= 0x44) continue; for (i = 0; U_lang->attrTable[i].xmlName; i++) if (U_lang->attrTable[i].wbxmlCodePage == 0 && U_lang->attrTable[i].wbxmlToken == tk) break; if (!U_lang->attrTable[i].xmlName) return tk; } return -1; }
static int unused_value_token(void) { int tk, i; for (tk = 0xbf; tk >= 0x85; tk--) { for (i = 0; U_lang->attrValueTable[i].xmlName; i++) if (U_lang->attrValueTable[i].wbxmlCodePage == 0 && U_lang->attrValueTable[i].wbxmlToken == tk) break; if (!U_lang->attrValueTable[i].xmlName) return tk; } return -1; }

/* appends a literal name to the string table, returns its index */
static unsigned long strtbl_add(Bld *st, const char *hex) { size_t n; unsigned char *x = hx_unhex(hex, &n); unsigned long idx = st->n; bput(st, x, n); bputc(st, 0); free(x); return idx; }

static int build_P(char *tag, char *attrs, Bld *body, Bld *st)
{
    int has_attrs = strcmp(attrs, "-") != 0;
    if (tag[0] == 'T') { int row = atoi(tag + 1); if (U_lang->tagTable[row].wbxmlCodePage != 0) return 0; bputc(body, U_lang->tagTable[row].wbxmlToken | (has_attrs ? 0x80 : 0)); }
    else if (tag[0] == 'U') { int tk = unused_tag_token(); if (tk < 0) return 0; bputc(body, tk | (has_attrs ? 0x80 : 0)); }
    else if (tag[0] == 'L') { bputc(body, has_attrs ? 0x84 : 0x04); bput_mb(body, strtbl_add(st, tag + 1)); }
    else return 0;
    if (has_attrs) {
        char *a = attrs;
        while (a) {
            char *nexta = strchr(a, '|'), *pieces;
            if (nexta) *nexta++ = 0;
            pieces = strchr(a, ':'); if (pieces) *pieces++ = 0;
            if (a[0] == 'T') { char *sl = strchr(a, '/'); int row; const char *want; size_t n = 0; unsigned char *x = NULL;
                if (!sl) return 0; *sl++ = 0; row = atoi(a + 1);
                if (U_lang->attrTable[row].wbxmlCodePage != 0) return 0;
                want = U_lang->attrTable[row].xmlValue;
                if (strcmp(sl, "N") == 0) { if (want) return 0; }
                else { x = hx_unhex(sl, &n); if (!want || strlen(want) != n || memcmp(want, x, n)) { free(x); return 0; } free(x); }
                bputc(body, U_lang->attrTable[row].wbxmlToken); }
            else if (a[0] == 'U') { int tk = unused_attr_token(); if (tk < 0) return 0; bputc(body, tk); }
            else if (a[0] == 'L') { bputc(body, 0x04); bput_mb(body, strtbl_add(st, a + 1)); }
            else return 0;
            while (pieces && *pieces) {
                char *np = strchr(pieces, ','); size_t n; unsigned char *x;
                if (np) *np++ = 0;
                if (pieces[0] == 'S') { x = hx_unhex(pieces + 1, &n); if (memchr(x, 0, n)) { free(x); return 0; } bputc(body, 0x03); bput(body, x, n); bputc(body, 0); free(x); }
                else if (pieces[0] == 'D') { x = hx_unhex(pieces + 1, &n); bputc(body, 0xC3); bput_mb(body, n); bput(body, x, n); free(x); }
                else if (pieces[0] == 'E') { int tk = unused_value_token(); if (tk < 0 || atoi(pieces + 1) != WBXML_ERROR_UNKNOWN_ATTR_VALUE) return 0; bputc(body, tk); }
                else return 0;
                pieces = np;
            }
            a = nexta;
        }
        bputc(body, 0x01);
    }
    return 1;
}

static void do_P(char **t)
{
    Bld body = { NULL, 0, 0 }, st = { NULL, 0, 0 }; WBXMLParser *parser; WBXMLError ret; unsigned long live0;
    oom_reset();
    if (!build_P(t[4], t[5], &body, &st)) { printf("BADREQ\n"); free(body.p); free(st.p); return; }
    parser = wbxml_parser_create();
    parser->wbxml = wbxml_buffer_create_real(body.p, (WB_ULONG)body.n, (WB_ULONG)body.n);
    parser->strstbl = st.n ? wbxml_buffer_create_real(st.p, (WB_ULONG)st.n, (WB_ULONG)st.n) : NULL;
    parser->langTable = U_lang; parser->charset = WBXML_CHARSET_UTF_8; parser->version = WBXML_VERSION_13; parser->pos = 0;
    live0 = oom.live_blocks;
    oom_window(strtoul(t[2], NULL, 10), strtoul(t[3], NULL, 10));
    ret = parse_element(parser);
    oom_stop();
    printf("R %d | ", (int)ret); put_tail(live0); printf("\n");
    wbxml_parser_destroy(parser);
    free(body.p); free(st.p);
    oom_reset();
}

/* ---- S: wbxml_strtbl_initialize ---- */
static void do_S(char **t)
{
    WBXMLTree *tree;
    WBXMLTreeNode *root; WBXMLEncoder *enc; WBXMLError ret; unsigned long live0; char *p = t[4]; WB_ULONG j;
    oom_reset();
    tree = wbxml_tree_create(WBXML_LANG_WML13, WBXML_CHARSET_UTF_8);
    root = wbxml_tree_add_xml_elt(tree, NULL, (WB_UTINY *)"wml");
    if (strcmp(p, "-")) while (p) {
        char *np = strchr(p, ','); size_t n; unsigned char *x; WBXMLTreeNode *e;
        if (np) *np++ = 0;
        x = hx_unhex(p, &n);
        e = wbxml_tree_add_xml_elt(tree, root, (WB_UTINY *)"p");
        /* an empty text cannot be a node (wbxml_tree_add_text refuses it): keep the element empty */
        if (n) wbxml_tree_add_text(tree, e, x, (WB_ULONG)n);
        free(x); p = np;
    }
    enc = wbxml_encoder_create();
    wbxml_encoder_set_lang(enc, WBXML_LANG_WML13);
    live0 = oom.live_blocks;
    oom_window(strtoul(t[2], NULL, 10), strtoul(t[3], NULL, 10));
    ret = wbxml_strtbl_initialize(enc, tree->root);
    oom_stop();
    printf("R %d | ", (int)ret); put_tail(live0); printf(" | tbl=");
    if (!enc->strstbl) printf("N"); else if (wbxml_list_len(enc->strstbl) == 0) printf("-");
    else for (j = 0; j < wbxml_list_len(enc->strstbl); j++) { WBXMLStringTableElement *e = wbxml_list_get(enc->strstbl, j); if (j) printf(","); put_buf(e->string); }
    printf(" len=%lu\n", (unsigned long)enc->strstbl_len);
    wbxml_encoder_destroy(enc); wbxml_tree_destroy(tree);
    oom_reset();
}

/* ---- T: wbxml_tree_to_wbxml on an element-only tree "(row(row)(row))" ---- */
static const char *parse_tree_desc(const char *p, WBXMLTree *tree, WBXMLTreeNode *parent)
{
    while (*p == '(') {
        WBXMLTreeNode *n = wbxml_tree_node_create(WBXML_TREE_ELEMENT_NODE);
        int row = atoi(++p);
        while (*p >= '0' && *p <= '9') p++;
        n->name = wbxml_tag_create_token(&U_lang->tagTable[row]);
        wbxml_tree_add_node(tree, parent, n);
        p = parse_tree_desc(p, tree, n);
        if (*p == ')') p++;
    }
    return p;
}

static void do_T(char **t)
{
    WBXMLTree *tree; WBXMLGenWBXMLParams params; WB_UTINY *out = NULL; WB_ULONG len = 0; WBXMLError ret; unsigned long live0;
    oom_reset();
    tree = wbxml_tree_create(WBXML_LANG_WML13, WBXML_CHARSET_UTF_8);
    parse_tree_desc(t[7], tree, NULL);
    params.wbxml_version = (WBXMLVersion)atoi(t[5]); params.keep_ignorable_ws = FALSE;
    params.use_strtbl = atoi(t[4]) ? TRUE : FALSE; params.produce_anonymous = FALSE;
    if ((unsigned long)atoi(t[6]) != U_lang->publicID->wbxmlPublicID) { printf("BADREQ\n"); wbxml_tree_destroy(tree); oom_reset(); return; }
    live0 = oom.live_blocks;
    oom_window(strtoul(t[2], NULL, 10), strtoul(t[3], NULL, 10));
    ret = wbxml_tree_to_wbxml(tree, &out, &len, &params);
    oom_stop();
    printf("R %d | ", (int)ret); put_tail(live0); printf(" | out=");
    if (!out) printf("N"); else hx_out(stdout, out, len);
    printf("\n");
    if (out) wbxml_free(out);
    wbxml_tree_destroy(tree);
    oom_reset();
}


/* ---- B: the tree-building call-backs of wbxml_tree_clb_wbxml.c ---- */
#include "wbxml_tree_clb_wbxml.h"
typedef struct { int kind; WBXMLTag *tag; WBXMLAttribute **attrs; unsigned char *text; size_t n; } BEv;

static void b_dump(WBXMLTreeNode *n)
{
    WBXMLTreeNode *c;
    printf("(");
    switch (n->type) {
    case WBXML_TREE_ELEMENT_NODE:
        printf("E");
        if (!n->name) printf("N");
        else put_tagname(n->name->type, n->name->u.token, U_lang->tagTable, sizeof(WBXMLTagEntry), n->name->type == WBXML_VALUE_LITERAL ? n->name->u.literal : NULL);
        if (n->attrs) { WB_ULONG j; for (j = 0; j < wbxml_list_len(n->attrs); j++) put_attr(wbxml_list_get(n->attrs, j)); }
        break;
    case WBXML_TREE_TEXT_NODE: printf("T"); if (n->content) put_buf(n->content); else printf("N"); break;
    case WBXML_TREE_CDATA_NODE: printf("C"); break;
    default: printf("?"); break;
    }
    for (c = n->children; c; c = c->next) b_dump(c);
    printf(")");
}

static void do_B(char **t)
{
    BEv ev[256]; int nev = 0, i, bad = 0, depth = 0; char *p = t[4]; unsigned long live0;
    WBXMLTreeClbCtx ctx; WBXMLError ret; WBXMLTreeNode *c;
    oom_reset();
    memset(ev, 0, sizeof ev);
    if (strcmp(p, "-")) while (p && nev < 256) {
        char *np = strchr(p, ','); BEv *e = &ev[nev++];
        if (np) *np++ = 0;
        e->kind = p[0];
        if (p[0] == 'S') {
            char *as = strchr(p, '/'); size_t n; unsigned char *x;
            if (as) *as++ = 0;
            if (p[1] == 'T') e->tag = wbxml_tag_create_token(&U_lang->tagTable[atoi(p + 2)]);
            else if (p[1] == 'L') { x = hx_unhex(p + 2, &n); e->tag = wbxml_tag_create_literal(x); free(x); }
            else bad = 1;
            if (as) {
                int na = 0; char *a = as;
                e->attrs = calloc(34, sizeof(WBXMLAttribute *));
                while (a && na < 32) {
                    char *nexta = strchr(a, ';'), *v = strchr(a, '='); WBXMLAttribute *at = wbxml_attribute_create();
                    if (nexta) *nexta++ = 0;
                    if (!v) { bad = 1; break; }
                    *v++ = 0;
                    if (a[0] == 'T') at->name = wbxml_attribute_name_create_token(&U_lang->attrTable[atoi(a + 1)]);
                    else if (a[0] == 'L') { x = hx_unhex(a + 1, &n); at->name = wbxml_attribute_name_create_literal(x); free(x); }
                    else bad = 1;
                    if (strcmp(v, "N")) { x = hx_unhex(v, &n); at->value = wbxml_buffer_create_real(x, (WB_ULONG)n, (WB_ULONG)n); free(x); }
                    e->attrs[na++] = at;
                    a = nexta;
                }
            }
        }
        else if (p[0] == 'C' || p[0] == 'V') e->text = hx_unhex(p + 1, &e->n);
        else if (p[0] != 'E') bad = 1;
        p = np;
    }
    if (bad) printf("BADREQ\n");
    else {
        live0 = oom.live_blocks;
        oom_window(strtoul(t[2], NULL, 10), strtoul(t[3], NULL, 10));
        ctx.error = WBXML_OK; ctx.current = NULL;
        if ((ctx.tree = wbxml_tree_create(WBXML_LANG_UNKNOWN, WBXML_CHARSET_UNKNOWN)) == NULL) ret = WBXML_ERROR_NOT_ENOUGH_MEMORY;
        else {
            for (i = 0; i < nev; i++) {
                if (ev[i].kind == 'S') wbxml_tree_clb_wbxml_start_element(&ctx, ev[i].tag, ev[i].attrs);
                else if (ev[i].kind == 'E') wbxml_tree_clb_wbxml_end_element(&ctx, NULL);
                else wbxml_tree_clb_wbxml_characters(&ctx, ev[i].text, 0, (WB_ULONG)ev[i].n);
            }
            if (ctx.error != WBXML_OK) { wbxml_tree_destroy(ctx.tree); ctx.tree = NULL; }
            ret = ctx.error;
        }
        oom_stop();
        printf("R %d | ", (int)ret); put_tail(live0);
        if (ctx.tree) { for (c = ctx.current; c; c = c->parent) depth++; }
        printf(" | cur=%d tree=", depth);
        if (!ctx.tree) printf("N"); else if (!ctx.tree->root) printf("-"); else b_dump(ctx.tree->root);
        printf("\n");
        if (ctx.tree) wbxml_tree_destroy(ctx.tree);
    }
    for (i = 0; i < nev; i++) {
        wbxml_tag_destroy(ev[i].tag);
        if (ev[i].attrs) { int j; for (j = 0; ev[i].attrs[j]; j++) wbxml_attribute_destroy(ev[i].attrs[j]); free(ev[i].attrs); }
        free(ev[i].text);
    }
    oom_reset();
}


/* ---- D: wbxml_tree_from_wbxml() on a document assembled from shapes ----
 *   OOM D <k1> <k2> <lang> <wb> <hdr> <strtbl> <pubid> <pre> <root> <body>
 *   lang    W (WML 1.3) | R (DRMREL 1.0: opaque content of <ds:KeyValue> is base64-decoded)
 *   wb      00 | - (wbxml_len = 0)
 *   hdr     0 | 35 (a charset MIB the library does not know)
 *   strtbl  - | Z<hex> (the table, as it is) | E54 (a length beyond the document)
 *   pubid   K (the language's token) | U (a token no table has) | SF<idx> / SN<idx> / SE<idx> (string-table
 *           reference: to the language's textual id / another string / beyond the table) | SX (index 0, no table)
 *   pre     - | <attr>;<attr>...            processing instructions before the root
 *   root    B<c><tag>~<attrs> | !45          c = 1: with content
 *   body    - | <item>;<item>...
 *   item    B<c><tag>~<attrs>  E  P<attr>  W (switchPage 0)  X<k> (EXT_k)  !<code>  C<l><content>
 *           (l = C | V: whether the model is to expect a CDATA section; not looked at here)
 *   content S<hex>  R<idx>.<hex>  D<hex>  B<hex>.<base64 hex>  N<code>.<utf8 hex>  XI<k>.<hex>  XT<k>.<idx>.<hex>
 *   tag     T<row> | U | L<idx>.<hex>        attrs: - | <attr>|<attr>...
 *   attr    <start>[:<piece>,<piece>...]     start: T<row>/<hex|N> | U | L<idx>.<hex>
 *   piece   S<hex> | R<idx>.<hex> | D<hex> | E61
 * Indices are positions in <strtbl>; the generator lays the table out.  Compared with the model: error code,
 * requests, failures delivered, live blocks at exit (the tree), ledger fault, canonical dump of the tree. */
static unsigned long d_idx(char **p) { unsigned long v = strtoul(*p, p, 10); if (**p == '.') (*p)++; return v; }

static int d_errbytes(int code, Bld *b)
{
    switch (code) {
    case 43: bputc(b, 0xC3); bputc(b, 0x87); bputc(b, 0xFF); bputc(b, 0xFF); bputc(b, 0x7F); return 1;   /* opaque length beyond the document */
    case 48: case 52: bputc(b, 0x83); bputc(b, 0x87); bputc(b, 0xFF); bputc(b, 0xFF); bputc(b, 0x7F); return 1;   /* string-table index beyond the table / no table */
    case 45: return 1;                                                                                        /* end of buffer: nothing */
    default: return 0;
    }
}

static int d_pieces(char *pieces, Bld *b)
{
    while (pieces && *pieces) {
        char *np = strchr(pieces, ','); size_t n; unsigned char *x;
        if (np) *np++ = 0;
        if (pieces[0] == 'S') { x = hx_unhex(pieces + 1, &n); if (memchr(x, 0, n)) { free(x); return 0; } bputc(b, 0x03); bput(b, x, n); bputc(b, 0); free(x); }
        else if (pieces[0] == 'R') { char *q = pieces + 1; bputc(b, 0x83); bput_mb(b, d_idx(&q)); }
        else if (pieces[0] == 'D') { x = hx_unhex(pieces + 1, &n); bputc(b, 0xC3); bput_mb(b, n); bput(b, x, n); free(x); }
        else if (pieces[0] == 'E') { int tk = unused_value_token(); if (tk < 0 || atoi(pieces + 1) != WBXML_ERROR_UNKNOWN_ATTR_VALUE) return 0; bputc(b, tk); }
        else return 0;
        pieces = np;
    }
    return 1;
}

static int d_attr(char *a, Bld *b)
{
    char *pieces = strchr(a, ':');
    if (pieces) *pieces++ = 0;
    if (a[0] == 'T') { char *sl = strchr(a, '/'); int row; const char *want; size_t n = 0; unsigned char *x = NULL;
        if (!sl) return 0; *sl++ = 0; row = atoi(a + 1);
        if (U_lang->attrTable[row].wbxmlCodePage != 0) return 0;
        want = U_lang->attrTable[row].xmlValue;
        if (strcmp(sl, "N") == 0) { if (want) return 0; }
        else { x = hx_unhex(sl, &n); if (!want || strlen(want) != n || memcmp(want, x, n)) { free(x); return 0; } free(x); }
        bputc(b, U_lang->attrTable[row].wbxmlToken); }
    else if (a[0] == 'U') { int tk = unused_attr_token(); if (tk < 0) return 0; bputc(b, tk); }
    else if (a[0] == 'L') { char *q = a + 1; bputc(b, 0x04); bput_mb(b, d_idx(&q)); }
    else return 0;
    return d_pieces(pieces, b);
}

static int d_elem(char *spec, Bld *b)       /* <c><tag>~<attrs> */
{
    int has_content = spec[0] == '1', has_attrs; char *tag = spec + 1, *attrs = strchr(spec, '~'); unsigned flags;
    if (!attrs) return 0;
    *attrs++ = 0;
    has_attrs = strcmp(attrs, "-") != 0;
    flags = (has_attrs ? 0x80 : 0) | (has_content ? 0x40 : 0);
    if (tag[0] == 'T') { int row = atoi(tag + 1); if (U_lang->tagTable[row].wbxmlCodePage != 0) return 0; bputc(b, U_lang->tagTable[row].wbxmlToken | flags); }
    else if (tag[0] == 'U') { int tk = unused_tag_token(); if (tk < 0) return 0; bputc(b, tk | flags); }
    else if (tag[0] == 'L') { char *q = tag + 1; bputc(b, 0x04 | flags); bput_mb(b, d_idx(&q)); }
    else return 0;
    if (has_attrs) {
        char *a = attrs;
        while (a) { char *nexta = strchr(a, '|'); if (nexta) *nexta++ = 0; if (!d_attr(a, b)) return 0; a = nexta; }
        bputc(b, 0x01);
    }
    return 1;
}

static int d_content(char *c, Bld *b)
{
    size_t n; unsigned char *x; char *q;
    switch (c[0]) {
    case 'S': x = hx_unhex(c + 1, &n); if (memchr(x, 0, n)) { free(x); return 0; } bputc(b, 0x03); bput(b, x, n); bputc(b, 0); free(x); return 1;
    case 'R': q = c + 1; bputc(b, 0x83); bput_mb(b, d_idx(&q)); return 1;
    case 'D': x = hx_unhex(c + 1, &n); bputc(b, 0xC3); bput_mb(b, n); bput(b, x, n); free(x); return 1;
    case 'B': q = strchr(c, '.'); if (!q) return 0; *q = 0; x = hx_unhex(c + 1, &n); bputc(b, 0xC3); bput_mb(b, n); bput(b, x, n); free(x); return 1;
    case 'N': q = c + 1; bputc(b, 0x02); bput_mb(b, d_idx(&q)); return 1;
    case 'X':
        if (c[1] == 'I' && c[2] >= '0' && c[2] <= '2' && c[3] == '.') { x = hx_unhex(c + 4, &n); if (memchr(x, 0, n)) { free(x); return 0; }
            bputc(b, 0x40 + (c[2] - '0')); bput(b, x, n); bputc(b, 0); free(x); return 1; }
        if (c[1] == 'T' && c[2] >= '0' && c[2] <= '2' && c[3] == '.') { q = c + 4; bputc(b, 0x80 + (c[2] - '0')); bput_mb(b, d_idx(&q)); return 1; }
        return 0;
    case '!': return d_errbytes(atoi(c + 1), b);
    default: return 0;
    }
}

static int d_item(char *it, Bld *b)
{
    switch (it[0]) {
    case 'E': bputc(b, 0x01); return it[1] == 0;
    case 'W': bputc(b, 0x00); bputc(b, 0x00); return it[1] == 0;
    case 'X': if (it[1] < '0' || it[1] > '2' || it[2]) return 0; bputc(b, 0xC0 + (it[1] - '0')); return 1;
    case 'B': return d_elem(it + 1, b);
    case 'C': return (it[1] == 'C' || it[1] == 'V') && d_content(it + 2, b);
    case 'P': bputc(b, 0x43); if (!d_attr(it + 1, b)) return 0; bputc(b, 0x01); return 1;
    case '!': return d_errbytes(atoi(it + 1), b);
    default: return 0;
    }
}

static int d_list(char *s, int (*f)(char *, Bld *), Bld *b, int pi)
{
    if (strcmp(s, "-") == 0) return 1;
    while (s) {
        char *nx = strchr(s, ';');
        if (nx) *nx++ = 0;
        if (pi) { bputc(b, 0x43); if (!d_attr(s, b)) return 0; bputc(b, 0x01); }
        else if (!f(s, b)) return 0;
        s = nx;
    }
    return 1;
}

static void do_D(char **t)
{
    Bld doc = { NULL, 0, 0 }; const WBXMLLangEntry *save = U_lang; WBXMLTree *tree = NULL; WBXMLError ret; unsigned long live0; int ok = 1;
    char *lang = t[4], *wb = t[5], *hdr = t[6], *st = t[7], *pid = t[8], *pre = t[9], *root = t[10], *body = t[11];
    oom_reset();
    U_lang = wbxml_tables_get_table(lang[0] == 'R' ? WBXML_LANG_DRMREL10 : WBXML_LANG_WML13);
    bputc(&doc, 0x03);                                                   /* WBXML 1.3 */
    if (pid[0] == 'K') bput_mb(&doc, U_lang->publicID->wbxmlPublicID);
    else if (pid[0] == 'U') bput_mb(&doc, 0x3FFE);
    else if (pid[0] == 'S' && pid[1] == 'X') { bputc(&doc, 0); bputc(&doc, 0); }
    else if (pid[0] == 'S' && (pid[1] == 'F' || pid[1] == 'N' || pid[1] == 'E')) { bputc(&doc, 0); bput_mb(&doc, strtoul(pid + 2, NULL, 10)); }
    else ok = 0;
    if (strcmp(hdr, "0") == 0) bputc(&doc, 0x6A);                        /* UTF-8 */
    else if (strcmp(hdr, "35") == 0) bput_mb(&doc, 0x3FFF);
    else ok = 0;
    if (strcmp(st, "-") == 0) bputc(&doc, 0);
    else if (st[0] == 'Z') { size_t n; unsigned char *x = hx_unhex(st + 1, &n); if (!n) ok = 0; bput_mb(&doc, n); bput(&doc, x, n); free(x); }
    else if (strcmp(st, "E54") == 0) bput_mb(&doc, 0x3FFF);
    else ok = 0;
    ok = ok && d_list(pre, NULL, &doc, 1);
    if (ok && root[0] == 'B') ok = d_elem(root + 1, &doc);
    else if (ok && root[0] == '!') ok = d_errbytes(atoi(root + 1), &doc);
    else ok = 0;
    ok = ok && d_list(body, d_item, &doc, 0);
    if (!ok) printf("BADREQ\n");
    else {
        live0 = oom.live_blocks;
        oom_window(strtoul(t[2], NULL, 10), strtoul(t[3], NULL, 10));
        ret = wbxml_tree_from_wbxml(doc.p, strcmp(wb, "-") ? (WB_ULONG)doc.n : 0, WBXML_LANG_UNKNOWN, WBXML_CHARSET_UNKNOWN, &tree);
        oom_stop();
        printf("R %d | ", (int)ret); put_tail(live0);
        printf(" | tree=");
        if (!tree) printf("N"); else if (!tree->root) printf("-"); else b_dump(tree->root);
        printf("\n");
        if (tree) wbxml_tree_destroy(tree);
    }
    free(doc.p);
    U_lang = save;
    oom_reset();
}

/* ---- X: wbxml_tree_to_xml() on a tree assembled from shapes ----
 *   OOM X <k1> <k2> <gen> <indent> <keepws> <lang> <node>
 *   gen     0 compact | 1 indent | 2 canonical          indent: params.indent     keepws: params.keep_ignorable_ws
 *   lang    <letter>:<fff>:<root>:<public id>:<dtd>      letter W (WML 1.3) | S (SyncML 1.2) | V (DevInf 1.2) | A (AirSync);
 *           the rest is what the MODEL reads of the language table (attribute table?, SyncML?, SyncML 1.2?, DOCTYPE strings)
 *   node    E<tag>/<name>/<ns|->/<b><m>[~<attr>|<attr>...](<node>,<node>...)     element; tag = T<row> | L<hex>;
 *                  name / ns / b (binary tag) / m (MetInf <Type>) are the model's inputs, decided here from the tables
 *           T<hex>                         text node (linked as it is: adjacent text nodes are NOT joined)
 *           C(<node>,...)                  CDATA section
 *           Y<lang>(<node>)                embedded tree (WBXML_TREE_TREE_NODE)
 *           P                              processing-instruction node (the printer refuses it)
 *   attr    T<row>:<name>=<value> | L<name>=<value> | N=<value> (attribute without name)
 * Compared with the model: error code, requests, failures delivered, live blocks at exit (the result), ledger
 * fault, the XML text. */
static const WBXMLLangEntry *x_lang(char c)
{
    switch (c) {
    case 'S': return wbxml_tables_get_table(WBXML_LANG_SYNCML_SYNCML12);
    case 'V': return wbxml_tables_get_table(WBXML_LANG_SYNCML_DEVINF12);
    case 'A': return wbxml_tables_get_table(WBXML_LANG_AIRSYNC);
    default:  return wbxml_tables_get_table(WBXML_LANG_WML13);
    }
}

static void x_link(WBXMLTree *tree, WBXMLTreeNode *parent, WBXMLTreeNode *n)
{
    WBXMLTreeNode *t;
    n->parent = parent;
    if (!parent) { if (!tree->root) tree->root = n; else { for (t = tree->root; t->next; t = t->next) ; t->next = n; n->prev = t; } return; }
    if (!parent->children) { parent->children = n; return; }
    for (t = parent->children; t->next; t = t->next) ;
    t->next = n; n->prev = t;
}

static int x_bad;
static char *x_hexend(char *p) { while ((*p >= '0' && *p <= '9') || (*p >= 'a' && *p <= 'f') || *p == '-') p++; return p; }
static unsigned char *x_take(char **p, size_t *n) { char *e = x_hexend(*p), sv = *e; unsigned char *x; *e = 0; x = hx_unhex(*p, n); *e = sv; *p = e; return x; }
static char *x_nodes(char *p, WBXMLTree *tree, WBXMLTreeNode *parent, const WBXMLLangEntry *lang);

static char *x_node(char *p, WBXMLTree *tree, WBXMLTreeNode *parent, const WBXMLLangEntry *lang)
{
    size_t n; unsigned char *x;
    if (*p == 'E') {
        WBXMLTreeNode *e = wbxml_tree_node_create(WBXML_TREE_ELEMENT_NODE);
        p++;
        if (*p == 'T') { int row = (int)strtol(p + 1, &p, 10); e->name = wbxml_tag_create_token(&lang->tagTable[row]); }
        else if (*p == 'L') { p++; x = x_take(&p, &n); e->name = wbxml_tag_create_literal(x); free(x); }
        else x_bad = 1;
        x_link(tree, parent, e);
        if (*p != '/') { x_bad = 1; return p; }
        p = x_hexend(p + 1);                                   /* name */
        if (*p != '/') { x_bad = 1; return p; }
        p = x_hexend(p + 1);                                   /* ns */
        if (*p != '/' || !p[1] || !p[2]) { x_bad = 1; return p; }
        p += 3;                                                /* flags */
        if (*p == '~') {
            e->attrs = wbxml_list_create();
            do {
                WBXMLAttribute *a = wbxml_attribute_create();
                p++;
                if (*p == 'T') { int row = (int)strtol(p + 1, &p, 10); a->name = wbxml_attribute_name_create_token(&lang->attrTable[row]);
                                 if (*p != ':') { x_bad = 1; } else p = x_hexend(p + 1); }
                else if (*p == 'L') { p++; x = x_take(&p, &n); a->name = wbxml_attribute_name_create_literal(x); free(x); }
                else if (*p == 'N') p++;
                else x_bad = 1;
                if (*p != '=') { x_bad = 1; wbxml_attribute_destroy(a); return p; }
                p++; x = x_take(&p, &n);
                a->value = wbxml_buffer_create_real(x, (WB_ULONG)n, (WB_ULONG)n); free(x);
                wbxml_list_append(e->attrs, a);
            } while (*p == '|' && !x_bad);
        }
        if (*p != '(') { x_bad = 1; return p; }
        p = x_nodes(p + 1, tree, e, lang);
        if (*p != ')') { x_bad = 1; return p; }
        return p + 1;
    }
    if (*p == 'T') {
        WBXMLTreeNode *t = wbxml_tree_node_create(WBXML_TREE_TEXT_NODE);
        p++; x = x_take(&p, &n);
        t->content = wbxml_buffer_create_real(x, (WB_ULONG)n, (WB_ULONG)n); free(x);
        x_link(tree, parent, t);
        return p;
    }
    if (*p == 'C' && p[1] == '(') {
        WBXMLTreeNode *c = wbxml_tree_node_create(WBXML_TREE_CDATA_NODE);
        x_link(tree, parent, c);
        p = x_nodes(p + 2, tree, c, lang);
        if (*p != ')') { x_bad = 1; return p; }
        return p + 1;
    }
    if (*p == 'Y') {
        WBXMLTreeNode *y = wbxml_tree_node_create(WBXML_TREE_TREE_NODE);
        const WBXMLLangEntry *l2 = x_lang(p[1]);
        x_link(tree, parent, y);
        y->tree = wbxml_tree_create(l2->langID, WBXML_CHARSET_UTF_8);
        p = strchr(p, '(');
        if (!p) { x_bad = 1; return ""; }
        p = x_node(p + 1, y->tree, NULL, l2);
        if (*p != ')') { x_bad = 1; return p; }
        return p + 1;
    }
    if (*p == 'P') { x_link(tree, parent, wbxml_tree_node_create(WBXML_TREE_PI_NODE)); return p + 1; }
    x_bad = 1;
    return p;
}

static char *x_nodes(char *p, WBXMLTree *tree, WBXMLTreeNode *parent, const WBXMLLangEntry *lang)
{
    if (*p == ')') return p;
    for (;;) {
        p = x_node(p, tree, parent, lang);
        if (x_bad || *p != ',') return p;
        p++;
    }
}

static void do_X(char **t)
{
    const WBXMLLangEntry *lang = x_lang(t[7][0]); WBXMLTree *tree; WBXMLGenXMLParams params; WB_UTINY *out = NULL; WB_ULONG len = 0;
    WBXMLError ret; unsigned long live0; char *end;
    oom_reset();
    x_bad = 0;
    tree = wbxml_tree_create(lang->langID, WBXML_CHARSET_UTF_8);
    end = x_node(t[8], tree, NULL, lang);
    if (x_bad || *end) printf("BADREQ\n");
    else {
        params.gen_type = (WBXMLGenXMLType)atoi(t[4]); params.lang = lang->langID; params.charset = WBXML_CHARSET_UNKNOWN;
        params.indent = (WB_UTINY)atoi(t[5]); params.keep_ignorable_ws = atoi(t[6]) ? TRUE : FALSE;
        live0 = oom.live_blocks;
        oom_window(strtoul(t[2], NULL, 10), strtoul(t[3], NULL, 10));
        ret = wbxml_tree_to_xml(tree, &out, &len, &params);
        oom_stop();
        printf("R %d | ", (int)ret); put_tail(live0); printf(" | out=");
        if (!out) printf("N"); else hx_out(stdout, out, len);
        printf("\n");
        if (out) wbxml_free(out);
    }
    wbxml_tree_destroy(tree);
    oom_reset();
}

/* ---- F: wbxml_tree_from_xml() on an XML text (Expat runs for real; its allocations are libc's) ----
 *   OOM F <k1> <k2> <xml hex> <parseOk> <events>
 * Only the XML text is used here.  <parseOk> and <events> are what the MODEL is given: the result of XML_Parse and
 * the call-backs Expat makes, as the generator predicts them (S<langOk><tag>[/<attr>;...]  E<binary><decoded hex>
 * A  Z  C<datatype><binary><hex>).  Compared: error code, requests, failures delivered, live blocks at exit (the
 * tree), ledger fault, canonical dump of the tree (a token name prints as T0, or T1 for a tag with WBXML_TAG_OPTION_BINARY:
 * which row a name resolves to allocates nothing). */
static void f_name(int type, WBXMLBuffer *lit, int binary)
{
    if (type == WBXML_VALUE_TOKEN) printf("T%d", binary);
    else if (lit == NULL) printf("LN");
    else { printf("L"); put_buf(lit); }
}

static void f_dump(WBXMLTreeNode *n)
{
    WBXMLTreeNode *c;
    printf("(");
    switch (n->type) {
    case WBXML_TREE_ELEMENT_NODE:
        printf("E");
        if (!n->name) printf("N"); else f_name(n->name->type, n->name->type == WBXML_VALUE_LITERAL ? n->name->u.literal : NULL,
                                               n->name->type == WBXML_VALUE_TOKEN && (n->name->u.token->options & WBXML_TAG_OPTION_BINARY));
        if (n->attrs) { WB_ULONG j; for (j = 0; j < wbxml_list_len(n->attrs); j++) { WBXMLAttribute *a = wbxml_list_get(n->attrs, j);
            printf("(");
            if (!a->name) printf("N"); else f_name(a->name->type, a->name->type == WBXML_VALUE_LITERAL ? a->name->u.literal : NULL, 0);
            printf(";");
            if (!a->value) printf("N"); else put_buf(a->value);
            printf(")"); } }
        break;
    case WBXML_TREE_TEXT_NODE: printf("T"); if (n->content) put_buf(n->content); else printf("N"); break;
    case WBXML_TREE_CDATA_NODE: printf("C"); break;
    default: printf("?"); break;
    }
    for (c = n->children; c; c = c->next) f_dump(c);
    printf(")");
}

static void do_F(char **t)
{
    size_t n; unsigned char *xml = hx_unhex(t[4], &n); WBXMLTree *tree = NULL; WBXMLError ret; unsigned long live0;
    oom_reset();
    live0 = oom.live_blocks;
    oom_window(strtoul(t[2], NULL, 10), strtoul(t[3], NULL, 10));
    ret = wbxml_tree_from_xml(xml, (WB_ULONG)n, &tree);
    oom_stop();
    printf("R %d | ", (int)ret); put_tail(live0);
    printf(" | tree=");
    if (!tree) printf("N"); else if (!tree->root) printf("-"); else f_dump(tree->root);
    printf("\n");
    if (tree) wbxml_tree_destroy(tree);
    free(xml);
    oom_reset();
}

/* "OOM XINFO <letter>": what the generator of X needs of a language table */
static void do_XINFO(char c)
{
    const WBXMLLangEntry *l = x_lang(c); int i;
    printf("XINFO attrtable=%d syncml=%d syncml12=%d root=", l->attrTable != NULL,
           l->langID == WBXML_LANG_SYNCML_SYNCML10 || l->langID == WBXML_LANG_SYNCML_SYNCML11 || l->langID == WBXML_LANG_SYNCML_SYNCML12,
           l->langID == WBXML_LANG_SYNCML_SYNCML12);
    hx_outs(stdout, l->publicID->xmlRootElt); printf(" pubid="); hx_outs(stdout, l->publicID->xmlPublicID ? l->publicID->xmlPublicID : "");
    printf(" dtd="); hx_outs(stdout, l->publicID->xmlDTD);
    printf(" tags=");
    for (i = 0; l->tagTable[i].xmlName; i++) { printf("%s%d:%d:%d:%d:", i ? "," : "", i, l->tagTable[i].wbxmlCodePage, l->tagTable[i].wbxmlToken,
                                                      (l->tagTable[i].options & WBXML_TAG_OPTION_BINARY) ? 1 : 0); hx_outs(stdout, l->tagTable[i].xmlName); }
    printf(" ns=");
    if (!l->nsTable) printf("N"); else for (i = 0; l->nsTable[i].xmlNameSpace; i++) { printf("%s%d:", i ? "," : "", l->nsTable[i].wbxmlCodePage); hx_outs(stdout, l->nsTable[i].xmlNameSpace); }
    printf(" attrs=");
    if (!l->attrTable) printf("N"); else for (i = 0; l->attrTable[i].xmlName; i++) { printf("%s%d:", i ? "," : "", i); hx_outs(stdout, l->attrTable[i].xmlName); printf(":");
                                             if (l->attrTable[i].xmlValue) hx_outs(stdout, l->attrTable[i].xmlValue); else printf("N"); }
    printf("\n");
}

static int unit_main(void)
{
    char *line;
    U_lang = wbxml_tables_get_table(WBXML_LANG_WML13);
    setvbuf(stdout, NULL, _IOLBF, 0);
    while ((line = hx_getline(stdin))) {
        char *t[512]; int nt = 0; char *p = strtok(line, " ");
        while (p && nt < 512) { t[nt++] = p; p = strtok(NULL, " "); }
        if (nt >= 4 && !strcmp(t[0], "OOM") && !strcmp(t[1], "U")) do_U(t, nt);
        else if (nt == 6 && !strcmp(t[0], "OOM") && !strcmp(t[1], "P")) do_P(t);
        else if (nt == 5 && !strcmp(t[0], "OOM") && !strcmp(t[1], "S")) do_S(t);
        else if (nt == 9 && !strcmp(t[0], "OOM") && !strcmp(t[1], "T")) do_T(t);
        else if (nt == 5 && !strcmp(t[0], "OOM") && !strcmp(t[1], "B")) do_B(t);
        else if (nt == 12 && !strcmp(t[0], "OOM") && !strcmp(t[1], "D")) do_D(t);
        else if (nt == 9 && !strcmp(t[0], "OOM") && !strcmp(t[1], "X")) do_X(t);
        else if (nt == 7 && !strcmp(t[0], "OOM") && !strcmp(t[1], "F")) do_F(t);
        else if (nt == 3 && !strcmp(t[0], "OOM") && !strcmp(t[1], "XINFO")) do_XINFO(t[2][0]);
        else if ((nt == 2 || nt == 3) && !strcmp(t[0], "OOM") && !strcmp(t[1], "INFO")) {
            /* page-0 rows of the WML 1.3 tables the P and T verbs may name ("OOM INFO R": DRMREL 1.0, for D) */
            int i, any = 0; const WBXMLLangEntry *save = U_lang;
            if (nt == 3 && t[2][0] == 'R') U_lang = wbxml_tables_get_table(WBXML_LANG_DRMREL10);
            printf("INFO pubid=%lu tags=", (unsigned long)U_lang->publicID->wbxmlPublicID);
            for (i = 0; U_lang->tagTable[i].xmlName; i++) if (U_lang->tagTable[i].wbxmlCodePage == 0) { printf("%s%d", any ? "," : "", i); any = 1; }
            printf(" attrs="); any = 0;
            for (i = 0; U_lang->attrTable[i].xmlName; i++) if (U_lang->attrTable[i].wbxmlCodePage == 0) {
                printf("%s%d/", any ? "," : "", i); any = 1;
                if (U_lang->attrTable[i].xmlValue) hx_outs(stdout, U_lang->attrTable[i].xmlValue); else printf("N"); }
            printf(" tagtokens="); any = 0;
            for (i = 0; U_lang->tagTable[i].xmlName; i++) if (U_lang->tagTable[i].wbxmlCodePage == 0) { printf("%s%d:%d", any ? "," : "", i, U_lang->tagTable[i].wbxmlToken); any = 1; }
            printf(" xmlid="); hx_outs(stdout, U_lang->publicID->xmlPublicID);
            printf("\n");
            U_lang = save;
        }
        else puts("BADVERB");
        free(line);
    }
    return 0;
}

int main(int argc, char **argv)
{
    if (argc >= 2 && strcmp(argv[1], "conv") == 0) return conv_main(argc, argv);
    if (argc >= 2 && strcmp(argv[1], "marker") == 0) { puts(oom_alloc_marker); return 0; }
    return unit_main();
}
