/* ENCX / W2T / T2T: tree-level correspondence.
 *   ENCX <gen> <indent> <keepws> <tree>   -> R <code> ; <hex xml>     (wbxml_tree_to_xml)
 *   W2T <lang> <charset> <hexdoc>        -> R <code> ; <tree>        (wbxml_tree_from_wbxml)
 *   X2T <hexxml> [ignored…]            -> R <code> ; <tree>        (wbxml_tree_from_xml)
 *   T2T <tree>                           -> <tree>                   (serialiser round trip)
 */
#include "treeio.h"
#include "wbxml_conv.h"

int main(void)
{
    char *line;
    while ((line = hx_getline(stdin))) {
        char *t[8]; int nt = 0; char *p = strtok(line, " ");
        while (p && nt < 8) { t[nt++] = p; p = strtok(NULL, " "); }
        if (nt == 5 && !strcmp(t[0], "ENCX")) {
            WBXMLTree *tree = tio_read_tree(t[4]);
            if (!tree) puts("BADTREE");
            else {
                WBXMLGenXMLParams prm; WB_UTINY *xml = NULL; WB_ULONG len = 0; WBXMLError ret;
                prm.gen_type = (WBXMLGenXMLType)atoi(t[1]); prm.lang = WBXML_LANG_UNKNOWN; prm.charset = WBXML_CHARSET_UNKNOWN;
                prm.indent = (WB_UTINY)atoi(t[2]); prm.keep_ignorable_ws = (WB_BOOL)atoi(t[3]);
                ret = wbxml_tree_to_xml(tree, &xml, &len, &prm);
                printf("R %d ; ", (int)ret);
                if (ret == WBXML_OK && xml) hx_out(stdout, xml, len);
                puts("");
                if (xml) wbxml_free(xml);
                wbxml_tree_destroy(tree);
            }
        } else if (nt == 4 && !strcmp(t[0], "W2T")) {
            size_t n; unsigned char *doc = hx_unhex(t[3], &n); WBXMLTree *tree = NULL;
            WBXMLError ret = n ? wbxml_tree_from_wbxml(doc, (WB_ULONG)n, (WBXMLLanguage)atoi(t[1]), (WBXMLCharsetMIBEnum)atoi(t[2]), &tree) : WBXML_ERROR_EMPTY_WBXML;
            printf("R %d ; ", (int)ret);
            if (ret == WBXML_OK && tree) tio_print_tree(stdout, tree);
            puts("");
            if (tree) wbxml_tree_destroy(tree);
            free(doc);
        } else if (nt >= 2 && !strcmp(t[0], "X2T")) {
            size_t n; unsigned char *doc = hx_unhex(t[1], &n); WBXMLTree *tree = NULL;
            WBXMLError ret = wbxml_tree_from_xml(doc, (WB_ULONG)n, &tree);
            printf("R %d ; ", (int)ret);
            if (ret == WBXML_OK && tree) tio_print_tree(stdout, tree);
            puts("");
            if (tree) wbxml_tree_destroy(tree);
            free(doc);
        } else if (nt == 2 && !strcmp(t[0], "T2T")) {
            WBXMLTree *tree = tio_read_tree(t[1]);
            if (!tree) puts("BADTREE"); else { tio_print_tree(stdout, tree); puts(""); wbxml_tree_destroy(tree); }
        } else puts("BADVERB");
        free(line);
    }
    return 0;
}
