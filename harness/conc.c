/* C14 harness: concurrent conversions vs the same conversions run alone.  Built with
 * common.Build('tsan') (clang -fsanitize=thread), linked against the scratch static library.
 *
 *   conc derive <corpus>                         X lines -> "W <hex>" (default xml2wbxml, one thread)
 *   conc screen <corpus> <from>                  every input through every operation kind with the
 *                                                heaviest option tuple, on a worker thread with the
 *                                                same stack as the real workers; "B <i>" before,
 *                                                "S <i>" after (a crash/hang is attributed to <i>)
 *   conc run <corpus> <threads> <ops> <seed> <phases>   phases: both | par | seq
 *
 * corpus: lines "X <hex>" (XML document) / "W <hex>" (WBXML document); lower-case "x"/"w" mark the
 * malformed stream (mutated documents), drawn with probability 3/8 so that most operations succeed.
 *
 * run: thread t performs the operation sequence derived from (seed, t) only: both conversions with
 * its own converter objects and option tuples, parser runs with content handlers, encoder runs on its
 * own trees, each on a PRIVATE copy of the input.  Phase "par" starts all threads behind a barrier;
 * phase "seq" replays the same sequences one thread after the other on the main thread.  One line
 * per operation and phase:
 *     R <par|seq> t=<t> k=<k> op=<kind> in=<idx> o=<opts hex> st=<status> len=<n> h=<fnv64>
 * then "MISMATCH t=<t> k=<k>" for every operation whose (status, length, hash) differ between the
 * phases, and "DONE threads=.. ops=.. mismatches=..".  A ThreadSanitizer report goes to stderr and
 * turns the exit code into 97 (TSAN_OPTIONS exitcode=97).
 */
#include <stdio.h>
#include <stdlib.h>
#include <string.h>
#include <stdint.h>
#include <pthread.h>
#include <sched.h>
#include <unistd.h>
#include <expat.h>
#include "wbxml.h"
#include "wbxml_conv.h"
#include "wbxml_parser.h"
#include "wbxml_encoder.h"
#include "wbxml_tree.h"
#include "wbxml_tables.h"
#include "wbxml_errors.h"
#include "wbxml_charset.h"

#define STACK_BYTES (256u << 20)

typedef struct { int is_xml; int malformed; unsigned char *data; size_t len; } Input;
static Input *g_in; static size_t g_nin;
static size_t *g_x, g_nx, *g_w, g_nw;          /* indices of XML / WBXML inputs (valid stream) */
static size_t *g_xm, g_nxm, *g_wm, g_nwm;      /* … malformed stream */

static const int LANGS[] = { 1101,1102,1103,1104,1201,1202,1203,1204,1301,1401,1501,1601,1701,1801,1901,
    2001,2002,2003,2101,2102,2103,2201,2202,2203,2204,2301,2302,2401,2402,2501 };
#define NLANGS (sizeof LANGS / sizeof LANGS[0])

/* ------------------------------------------------------------------ utilities */

static uint64_t fnv(uint64_t h, const void *p, size_t n)
{
    const unsigned char *s = p; size_t i;
    for (i = 0; i < n; i++) { h ^= s[i]; h *= 1099511628211ULL; }
    return h;
}
static uint64_t fnv_s(uint64_t h, const char *s) { return s ? fnv(fnv(h, s, strlen(s)), "\0", 1) : fnv(h, "\1", 1); }
static uint64_t fnv_u(uint64_t h, uint64_t v) { return fnv(h, &v, sizeof v); }
#define FNV0 1469598103934665603ULL

static uint64_t rng_next(uint64_t *s)
{
    uint64_t x = *s; x ^= x << 13; x ^= x >> 7; x ^= x << 17; *s = x; return x * 2685821657736338717ULL;
}
static uint64_t mix(uint64_t a, uint64_t b)
{
    uint64_t z = a * 0x9E3779B97F4A7C15ULL + b + 0x632BE59BD9B4E019ULL;
    z = (z ^ (z >> 30)) * 0xBF58476D1CE4E5B9ULL; z = (z ^ (z >> 27)) * 0x94D049BB133111EBULL; z ^= z >> 31;
    return z ? z : 1;
}

static int hexv(int c) { return c <= '9' ? c - '0' : (c | 32) - 'a' + 10; }

static void load_corpus(const char *path)
{
    FILE *f = fopen(path, "r"); char *line = NULL; size_t cap = 0; ssize_t n;
    if (!f) { perror(path); exit(3); }
    while ((n = getline(&line, &cap, f)) > 0) {
        size_t l, i; Input in;
        while (n > 0 && (line[n - 1] == '\n' || line[n - 1] == '\r')) line[--n] = 0;
        if (n < 2 || !strchr("XWxw", line[0]) || line[1] != ' ') continue;
        l = (size_t)(n - 2) / 2;
        in.is_xml = (line[0] | 32) == 'x'; in.malformed = line[0] >= 'a'; in.len = l; in.data = malloc(l + 1);
        for (i = 0; i < l; i++) in.data[i] = (unsigned char)(hexv(line[2 + 2 * i]) * 16 + hexv(line[3 + 2 * i]));
        in.data[l] = 0;
        g_in = realloc(g_in, (g_nin + 1) * sizeof *g_in); g_in[g_nin++] = in;
    }
    free(line); fclose(f);
    g_x = malloc((g_nin + 1) * sizeof *g_x); g_w = malloc((g_nin + 1) * sizeof *g_w);
    g_xm = malloc((g_nin + 1) * sizeof *g_xm); g_wm = malloc((g_nin + 1) * sizeof *g_wm);
    { size_t i; for (i = 0; i < g_nin; i++) {
        if (g_in[i].is_xml) { if (g_in[i].malformed) g_xm[g_nxm++] = i; else g_x[g_nx++] = i; }
        else { if (g_in[i].malformed) g_wm[g_nwm++] = i; else g_w[g_nw++] = i; } }
      /* a stream that is empty falls back to the other one */
      if (!g_nx) { g_x = g_xm; g_nx = g_nxm; } if (!g_nxm) { g_xm = g_x; g_nxm = g_nx; }
      if (!g_nw) { g_w = g_wm; g_nw = g_nwm; } if (!g_nwm) { g_wm = g_w; g_nwm = g_nw; } }
}

/* ------------------------------------------------------------------ operations */

enum { OP_W2X, OP_X2W, OP_PARSE, OP_ENCX, OP_ENCW, OP_KINDS };
static const char *KIND[] = { "W2X", "X2W", "PARSE", "ENCX", "ENCW" };

typedef struct { int kind; unsigned in; unsigned opts; int st; unsigned long len; uint64_t h; } Rec;

/* parser callbacks: fold the whole event stream into the per-call hash */
typedef struct { uint64_t h; unsigned long events; } PCtx;

static void cb_start_doc(void *c, WBXMLCharsetMIBEnum cs, const WBXMLLangEntry *lang)
{ PCtx *p = c; p->h = fnv_u(fnv_u(fnv_s(p->h, "SD"), cs), lang ? lang->langID : 0); p->events++; }
static void cb_end_doc(void *c) { PCtx *p = c; p->h = fnv_s(p->h, "ED"); p->events++; }
static void cb_start_elt(void *c, WBXMLTag *tag, WBXMLAttribute **atts)
{
    PCtx *p = c; p->h = fnv_s(fnv_s(p->h, "SE"), (const char *)wbxml_tag_get_xml_name(tag));
    if (atts) { int i; for (i = 0; atts[i]; i++) {
        p->h = fnv_s(p->h, (const char *)wbxml_attribute_get_xml_name(atts[i]));
        p->h = fnv_s(p->h, (const char *)wbxml_attribute_get_xml_value(atts[i])); } }
    p->events++;
}
static void cb_end_elt(void *c, WBXMLTag *tag)
{ PCtx *p = c; p->h = fnv_s(fnv_s(p->h, "EE"), (const char *)wbxml_tag_get_xml_name(tag)); p->events++; }
static void cb_chars(void *c, WB_UTINY *ch, WB_ULONG start, WB_ULONG len)
{ PCtx *p = c; p->h = fnv(fnv_u(fnv_s(p->h, "CH"), len), ch + start, len); p->events++; }
static void cb_pi(void *c, const WB_UTINY *target, WB_UTINY *data)
{ PCtx *p = c; p->h = fnv_s(fnv_s(fnv_s(p->h, "PI"), (const char *)target), (const char *)data); p->events++; }

static const unsigned char INDENTS[4] = { 0, 1, 2, 4 };
static const int CHARSETS[4] = { WBXML_CHARSET_UNKNOWN, WBXML_CHARSET_UTF_8, WBXML_CHARSET_ISO_8859_1, WBXML_CHARSET_UNKNOWN };

static int opt_lang(unsigned o) { return ((o >> 12) & 7) == 7 ? LANGS[(o >> 16) % NLANGS] : WBXML_LANG_UNKNOWN; }

/* Perform one operation on a private copy of input `in` with option bits `o`. */
static void do_op(Rec *r)
{
    const Input *src = &g_in[r->in];
    unsigned o = r->opts;
    unsigned char *buf = malloc(src->len + 1);
    WB_UTINY *out = NULL; WB_ULONG out_len = 0; WBXMLError st = WBXML_OK; uint64_t h = FNV0;
    memcpy(buf, src->data, src->len + 1);
    switch (r->kind) {
    case OP_W2X: {
        WBXMLConvWBXML2XML *conv = NULL;
        st = wbxml_conv_wbxml2xml_create(&conv);
        if (st == WBXML_OK) {
            wbxml_conv_wbxml2xml_set_gen_type(conv, (WBXMLGenXMLType)(o % 3));
            wbxml_conv_wbxml2xml_set_indent(conv, INDENTS[(o >> 2) & 3]);
            wbxml_conv_wbxml2xml_set_charset(conv, (WBXMLCharsetMIBEnum)CHARSETS[(o >> 4) & 3]);
            if ((o >> 6) & 1) wbxml_conv_wbxml2xml_enable_preserve_whitespaces(conv);
            wbxml_conv_wbxml2xml_set_language(conv, (WBXMLLanguage)opt_lang(o));
            st = wbxml_conv_wbxml2xml_run(conv, buf, (WB_ULONG)src->len, &out, &out_len);
            wbxml_conv_wbxml2xml_destroy(conv);
        }
        break; }
    case OP_X2W: {
        WBXMLConvXML2WBXML *conv = NULL;
        st = wbxml_conv_xml2wbxml_create(&conv);
        if (st == WBXML_OK) {
            wbxml_conv_xml2wbxml_set_version(conv, (WBXMLVersion)(o & 3));
            if ((o >> 2) & 1) wbxml_conv_xml2wbxml_enable_preserve_whitespaces(conv);
            if ((o >> 3) & 1) wbxml_conv_xml2wbxml_disable_string_table(conv);
            if ((o >> 4) & 1) wbxml_conv_xml2wbxml_disable_public_id(conv);
            st = wbxml_conv_xml2wbxml_run(conv, buf, (WB_ULONG)src->len, &out, &out_len);
            wbxml_conv_xml2wbxml_destroy(conv);
        }
        break; }
    case OP_PARSE: {
        WBXMLContentHandler hdl = { cb_start_doc, cb_end_doc, cb_start_elt, cb_end_elt, cb_chars, cb_pi };
        PCtx ctx = { FNV0, 0 };
        WBXMLParser *p = wbxml_parser_create();
        if (!p) { st = WBXML_ERROR_NOT_ENOUGH_MEMORY; break; }
        wbxml_parser_set_user_data(p, &ctx);
        wbxml_parser_set_content_handler(p, &hdl);
        if (opt_lang(o) != WBXML_LANG_UNKNOWN) wbxml_parser_set_language(p, (WBXMLLanguage)opt_lang(o));
        if ((o >> 4) & 3) wbxml_parser_set_meta_charset(p, (WBXMLCharsetMIBEnum)CHARSETS[(o >> 4) & 3]);
        st = wbxml_parser_parse(p, buf, (WB_ULONG)src->len);
        h = fnv_u(fnv_u(ctx.h, ctx.events), wbxml_parser_get_wbxml_public_id(p));
        h = fnv_u(h, (uint64_t)wbxml_parser_get_wbxml_version(p));
        h = fnv_u(h, (uint64_t)wbxml_parser_get_current_byte_index(p));
        wbxml_parser_destroy(p);
        break; }
    case OP_ENCX: case OP_ENCW: {
        WBXMLTree *tree = NULL; WBXMLEncoder *enc;
        st = r->kind == OP_ENCX
            ? wbxml_tree_from_wbxml(buf, (WB_ULONG)src->len, (WBXMLLanguage)opt_lang(o), WBXML_CHARSET_UNKNOWN, &tree)
            : wbxml_tree_from_xml(buf, (WB_ULONG)src->len, &tree);
        if (st != WBXML_OK) { h = fnv_s(h, "tree"); break; }
        enc = wbxml_encoder_create();
        if (!enc) { wbxml_tree_destroy(tree); st = WBXML_ERROR_NOT_ENOUGH_MEMORY; break; }
        wbxml_encoder_set_tree(enc, tree);
        wbxml_encoder_set_ignore_empty_text(enc, (o >> 7) & 1);
        wbxml_encoder_set_remove_text_blanks(enc, (o >> 8) & 1);
        if (r->kind == OP_ENCX) {
            wbxml_encoder_set_xml_gen_type(enc, (WBXMLGenXMLType)(o % 3));
            wbxml_encoder_set_indent(enc, INDENTS[(o >> 2) & 3]);
            st = wbxml_encoder_encode_tree_to_xml(enc, &out, &out_len);
        } else {
            wbxml_encoder_set_wbxml_version(enc, (WBXMLVersion)(o & 3));
            wbxml_encoder_set_use_strtbl(enc, !((o >> 3) & 1));
            wbxml_encoder_set_produce_anonymous(enc, (o >> 4) & 1);
            st = wbxml_encoder_encode_tree_to_wbxml(enc, &out, &out_len);
        }
        wbxml_encoder_destroy(enc);
        wbxml_tree_destroy(tree);
        break; }
    }
    if (st == WBXML_OK && out) h = fnv(h, out, out_len);
    /* shared read-only tables reached through the public look-ups, folded into the result */
    h = fnv_s(h, (const char *)wbxml_errors_string(st));
    { const WBXMLLangEntry *l = wbxml_tables_get_table((WBXMLLanguage)LANGS[o % NLANGS]);
      if (l && l->publicID) h = fnv_s(h, l->publicID->xmlRootElt);
      { const WB_TINY *nm = NULL; if (wbxml_charset_get_name((WBXMLCharsetMIBEnum)CHARSETS[(o >> 4) & 3], &nm)) h = fnv_s(h, nm); } }
    r->st = (int)st; r->len = (st == WBXML_OK && out) ? out_len : 0; r->h = h;
    if (out) wbxml_free(out);
    free(buf);
}

/* The operation sequence of thread t is a function of (seed, t) alone. */
static void plan(uint64_t seed, unsigned t, Rec *recs, unsigned ops)
{
    uint64_t s = mix(seed, t); unsigned k;
    for (k = 0; k < ops; k++) {
        uint64_t a = rng_next(&s), b = rng_next(&s), c = rng_next(&s);
        int kind = (int)(a % OP_KINDS);
        int wants_xml = (kind == OP_X2W || kind == OP_ENCW);
        if (wants_xml && !g_nx) { kind = OP_W2X; wants_xml = 0; }
        if (!wants_xml && !g_nw) { kind = OP_X2W; wants_xml = 1; }
        recs[k].kind = kind;
        if (((a >> 8) & 7) < 5) recs[k].in = (unsigned)(wants_xml ? g_x[b % g_nx] : g_w[b % g_nw]);
        else recs[k].in = (unsigned)(wants_xml ? g_xm[b % g_nxm] : g_wm[b % g_nwm]);
        recs[k].opts = (unsigned)(c & 0xFFFFFF);
        recs[k].st = -1; recs[k].len = 0; recs[k].h = 0;
    }
}

typedef struct { unsigned t, ops; uint64_t seed; Rec *recs; pthread_barrier_t *bar; int yields; } Work;

static void *worker(void *arg)
{
    Work *w = arg; unsigned k; uint64_t ys = mix(w->seed ^ 0xABCDEF, w->t);
    if (w->bar) pthread_barrier_wait(w->bar);
    for (k = 0; k < w->ops; k++) {
        do_op(&w->recs[k]);
        if (w->yields) { uint64_t y = rng_next(&ys); if ((y & 7) == 0) sched_yield(); else if ((y & 63) == 1) usleep((unsigned)(y >> 8) % 300); }
    }
    return NULL;
}

static void spawn(pthread_t *th, Work *w)
{
    pthread_attr_t a; pthread_attr_init(&a); pthread_attr_setstacksize(&a, STACK_BYTES);
    if (pthread_create(th, &a, worker, w)) { perror("pthread_create"); exit(3); }
    pthread_attr_destroy(&a);
}

static void print_recs(const char *phase, unsigned t, const Rec *r, unsigned ops)
{
    unsigned k;
    for (k = 0; k < ops; k++)
        printf("R %s t=%u k=%u op=%s in=%u o=%06x st=%d len=%lu h=%016llx\n", phase, t, k, KIND[r[k].kind], r[k].in,
               r[k].opts, r[k].st, r[k].len, (unsigned long long)r[k].h);
}

static int cmd_run(unsigned threads, unsigned ops, uint64_t seed, const char *phases)
{
    int do_par = strcmp(phases, "seq") != 0, do_seq = strcmp(phases, "par") != 0;
    Rec **par = calloc(threads, sizeof *par), **seq = calloc(threads, sizeof *seq);
    unsigned t, k, mism = 0;
    for (t = 0; t < threads; t++) {
        par[t] = calloc(ops, sizeof **par); seq[t] = calloc(ops, sizeof **seq);
        plan(seed, t, par[t], ops); plan(seed, t, seq[t], ops);
    }
    if (do_par) {
        pthread_t *th = calloc(threads, sizeof *th); Work *w = calloc(threads, sizeof *w); pthread_barrier_t bar;
        pthread_barrier_init(&bar, NULL, threads);
        for (t = 0; t < threads; t++) { w[t].t = t; w[t].ops = ops; w[t].seed = seed; w[t].recs = par[t]; w[t].bar = &bar; w[t].yields = 1; spawn(&th[t], &w[t]); }
        for (t = 0; t < threads; t++) pthread_join(th[t], NULL);
        pthread_barrier_destroy(&bar);
        for (t = 0; t < threads; t++) print_recs("par", t, par[t], ops);
        free(th); free(w);
    }
    if (do_seq) {
        /* one worker at a time (same stack size as the concurrent workers), joined before the next starts */
        for (t = 0; t < threads; t++) {
            pthread_t th; Work w; w.t = t; w.ops = ops; w.seed = seed; w.recs = seq[t]; w.bar = NULL; w.yields = 0;
            spawn(&th, &w); pthread_join(th, NULL);
            print_recs("seq", t, seq[t], ops);
        }
    }
    if (do_par && do_seq)
        for (t = 0; t < threads; t++) for (k = 0; k < ops; k++)
            if (par[t][k].st != seq[t][k].st || par[t][k].len != seq[t][k].len || par[t][k].h != seq[t][k].h) {
                printf("MISMATCH t=%u k=%u\n", t, k); mism++;
            }
    printf("DONE threads=%u ops=%u seed=%llu mismatches=%u\n", threads, ops, (unsigned long long)seed, mism);
    fflush(stdout);
    return 0;
}

/* ------------------------------------------------------------------ derive / screen */

static int cmd_derive(void)
{
    size_t i, j;
    for (i = 0; i < g_nx; i++) {
        Rec r; WB_UTINY *out = NULL; WB_ULONG n = 0; WBXMLConvXML2WBXML *conv = NULL; const Input *src = &g_in[g_x[i]];
        unsigned char *buf = malloc(src->len + 1); memcpy(buf, src->data, src->len + 1); (void)r;
        if (wbxml_conv_xml2wbxml_create(&conv) == WBXML_OK) {
            if (wbxml_conv_xml2wbxml_run(conv, buf, (WB_ULONG)src->len, &out, &n) == WBXML_OK && out) {
                printf("W "); for (j = 0; j < n; j++) printf("%02x", out[j]); printf("\n"); wbxml_free(out);
            } else printf("E %zu\n", g_x[i]);
            wbxml_conv_xml2wbxml_destroy(conv);
        }
        free(buf);
    }
    fflush(stdout);
    return 0;
}

typedef struct { size_t i; } Scr;
static void *screen_one(void *arg)
{
    Scr *s = arg; int kind; unsigned v;
    /* heaviest tuples: indented output with the widest indent, canonical, compact; string table on and off */
    static const unsigned OPTS[] = { 0x00000D /* gen=1 indent=4 */, 0x00004E /* gen=0.. preserve */, 0x0001C2, 0x000018, 0x000000 };
    for (kind = 0; kind < OP_KINDS; kind++) {
        int wants_xml = (kind == OP_X2W || kind == OP_ENCW);
        if (wants_xml != g_in[s->i].is_xml) continue;
        for (v = 0; v < sizeof OPTS / sizeof OPTS[0]; v++) { Rec r; r.kind = kind; r.in = (unsigned)s->i; r.opts = OPTS[v]; do_op(&r); }
    }
    return NULL;
}

static int cmd_screen(size_t from)
{
    size_t i;
    for (i = from; i < g_nin; i++) {
        pthread_t th; pthread_attr_t a; Scr s; s.i = i;
        printf("B %zu\n", i); fflush(stdout);
        alarm(20);
        pthread_attr_init(&a); pthread_attr_setstacksize(&a, STACK_BYTES);
        if (pthread_create(&th, &a, screen_one, &s)) { perror("pthread_create"); return 3; }
        pthread_join(th, NULL); pthread_attr_destroy(&a);
        alarm(0);
        printf("S %zu\n", i); fflush(stdout);
    }
    printf("SCREENED %zu\n", g_nin); fflush(stdout);
    return 0;
}

int main(int argc, char **argv)
{
    if (argc < 3) { fprintf(stderr, "usage: conc derive|screen|run <corpus> ...\n"); return 2; }
    load_corpus(argv[2]);
    if (!strcmp(argv[1], "derive")) return cmd_derive();
    if (!strcmp(argv[1], "screen")) return cmd_screen(argc > 3 ? (size_t)strtoul(argv[3], NULL, 10) : 0);
    if (!strcmp(argv[1], "run") && argc >= 7) {
        if (!g_nin) { fprintf(stderr, "empty corpus\n"); return 2; }
        return cmd_run((unsigned)atoi(argv[3]), (unsigned)atoi(argv[4]), strtoull(argv[5], NULL, 10), argv[6]);
    }
    fprintf(stderr, "bad command\n");
    return 2;
}
