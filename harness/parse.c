/* PARSE correspondence: run the real event parser with recording handlers.
 * Request:  PARSE <forced-lang> <meta-charset> <hexdoc>
 * Response: <R code> ; then events, joined with " / " (see Driver/Parse.lean for the format).
 */
#include "hx.h"
#include "wbxml.h"
#include "wbxml_parser.h"
#include "wbxml_handlers.h"
#include "wbxml_elt.h"
#include "wbxml_buffers.h"

static FILE *out;
static int nev;

static void sep(void) { if (nev++) fputs(" / ", out); }

static void ptag(WBXMLTag *t)
{
    if (t->type == WBXML_VALUE_TOKEN) { fprintf(out, "t:%u:%u:", t->u.token->wbxmlCodePage, t->u.token->wbxmlToken); hx_outs(out, t->u.token->xmlName); }
    else { fputs("l:", out); hx_out(out, wbxml_buffer_get_cstr(t->u.literal), wbxml_buffer_len(t->u.literal)); }
}

static void sd(void *c, WBXMLCharsetMIBEnum cs, const WBXMLLangEntry *l) { sep(); fprintf(out, "SD %d %d", (int)cs, (int)l->langID); }
static void ed(void *c) { sep(); fputs("ED", out); }
static void se(void *c, WBXMLTag *t, WBXMLAttribute **a)
{
    sep(); fputs("SE ", out); ptag(t);
    if (a) for (; *a; a++) {
        WBXMLAttributeName *n = (*a)->name;
        fputc(' ', out);
        if (n->type == WBXML_VALUE_TOKEN) {
            fprintf(out, "t:%u:%u:", n->u.token->wbxmlCodePage, n->u.token->wbxmlToken); hx_outs(out, n->u.token->xmlName);
            fputc(':', out);
            if (n->u.token->xmlValue) hx_outs(out, n->u.token->xmlValue); else fputc('~', out);
        } else { fputs("l:", out); hx_out(out, wbxml_buffer_get_cstr(n->u.literal), wbxml_buffer_len(n->u.literal)); }
        fputc('=', out);
        hx_out(out, wbxml_buffer_get_cstr((*a)->value), wbxml_buffer_len((*a)->value));
    }
}
static void ee(void *c, WBXMLTag *t) { sep(); fputs("EE ", out); ptag(t); }
static void ch(void *c, WB_UTINY *s, WB_ULONG start, WB_ULONG len) { sep(); fputs("CH ", out); hx_out(out, s + start, len); }
static void pi(void *c, const WB_UTINY *target, WB_UTINY *data) { sep(); fputs("PI ", out); hx_outs(out, (const char *)target); fputc(' ', out); hx_outs(out, (const char *)data); }

int main(void)
{
    char *line;
    WBXMLContentHandler h = { sd, ed, se, ee, ch, pi };
    out = stdout;
    while ((line = hx_getline(stdin))) {
        char *verb = strtok(line, " "), *a1 = strtok(NULL, " "), *a2 = strtok(NULL, " "), *a3 = strtok(NULL, " ");
        if (!verb || strcmp(verb, "PARSE") || !a3) { puts("BADVERB"); free(line); continue; }
        {
            size_t n; unsigned char *doc = hx_unhex(a3, &n);
            unsigned char *copy = malloc(n ? n : 1);
            WBXMLParser *p = wbxml_parser_create();
            WBXMLError ret;
            char *evbuf = NULL; size_t evlen = 0;
            memcpy(copy, doc, n);
            out = open_memstream(&evbuf, &evlen); nev = 0;
            wbxml_parser_set_content_handler(p, &h);
            if (atoi(a1)) wbxml_parser_set_language(p, (WBXMLLanguage)atoi(a1));
            if (atoi(a2)) wbxml_parser_set_meta_charset(p, (WBXMLCharsetMIBEnum)atoi(a2));
            ret = wbxml_parser_parse(p, n ? copy : NULL, (WB_ULONG)n);
            fclose(out); out = stdout;
            printf("R %d%s ; %s\n", (int)ret, memcmp(copy, doc, n) ? " INPUT-MODIFIED" : "", ret == WBXML_OK ? evbuf : "");
            free(evbuf);
            wbxml_parser_destroy(p);
            free(copy); free(doc);
        }
        free(line);
    }
    return 0;
}
