/* FLOW: one line = one whole history on ONE encoder object in flow mode (C17).
 *
 *   FLOW <lang> <W|X> <opts> <op> <op> ...
 *     opts := comma separated  g<0|1|2> d<indent delta> i<ignore_empty 0|1> r<remove_blanks 0|1>
 *                              t<textual public id 0|1> a<anonymous 0|1> v<wbxml version 0..3>
 *     op   := N<node>    wbxml_encoder_encode_node
 *           | M<node>    wbxml_encoder_encode_node_with_elt_end(.., FALSE)
 *           | S0<node> | S1<node>   wbxml_encoder_encode_raw_elt_start(.., has_content)
 *           | F0<node> | F1<node>   wbxml_encoder_encode_raw_elt_end(.., has_content)
 *           | D          wbxml_encoder_delete_last_node
 *           | G          (nothing: only wbxml_encoder_get_output)
 *     node := a node in the treeio.h grammar (rows of language <lang>)
 *
 * Response (one line):
 *     H=<hex> | <ret>:<hex> ...  |  <ret>:<hexdelta> ...  |  O1=<ok|step> O2=<ok|bad|na> LEN=<ok|step>
 *   part 0: the document header, obtained from the NON-flow API (an encoder that has encoded nothing);
 *   part 1: after EVERY op, the op's return code and wbxml_encoder_get_output (hex; "!<code>" when it fails);
 *   part 2: per op, what a FRESH encoder that was fed only the surviving ops emits for this op
 *           (return code and the bytes its output grows by; "-" for D/G) — the value of the model's
 *           per-item encoding parameter;
 *   part 3: the property oracle evaluated on the implementation's own outputs:
 *     O1  after every op the output equals header (present from the first N/M call on) followed by the body
 *         output of the fresh encoder fed the surviving ops only
 *         (surviving = ops that returned OK and were not removed by a later D; D removes everything from
 *         the start of the most recent successful N/M on) and the two return codes agree;
 *     O2  at the end of the history the output equals header + NON-flow batch encoding (string table
 *         disabled; wbxml_encoder_encode_tree_to_wbxml / _to_xml) of the document the surviving ops denote
 *         (forest of the N nodes; S1..F1 / M..F1 brackets rebuilt as elements in WBXML mode); "na" when the
 *         surviving ops do not denote a forest;
 *     LEN wbxml_encoder_get_output_len agrees with the length wbxml_encoder_get_output returns.
 */
#include "treeio.h"
#include "wbxml_encoder.h"

#define MAXOPS 64

typedef struct {
    char kind;            /* N M S F D G */
    int hc;               /* has_content for S/F */
    const char *text;     /* node text */
} Op;

typedef struct {
    int lang; int xml; int gen, delta, ign, rem, txt, anon, ver;
} Cfg;

static char *mk_tree_text(const Cfg *c, const char *node)
{
    size_t n = strlen(node) + 32; char *s = malloc(n);
    snprintf(s, n, "%d:0:%s", c->lang, node);
    return s;
}

/* trees created for one encoder; destroyed after the encoder */
typedef struct { WBXMLTree *t[MAXOPS * 2]; int n; } Pool;

static WBXMLTreeNode *pool_node(Pool *p, const Cfg *c, const char *text)
{
    char *s = mk_tree_text(c, text); WBXMLTree *t = tio_read_tree(s);
    free(s);
    if (!t || !t->root) { if (t) wbxml_tree_destroy(t); return NULL; }
    p->t[p->n++] = t;
    return t->root;
}

static void pool_free(Pool *p) { int i; for (i = 0; i < p->n; i++) wbxml_tree_destroy(p->t[i]); p->n = 0; }

static WBXMLEncoder *mk_encoder(const Cfg *c, int flow)
{
    WBXMLEncoder *e = wbxml_encoder_create();
    wbxml_encoder_set_lang(e, (WBXMLLanguage)c->lang);
    wbxml_encoder_set_output_type(e, c->xml ? WBXML_ENCODER_OUTPUT_XML : WBXML_ENCODER_OUTPUT_WBXML);
    wbxml_encoder_set_xml_gen_type(e, (WBXMLGenXMLType)c->gen);
    wbxml_encoder_set_indent(e, (WB_UTINY)c->delta);
    wbxml_encoder_set_ignore_empty_text(e, (WB_BOOL)c->ign);
    wbxml_encoder_set_remove_text_blanks(e, (WB_BOOL)c->rem);
    wbxml_encoder_set_text_public_id(e, (WB_BOOL)c->txt);
    wbxml_encoder_set_produce_anonymous(e, (WB_BOOL)c->anon);
    wbxml_encoder_set_wbxml_version(e, (WBXMLVersion)c->ver);
    if (flow) wbxml_encoder_set_flow_mode(e, TRUE);
    else wbxml_encoder_set_use_strtbl(e, FALSE);
    return e;
}

static WBXMLError apply(WBXMLEncoder *e, Pool *p, const Cfg *c, const Op *op)
{
    WBXMLTreeNode *n;
    switch (op->kind) {
    case 'N': n = pool_node(p, c, op->text); return n ? wbxml_encoder_encode_node(e, n) : (WBXMLError)-1;
    case 'M': n = pool_node(p, c, op->text); return n ? wbxml_encoder_encode_node_with_elt_end(e, n, FALSE) : (WBXMLError)-1;
    case 'S': n = pool_node(p, c, op->text); return n ? wbxml_encoder_encode_raw_elt_start(e, n, (WB_BOOL)op->hc) : (WBXMLError)-1;
    case 'F': n = pool_node(p, c, op->text); return n ? wbxml_encoder_encode_raw_elt_end(e, n, (WB_BOOL)op->hc) : (WBXMLError)-1;
    case 'D': wbxml_encoder_delete_last_node(e); return WBXML_OK;
    default: return WBXML_OK;
    }
}

/* result of get_output as malloc'd bytes; returns code */
static WBXMLError output_of(WBXMLEncoder *e, unsigned char **out, size_t *len)
{
    WB_UTINY *r = NULL; WB_ULONG l = 0; WBXMLError ret = wbxml_encoder_get_output(e, &r, &l);
    *out = NULL; *len = 0;
    if (ret == WBXML_OK) { *out = malloc(l + 1); if (l) memcpy(*out, r, l); *len = l; }
    if (r) wbxml_free(r);
    return ret;
}

static void print_out(WBXMLError ret, const unsigned char *o, size_t n)
{
    if (ret != WBXML_OK) printf("!%d", (int)ret); else hx_out(stdout, o, n);
}

/* ---- O2: the document the surviving ops denote, encoded by the non-flow API ---- */

static void forest_free(WBXMLTreeNode *r)
{
    while (r) { WBXMLTreeNode *nx = r->next; r->next = NULL; if (nx) nx->prev = NULL; wbxml_tree_node_destroy_all(r); r = nx; }
}

static void append_child(WBXMLTreeNode *parent, WBXMLTreeNode **rootp, WBXMLTreeNode *n)
{
    WBXMLTreeNode **head = parent ? &parent->children : rootp, *l;
    n->parent = parent; n->next = NULL; n->prev = NULL;
    if (!*head) { *head = n; return; }
    for (l = *head; l->next; l = l->next) ;
    l->next = n; n->prev = l;
}

static int same_name(WBXMLTreeNode *a, WBXMLTreeNode *b)
{
    return a->type == WBXML_TREE_ELEMENT_NODE && b->type == WBXML_TREE_ELEMENT_NODE && a->name && b->name &&
           !strcmp((const char *)wbxml_tag_get_xml_name(a->name), (const char *)wbxml_tag_get_xml_name(b->name));
}

/* Builds the forest; returns 0 when the ops do not denote one. Nodes are taken out of freshly
 * parsed one-node trees (the tree shells are freed here). */
static int build_forest(const Cfg *c, const Op *ops, const int *items, int nitems, WBXMLTreeNode **rootp)
{
    WBXMLTreeNode *stack[MAXOPS]; int sp = 0, i, ok = 1;
    *rootp = NULL;
    for (i = 0; i < nitems && ok; i++) {
        const Op *op = &ops[items[i]];
        char *s = mk_tree_text(c, op->text); WBXMLTree *t = tio_read_tree(s); WBXMLTreeNode *n;
        free(s);
        if (!t || !t->root) { if (t) wbxml_tree_destroy(t); ok = 0; break; }
        n = t->root; t->root = NULL; wbxml_tree_destroy(t);
        switch (op->kind) {
        case 'N':
            append_child(sp ? stack[sp - 1] : NULL, rootp, n);
            break;
        case 'M':
            append_child(sp ? stack[sp - 1] : NULL, rootp, n);
            if (n->type == WBXML_TREE_ELEMENT_NODE && n->children) { if (c->xml) ok = 0; else stack[sp++] = n; }
            else if (c->xml && n->type == WBXML_TREE_ELEMENT_NODE) ok = 1;
            break;
        case 'S':
            if (c->xml || n->type != WBXML_TREE_ELEMENT_NODE) { forest_free(n); ok = 0; break; }
            /* the raw start ignores the node's own children */
            if (n->children) { WBXMLTreeNode *k = n->children; n->children = NULL; while (k) { WBXMLTreeNode *nx = k->next; k->next = k->prev = NULL; k->parent = NULL; wbxml_tree_node_destroy_all(k); k = nx; } }
            append_child(sp ? stack[sp - 1] : NULL, rootp, n);
            if (op->hc) stack[sp++] = n;
            break;
        case 'F':
            if (c->xml) { forest_free(n); ok = 0; break; }
            if (op->hc) {
                if (!sp || !same_name(stack[sp - 1], n) || !stack[sp - 1]->children) ok = 0; else sp--;
            }
            /* F0 emits nothing */
            forest_free(n);
            break;
        default: forest_free(n); break;
        }
    }
    if (sp) ok = 0;
    if (!ok) { forest_free(*rootp); *rootp = NULL; }
    return ok;
}

static const char *oracle2(const Cfg *c, const Op *ops, const int *items, int nitems, const unsigned char *mo, size_t mlen, WBXMLError mret,
                           const unsigned char *hdr, size_t hlen, int main_hdr)
{
    WBXMLTreeNode *root = NULL; WBXMLTree *tree; WBXMLEncoder *e; WB_UTINY *out = NULL; WB_ULONG len = 0; WBXMLError ret;
    const char *verdict;
    if (nitems == 0) return "na";
    if (!build_forest(c, ops, items, nitems, &root) || !root) return "na";
    tree = wbxml_tree_create((WBXMLLanguage)c->lang, WBXML_CHARSET_UNKNOWN);
    tree->root = root;
    e = mk_encoder(c, 0);
    wbxml_encoder_set_tree(e, tree);
    ret = c->xml ? wbxml_encoder_encode_tree_to_xml(e, &out, &len) : wbxml_encoder_encode_tree_to_wbxml(e, &out, &len);
    if (ret != WBXML_OK || mret != WBXML_OK) verdict = "bad";
    else {
        /* the batch result always starts with the header; the flow encoder builds it at the first N/M */
        size_t mb = main_hdr ? hlen : 0;
        if (len < hlen || memcmp(out, hdr, hlen) || mlen < mb || (mb && memcmp(mo, hdr, hlen))) verdict = "bad";
        else verdict = (len - hlen == mlen - mb && (len == hlen || !memcmp(out + hlen, mo + mb, len - hlen))) ? "ok" : "bad";
    }
    if (out) wbxml_free(out);
    wbxml_encoder_destroy(e);
    tree->root = NULL; wbxml_tree_destroy(tree);
    forest_free(root);
    return verdict;
}

static void do_flow(int nt, char **t)
{
    Cfg c; Op ops[MAXOPS]; int nops = 0, i, k;
    int items[MAXOPS], nitems = 0, mark = 0, main_hdr = 0;
    WBXMLEncoder *m; Pool mp; char *o;
    char *fresh_txt[MAXOPS]; int o1 = 0, lenbad = 0;
    unsigned char *mo = NULL, *hdr = NULL; size_t mlen = 0, hlen = 0; WBXMLError mret = WBXML_OK, hret;

    memset(&c, 0, sizeof c); c.lang = atoi(t[1]); c.xml = (t[2][0] == 'X'); c.delta = 1; c.ver = 3;
    for (o = strtok(t[3], ","); o; o = strtok(NULL, ",")) {
        int v = atoi(o + 1);
        switch (o[0]) { case 'g': c.gen = v; break; case 'd': c.delta = v; break; case 'i': c.ign = v; break; case 'r': c.rem = v; break;
                        case 't': c.txt = v; break; case 'a': c.anon = v; break; case 'v': c.ver = v; break; default: break; }
    }
    for (i = 4; i < nt && nops < MAXOPS; i++) {
        Op *op = &ops[nops++]; op->kind = t[i][0]; op->hc = 0; op->text = "";
        if (op->kind == 'N' || op->kind == 'M') op->text = t[i] + 1;
        else if (op->kind == 'S' || op->kind == 'F') { op->hc = t[i][1] == '1'; op->text = t[i] + 2; }
    }
    /* the header, from the non-flow API: an encoder that has encoded nothing returns header only */
    { WBXMLEncoder *h = mk_encoder(&c, 0); hret = output_of(h, &hdr, &hlen); wbxml_encoder_destroy(h); }
    fputs("H=", stdout); print_out(hret, hdr, hlen); fputs(" | ", stdout);
    m = mk_encoder(&c, 1); mp.n = 0;
    for (k = 0; k < nops; k++) {
        WBXMLError ret = apply(m, &mp, &c, &ops[k]);
        WBXMLEncoder *f; Pool fp; unsigned char *fo = NULL; size_t flen = 0, before = 0; WBXMLError fret = WBXML_OK, foret;
        int survivors_before = nitems, j;
        char kind = ops[k].kind;
        if (ret == (WBXMLError)-1) { printf("BADNODE@%d ", k); }
        /* survivors */
        if (kind == 'D') { if (nitems > mark) nitems = mark; }
        else if (kind != 'G' && ret == WBXML_OK) { if (kind == 'N' || kind == 'M') mark = nitems; items[nitems++] = k; }
        /* output of the main encoder */
        free(mo); mret = output_of(m, &mo, &mlen);
        printf("%d:", (int)ret); print_out(mret, mo, mlen); putchar(' ');
        if (mret == WBXML_OK && wbxml_encoder_get_output_len(m) != mlen && !lenbad) lenbad = k + 1;
        /* fresh encoder fed the survivors before this op, then this op (when it is an encoding op) */
        f = mk_encoder(&c, 1); fp.n = 0;
        for (j = 0; j < survivors_before && (kind != 'D' || j < nitems); j++)
            if (apply(f, &fp, &c, &ops[items[j]]) != WBXML_OK && !o1) o1 = k + 1;   /* a survivor fails when replayed */
        fresh_txt[k] = NULL;
        if (kind != 'D' && kind != 'G') {
            unsigned char *b0 = NULL; size_t l0 = 0; size_t cap; char *s; int hdr_before = 0, hdr_after;
            for (j = 0; j < survivors_before; j++) if (ops[items[j]].kind == 'N' || ops[items[j]].kind == 'M') hdr_before = 1;
            hdr_after = hdr_before || kind == 'N' || kind == 'M';
            output_of(f, &b0, &l0); free(b0);
            before = l0 - (hdr_before ? hlen : 0);           /* body length before the op */
            fret = apply(f, &fp, &c, &ops[k]);
            foret = output_of(f, &fo, &flen);
            cap = 2 * (flen + 4) + 32; s = malloc(cap);
            if (foret != WBXML_OK) snprintf(s, cap, "%d:!%d", (int)fret, (int)foret);
            else {
                /* what the body grew by (the header appears with the first N/M) */
                size_t from = before + (hdr_after ? hlen : 0), d, q; int n0;
                n0 = snprintf(s, cap, "%d:", (int)fret);
                d = flen >= from ? flen - from : 0;
                if (d == 0) { strcpy(s + n0, "-"); }
                else for (q = 0; q < d; q++) sprintf(s + n0 + 2 * q, "%02x", fo[from + q]);
            }
            fresh_txt[k] = s;
            if (fret != WBXML_OK) {
                /* a failed op leaves no trace: the reference is the fresh encoder WITHOUT it */
                free(fo); fo = NULL; pool_free(&fp); wbxml_encoder_destroy(f);
                f = mk_encoder(&c, 1); fp.n = 0;
                for (j = 0; j < nitems; j++) apply(f, &fp, &c, &ops[items[j]]);
                foret = output_of(f, &fo, &flen);
            }
            if (fret != ret && !o1) o1 = k + 1;
        } else foret = output_of(f, &fo, &flen);
        {   /* expected = header (once any N/M was called on the main encoder) ++ body of the fresh encoder */
            int fresh_hdr = 0; size_t fb, mb;
            for (j = 0; j < nitems; j++) if (ops[items[j]].kind == 'N' || ops[items[j]].kind == 'M') fresh_hdr = 1;
            if (kind == 'N' || kind == 'M') main_hdr = 1;
            fb = fresh_hdr ? hlen : 0; mb = main_hdr ? hlen : 0;
            if (!o1) {
                if (foret != WBXML_OK || mret != WBXML_OK) o1 = k + 1;
                else if (flen < fb || mlen < mb || flen - fb != mlen - mb || ((mlen - mb) && memcmp(fo + fb, mo + mb, mlen - mb))) o1 = k + 1;
                else if (mb && memcmp(mo, hdr, hlen)) o1 = k + 1;
            }
        }
        free(fo); wbxml_encoder_destroy(f); pool_free(&fp);
    }
    fputs("| ", stdout);
    for (k = 0; k < nops; k++) { fputs(fresh_txt[k] ? fresh_txt[k] : "-", stdout); putchar(' '); free(fresh_txt[k]); }
    fputs("| ", stdout);
    if (o1) printf("O1=%d ", o1); else fputs("O1=ok ", stdout);
    printf("O2=%s ", nops ? oracle2(&c, ops, items, nitems, mo, mlen, mret, hdr, hlen, main_hdr) : "na");
    if (lenbad) printf("LEN=%d", lenbad); else fputs("LEN=ok", stdout);
    putchar('\n');
    free(mo); free(hdr);
    wbxml_encoder_destroy(m); pool_free(&mp);
}

int main(void)
{
    char *line;
    while ((line = hx_getline(stdin))) {
        char *t[MAXOPS + 8]; int nt = 0; char *p = line, *q;
        /* split on spaces without strtok (strtok is used for the option list) */
        while (*p && nt < MAXOPS + 8) {
            while (*p == ' ') p++;
            if (!*p) break;
            q = p; while (*p && *p != ' ') p++;
            if (*p) *p++ = 0;
            t[nt++] = q;
        }
        if (nt >= 4 && !strcmp(t[0], "FLOW")) do_flow(nt, t);
        else puts("BADVERB");
        fflush(stdout);
        free(line);
    }
    return 0;
}
