/* Expat as a parameter of the model: record the events Expat delivers for a byte string, with
 * exactly the parser configuration and handler set libwbxml uses (namespace separator '|').
 *   EXPAT <hexdoc>  ->  X <ok 0|1> <event>,<event>,...
 *   EXPATN <hexdoc> ->  the same with a plain (non-namespace) parser: an independent XML reader for generated XML
 * events: D:<ver|~>:<enc|~>  Y:<sysid|~>:<pubid|~>  S:<idx>:<name>{;<an>=<av>}  E:<idx>:<name>  [  ]  C:<hex>  P
 */
#include "hx.h"
#include <expat.h>

static FILE *out;
static XML_Parser prs;
static int nev;

static void sep(void) { if (nev++) fputc(',', out); }
static void opt(const char *s) { if (s) hx_outs(out, s); else fputc('~', out); }

static void decl(void *u, const XML_Char *ver, const XML_Char *enc, int sa) { sep(); fputs("D:", out); opt(ver); fputc(':', out); opt(enc); }
static void doctype(void *u, const XML_Char *n, const XML_Char *sysid, const XML_Char *pubid, int h) { sep(); fputs("Y:", out); opt(sysid); fputc(':', out); opt(pubid); }
static void start(void *u, const XML_Char *n, const XML_Char **a)
{
    sep(); fprintf(out, "S:%ld:", (long)XML_GetCurrentByteIndex(prs)); hx_outs(out, n);
    for (; a && *a; a += 2) { fputc(';', out); hx_outs(out, a[0]); fputc('=', out); hx_outs(out, a[1]); }
}
static void end(void *u, const XML_Char *n) { sep(); fprintf(out, "E:%ld:", (long)XML_GetCurrentByteIndex(prs)); hx_outs(out, n); }
static void scd(void *u) { sep(); fputc('[', out); }
static void ecd(void *u) { sep(); fputc(']', out); }
static void pi(void *u, const XML_Char *t, const XML_Char *d) { sep(); fputc('P', out); }
static void chars(void *u, const XML_Char *s, int len) { sep(); fputs("C:", out); hx_out(out, (const unsigned char *)s, (size_t)len); }

int main(void)
{
    char *line;
    while ((line = hx_getline(stdin))) {
        char *verb = strtok(line, " "), *a1 = strtok(NULL, " ");
        if (!verb || (strcmp(verb, "EXPAT") && strcmp(verb, "EXPATN")) || !a1) { puts("BADVERB"); free(line); continue; }
        {
            size_t n; unsigned char *doc = hx_unhex(a1, &n);
            char *buf = NULL; size_t blen = 0; int ok;
            out = open_memstream(&buf, &blen); nev = 0;
            prs = strcmp(verb, "EXPATN") ? XML_ParserCreateNS(NULL, '|') : XML_ParserCreate(NULL);   /* EXPATN: no namespace processing */
            XML_SetXmlDeclHandler(prs, decl);
            XML_SetStartDoctypeDeclHandler(prs, doctype);
            XML_SetElementHandler(prs, start, end);
            XML_SetCdataSectionHandler(prs, scd, ecd);
            XML_SetProcessingInstructionHandler(prs, pi);
            XML_SetCharacterDataHandler(prs, chars);
            ok = XML_Parse(prs, (const char *)doc, (int)n, 1) != 0;
            fclose(out);
            printf("X %d %s\n", ok, buf);
            free(buf); XML_ParserFree(prs); free(doc);
        }
        free(line);
    }
    return 0;
}
