/* Shared tree (de)serialiser for the line protocol (same grammar as lean/Driver/TreeIO.lean).
 *
 *   tree  := <langid>:<charset>:<node|->          langid 0 = tree->lang NULL
 *   node  := E<name>{;A<aname>=<hex>}( node* )  |  T<hex>  |  C( node* )  |  R<tree>$
 *   name  := t.<page>.<token>.<hexname> | l.<hexname>
 *   aname := t.<page>.<token>.<hexname>.<hexprefix|~> | l.<hexname>
 * hex of the empty string is "-". Nodes are concatenated without separators.
 */
#ifndef TREEIO_H
#define TREEIO_H
#include "hx.h"
#include <expat.h>
#include "wbxml.h"
#include "wbxml_tree.h"
#include "wbxml_elt.h"
#include "wbxml_lists.h"
#include "wbxml_buffers.h"
#include "wbxml_tables.h"

/* ---------- printing ---------- */
static void tio_hex(FILE *f, const unsigned char *s, size_t n) { hx_out(f, s, n); }

static void tio_print_node(FILE *f, WBXMLTreeNode *n);

static void tio_print_tree(FILE *f, WBXMLTree *t)
{
    fprintf(f, "%d:%d:", t->lang ? (int)t->lang->langID : 0, (int)t->orig_charset);
    if (t->root) { WBXMLTreeNode *r; for (r = t->root; r; r = r->next) tio_print_node(f, r); } else fputc('-', f);
}

static void tio_print_node(FILE *f, WBXMLTreeNode *n)
{
    WBXMLTreeNode *c;
    switch (n->type) {
    case WBXML_TREE_ELEMENT_NODE:
        fputc('E', f);
        if (n->name->type == WBXML_VALUE_TOKEN) { fprintf(f, "t.%u.%u.", n->name->u.token->wbxmlCodePage, n->name->u.token->wbxmlToken); hx_outs(f, n->name->u.token->xmlName); }
        else { fputs("l.", f); tio_hex(f, wbxml_buffer_get_cstr(n->name->u.literal), wbxml_buffer_len(n->name->u.literal)); }
        if (n->attrs) { WB_ULONG i; for (i = 0; i < wbxml_list_len(n->attrs); i++) {
            WBXMLAttribute *a = wbxml_list_get(n->attrs, i);
            fputs(";A", f);
            if (a->name->type == WBXML_VALUE_TOKEN) {
                fprintf(f, "t.%u.%u.", a->name->u.token->wbxmlCodePage, a->name->u.token->wbxmlToken); hx_outs(f, a->name->u.token->xmlName);
                fputc('.', f); if (a->name->u.token->xmlValue) hx_outs(f, a->name->u.token->xmlValue); else fputc('~', f);
            } else { fputs("l.", f); tio_hex(f, wbxml_buffer_get_cstr(a->name->u.literal), wbxml_buffer_len(a->name->u.literal)); }
            fputc('=', f); tio_hex(f, wbxml_buffer_get_cstr(a->value), wbxml_buffer_len(a->value));
        } }
        fputc('(', f); for (c = n->children; c; c = c->next) tio_print_node(f, c); fputc(')', f);
        break;
    case WBXML_TREE_TEXT_NODE:
        fputc('T', f); tio_hex(f, wbxml_buffer_get_cstr(n->content), wbxml_buffer_len(n->content)); fputc('.', f);
        break;
    case WBXML_TREE_CDATA_NODE:
        fputs("C(", f); for (c = n->children; c; c = c->next) tio_print_node(f, c); fputc(')', f);
        break;
    case WBXML_TREE_TREE_NODE:
        fputc('R', f); if (n->tree) tio_print_tree(f, n->tree); else fputs("0:0:-", f); fputc('$', f);
        break;
    default:
        fputc('?', f);
    }
}

/* ---------- parsing ---------- */
static const char *tio_p;

static char *tio_tok(const char *stops)
{   /* copy up to any stop char */
    size_t n = strcspn(tio_p, stops);
    char *r = malloc(n + 1); memcpy(r, tio_p, n); r[n] = 0; tio_p += n; return r;
}

static const WBXMLTagEntry *tio_tag_row(const WBXMLLangEntry *l, unsigned page, unsigned tok, const char *name)
{
    unsigned i;
    if (!l || !l->tagTable) return NULL;
    for (i = 0; l->tagTable[i].xmlName; i++)
        if (l->tagTable[i].wbxmlCodePage == page && l->tagTable[i].wbxmlToken == tok && !strcmp(l->tagTable[i].xmlName, name)) return &l->tagTable[i];
    return NULL;
}

static const WBXMLAttrEntry *tio_attr_row(const WBXMLLangEntry *l, unsigned page, unsigned tok, const char *name, const char *val)
{
    unsigned i;
    if (!l || !l->attrTable) return NULL;
    for (i = 0; l->attrTable[i].xmlName; i++) {
        const WBXMLAttrEntry *r = &l->attrTable[i];
        if (r->wbxmlCodePage == page && r->wbxmlToken == tok && !strcmp(r->xmlName, name) &&
            ((val == NULL && r->xmlValue == NULL) || (val && r->xmlValue && !strcmp(val, r->xmlValue)))) return r;
    }
    return NULL;
}

static WBXMLTree *tio_parse_tree(void);

static void tio_link(WBXMLTreeNode *parent, WBXMLTreeNode **last, WBXMLTreeNode *n)
{
    n->parent = parent;
    if (*last) { (*last)->next = n; n->prev = *last; } else if (parent) parent->children = n;
    *last = n;
}

/* returns NULL on syntax error / unknown row */
static WBXMLTreeNode *tio_parse_node(const WBXMLLangEntry *lang)
{
    WBXMLTreeNode *n = NULL, *last = NULL, *c;
    char k = *tio_p++;
    if (k == 'E') {
        char *nm = tio_tok(";("); size_t len;
        n = wbxml_tree_node_create(WBXML_TREE_ELEMENT_NODE);
        if (nm[0] == 't') {
            unsigned page, tok; char hexn[4096]; unsigned char *raw; const WBXMLTagEntry *row;
            if (sscanf(nm, "t.%u.%u.%4095s", &page, &tok, hexn) != 3) return NULL;
            raw = hx_unhex(hexn, &len); row = tio_tag_row(lang, page, tok, (char *)raw); free(raw);
            if (!row) return NULL;
            n->name = wbxml_tag_create_token(row);
        } else { unsigned char *raw = hx_unhex(nm + 2, &len); n->name = wbxml_tag_create_literal(raw); free(raw); }
        free(nm);
        while (*tio_p == ';') {
            char *an, *hv; unsigned char *val; WBXMLAttribute *a = wbxml_attribute_create();
            tio_p += 2; /* ;A */
            an = tio_tok("="); tio_p++; hv = tio_tok(";(");
            if (an[0] == 't') {
                unsigned page, tok; char hexn[4096], hexv[4096]; unsigned char *rn, *rv = NULL; const WBXMLAttrEntry *row;
                char *d1, *d2, *d3;
                d1 = strchr(an + 2, '.'); d2 = d1 ? strchr(d1 + 1, '.') : NULL; d3 = d2 ? strchr(d2 + 1, '.') : NULL;
                if (!d3) return NULL;
                page = atoi(an + 2); tok = atoi(d1 + 1); *d3 = 0; strncpy(hexn, d2 + 1, sizeof hexn - 1); hexn[sizeof hexn - 1] = 0;
                strncpy(hexv, d3 + 1, sizeof hexv - 1); hexv[sizeof hexv - 1] = 0;
                rn = hx_unhex(hexn, &len); if (strcmp(hexv, "~")) rv = hx_unhex(hexv, &len);
                row = tio_attr_row(lang, page, tok, (char *)rn, (char *)rv); free(rn); free(rv);
                if (!row) return NULL;
                a->name = wbxml_attribute_name_create_token(row);
            } else { unsigned char *raw = hx_unhex(an + 2, &len); a->name = wbxml_attribute_name_create_literal(raw); free(raw); }
            val = hx_unhex(hv, &len);
            a->value = wbxml_buffer_create(val, (WB_ULONG)len, (WB_ULONG)(len ? len : 1));
            free(val); free(an); free(hv);
            if (!n->attrs) n->attrs = wbxml_list_create();
            wbxml_list_append(n->attrs, a);
        }
        if (*tio_p++ != '(') return NULL;
        while (*tio_p && *tio_p != ')') { c = tio_parse_node(lang); if (!c) return NULL; tio_link(n, &last, c); }
        if (*tio_p++ != ')') return NULL;
    } else if (k == 'T') {
        char *h = tio_tok("."); size_t len; unsigned char *raw = hx_unhex(h, &len);
        tio_p++;
        n = wbxml_tree_node_create(WBXML_TREE_TEXT_NODE);
        n->content = wbxml_buffer_create(raw, (WB_ULONG)len, (WB_ULONG)(len ? len : 1));
        free(raw); free(h);
    } else if (k == 'C') {
        if (*tio_p++ != '(') return NULL;
        n = wbxml_tree_node_create(WBXML_TREE_CDATA_NODE);
        while (*tio_p && *tio_p != ')') { c = tio_parse_node(lang); if (!c) return NULL; tio_link(n, &last, c); }
        if (*tio_p++ != ')') return NULL;
    } else if (k == 'R') {
        n = wbxml_tree_node_create(WBXML_TREE_TREE_NODE);
        n->tree = tio_parse_tree();
        if (!n->tree || *tio_p++ != '$') return NULL;
    } else return NULL;
    return n;
}

static WBXMLTree *tio_parse_tree(void)
{
    int lang = atoi(tio_p), cs; WBXMLTree *t; WBXMLTreeNode *last = NULL, *c;
    tio_p = strchr(tio_p, ':'); if (!tio_p) return NULL; tio_p++;
    cs = atoi(tio_p);
    tio_p = strchr(tio_p, ':'); if (!tio_p) return NULL; tio_p++;
    t = wbxml_tree_create((WBXMLLanguage)lang, (WBXMLCharsetMIBEnum)cs);
    if (*tio_p == '-') { tio_p++; return t; }
    while (*tio_p && *tio_p != '$') {
        c = tio_parse_node(t->lang); if (!c) return NULL;
        if (!t->root) t->root = c;
        tio_link(NULL, &last, c);
    }
    return t;
}

static WBXMLTree *tio_read_tree(const char *s) { tio_p = s; return tio_parse_tree(); }
#endif
