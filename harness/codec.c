/* Correspondence harness for the codecs (C11): same CODEC line protocol as lean/Driver/Codec.lean.
 *
 * The static functions parse_mb_uint32 / parse_entity are reached by including the parser's source
 * (as /repo/test/api/test_wbxml_parser_internals.c does); the archive member wbxml_parser.o is then
 * not pulled in by the linker. The same routines are also exercised through the public API
 * (wbxml_parser_parse with handlers) on minimal documents (MBPUB, ENTDOC).
 *
 * Besides answering each request the harness evaluates the property oracle on the implementation's
 * OWN outputs (inverse laws, minimal length) and reports a failure as a line `ORACLE <what>` on
 * stderr; it never prints addresses.
 *
 *   codec            line protocol on stdin/stdout
 *   codec SWEEP n    decode(encode v) == v && minimal for ALL 2^32 values on n threads
 *   codec SCALARS    entity -> UTF-8 for all code points 0..0x10FFFF + probes, one line each (fast path
 *                    used by the check instead of 1.1M request lines; same answers as `CODEC ENT`)
 */
#include <stdio.h>
#include <stdlib.h>
#include <string.h>
#include <pthread.h>

#include "wbxml_parser.c"
#include "wbxml_base64.h"

/* ------------------------------------------------------------------ helpers */

static unsigned char *unhex(const char *h, size_t *n)
{
    size_t l = strlen(h), i;
    unsigned char *o;
    if (strcmp(h, "-") == 0) { *n = 0; return malloc(0); }
    /* exactly l/2 bytes, no slack: an over-read is an ASan report */
    o = malloc(l / 2);
    for (i = 0; i + 1 < l; i += 2) { unsigned v; sscanf(h + i, "%2x", &v); o[i / 2] = (unsigned char)v; }
    *n = l / 2;
    return o;
}

static void hexout(const unsigned char *s, size_t n)
{
    size_t i;
    if (n == 0) { fputs("-", stdout); return; }
    for (i = 0; i < n; i++) printf("%02x", s[i]);
}

static void oracle_fail(const char *what, const char *line)
{
    fprintf(stderr, "ORACLE %s :: %s\n", what, line);
}

/* least k >= 1 with v < 2^(7k) -- written independently of the library */
static int mb_min_len(unsigned long v)
{
    int k = 1;
    while (k < 5 && (v >> (7 * k)) != 0) k++;
    return k;
}

/* run parse_mb_uint32 on bytes; returns rc, *v, *consumed */
static WBXMLError run_mbdec(const unsigned char *b, size_t n, WB_ULONG *v, WB_ULONG *consumed)
{
    WBXMLParser *p = wbxml_parser_create();
    WBXMLError rc;
    p->wbxml = wbxml_buffer_create(b, (WB_ULONG)n, (WB_ULONG)n);
    p->pos = 0;
    *v = 0;
    rc = parse_mb_uint32(p, v);
    *consumed = p->pos;
    wbxml_parser_destroy(p);
    return rc;
}

/* ------------------------------------------------------------------ public-API route */

struct acc { unsigned char buf[256]; size_t n; int calls; };

static void clb_chars(void *ctx, WB_UTINY *ch, WB_ULONG start, WB_ULONG length)
{
    struct acc *a = ctx;
    a->calls++;
    if (a->n + length <= sizeof a->buf) { memcpy(a->buf + a->n, ch + start, length); a->n += length; }
}

/* entity -> bytes, direct call of the static function: ENTITY token + mb bytes */
static WBXMLError run_entity(const unsigned char *mb, size_t n, unsigned char *out, size_t *outn, WB_ULONG *consumed)
{
    WBXMLParser *p = wbxml_parser_create();
    WBXMLBuffer *res = NULL;
    WBXMLError rc;
    unsigned char *doc = malloc(n + 1);
    doc[0] = 0x02;
    memcpy(doc + 1, mb, n);
    p->wbxml = wbxml_buffer_create(doc, (WB_ULONG)(n + 1), (WB_ULONG)(n + 1));
    p->pos = 0;
    rc = parse_entity(p, &res);
    *consumed = p->pos ? p->pos - 1 : 0;
    *outn = 0;
    if (rc == WBXML_OK && res != NULL) {
        *outn = wbxml_buffer_len(res);
        if (*outn > 16) *outn = 16;
        if (*outn) memcpy(out, wbxml_buffer_get_cstr(res), *outn);
    }
    if (res) wbxml_buffer_destroy(res);
    wbxml_parser_destroy(p);
    free(doc);
    return rc;
}

/* ------------------------------------------------------------------ line protocol */

static void do_line(char *line)
{
    char copy[1 << 16];
    char *tok[6]; int nt = 0; char *p;
    size_t n;
    strncpy(copy, line, sizeof copy - 1); copy[sizeof copy - 1] = 0;
    { size_t l = strlen(copy); while (l && (copy[l - 1] == '\n' || copy[l - 1] == '\r')) copy[--l] = 0; }
    p = strtok(line, " \r\n");
    while (p && nt < 6) { tok[nt++] = p; p = strtok(NULL, " \r\n"); }
    if (nt == 0) { puts(""); return; }
    if (nt < 2 || strcmp(tok[0], "CODEC")) { puts("BADVERB"); return; }

    if (!strcmp(tok[1], "MBENC") && nt == 3) {
        unsigned long v = strtoul(tok[2], NULL, 10);
        WBXMLBuffer *b = wbxml_buffer_create((const WB_UTINY *)"", 0, 0);
        if (!wbxml_buffer_append_mb_uint_32(b, (WB_ULONG)v)) { puts("F"); wbxml_buffer_destroy(b); return; }
        printf("OK "); hexout(wbxml_buffer_get_cstr(b), wbxml_buffer_len(b)); puts("");
        {   /* oracle: read back unchanged, exactly consumed, shortest form, no leading 0x80 */
            WB_ULONG back = 0, used = 0;
            WBXMLError rc = run_mbdec(wbxml_buffer_get_cstr(b), wbxml_buffer_len(b), &back, &used);
            if (rc != WBXML_OK || back != (WB_ULONG)v || used != wbxml_buffer_len(b)) oracle_fail("mb-roundtrip", copy);
            if ((int)wbxml_buffer_len(b) != mb_min_len(v & 0xFFFFFFFFul) || wbxml_buffer_get_cstr(b)[0] == 0x80)
                oracle_fail("mb-minimal", copy);
        }
        wbxml_buffer_destroy(b);
    }
    else if (!strcmp(tok[1], "MBDEC") && nt == 3) {
        unsigned char *b = unhex(tok[2], &n);
        WB_ULONG v, used;
        WBXMLError rc = run_mbdec(b, n, &v, &used);
        if (rc == WBXML_OK) printf("OK %lu %lu\n", (unsigned long)v, (unsigned long)used); else printf("ERR:%d\n", (int)rc);
        free(b);
    }
    else if (!strcmp(tok[1], "MBPUB") && nt == 3) {
        unsigned char *b = unhex(tok[2], &n);
        WBXMLParser *ps = wbxml_parser_create();
        WBXMLError rc = wbxml_parser_parse(ps, b, (WB_ULONG)n);
        /* the integer was rejected | accepted and (when the document as a whole was accepted) the public id
         * of the language it selected; `?` when the id is not one of the library's languages */
        if (rc == WBXML_ERROR_END_OF_BUFFER || rc == WBXML_ERROR_UNVALID_MBUINT32) printf("ERR:%d\n", (int)rc);
        else if (rc == WBXML_OK) printf("OK %lu\n", (unsigned long)wbxml_parser_get_wbxml_public_id(ps));
        else puts("OK ?");
        wbxml_parser_destroy(ps);
        free(b);
    }
    else if (!strcmp(tok[1], "ENT") && nt == 3) {
        unsigned char *b = unhex(tok[2], &n), out[16]; size_t on; WB_ULONG used;
        WBXMLError rc = run_entity(b, n, out, &on, &used);
        if (rc == WBXML_OK) { printf("OK "); hexout(out, on); printf(" %lu\n", (unsigned long)used); } else printf("ERR:%d\n", (int)rc);
        free(b);
    }
    else if (!strcmp(tok[1], "ENTDOC") && nt == 3) {
        /* <si> with one ENTITY as its whole content, SI 1.0 public id, UTF-8 */
        static const unsigned char head[] = { 0x03, 0x05, 0x6a, 0x00, 0x45, 0x02 };
        unsigned char *b = unhex(tok[2], &n), *doc = malloc(sizeof head + n + 1);
        WBXMLParser *ps = wbxml_parser_create();
        WBXMLContentHandler h; struct acc a;
        WBXMLError rc;
        memset(&h, 0, sizeof h); memset(&a, 0, sizeof a);
        h.characters_clb = clb_chars;
        memcpy(doc, head, sizeof head); memcpy(doc + sizeof head, b, n); doc[sizeof head + n] = 0x01;
        wbxml_parser_set_user_data(ps, &a);
        wbxml_parser_set_content_handler(ps, &h);
        rc = wbxml_parser_parse(ps, doc, (WB_ULONG)(sizeof head + n + 1));
        if (rc == WBXML_OK) { printf("OK "); hexout(a.buf, a.n); puts(""); } else printf("ERR:%d\n", (int)rc);
        wbxml_parser_destroy(ps);
        free(doc); free(b);
    }
    else if (!strcmp(tok[1], "B64ENC") && nt == 3) {
        unsigned char *b = unhex(tok[2], &n);
        WB_UTINY *r = wbxml_base64_encode(b, (WB_LONG)n);
        if (r == NULL) puts("NULL");
        else {
            size_t rl = strlen((char *)r);
            WB_UTINY *back = NULL; WB_LONG bl;
            printf("OK "); hexout(r, rl); puts("");
            /* oracle: decoding the implementation's own output restores the input */
            bl = wbxml_base64_decode(r, (WB_LONG)rl, &back);
            if (bl != (WB_LONG)n || back == NULL || memcmp(back, b, n) != 0) oracle_fail("b64-decode-encode", copy);
            if (rl != (n + 2) / 3 * 4) oracle_fail("b64-length", copy);
            wbxml_free(back);
            wbxml_free(r);
        }
        free(b);
    }
    else if (!strcmp(tok[1], "B64DEC") && nt == 3) {
        unsigned char *b = unhex(tok[2], &n);
        WB_UTINY *r = NULL;
        WB_LONG l = wbxml_base64_decode(b, (WB_LONG)n, &r);
        if (l <= 0) puts("NONE"); else { printf("OK "); hexout(r, (size_t)l); puts(""); }
        if (r) wbxml_free(r);
        free(b);
    }
    else if (!strcmp(tok[1], "HEXENC") && nt == 4) {
        unsigned char *b = unhex(tok[3], &n);
        WBXMLBuffer *buf = wbxml_buffer_create(b, (WB_ULONG)n, (WB_ULONG)n);
        if (!wbxml_buffer_binary_to_hex(buf, atoi(tok[2]) ? TRUE : FALSE)) puts("F");
        else {
            printf("OK "); hexout(wbxml_buffer_get_cstr(buf), wbxml_buffer_len(buf)); puts("");
            /* oracle: hex -> binary on the implementation's own output restores the input */
            if (wbxml_buffer_len(buf) != 2 * n) oracle_fail("hex-length", copy);
            if (!wbxml_buffer_hex_to_binary(buf) || wbxml_buffer_len(buf) != n ||
                (n && memcmp(wbxml_buffer_get_cstr(buf), b, n) != 0)) oracle_fail("hex-roundtrip", copy);
        }
        wbxml_buffer_destroy(buf);
        free(b);
    }
    else if (!strcmp(tok[1], "HEXDEC") && nt == 3) {
        unsigned char *b = unhex(tok[2], &n);
        WBXMLBuffer *buf = wbxml_buffer_create(b, (WB_ULONG)n, (WB_ULONG)n);
        if (!wbxml_buffer_hex_to_binary(buf)) puts("F");
        else { printf("OK "); hexout(wbxml_buffer_get_cstr(buf), wbxml_buffer_len(buf)); puts(""); }
        wbxml_buffer_destroy(buf);
        free(b);
    }
    else puts("BADVERB");
}

/* ------------------------------------------------------------------ exhaustive sweeps */

struct sweep { unsigned long long lo, hi; unsigned long long bad; unsigned long first_bad; unsigned long long lens[6]; };

static void *sweep_thread(void *arg)
{
    struct sweep *s = arg;
    unsigned long long v;
    WBXMLParser *p = wbxml_parser_create();
    WBXMLBuffer *b = wbxml_buffer_create((const WB_UTINY *)"x", 1, 16);
    p->wbxml = b;
    for (v = s->lo; v < s->hi; v++) {
        WB_ULONG back = 0, len;
        WBXMLError rc;
        int ok;
        wbxml_buffer_delete(b, 0, wbxml_buffer_len(b));
        ok = wbxml_buffer_append_mb_uint_32(b, (WB_ULONG)v);
        len = wbxml_buffer_len(b);
        p->pos = 0;
        rc = parse_mb_uint32(p, &back);
        if (!ok || rc != WBXML_OK || back != (WB_ULONG)v || p->pos != len || (int)len != mb_min_len((unsigned long)v) ||
            wbxml_buffer_get_cstr(b)[0] == 0x80) {
            if (!s->bad) s->first_bad = (unsigned long)v;
            s->bad++;
        } else s->lens[len]++;
    }
    p->wbxml = NULL;
    wbxml_buffer_destroy(b);
    wbxml_parser_destroy(p);
    return NULL;
}

static int do_sweep(int nthreads)
{
    pthread_t th[64]; struct sweep s[64];
    unsigned long long total = 1ull << 32, bad = 0, lens[6] = {0};
    int i, k;
    if (nthreads < 1) nthreads = 1;
    if (nthreads > 64) nthreads = 64;
    for (i = 0; i < nthreads; i++) {
        memset(&s[i], 0, sizeof s[i]);
        s[i].lo = total / nthreads * i;
        s[i].hi = (i == nthreads - 1) ? total : total / nthreads * (i + 1);
        pthread_create(&th[i], NULL, sweep_thread, &s[i]);
    }
    for (i = 0; i < nthreads; i++) {
        pthread_join(th[i], NULL);
        bad += s[i].bad;
        for (k = 1; k <= 5; k++) lens[k] += s[i].lens[k];
        if (s[i].bad) printf("BAD first=%lu count=%llu\n", s[i].first_bad, s[i].bad);
    }
    printf("SWEEP values=%llu bad=%llu len1=%llu len2=%llu len3=%llu len4=%llu len5=%llu\n",
           total, bad, lens[1], lens[2], lens[3], lens[4], lens[5]);
    return bad ? 1 : 0;
}

/* every code point 0..0x10FFFF (surrogates included, the caller filters) through parse_entity,
 * each fed as the mb_u_int32 the library's own writer produces: `<code> <hex|-|ERR:n>` */
static int do_scalars(void)
{
    unsigned long c;
    for (c = 0; c <= 0x10FFFF; c++) {
        WBXMLBuffer *b = wbxml_buffer_create((const WB_UTINY *)"", 0, 0);
        unsigned char out[16]; size_t on; WB_ULONG used;
        WBXMLError rc;
        wbxml_buffer_append_mb_uint_32(b, (WB_ULONG)c);
        rc = run_entity(wbxml_buffer_get_cstr(b), wbxml_buffer_len(b), out, &on, &used);
        printf("%lu ", c);
        if (rc == WBXML_OK) hexout(out, on); else printf("ERR:%d", (int)rc);
        puts("");
        wbxml_buffer_destroy(b);
    }
    return 0;
}

int main(int argc, char **argv)
{
    static char line[1 << 16];
    if (argc >= 2 && !strcmp(argv[1], "SWEEP")) return do_sweep(argc >= 3 ? atoi(argv[2]) : 16);
    if (argc >= 2 && !strcmp(argv[1], "SCALARS")) return do_scalars();
    {
        int flush = getenv("CODEC_FLUSH") != NULL;   /* per-line flush: lets the check locate a crashing line */
        while (fgets(line, sizeof line, stdin)) { do_line(line); if (flush) fflush(stdout); }
    }
    return 0;
}
