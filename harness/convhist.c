/* C15 — converter objects (wbxml_conv.h) carry nothing from one run to the next.
 *
 *   CONVH W op;op;...      one WBXMLConvWBXML2XML object through the whole history
 *   CONVH X op;op;...      one WBXMLConvXML2WBXML object
 *
 * ops (W): g<0|1|2> set_gen_type, l<id> set_language, c<mib> set_charset, i<n> set_indent,
 *          k enable_preserve_whitespaces, r<hex> run on the document
 * ops (X): v<0..3> set_version, k enable_preserve_whitespaces, n disable_string_table,
 *          a disable_public_id, r<hex> run
 *
 * Oracle (implementation only, no model): every run on the reused object must give the status and the
 * bytes that the same run gives on a NEW object on which exactly the setter calls made so far have been
 * replayed in order.  Response: one token per run, "=:<status>/<n bytes>/<fnv1a>" or
 * "DIFF:<reused status>/<n bytes>:<fresh status>/<n bytes>".
 */
#include "hx.h"
#include "wbxml.h"
#include "wbxml_conv.h"

#define MAXOPS 256

static void apply_w(WBXMLConvWBXML2XML *c, const char *op)
{
    switch (op[0]) {
    case 'g': wbxml_conv_wbxml2xml_set_gen_type(c, (WBXMLGenXMLType)atoi(op + 1)); break;
    case 'l': wbxml_conv_wbxml2xml_set_language(c, (WBXMLLanguage)atoi(op + 1)); break;
    case 'c': wbxml_conv_wbxml2xml_set_charset(c, (WBXMLCharsetMIBEnum)atoi(op + 1)); break;
    case 'i': wbxml_conv_wbxml2xml_set_indent(c, (WB_UTINY)atoi(op + 1)); break;
    case 'k': wbxml_conv_wbxml2xml_enable_preserve_whitespaces(c); break;
    default: break;
    }
}

static void apply_x(WBXMLConvXML2WBXML *c, const char *op)
{
    switch (op[0]) {
    case 'v': wbxml_conv_xml2wbxml_set_version(c, (WBXMLVersion)atoi(op + 1)); break;
    case 'k': wbxml_conv_xml2wbxml_enable_preserve_whitespaces(c); break;
    case 'n': wbxml_conv_xml2wbxml_disable_string_table(c); break;
    case 'a': wbxml_conv_xml2wbxml_disable_public_id(c); break;
    default: break;
    }
}

int main(void)
{
    char *line;
    while ((line = hx_getline(stdin))) {
        char *ops[MAXOPS]; int nops = 0, i, j, first = 1;
        char *p = strchr(line, ' ');
        char kind;
        WBXMLConvWBXML2XML *cw = NULL; WBXMLConvXML2WBXML *cx = NULL;
        if (strncmp(line, "CONVH ", 6) || !line[6] || line[7] != ' ') { puts("BADVERB"); free(line); continue; }
        kind = line[6];
        p = line + 8;
        for (p = strtok(p, ";"); p && nops < MAXOPS; p = strtok(NULL, ";")) ops[nops++] = p;
        if (kind == 'W') wbxml_conv_wbxml2xml_create(&cw); else wbxml_conv_xml2wbxml_create(&cx);
        printf("R");
        for (i = 0; i < nops; i++) {
            if (ops[i][0] != 'r') {
                if (kind == 'W') apply_w(cw, ops[i]); else apply_x(cx, ops[i]);
                continue;
            }
            {
                size_t n; unsigned char *doc = hx_unhex(ops[i] + 1, &n);
                WB_UTINY *o1 = NULL, *o2 = NULL; WB_ULONG l1 = 0, l2 = 0;
                WBXMLError r1, r2;
                if (kind == 'W') {
                    WBXMLConvWBXML2XML *f = NULL;
                    r1 = wbxml_conv_wbxml2xml_run(cw, doc, (WB_ULONG)n, &o1, &l1);
                    wbxml_conv_wbxml2xml_create(&f);
                    for (j = 0; j < i; j++) if (ops[j][0] != 'r') apply_w(f, ops[j]);
                    r2 = wbxml_conv_wbxml2xml_run(f, doc, (WB_ULONG)n, &o2, &l2);
                    wbxml_conv_wbxml2xml_destroy(f);
                } else {
                    WBXMLConvXML2WBXML *f = NULL;
                    r1 = wbxml_conv_xml2wbxml_run(cx, doc, (WB_ULONG)n, &o1, &l1);
                    wbxml_conv_xml2wbxml_create(&f);
                    for (j = 0; j < i; j++) if (ops[j][0] != 'r') apply_x(f, ops[j]);
                    r2 = wbxml_conv_xml2wbxml_run(f, doc, (WB_ULONG)n, &o2, &l2);
                    wbxml_conv_xml2wbxml_destroy(f);
                }
                {
                    /* the reused object's answer in absolute terms too (status/length/FNV-1a), so that it can be
                     * compared with the same run made alone in a NEW PROCESS: state kept outside the objects
                     * (errno, statics) is shared by the reused and the fresh object of this process */
                    unsigned long h = 2166136261UL; WB_ULONG q;
                    for (q = 0; o1 && q < l1; q++) { h ^= o1[q]; h = (h * 16777619UL) & 0xffffffffUL; }
                    if (r1 == r2 && l1 == l2 && (l1 == 0 || (o1 && o2 && !memcmp(o1, o2, l1)))) printf(" =:%d/%lu/%lu", (int)r1, (unsigned long)l1, h);
                    else printf(" DIFF:%d/%lu:%d/%lu", (int)r1, (unsigned long)l1, (int)r2, (unsigned long)l2);
                }
                (void)first;
                if (o1) wbxml_free(o1);
                if (o2) wbxml_free(o2);
                free(doc);
            }
        }
        puts("");
        if (cw) wbxml_conv_wbxml2xml_destroy(cw);
        if (cx) wbxml_conv_xml2wbxml_destroy(cx);
        free(line);
    }
    return 0;
}
