/* ENCW / X2T (/ W2T / T2T): tree-level correspondence of the WBXML encoder.
 *   ENCW <version 0-3> <keepws 0/1> <use_strtbl 0/1> <anonymous 0/1> <tree>  -> R <code> ; <hex wbxml>   (wbxml_tree_to_wbxml)
 *   X2T <hex xml>                                                           -> R <code> ; <tree>        (wbxml_tree_from_xml)
 *   W2T <lang> <charset> <hexdoc>                                           -> R <code> ; <tree>        (wbxml_tree_from_wbxml)
 *   T2T <tree>                                                              -> <tree>
 * The output contract of wbxml_tree_to_wbxml is checked on the spot: on error the out parameters must be
 * (NULL, 0) ("R <code> ; !contract" otherwise), on success the block must be readable over its whole length
 * (hex dump under ASan).
 */
#include "treeio.h"
#include "wbxml_conv.h"

int main(void)
{
    char *line;
    while ((line = hx_getline(stdin))) {
        char *t[8]; int nt = 0; char *p = strtok(line, " ");
        while (p && nt < 8) { t[nt++] = p; p = strtok(NULL, " "); }
        if (nt == 6 && !strcmp(t[0], "ENCW")) {
            WBXMLTree *tree = tio_read_tree(t[5]);
            if (!tree) puts("BADTREE");
            else {
                WBXMLGenWBXMLParams prm; WB_UTINY *wbxml = (WB_UTINY *)"x"; WB_ULONG len = 12345; WBXMLError ret;
                prm.wbxml_version = (WBXMLVersion)atoi(t[1]);
                prm.keep_ignorable_ws = (WB_BOOL)atoi(t[2]);
                prm.use_strtbl = (WB_BOOL)atoi(t[3]);
                prm.produce_anonymous = (WB_BOOL)atoi(t[4]);
                ret = wbxml_tree_to_wbxml(tree, &wbxml, &len, &prm);
                printf("R %d ; ", (int)ret);
                if (ret == WBXML_OK) { if (wbxml) hx_out(stdout, wbxml, len); else fputs("!contract-null", stdout); }
                else if (wbxml != NULL || len != 0) fputs("!contract", stdout);
                puts("");
                if (ret == WBXML_OK && wbxml) wbxml_free(wbxml);
                wbxml_tree_destroy(tree);
            }
        } else if (nt == 2 && !strcmp(t[0], "X2T")) {
            size_t n; unsigned char *doc = hx_unhex(t[1], &n); WBXMLTree *tree = NULL;
            WBXMLError ret = wbxml_tree_from_xml(doc, (WB_ULONG)n, &tree);
            printf("R %d ; ", (int)ret);
            if (ret == WBXML_OK && tree) tio_print_tree(stdout, tree);
            puts("");
            if (tree) wbxml_tree_destroy(tree);
            free(doc);
        } else if (nt == 4 && !strcmp(t[0], "W2T")) {
            size_t n; unsigned char *doc = hx_unhex(t[3], &n); WBXMLTree *tree = NULL;
            WBXMLError ret = n ? wbxml_tree_from_wbxml(doc, (WB_ULONG)n, (WBXMLLanguage)atoi(t[1]), (WBXMLCharsetMIBEnum)atoi(t[2]), &tree) : WBXML_ERROR_EMPTY_WBXML;
            printf("R %d ; ", (int)ret);
            if (ret == WBXML_OK && tree) tio_print_tree(stdout, tree);
            puts("");
            if (tree) wbxml_tree_destroy(tree);
            free(doc);
        } else if (nt == 2 && !strcmp(t[0], "T2T")) {
            WBXMLTree *tree = tio_read_tree(t[1]);
            if (!tree) puts("BADTREE"); else { tio_print_tree(stdout, tree); puts(""); wbxml_tree_destroy(tree); }
        } else puts("BADVERB");
        fflush(stdout);
        free(line);
    }
    return 0;
}
