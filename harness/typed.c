/* Correspondence harness for C12 (typed content): same line protocol as lean/Driver/Typed.lean.
 *
 * Compiled twice from this one source (the two library files define static functions with the same
 * names, so they cannot share a translation unit):
 *     -DTYPED_DEC : #include "wbxml_parser.c"   -> DT_DEC WVI_DEC WVD_DEC B64_OPQ (+ sweeps)
 *     -DTYPED_ENC : #include "wbxml_encoder.c"  -> DT_ENC WVI_ENC WVD_ENC DRM_ENC
 * Both executables also serve the end-to-end verbs W2X / X2W / RT (wbxml_conv_wbxml2xml_withlen /
 * wbxml_conv_xml2wbxml_withlen) and W2W (wbxml_tree_from_wbxml + wbxml_tree_to_wbxml) on minimal
 * documents built from the library's own token tables.
 *
 * Requests   TYPED <verb> args...      (payloads lowercase hex, "-" = empty)
 * Responses  OK <hex>|OK -   ERR   ERR:80 (WV_INTEGER_OVERFLOW, the only class C12 names)
 *            NOTENC (encoder left the text to the generic string path)   SHAPE <hex> (document not of the
 *            expected minimal shape)   BADVERB / BADARG
 */
#include <stdio.h>
#include <stdlib.h>
#include <string.h>
#include <stdint.h>

#include "wbxml_config_internals.h"   /* expat.h, as the library's own sources see it */
#if defined(TYPED_DEC)
#include "wbxml_parser.c"
#elif defined(TYPED_ENC)
#include "wbxml_encoder.c"
#else
#error "define TYPED_DEC or TYPED_ENC"
#endif
#include "wbxml.h"
#include "wbxml_conv.h"
#include "wbxml_tree.h"
#include "wbxml_tables.h"

/* ------------------------------------------------------------------ helpers */

static unsigned char *unhex(const char *h, size_t *n)
{
    size_t l = strlen(h), i;
    unsigned char *o;
    if (strcmp(h, "-") == 0) { o = calloc(1, 1); *n = 0; return o; }
    o = calloc(l / 2 + 2, 1);
    for (i = 0; i + 1 < l; i += 2) { unsigned v = 0; sscanf(h + i, "%2x", &v); o[i / 2] = (unsigned char)v; }
    *n = l / 2;
    return o;
}

static void hexout(const unsigned char *s, size_t n)
{
    size_t i;
    if (n == 0) { fputs("-", stdout); return; }
    for (i = 0; i < n; i++) printf("%02x", s[i]);
}

static void answer_err(WBXMLError e)
{
    if (getenv("TYPED_DEBUG")) fprintf(stderr, "error %d\n", (int)e);
    if (e == WBXML_ERROR_WV_INTEGER_OVERFLOW) puts("ERR:80");
    else if (e == WBXML_NOT_ENCODED) puts("NOTENC");
    else puts("ERR");
}

static void answer_ok(const unsigned char *s, size_t n) { fputs("OK ", stdout); hexout(s, n); puts(""); }

/* ------------------------------------------------------------------ static codec routines */

#if defined(TYPED_DEC)

typedef enum { K_DT, K_WVI, K_WVD, K_B64 } deckind;

/* returns the library's error code; on success *out/*outn hold a malloc'ed copy of the text */
static WBXMLError run_dec(deckind k, const unsigned char *p, size_t n, unsigned char **out, size_t *outn)
{
    WBXMLBuffer *b = wbxml_buffer_create(p, (WB_ULONG)n, (WB_ULONG)n);   /* as parse_opaque does */
    WBXMLError ret;
    *out = NULL; *outn = 0;
    if (!b) return WBXML_ERROR_NOT_ENOUGH_MEMORY;
    switch (k) {
    case K_DT:  ret = decode_datetime(b); break;
    case K_WVI: ret = decode_wv_integer(&b); break;
    case K_WVD: ret = decode_wv_datetime(&b); break;
    default:    ret = decode_base64_value(&b); break;
    }
    if (ret == WBXML_OK) {
        *outn = wbxml_buffer_len(b);
        *out = malloc(*outn + 1);
        if (*outn) memcpy(*out, wbxml_buffer_get_cstr(b), *outn);
    }
    wbxml_buffer_destroy(b);
    return ret;
}

static void do_dec(deckind k, const char *hex)
{
    size_t n, on; unsigned char *p = unhex(hex, &n), *o;
    WBXMLError r = run_dec(k, p, n, &o, &on);
    if (r == WBXML_OK) answer_ok(o, on); else answer_err(r);
    free(o); free(p);
}

/* Sweep: count pseudo-random 32-bit integers n (and, interleaved, opaque integers of 0..8 octets);
 * for each, decode the minimal big-endian opaque of n with decode_wv_integer and fold the answer into
 * an FNV-1a hash. The Lean driver computes the same hash from the model. The implementation-side
 * oracle (answer == decimal n / overflow iff value >= 2^32) is evaluated here and its failures counted. */
static uint64_t lcg(uint64_t *s) { *s = *s * 6364136223846793005ULL + 1442695040888963407ULL; return *s; }
static uint64_t fnv(uint64_t h, const unsigned char *p, size_t n) { size_t i; for (i = 0; i < n; i++) { h ^= p[i]; h *= 1099511628211ULL; } return h; }

static void do_sweep_wvi(const char *seed_s, const char *count_s)
{
    uint64_t s = strtoull(seed_s, NULL, 10), h = 1469598103934665603ULL, cnt = strtoull(count_s, NULL, 10), i, bad = 0;
    uint64_t first_bad = 0;
    for (i = 0; i < cnt; i++) {
        uint64_t r = lcg(&s);
        unsigned char oct[8]; size_t len = 0, on; unsigned char *o; char exp[32];
        unsigned long long val = 0; int j;
        if ((i & 7) == 7) {                       /* every 8th: an opaque of 0..8 arbitrary octets */
            uint64_t r2 = lcg(&s);
            len = (size_t)((r >> 33) % 9);
            for (j = 0; j < (int)len; j++) oct[j] = (unsigned char)(r2 >> (8 * j));
        } else {                                  /* minimal big-endian form of a 32-bit value */
            uint32_t n = (uint32_t)(r >> 32); unsigned char t[4]; int k = 0;
            switch ((r >> 29) & 7) { case 0: n &= 0xff; break; case 1: n &= 0xffff; break; case 2: n &= 0xffffff; break; default: break; }
            t[0] = n >> 24; t[1] = n >> 16; t[2] = n >> 8; t[3] = n;
            while (k < 4 && t[k] == 0) k++;
            len = 4 - k; memcpy(oct, t + k, len);
        }
        {
            int over = 0;
            for (j = 0; j < (int)len; j++) { if (val >> 56) over = 1; val = (val << 8) | oct[j]; }
            if (val > 0xffffffffULL) over = 1;
            {
                WBXMLError e = run_dec(K_WVI, oct, len, &o, &on);
                if (e == WBXML_OK) {
                    h = fnv(h, (const unsigned char *)"O", 1); h = fnv(h, o, on);
                    sprintf(exp, "%llu", val);
                    if (over || strlen(exp) != on || memcmp(exp, o, on)) { if (!bad) first_bad = i; bad++; }
                } else if (e == WBXML_ERROR_WV_INTEGER_OVERFLOW) {
                    h = fnv(h, (const unsigned char *)"V", 1);
                    if (!over) { if (!bad) first_bad = i; bad++; }
                } else { h = fnv(h, (const unsigned char *)"E", 1); if (!bad) first_bad = i; bad++; }
                free(o);
            }
        }
    }
    printf("OK %016llx bad=%llu first=%llu\n", (unsigned long long)h, (unsigned long long)bad, (unsigned long long)first_bad);
}

#else /* TYPED_ENC */

typedef enum { K_DTE, K_WVIE, K_WVDE, K_DRM } enckind;

static void do_enc(enckind k, const char *hex)
{
    size_t n; unsigned char *p = unhex(hex, &n);          /* NUL-terminated by unhex; the C side sees a C string */
    WBXMLEncoder *e; WBXMLError r;
    if (p[0] == 0) { puts("OK -"); free(p); return; }     /* caller's guard: wbxml_encode_value_element_buffer returns OK on "" */
    e = wbxml_encoder_create();
    e->lang = wbxml_tables_get_table(WBXML_LANG_WV_CSP11);
    e->output = wbxml_buffer_create((const WB_UTINY *)"", 0, 64);
    switch (k) {
    case K_DTE:  r = wbxml_encode_datetime(e, p); break;
    case K_WVIE: r = wbxml_encode_wv_integer(e, p); break;
    case K_WVDE: r = wbxml_encode_wv_datetime(e, p); break;
    default: {   /* ds:KeyValue text under a token-named parent, as wbxml_encode_value_element_buffer sees it */
        const WBXMLLangEntry *l = wbxml_tables_get_table(WBXML_LANG_DRMREL10);
        WBXMLTreeNode *node = wbxml_tree_node_create(WBXML_TREE_ELEMENT_NODE);
        node->name = wbxml_tag_create_token(wbxml_tables_get_tag_from_xml(l, -1, (const WB_UTINY *)"ds:KeyValue"));
        e->lang = l; e->current_text_parent = node;
        r = wbxml_encode_drmrel_content(e, p);
        e->current_text_parent = NULL;
        wbxml_tree_node_destroy(node);
        break; }
    }
    if (r == WBXML_OK) answer_ok(wbxml_buffer_get_cstr(e->output), wbxml_buffer_len(e->output)); else answer_err(r);
    wbxml_buffer_destroy(e->output); e->output = NULL;
    wbxml_encoder_destroy(e);
    free(p);
}

#endif

/* ------------------------------------------------------------------ end to end through the converters */

typedef struct {
    const WBXMLLangEntry *lang;
    const WBXMLTagEntry *root, *tag;     /* tag == root when the typed item sits on the root element */
    const WBXMLAttrEntry *attr;          /* NULL: typed element content; else typed attribute value */
    int icon;                            /* OTA: add NAME="ICON" before the typed attribute (XML side only) */
} shape;

static const WBXMLAttrEntry *find_attr(const WBXMLLangEntry *l, const char *name)
{
    const WBXMLAttrEntry *a;
    if (!l->attrTable) return NULL;
    for (a = l->attrTable; a->xmlName; a++)
        if (!strcmp(a->xmlName, name) && a->xmlValue == NULL) return a;
    return NULL;
}

/* args: <langid> E <tag>   |   <langid> A <tag> <attr>   |   <langid> I <tag> <attr> */
static int get_shape(char **tok, int nt, shape *s, int *used)
{
    memset(s, 0, sizeof *s);
    if (nt < 3) return 0;
    s->lang = wbxml_tables_get_table((WBXMLLanguage)atoi(tok[0]));
    if (!s->lang || !s->lang->publicID || !s->lang->publicID->xmlRootElt) return 0;
    s->root = wbxml_tables_get_tag_from_xml(s->lang, -1, (const WB_UTINY *)s->lang->publicID->xmlRootElt);
    if (!s->root && s->lang->tagTable) s->root = &s->lang->tagTable[0];   /* AirSync/ActiveSync: the DTD root is not a tag */
    s->tag = wbxml_tables_get_tag_from_xml(s->lang, -1, (const WB_UTINY *)tok[2]);
    if (!s->root || !s->tag) return 0;
    if (!strcmp(tok[1], "E")) { *used = 3; return 1; }
    if (nt < 4) return 0;
    s->attr = find_attr(s->lang, tok[3]);
    if (!s->attr) return 0;
    s->icon = !strcmp(tok[1], "I");
    *used = 4;
    return (!strcmp(tok[1], "A") || s->icon);
}

typedef struct { unsigned char *p; size_t n, cap; } bytes;
static void bput(bytes *b, const void *d, size_t n)
{
    if (b->n + n + 1 > b->cap) { b->cap = (b->n + n + 1) * 2; b->p = realloc(b->p, b->cap); }
    memcpy(b->p + b->n, d, n); b->n += n; b->p[b->n] = 0;
}
static void bbyte(bytes *b, unsigned c) { unsigned char x = (unsigned char)c; bput(b, &x, 1); }
static void bstr(bytes *b, const char *s) { bput(b, s, strlen(s)); }
static void bmb(bytes *b, unsigned long v)
{
    unsigned char t[5]; int i = 4, j;
    t[4] = v & 0x7f; v >>= 7;
    while (v) { t[--i] = 0x80 | (v & 0x7f); v >>= 7; }
    for (j = i; j < 5; j++) bbyte(b, t[j]);
}

/* body of the minimal WBXML document around `mid` (the typed item): returns prefix in *pre, suffix in *suf */
static void wb_frame(const shape *s, bytes *pre, bytes *suf)
{
    unsigned page = 0;
    if (s->tag != s->root) {
        if (s->root->wbxmlCodePage != page) { bbyte(pre, 0x00); bbyte(pre, s->root->wbxmlCodePage); page = s->root->wbxmlCodePage; }
        bbyte(pre, s->root->wbxmlToken | 0x40);
        bbyte(suf, 0x01);                                   /* END root (appended last, see below) */
    }
    if (s->tag->wbxmlCodePage != page) { bbyte(pre, 0x00); bbyte(pre, s->tag->wbxmlCodePage); }
    if (s->attr) {
        bbyte(pre, s->tag->wbxmlToken | 0x80);
        if (s->attr->wbxmlCodePage != 0) { bbyte(pre, 0x00); bbyte(pre, s->attr->wbxmlCodePage); }
        bbyte(pre, s->attr->wbxmlToken);
    } else {
        bbyte(pre, s->tag->wbxmlToken | 0x40);
    }
}

static WBXMLError conv_w2x(const shape *s, const unsigned char *doc, size_t n, unsigned char **xml, WB_ULONG *xl)
{
    WBXMLGenXMLParams p;
    p.gen_type = WBXML_GEN_XML_COMPACT; p.lang = s->lang->langID; p.charset = WBXML_CHARSET_UNKNOWN;
    p.indent = 0; p.keep_ignorable_ws = TRUE;
    *xml = NULL; *xl = 0;
    return wbxml_conv_wbxml2xml_withlen((WB_UTINY *)doc, (WB_ULONG)n, xml, xl, &p);
}

static WBXMLError conv_x2w(const unsigned char *doc, size_t n, unsigned char **wb, WB_ULONG *wl)
{
    WBXMLGenWBXMLParams p;
    p.wbxml_version = WBXML_VERSION_13; p.keep_ignorable_ws = FALSE; p.use_strtbl = FALSE; p.produce_anonymous = FALSE;
    *wb = NULL; *wl = 0;
    return wbxml_conv_xml2wbxml_withlen((WB_UTINY *)doc, (WB_ULONG)n, wb, wl, &p);
}

/* Build: version 1.3, public id (numeric; 0x01 = unknown, the language is forced anyway), UTF-8, no string table */
static void build_wbxml(const shape *s, const unsigned char *item, size_t n, bytes *doc)
{
    bytes pre = {0}, suf = {0};
    wb_frame(s, &pre, &suf);
    bbyte(doc, 0x03); bmb(doc, s->lang->publicID->wbxmlPublicID); bbyte(doc, 0x6a); bbyte(doc, 0x00);
    bput(doc, pre.p, pre.n);
    bput(doc, item, n);
    bbyte(doc, 0x01);                                       /* END of the typed element / of its attribute list */
    if (suf.n) bput(doc, suf.p, suf.n);
    free(pre.p); free(suf.p);
}

/* extract the typed value from compact XML; returns 1 and the slice, 0 if the shape is unexpected */
static int xml_extract(const shape *s, const unsigned char *xml, size_t xl, const unsigned char **v, size_t *vn)
{
    char pat[128]; const char *p, *q, *end = (const char *)xml + xl;
    const char *x = (const char *)xml;
    /* skip prolog/doctype: search "<tag" followed by ' ', '>' or '/' */
    snprintf(pat, sizeof pat, "<%s", s->tag->xmlName);
    p = x;
    for (;;) {
        p = strstr(p, pat);
        if (!p) return 0;
        q = p + strlen(pat);
        if (q < end && (*q == ' ' || *q == '>' || *q == '/')) break;
        p = q;
    }
    if (s->attr) {
        snprintf(pat, sizeof pat, " %s=\"", s->attr->xmlName);
        {
            const char *gt = strchr(q, '>');
            p = strstr(q, pat);
            if (!gt) return 0;
            if (!p || p > gt) { *v = (const unsigned char *)q; *vn = 0; return 2; }   /* attribute absent */
            p += strlen(pat);
            q = strchr(p, '"');
            if (!q) return 0;
            *v = (const unsigned char *)p; *vn = (size_t)(q - p); return 1;
        }
    } else {
        const char *gt = strchr(q, '>');
        if (!gt) return 0;
        if (gt[-1] == '/') { *v = (const unsigned char *)gt; *vn = 0; return 2; }         /* <tag/> : no content */
        p = gt + 1;
        snprintf(pat, sizeof pat, "</%s>", s->tag->xmlName);
        q = strstr(p, pat);
        if (!q) return 0;
        *v = (const unsigned char *)p; *vn = (size_t)(q - p); return 1;
    }
}

/* W2X <shape> <hex of the content item(s) inside the element / attribute>  ->  OK <hex of the XML value> */
static int w2x_value(const shape *s, const unsigned char *item, size_t n, bytes *val, WBXMLError *err)
{
    bytes doc = {0}; unsigned char *xml = NULL; WB_ULONG xl = 0; const unsigned char *v; size_t vn; int r;
    build_wbxml(s, item, n, &doc);
    *err = conv_w2x(s, doc.p, doc.n, &xml, &xl);
    free(doc.p);
    if (*err != WBXML_OK) { if (xml) wbxml_free(xml); return -1; }
    r = xml_extract(s, xml, xl, &v, &vn);
    if (r == 0) { bput(val, xml, xl); wbxml_free(xml); return 0; }
    if (vn) bput(val, v, vn);
    wbxml_free(xml);
    return r;
}

static void build_xml(const shape *s, const unsigned char *text, size_t n, bytes *doc)
{
    const WBXMLPublicIDEntry *pid = s->lang->publicID;
    bstr(doc, "<?xml version=\"1.0\"?><!DOCTYPE "); bstr(doc, pid->xmlRootElt);
    if (pid->xmlPublicID) { bstr(doc, " PUBLIC \""); bstr(doc, pid->xmlPublicID); bstr(doc, "\" \""); }
    else bstr(doc, " SYSTEM \"");
    bstr(doc, pid->xmlDTD ? pid->xmlDTD : ""); bstr(doc, "\">");
    if (s->tag != s->root) { bstr(doc, "<"); bstr(doc, s->root->xmlName); bstr(doc, ">"); }
    bstr(doc, "<"); bstr(doc, s->tag->xmlName);
    if (s->attr) {
        if (s->icon) bstr(doc, " NAME=\"ICON\"");
        bstr(doc, " "); bstr(doc, s->attr->xmlName); bstr(doc, "=\""); bput(doc, text, n); bstr(doc, "\"/>");
    } else {
        bstr(doc, ">"); bput(doc, text, n); bstr(doc, "</"); bstr(doc, s->tag->xmlName); bstr(doc, ">");
    }
    if (s->tag != s->root) { bstr(doc, "</"); bstr(doc, s->root->xmlName); bstr(doc, ">"); }
}

/* skip the WBXML header; returns offset of the body or -1 */
static long wb_body(const unsigned char *w, size_t n)
{
    size_t i = 1; int f; unsigned long v;
#define MB() do { v = 0; do { if (i >= n) return -1; v = (v << 7) | (w[i] & 0x7f); } while (w[i++] & 0x80); } while (0)
    if (n < 4) return -1;
    f = (w[i] == 0);
    if (f) i++;
    MB();               /* public id or string table index */
    MB();               /* charset */
    MB();               /* string table length */
    if (v > n - i) return -1;
    i += v;
#undef MB
    return (long)i;
}

/* the encoding of the typed item inside a minimal WBXML document (prefix/suffix checked, then removed).
 * returns 1 item extracted, 2 element encoded without content, 0 unexpected shape (whole document in item) */
static int wb_extract(const shape *s, const unsigned char *wb, size_t wl, bytes *item)
{
    bytes pre = {0}, suf = {0}; long b; int ok = 0;
    wb_frame(s, &pre, &suf);
    if (s->icon) {                                   /* NAME="ICON": start token of NAME + inline string */
        const WBXMLAttrEntry *na = find_attr(s->lang, "NAME");
        pre.n--;                                      /* drop the typed attribute's start token, re-add after NAME */
        bbyte(&pre, na ? na->wbxmlToken : 0); bbyte(&pre, 0x03); bput(&pre, "ICON", 5);
        bbyte(&pre, s->attr->wbxmlToken);
    }
    bbyte(&suf, 0x01);                               /* END of element / attribute list precedes the root END */
    b = wb_body(wb, wl);
    if (b >= 0 && !s->attr && (size_t)b < wl) {
        /* an element without content is encoded without the content flag and without END */
        bytes alt = {0};
        bput(&alt, pre.p, pre.n); alt.p[alt.n - 1] &= ~0x40;
        if (wl - b == alt.n + suf.n - 1 && !memcmp(wb + b, alt.p, alt.n) && (suf.n == 1 || wb[wl - 1] == 0x01)) {
            free(alt.p); free(pre.p); free(suf.p); return 2;
        }
        free(alt.p);
    }
    if (b >= 0 && wl - b >= pre.n + suf.n && !memcmp(wb + b, pre.p, pre.n)) {
        size_t k, all1 = 1;
        for (k = 0; k < suf.n; k++) if (wb[wl - suf.n + k] != 0x01) all1 = 0;
        if (all1) { bput(item, wb + b + pre.n, wl - b - pre.n - suf.n); ok = 1; }
    }
    if (!ok) bput(item, wb, wl);
    free(pre.p); free(suf.p);
    return ok;
}

/* X2W: minimal XML document around `text` -> wbxml_conv_xml2wbxml_withlen -> typed item */
static int x2w_item(const shape *s, const unsigned char *text, size_t n, bytes *item, WBXMLError *err)
{
    bytes doc = {0}; unsigned char *wb = NULL; WB_ULONG wl = 0; int r;
    build_xml(s, text, n, &doc);
    *err = conv_x2w(doc.p, doc.n, &wb, &wl);
    free(doc.p);
    if (*err != WBXML_OK) { if (wb) wbxml_free(wb); return -1; }
    r = wb_extract(s, wb, wl, item);
    wbxml_free(wb);
    return r;
}

/* W2W: minimal WBXML document around `in` -> tree (typed decoding) -> WBXML (typed encoding) -> typed item */
static int w2w_item(const shape *s, const unsigned char *in, size_t n, bytes *item, WBXMLError *err)
{
    bytes doc = {0}; unsigned char *wb = NULL; WB_ULONG wl = 0; int r; WBXMLTree *tree = NULL;
    WBXMLGenWBXMLParams p;
    p.wbxml_version = WBXML_VERSION_13; p.keep_ignorable_ws = TRUE; p.use_strtbl = FALSE; p.produce_anonymous = FALSE;
    build_wbxml(s, in, n, &doc);
    *err = wbxml_tree_from_wbxml(doc.p, (WB_ULONG)doc.n, s->lang->langID, WBXML_CHARSET_UNKNOWN, &tree);
    free(doc.p);
    if (*err != WBXML_OK) { if (tree) wbxml_tree_destroy(tree); return -1; }
    *err = wbxml_tree_to_wbxml(tree, &wb, &wl, &p);
    wbxml_tree_destroy(tree);
    if (*err != WBXML_OK) { if (wb) wbxml_free(wb); return -1; }
    r = wb_extract(s, wb, wl, item);
    wbxml_free(wb);
    return r;
}

static void do_e2e(const char *verb, char **tok, int nt)
{
    shape s; int used = 0; size_t n; unsigned char *p; bytes out = {0}; WBXMLError err = WBXML_OK; int r;
    if (!get_shape(tok, nt, &s, &used) || nt != used + 1) { puts("BADARG"); return; }
    p = unhex(tok[used], &n);
    if (!strcmp(verb, "W2X")) {
        r = w2x_value(&s, p, n, &out, &err);
        if (r < 0) answer_err(err); else if (r == 0) { fputs("SHAPE ", stdout); hexout(out.p, out.n); puts(""); }
        else if (r == 2) puts("OK -"); else answer_ok(out.p, out.n);
    } else if (!strcmp(verb, "X2W") || !strcmp(verb, "W2W")) {
        r = verb[0] == 'X' ? x2w_item(&s, p, n, &out, &err) : w2w_item(&s, p, n, &out, &err);
        if (r < 0) answer_err(err); else if (r == 0) { fputs("SHAPE ", stdout); hexout(out.p, out.n); puts(""); }
        else if (r == 2) puts("OK -"); else answer_ok(out.p, out.n);
    } else {                                         /* RT: XML text -> WBXML -> XML value */
        bytes item = {0};
        r = x2w_item(&s, p, n, &item, &err);
        if (r < 0) answer_err(err);
        else if (r == 0) { fputs("SHAPE ", stdout); hexout(item.p, item.n); puts(""); }
        else {
            if (s.icon) s.icon = 0;
            r = w2x_value(&s, item.p, r == 2 ? 0 : item.n, &out, &err);
            if (r < 0) answer_err(err); else if (r == 0) { fputs("SHAPE ", stdout); hexout(out.p, out.n); puts(""); }
            else if (r == 2) puts("OK -"); else answer_ok(out.p, out.n);
        }
        free(item.p);
    }
    free(out.p); free(p);
}

/* ------------------------------------------------------------------ main loop */

int main(void)
{
    static char line[1 << 20];
    while (fgets(line, sizeof line, stdin)) {
        char *tok[10]; int nt = 0; char *p = strtok(line, " \r\n");
        while (p && nt < 10) { tok[nt++] = p; p = strtok(NULL, " \r\n"); }
        if (nt == 0) { puts(""); continue; }
        if (nt < 3 || strcmp(tok[0], "TYPED")) { puts("BADVERB"); continue; }
        if (!strcmp(tok[1], "W2X") || !strcmp(tok[1], "X2W") || !strcmp(tok[1], "RT") || !strcmp(tok[1], "W2W")) do_e2e(tok[1], tok + 2, nt - 2);
#if defined(TYPED_DEC)
        else if (!strcmp(tok[1], "DT_DEC") && nt == 3) do_dec(K_DT, tok[2]);
        else if (!strcmp(tok[1], "WVI_DEC") && nt == 3) do_dec(K_WVI, tok[2]);
        else if (!strcmp(tok[1], "WVD_DEC") && nt == 3) do_dec(K_WVD, tok[2]);
        else if (!strcmp(tok[1], "B64_OPQ") && nt == 3) do_dec(K_B64, tok[2]);
        else if (!strcmp(tok[1], "SWEEP_WVI") && nt == 4) do_sweep_wvi(tok[2], tok[3]);
#else
        else if (!strcmp(tok[1], "DT_ENC") && nt == 3) do_enc(K_DTE, tok[2]);
        else if (!strcmp(tok[1], "WVI_ENC") && nt == 3) do_enc(K_WVIE, tok[2]);
        else if (!strcmp(tok[1], "WVD_ENC") && nt == 3) do_enc(K_WVDE, tok[2]);
        else if (!strcmp(tok[1], "DRM_ENC") && nt == 3) do_enc(K_DRM, tok[2]);
#endif
        else puts("BADVERB");
        fflush(stdout);
    }
    return 0;
}
