/* C16 — replacement for /repo/src/wbxml_mem.c (the library's single allocation choke point).
 *
 * The harness links every object of the scratch static library EXCEPT wbxml_mem.o and supplies the
 * four functions itself (no source hook).  They add
 *   (a) a failure schedule: request number k1 (and k2) of the current window answers NULL;
 *   (b) a live-block ledger: every block handed out is recorded (address, size, request number,
 *       call stack as raw return addresses); wbxml_free / wbxml_realloc of an address the ledger
 *       does not know, or knows as already freed, is recorded as a FAULT and NOT forwarded to
 *       free() (so the run continues and the following k's are still observed); free(NULL) is allowed.
 * Everything still runs under ASan/UBSan/LSan: a wild read/write, a use after free or a NULL
 * dereference aborts the (forked) run and is reported by the parent as a crash of that k.
 * Expat allocates with libc malloc directly; those allocations are not "made by the library"
 * and are neither failed nor ledgered (LSan still sees them).
 */
#include <stdint.h>
#include <stdlib.h>
#include <string.h>
#include <stdio.h>
#include "wbxml.h"

#define OOM_NPC 14
#define OOM_NBUCKET 8192

typedef struct OomBlk {
    void *p;
    size_t size;
    unsigned long req;
    int live;
    uintptr_t pc[OOM_NPC];
    struct OomBlk *next;
} OomBlk;

enum { OOM_F_NONE = 0, OOM_F_DOUBLE_FREE, OOM_F_FREE_UNKNOWN, OOM_F_REALLOC_FREED, OOM_F_REALLOC_UNKNOWN };
static const char *oom_fault_name[] = { "none", "double-free", "free-of-unknown", "realloc-of-freed", "realloc-of-unknown" };

typedef struct OomState {
    unsigned long req;            /* requests seen in this window */
    unsigned long fail[2];        /* request numbers that fail (0 = none) */
    unsigned long hits;           /* failures delivered */
    uintptr_t failpc[2][OOM_NPC]; /* call stacks of the delivered failures */
    int fault;                    /* first fault */
    unsigned long fault_req;      /* request number of the block concerned (0 = unknown block) */
    uintptr_t faultpc[OOM_NPC];
    unsigned long nfaults;
    unsigned long live_blocks;
    size_t live_bytes;
    unsigned long max_live;
} OomState;

static OomState oom;
static void (*oom_on_fail)(void);   /* called after a scheduled failure has been recorded */
static OomBlk *oom_tab[OOM_NBUCKET];
static uintptr_t oom_stack_hi;
extern void *__libc_stack_end;

const char oom_alloc_marker[] = "C16-ledger-allocator";

static unsigned oom_hash(void *p) { return (unsigned)(((uintptr_t)p >> 4) * 2654435761u) % OOM_NBUCKET; }

__attribute__((no_sanitize("address"), noinline))
static void oom_walk(uintptr_t *pc)
{
    uintptr_t *fp = (uintptr_t *)__builtin_frame_address(0);
    int i = 0;
    memset(pc, 0, OOM_NPC * sizeof(*pc));
    if (!oom_stack_hi) oom_stack_hi = (uintptr_t)__libc_stack_end;   /* main thread only */
    /* skip this frame and the allocator wrapper's own frame */
    while (i < OOM_NPC + 1 && fp) {
        uintptr_t *nfp = (uintptr_t *)fp[0];
        uintptr_t ret = fp[1];
        if (i >= 1) pc[i - 1] = ret ? ret - 1 : 0;
        i++;
        if ((uintptr_t)nfp <= (uintptr_t)fp || (uintptr_t)nfp >= oom_stack_hi || ((uintptr_t)nfp & 7)) break;
        fp = nfp;
    }
}

static OomBlk *oom_find(void *p)
{
    OomBlk *b = oom_tab[oom_hash(p)];
    while (b && b->p != p) b = b->next;
    return b;
}

static void oom_fault(int kind, OomBlk *b)
{
    oom.nfaults++;
    if (oom.fault == OOM_F_NONE) {
        oom.fault = kind;
        oom.fault_req = b ? b->req : 0;
        oom_walk(oom.faultpc);
    }
}

static void oom_record(void *p, size_t size, const uintptr_t *pcs)
{
    OomBlk *b = oom_find(p);
    if (!b) {
        unsigned h = oom_hash(p);
        b = (OomBlk *)calloc(1, sizeof(*b));
        b->p = p; b->next = oom_tab[h]; oom_tab[h] = b;
    }
    b->size = size; b->req = oom.req; b->live = 1;
    memcpy(b->pc, pcs, sizeof(b->pc));
    oom.live_blocks++; oom.live_bytes += size;
    if (oom.live_blocks > oom.max_live) oom.max_live = oom.live_blocks;
}

/* returns 1 when request number oom.req is scheduled to fail */
static int oom_should_fail(const uintptr_t *pcs)
{
    int i;
    for (i = 0; i < 2; i++)
        if (oom.fail[i] && oom.req == oom.fail[i]) {
            if (oom.hits < 2) memcpy(oom.failpc[oom.hits], pcs, sizeof(oom.failpc[0]));
            oom.hits++;
            if (oom_on_fail) oom_on_fail();
            return 1;
        }
    return 0;
}

WBXML_DECLARE(void *) wbxml_malloc(size_t size)
{
    uintptr_t pcs[OOM_NPC];
    void *p;
    oom_walk(pcs);
    oom.req++;
    if (oom_should_fail(pcs)) return NULL;
    p = malloc(size);
    if (p) oom_record(p, size, pcs);
    return p;
}

WBXML_DECLARE(void) wbxml_free(void *memblock)
{
    OomBlk *b;
    if (memblock == NULL) return;
    b = oom_find(memblock);
    if (!b) { oom_fault(OOM_F_FREE_UNKNOWN, NULL); return; }
    if (!b->live) { oom_fault(OOM_F_DOUBLE_FREE, b); return; }
    b->live = 0;
    oom.live_blocks--; oom.live_bytes -= b->size;
    free(memblock);
}

WBXML_DECLARE(void *) wbxml_realloc(void *memblock, size_t size)
{
    uintptr_t pcs[OOM_NPC];
    OomBlk *b = NULL;
    void *q;
    oom_walk(pcs);
    oom.req++;
    if (oom_should_fail(pcs)) return NULL;
    if (memblock != NULL) {
        b = oom_find(memblock);
        if (!b) { oom_fault(OOM_F_REALLOC_UNKNOWN, NULL); return NULL; }
        if (!b->live) { oom_fault(OOM_F_REALLOC_FREED, b); return NULL; }
    }
    q = realloc(memblock, size);
    if (!q) return NULL;
    if (b) { b->live = 0; oom.live_blocks--; oom.live_bytes -= b->size; }
    oom_record(q, size, pcs);
    return q;
}

WBXML_DECLARE(char *) wbxml_strdup(const char *str)
{
    uintptr_t pcs[OOM_NPC];
    size_t n = strlen(str) + 1;
    char *p;
    oom_walk(pcs);
    oom.req++;
    if (oom_should_fail(pcs)) return NULL;
    p = (char *)malloc(n);
    if (p) { memcpy(p, str, n); oom_record(p, n, pcs); }
    return p;
}

/* ---- control interface for the harness ---- */

/* start a new observation window: counters to zero, schedule set; blocks already live stay live */
static void oom_window(unsigned long k1, unsigned long k2)
{
    unsigned long lb = oom.live_blocks, mb = oom.max_live; size_t by = oom.live_bytes;
    (void)mb;
    memset(&oom, 0, sizeof(oom));
    oom.live_blocks = lb; oom.live_bytes = by; oom.max_live = lb;
    oom.fail[0] = k1; oom.fail[1] = k2;
}

static void oom_stop(void) { oom.fail[0] = oom.fail[1] = 0; }

/* the ledger's live blocks, oldest request first (at most max); returns the count written */
static int oom_live_list(OomBlk **out, int max)
{
    int n = 0, i, j;
    for (i = 0; i < OOM_NBUCKET; i++) {
        OomBlk *b;
        for (b = oom_tab[i]; b; b = b->next)
            if (b->live && n < max) out[n++] = b;
    }
    for (i = 1; i < n; i++) {
        OomBlk *x = out[i];
        for (j = i; j > 0 && out[j - 1]->req > x->req; j--) out[j] = out[j - 1];
        out[j] = x;
    }
    return n;
}

/* release every live block (after it has been reported as leaked) and forget freed markers */
static void oom_reset(void)
{
    int i;
    for (i = 0; i < OOM_NBUCKET; i++) {
        OomBlk *b = oom_tab[i], *n;
        for (; b; b = n) {
            n = b->next;
            if (b->live) free(b->p);
            free(b);
        }
        oom_tab[i] = NULL;
    }
    oom.live_blocks = 0; oom.live_bytes = 0;
}

static void oom_print_pcs(FILE *f, const uintptr_t *pc)
{
    int i, any = 0;
    for (i = 0; i < OOM_NPC && pc[i]; i++) { fprintf(f, "%s%lx", any ? "," : "", (unsigned long)pc[i]); any = 1; }
    if (!any) fputc('-', f);
}
