/* Shared helpers for the line-protocol harnesses. */
#ifndef HX_H
#define HX_H
#include <stdio.h>
#include <stdlib.h>
#include <string.h>

static unsigned char *hx_unhex(const char *h, size_t *n)
{
    size_t l = strlen(h), i;
    unsigned char *o;
    if (strcmp(h, "-") == 0) { o = calloc(1, 1); *n = 0; return o; }
    o = calloc(l / 2 + 1, 1);
    for (i = 0; i + 1 < l; i += 2) {
        unsigned v = 0; int k;
        for (k = 0; k < 2; k++) {
            char c = h[i + k];
            v = v * 16 + (c >= '0' && c <= '9' ? c - '0' : c >= 'a' && c <= 'f' ? c - 'a' + 10 : c >= 'A' && c <= 'F' ? c - 'A' + 10 : 0);
        }
        o[i / 2] = (unsigned char)v;
    }
    *n = l / 2;
    return o;
}

static void hx_out(FILE *f, const unsigned char *s, size_t n)
{
    size_t i;
    if (n == 0) { fputc('-', f); return; }
    for (i = 0; i < n; i++) fprintf(f, "%02x", s[i]);
}

static void hx_outs(FILE *f, const char *s) { hx_out(f, (const unsigned char *)s, strlen(s)); }

/* read one line of arbitrary length; returns malloc'd buffer or NULL at EOF */
/* responses are flushed line by line: when the code under test dies (sanitizer abort, signal), every
 * request answered before is still seen by the runner and the first unanswered request is the culprit */
__attribute__((constructor)) static void hx_line_buffered(void) { setvbuf(stdout, NULL, _IOLBF, 1 << 16); }

static char *hx_getline(FILE *f)
{
    size_t cap = 1 << 16, len = 0;
    char *b = malloc(cap);
    int c;
    while ((c = fgetc(f)) != EOF) {
        if (len + 2 > cap) { cap *= 2; b = realloc(b, cap); }
        if (c == '\n') break;
        b[len++] = (char)c;
    }
    if (c == EOF && len == 0) { free(b); return NULL; }
    b[len] = 0;
    return b;
}
#endif
