/* Translator, stage 1: print what the compiler saw of libwbxml's token tables and constants as JSON.
 * Linked against a fresh build of /repo's working tree. tools/gen_lean.py turns the JSON into
 * lean/Wbxml/Gen/Tables.lean and Consts.lean.
 */
#include <stdio.h>
#include <string.h>
#include <stdint.h>
#include "wbxml.h"
#include "wbxml_internals.h"
#include "wbxml_tables.h"
#include "wbxml_charset.h"
#include "wbxml_errors.h"
#include "wbxml_parser.h"

static void jstr(const char *s)
{
    if (!s) { printf("null"); return; }
    putchar('"');
    for (; *s; s++) printf("%02x", (unsigned char)*s);
    putchar('"');
}

#define MAXT 512
static const void *seen[MAXT];
static int nseen;

static int idx_of(const void *p, int *is_new)
{
    int i;
    for (i = 0; i < nseen; i++) if (seen[i] == p) { *is_new = 0; return i; }
    seen[nseen] = p; *is_new = 1; return nseen++;
}

int main(void)
{
    const WBXMLLangEntry *m = wbxml_tables_get_main();
    int i, first;
    unsigned j;
    printf("{\n\"langs\":[\n");
    for (i = 0; m[i].langID != WBXML_LANG_UNKNOWN; i++) {
        int isnew;
        printf("%s{\"id\":%d,", i ? ",\n" : "", (int)m[i].langID);
        if (m[i].publicID) {
            printf("\"pub\":{\"wbxml\":%lu,\"xml\":", (unsigned long)m[i].publicID->wbxmlPublicID);
            jstr(m[i].publicID->xmlPublicID); printf(",\"root\":");
            jstr(m[i].publicID->xmlRootElt); printf(",\"dtd\":");
            jstr(m[i].publicID->xmlDTD); printf("},");
        } else printf("\"pub\":null,");
        printf("\"tags\":"); if (m[i].tagTable) printf("%d", idx_of(m[i].tagTable, &isnew)); else printf("null");
        printf(",\"ns\":"); if (m[i].nsTable) printf("%d", idx_of(m[i].nsTable, &isnew)); else printf("null");
        printf(",\"attrs\":"); if (m[i].attrTable) printf("%d", idx_of(m[i].attrTable, &isnew)); else printf("null");
        printf(",\"values\":"); if (m[i].attrValueTable) printf("%d", idx_of(m[i].attrValueTable, &isnew)); else printf("null");
        printf(",\"exts\":"); if (m[i].extValueTable) printf("%d", idx_of(m[i].extValueTable, &isnew)); else printf("null");
        printf("}");
    }
    printf("\n],\n\"tables\":{\n");
    /* second pass: print each distinct table once, by kind */
    nseen = 0; first = 1;
    for (i = 0; m[i].langID != WBXML_LANG_UNKNOWN; i++) {
        int isnew, k;
        if (m[i].tagTable) { k = idx_of(m[i].tagTable, &isnew); if (isnew) {
            const WBXMLTagEntry *t = m[i].tagTable;
            printf("%s\"%d\":{\"kind\":\"tag\",\"rows\":[", first ? "" : ",\n", k); first = 0;
            for (j = 0; t[j].xmlName; j++) { printf("%s[", j ? "," : ""); jstr(t[j].xmlName);
                printf(",%u,%u,%lu]", t[j].wbxmlCodePage, t[j].wbxmlToken, (unsigned long)t[j].options); }
            printf("]}"); } }
        if (m[i].nsTable) { k = idx_of(m[i].nsTable, &isnew); if (isnew) {
            const WBXMLNameSpaceEntry *t = m[i].nsTable;
            printf("%s\"%d\":{\"kind\":\"ns\",\"rows\":[", first ? "" : ",\n", k); first = 0;
            for (j = 0; t[j].xmlNameSpace; j++) { printf("%s[", j ? "," : ""); jstr(t[j].xmlNameSpace);
                printf(",%u]", t[j].wbxmlCodePage); }
            printf("]}"); } }
        if (m[i].attrTable) { k = idx_of(m[i].attrTable, &isnew); if (isnew) {
            const WBXMLAttrEntry *t = m[i].attrTable;
            printf("%s\"%d\":{\"kind\":\"attr\",\"rows\":[", first ? "" : ",\n", k); first = 0;
            for (j = 0; t[j].xmlName; j++) { printf("%s[", j ? "," : ""); jstr(t[j].xmlName); printf(",");
                jstr(t[j].xmlValue); printf(",%u,%u]", t[j].wbxmlCodePage, t[j].wbxmlToken); }
            printf("]}"); } }
        if (m[i].attrValueTable) { k = idx_of(m[i].attrValueTable, &isnew); if (isnew) {
            const WBXMLAttrValueEntry *t = m[i].attrValueTable;
            printf("%s\"%d\":{\"kind\":\"val\",\"rows\":[", first ? "" : ",\n", k); first = 0;
            for (j = 0; t[j].xmlName; j++) { printf("%s[", j ? "," : ""); jstr(t[j].xmlName);
                printf(",%u,%u]", t[j].wbxmlCodePage, t[j].wbxmlToken); }
            printf("]}"); } }
        if (m[i].extValueTable) { k = idx_of(m[i].extValueTable, &isnew); if (isnew) {
            const WBXMLExtValueEntry *t = m[i].extValueTable;
            printf("%s\"%d\":{\"kind\":\"ext\",\"rows\":[", first ? "" : ",\n", k); first = 0;
            for (j = 0; t[j].xmlName; j++) { printf("%s[", j ? "," : ""); jstr(t[j].xmlName);
                printf(",%u]", t[j].wbxmlToken); }
            printf("]}"); } }
    }
    printf("\n},\n\"consts\":{\n");
#define C(x) printf("\"%s\":%ld,\n", #x, (long)(x))
    C(WBXML_SWITCH_PAGE); C(WBXML_END); C(WBXML_ENTITY); C(WBXML_STR_I); C(WBXML_LITERAL);
    C(WBXML_EXT_I_0); C(WBXML_EXT_I_1); C(WBXML_EXT_I_2); C(WBXML_PI); C(WBXML_LITERAL_C);
    C(WBXML_EXT_T_0); C(WBXML_EXT_T_1); C(WBXML_EXT_T_2); C(WBXML_STR_T); C(WBXML_LITERAL_A);
    C(WBXML_EXT_0); C(WBXML_EXT_1); C(WBXML_EXT_2); C(WBXML_OPAQUE); C(WBXML_LITERAL_AC);
    C(WBXML_TOKEN_MASK); C(WBXML_TOKEN_WITH_ATTRS); C(WBXML_TOKEN_WITH_CONTENT);
    C(WBXML_PUBLIC_ID_UNKNOWN);
    C(WBXML_TAG_OPTION_BINARY); C(WBXML_TAG_OPTION_OPAQUE); C(WBXML_TAG_OPTION_CDATA);
    C(WBXML_VERSION_10); C(WBXML_VERSION_11); C(WBXML_VERSION_12); C(WBXML_VERSION_13);
    C(WBXML_GEN_XML_COMPACT); C(WBXML_GEN_XML_INDENT); C(WBXML_GEN_XML_CANONICAL);
    C(WBXML_CHARSET_UNKNOWN); C(WBXML_CHARSET_US_ASCII); C(WBXML_CHARSET_UTF_8);
    C(WBXML_CHARSET_ISO_10646_UCS_2); C(WBXML_CHARSET_UTF_16);
    C(WBXML_PARSER_DEFAULT_CHARSET);
    C(WBXML_OK); C(WBXML_NOT_ENCODED);
    C(WBXML_ERROR_ATTR_TABLE_UNDEFINED); C(WBXML_ERROR_BAD_DATETIME); C(WBXML_ERROR_BAD_PARAMETER);
    C(WBXML_ERROR_INTERNAL); C(WBXML_ERROR_LANG_TABLE_UNDEFINED); C(WBXML_ERROR_NOT_ENOUGH_MEMORY);
    C(WBXML_ERROR_NOT_IMPLEMENTED); C(WBXML_ERROR_TAG_TABLE_UNDEFINED); C(WBXML_ERROR_B64_ENC);
    C(WBXML_ERROR_B64_DEC); C(WBXML_ERROR_WV_DATETIME_FORMAT); C(WBXML_ERROR_NO_CHARSET_CONV);
    C(WBXML_ERROR_CHARSET_STR_LEN); C(WBXML_ERROR_CHARSET_UNKNOWN); C(WBXML_ERROR_CHARSET_CONV_INIT);
    C(WBXML_ERROR_CHARSET_CONV); C(WBXML_ERROR_CHARSET_NOT_FOUND); C(WBXML_ERROR_ATTR_VALUE_TABLE_UNDEFINED);
    C(WBXML_ERROR_BAD_LITERAL_INDEX); C(WBXML_ERROR_BAD_NULL_TERMINATED_STRING_IN_STRING_TABLE);
    C(WBXML_ERROR_BAD_OPAQUE_LENGTH); C(WBXML_ERROR_EMPTY_WBXML); C(WBXML_ERROR_END_OF_BUFFER);
    C(WBXML_ERROR_ENTITY_CODE_OVERFLOW); C(WBXML_ERROR_EXT_VALUE_TABLE_UNDEFINED);
    C(WBXML_ERROR_INVALID_STRTBL_INDEX); C(WBXML_ERROR_LITERAL_NOT_NULL_TERMINATED_IN_STRING_TABLE);
    C(WBXML_ERROR_NOT_NULL_TERMINATED_INLINE_STRING); C(WBXML_ERROR_NULL_PARSER);
    C(WBXML_ERROR_NULL_STRING_TABLE); C(WBXML_ERROR_STRING_EXPECTED); C(WBXML_ERROR_STRTBL_LENGTH);
    C(WBXML_ERROR_UNKNOWN_ATTR); C(WBXML_ERROR_UNKNOWN_ATTR_VALUE); C(WBXML_ERROR_UNKNOWN_EXTENSION_TOKEN);
    C(WBXML_ERROR_UNKNOWN_EXTENSION_VALUE); C(WBXML_ERROR_UNKNOWN_PUBLIC_ID); C(WBXML_ERROR_UNKNOWN_TAG);
    C(WBXML_ERROR_UNVALID_MBUINT32); C(WBXML_ERROR_WV_INTEGER_OVERFLOW); C(WBXML_ERROR_ENCODER_APPEND_DATA);
    C(WBXML_ERROR_STRTBL_DISABLED); C(WBXML_ERROR_UNKNOWN_XML_LANGUAGE); C(WBXML_ERROR_XML_NODE_NOT_ALLOWED);
    C(WBXML_ERROR_XML_NULL_ATTR_NAME); C(WBXML_ERROR_XML_PARSING_FAILED); C(WBXML_ERROR_XML_DEVINF_CONV_FAILED);
    C(WBXML_ERROR_NO_XMLPARSER); C(WBXML_ERROR_XMLPARSER_OUTPUT_UTF16); C(WBXML_ERROR_INVALID_UNICODE);
    printf("\"WB_ULONG_BITS\":%d\n},\n\"charsets\":[", (int)(8 * sizeof(WB_ULONG)));
    {
        /* the charset table is static: enumerate it through the public lookup over the MIB range */
        int mib, firstc = 1;
        for (mib = 0; mib < 3000; mib++) {
            const WB_TINY *name = NULL;
            if (wbxml_charset_get_name((WBXMLCharsetMIBEnum)mib, &name) && name) {
                printf("%s[%d,", firstc ? "" : ",", mib); jstr(name); printf("]"); firstc = 0;
            }
        }
    }
    printf("]\n}\n");
    return 0;
}
