/* C19 correspondence harness: drives the REAL buffer and list containers of /repo with whole
 * operation histories (one history per request line) and prints the observable result of every
 * operation.  Same line protocol as lean/Driver/Buf.lean.
 *
 *   BUF <init> <op> <op> ...      init: D:<hex|->:<block>  DN:<block>  S:<hex|->
 *   LIST <op> <op> ...
 *
 * The struct definitions are reached by including the .c files (as test/api/*_internals.c does),
 * so that capacity, terminator and link fields are observed directly and not re-declared.
 */
#include <stdio.h>
#include <stdlib.h>
#include <string.h>
#include <stdint.h>
#include "wbxml.h"
#include "wbxml_buffers.c"
#include "wbxml_lists.c"

static unsigned char *unhex(const char *h, size_t *n)
{
    size_t l = strlen(h), i;
    unsigned char *o;
    if (strcmp(h, "-") == 0) l = 0;
    /* exact-size allocations so that ASan sees any read past the argument; +1 only for C strings */
    o = malloc(l / 2 + 1);
    for (i = 0; i + 1 < l; i += 2) { unsigned v; sscanf(h + i, "%2x", &v); o[i / 2] = (unsigned char)v; }
    o[l / 2] = 0;
    *n = l / 2;
    return o;
}

/* exact-size copy without terminator (for static buffers and data pointers) */
static unsigned char *exact(const unsigned char *p, size_t n)
{
    unsigned char *o = malloc(n ? n : 1);
    if (n) memcpy(o, p, n);
    return o;
}

static void hex(const unsigned char *p, size_t n)
{
    size_t i;
    if (n == 0) { putchar('-'); return; }
    for (i = 0; i < n; i++) printf("%02x", p[i]);
}

/* "<len> <hex> <malloced|-> <T|F|N|S>" */
static void state(WBXMLBuffer *b)
{
    printf("%u ", b->len);
    if (b->len && !b->data) { printf("NULLDATA"); return; }
    hex(b->data, b->len);
    if (b->is_static) { printf(" - S"); return; }
    printf(" %u ", b->malloced);
    if (!b->data) putchar('N');
    else putchar((b->len < b->malloced && b->data[b->len] == 0) ? 'T' : 'F');
}

typedef struct { WBXMLBuffer *b; unsigned char *keep; } ArgBuf;

/* N | D<hex> | S<hex> */
static ArgBuf mkarg(const char *a)
{
    ArgBuf r = { NULL, NULL };
    size_t n; unsigned char *raw;
    if (a[0] == 'N') return r;
    raw = unhex(a + 1, &n);
    if (a[0] == 'D') { r.b = wbxml_buffer_create(raw, n, n); free(raw); }
    else { r.keep = exact(raw, n); free(raw); r.b = wbxml_buffer_sta_create(r.keep, n); }
    return r;
}
static void rmarg(ArgBuf a) { if (a.b) wbxml_buffer_destroy(a.b); free(a.keep); }

/* N | B<hex>  -> NUL-terminated C string (or NULL) */
static unsigned char *mkstr(const char *a, size_t *n)
{
    *n = 0;
    if (a[0] == 'N') return NULL;
    return unhex(a + 1, n);
}

static int split(char *s, const char *sep, char **tok, int max)
{
    int n = 0; char *save = NULL; char *p = strtok_r(s, sep, &save);
    while (p && n < max) { tok[n++] = p; p = strtok_r(NULL, sep, &save); }
    return n;
}

static void do_buf(char **ops, int nops)
{
    char *f[4]; int nf, i;
    WBXMLBuffer *b = NULL; unsigned char *keep = NULL; size_t n;
    char initcopy[1 << 16];
    strncpy(initcopy, ops[0], sizeof initcopy - 1); initcopy[sizeof initcopy - 1] = 0;
    nf = split(initcopy, ":", f, 4);
    if (nf >= 3 && !strcmp(f[0], "D")) {
        unsigned char *raw = unhex(f[1], &n); keep = exact(raw, n); free(raw);
        b = wbxml_buffer_create(keep, n, (WB_ULONG)strtoul(f[2], NULL, 10)); free(keep); keep = NULL;
    } else if (nf >= 2 && !strcmp(f[0], "DN")) {
        b = wbxml_buffer_create(NULL, 5, (WB_ULONG)strtoul(f[1], NULL, 10));
    } else if (nf >= 2 && !strcmp(f[0], "S")) {
        unsigned char *raw = unhex(f[1], &n); keep = exact(raw, n); free(raw);
        b = wbxml_buffer_sta_create(keep, n);
    } else { puts("BADINIT"); return; }
    if (!b) { puts("NOMEM"); return; }
    state(b);
    for (i = 1; i < nops; i++) {
        char opc[1 << 16]; const char *o;
        strncpy(opc, ops[i], sizeof opc - 1); opc[sizeof opc - 1] = 0;
        nf = split(opc, ":", f, 4); o = f[0];
        printf(" / ");
        if (!strcmp(o, "len")) printf("%u", wbxml_buffer_len(b));
        else if (!strcmp(o, "get") && nf == 2) {
            WB_UTINY ch = 0xEE;
            if (wbxml_buffer_get_char(b, (WB_ULONG)strtoul(f[1], NULL, 10), &ch)) printf("T:%02x", ch); else printf("F");
        }
        else if (!strcmp(o, "set") && nf == 3)
            printf("%c", wbxml_buffer_set_char(b, (WB_ULONG)strtoul(f[1], NULL, 10), (WB_UTINY)strtoul(f[2], NULL, 16)) ? 'T' : 'F');
        else if (!strcmp(o, "cstr")) { WB_UTINY *p = wbxml_buffer_get_cstr(b); hex(p, wbxml_buffer_len(b)); }
        else if (!strcmp(o, "dup")) {
            WBXMLBuffer *d = wbxml_buffer_duplicate(b);
            if (!d) printf("NULL"); else { state(d); wbxml_buffer_destroy(d); }
        }
        else if (!strcmp(o, "ins") && nf == 3) {
            ArgBuf a = mkarg(f[1]);
            printf("%c", wbxml_buffer_insert(b, a.b, (WB_ULONG)strtoul(f[2], NULL, 10)) ? 'T' : 'F'); rmarg(a);
        }
        else if (!strcmp(o, "insself") && nf == 2)   /* the buffer inserted into itself */
            printf("%c", wbxml_buffer_insert(b, b, (WB_ULONG)strtoul(f[1], NULL, 10)) ? 'T' : 'F');
        else if (!strcmp(o, "appself"))              /* the buffer appended to itself */
            printf("%c", wbxml_buffer_append(b, b) ? 'T' : 'F');
        else if (!strcmp(o, "insc") && nf == 3) {
            unsigned char *s = mkstr(f[1], &n);
            printf("%c", wbxml_buffer_insert_cstr(b, s, (WB_ULONG)strtoul(f[2], NULL, 10)) ? 'T' : 'F'); free(s);
        }
        else if (!strcmp(o, "app") && nf == 2) {
            ArgBuf a = mkarg(f[1]); printf("%c", wbxml_buffer_append(b, a.b) ? 'T' : 'F'); rmarg(a);
        }
        else if (!strcmp(o, "appd") && nf == 2) {
            unsigned char *s = mkstr(f[1], &n), *e = s ? exact(s, n) : NULL;
            printf("%c", wbxml_buffer_append_data(b, e, (WB_ULONG)n) ? 'T' : 'F'); free(s); free(e);
        }
        else if (!strcmp(o, "appc") && nf == 2) {
            unsigned char *s = mkstr(f[1], &n); printf("%c", wbxml_buffer_append_cstr(b, s) ? 'T' : 'F'); free(s);
        }
        else if (!strcmp(o, "appch") && nf == 2)
            printf("%c", wbxml_buffer_append_char(b, (WB_UTINY)strtoul(f[1], NULL, 16)) ? 'T' : 'F');
        else if (!strcmp(o, "appmb") && nf == 2)
            printf("%c", wbxml_buffer_append_mb_uint_32(b, (WB_ULONG)strtoul(f[1], NULL, 10)) ? 'T' : 'F');
        else if (!strcmp(o, "del") && nf == 3) {
            unsigned long pos = strtoul(f[1], NULL, 10), cnt = strtoul(f[2], NULL, 10);
            /* the one case outside the documented contract: starts inside, extends beyond */
            if (!b->is_static && pos < b->len && cnt != 0 && pos + cnt > b->len) printf("EXCLUDED");
            else printf("%c", wbxml_buffer_delete(b, (WB_ULONG)pos, (WB_ULONG)cnt) ? 'T' : 'F');
        }
        else if (!strcmp(o, "shrink")) printf("%c", wbxml_buffer_shrink_blanks(b) ? 'T' : 'F');
        else if (!strcmp(o, "strip")) printf("%c", wbxml_buffer_strip_blanks(b) ? 'T' : 'F');
        else if (!strcmp(o, "nosp")) { wbxml_buffer_no_spaces(b); printf("V"); }
        else if (!strcmp(o, "rtz")) printf("%c", wbxml_buffer_remove_trailing_zeros(b) ? 'T' : 'F');
        else if (!strcmp(o, "cmp") && nf == 2) {
            ArgBuf a = mkarg(f[1]); WB_LONG r = wbxml_buffer_compare(b, a.b);
            printf("%d", r < 0 ? -1 : r > 0 ? 1 : 0); rmarg(a);
        }
        else if (!strcmp(o, "cmpc") && nf == 2) {
            unsigned char *s = mkstr(f[1], &n); WB_LONG r = wbxml_buffer_compare_cstr(b, (const WB_TINY *)s);
            printf("%d", r < 0 ? -1 : r > 0 ? 1 : 0); free(s);
        }
        else if (!strcmp(o, "split")) {
            WBXMLList *l = wbxml_buffer_split_words(b);
            if (!l) printf("NULL");
            else {
                WB_ULONG k, cnt = wbxml_list_len(l);
                printf("%u", cnt);
                for (k = 0; k < cnt; k++) { printf(","); WBXMLBuffer *w = wbxml_list_get(l, k);
                    printf("%u ", w->len); hex(w->data, w->len); printf(" %u %c", w->malloced, (w->data && w->data[w->len] == 0) ? 'T' : 'F'); }
                wbxml_list_destroy(l, wbxml_buffer_destroy_item);
            }
        }
        else if (!strcmp(o, "sch") && nf == 3) {
            WB_ULONG r = 0xEEEEEEEE;
            if (wbxml_buffer_search_char(b, (WB_UTINY)strtoul(f[1], NULL, 16), (WB_ULONG)strtoul(f[2], NULL, 10), &r)) printf("T:%u", r); else printf("F");
        }
        else if (!strcmp(o, "srch") && nf == 3) {
            ArgBuf a = mkarg(f[1]); WB_ULONG r = 0xEEEEEEEE;
            if (wbxml_buffer_search(b, a.b, (WB_ULONG)strtoul(f[2], NULL, 10), &r)) printf("T:%u", r); else printf("F");
            rmarg(a);
        }
        else if (!strcmp(o, "srchc") && nf == 3) {
            unsigned char *s = mkstr(f[1], &n); WB_ULONG r = 0xEEEEEEEE;
            if (wbxml_buffer_search_cstr(b, s, (WB_ULONG)strtoul(f[2], NULL, 10), &r)) printf("T:%u", r); else printf("F");
            free(s);
        }
        else if (!strcmp(o, "onlyws")) printf("%c", wbxml_buffer_contains_only_whitespaces(b) ? 'T' : 'F');
        else if (!strcmp(o, "h2b")) printf("%c", wbxml_buffer_hex_to_binary(b) ? 'T' : 'F');
        else if (!strcmp(o, "b2h") && nf == 2) printf("%c", wbxml_buffer_binary_to_hex(b, f[1][0] == '1') ? 'T' : 'F');
        else if (!strcmp(o, "d64")) printf("%s", wbxml_buffer_decode_base64(b) == WBXML_OK ? "T" : "F");
        else if (!strcmp(o, "e64")) printf("%s", wbxml_buffer_encode_base64(b) == WBXML_OK ? "T" : "F");
        else { printf("BADOP"); }
        printf(" "); state(b);
    }
    puts("");
    wbxml_buffer_destroy(b);
    free(keep);
}

/* "<len> <items,> <W|B>": items by walking head->next (bounded), W = well formed
 * (walk length == len, tail is the last cell, tail->next == NULL, get(i) agrees with the walk) */
static void lstate2(WBXMLList *l, int with_get)
{
    WBXMLListElt *e; WB_ULONG k = 0; int ok = 1; WBXMLListElt *last = NULL;
    printf("%u ", l->len);
    if (!l->head) putchar('-');
    for (e = l->head; e && k < 100000; e = e->next, k++) {
        printf(k ? ",%lu" : "%lu", (unsigned long)(uintptr_t)e->item);
        /* the observation between two operations of the history only reads the links: calling the list API
         * here would itself be an operation (and would hide state kept between calls, e.g. a look-up cursor) */
        if (with_get && wbxml_list_get(l, k) != e->item) ok = 0;
        last = e;
    }
    if (k != l->len || last != l->tail || (last && last->next)) ok = 0;
    if (with_get && (wbxml_list_get(l, k) != NULL || wbxml_list_len(l) != l->len)) ok = 0;
    printf(" %c", ok ? 'W' : 'B');
}

static void lstate(WBXMLList *l) { lstate2(l, 0); }

static void do_list(char **ops, int nops)
{
    int i, nf; char *f[4];
    WBXMLList *l = wbxml_list_create();
    if (!l) { puts("NOMEM"); return; }
    lstate(l);
    for (i = 0; i < nops; i++) {
        const char *o;
        nf = split(ops[i], ":", f, 4); o = f[0];
        printf(" / ");
        if (!strcmp(o, "len")) printf("%u", wbxml_list_len(l));
        else if (!strcmp(o, "app") && nf == 2) printf("%c", wbxml_list_append(l, (void *)(uintptr_t)strtoul(f[1], NULL, 10)) ? 'T' : 'F');
        else if (!strcmp(o, "ins") && nf == 3) printf("%c", wbxml_list_insert(l, (void *)(uintptr_t)strtoul(f[1], NULL, 10), (WB_ULONG)strtoul(f[2], NULL, 10)) ? 'T' : 'F');
        else if (!strcmp(o, "get") && nf == 2) printf("%lu", (unsigned long)(uintptr_t)wbxml_list_get(l, (WB_ULONG)strtoul(f[1], NULL, 10)));
        else if (!strcmp(o, "xf")) printf("%lu", (unsigned long)(uintptr_t)wbxml_list_extract_first(l));
        else printf("BADOP");
        printf(" "); if (i == nops - 1) lstate2(l, 1); else lstate(l);
    }
    puts("");
    wbxml_list_destroy(l, NULL);
}

/* BIG op,op,...  (implementation-side stream for sizes beyond what a history line can carry)
 *   aN       append N bytes          iN:P   insert N bytes at position P        dN:P   delete N bytes at P
 * byte j of the k-th inserted block is (k * 31 + j * 7 + 1) & 0xff.  After each operation: "<len>:<fnv1a of the
 * contents>:<Z|z>" (Z = one NUL after the contents).  Under ASan an overrun of the block aborts the run. */
static void do_big(char *spec)
{
    WBXMLBuffer *b = wbxml_buffer_create((const WB_UTINY *)"", 0, 0);
    char *op; unsigned k = 0;
    if (!b) { puts("NOMEM"); return; }
    for (op = strtok(spec, ","); op; op = strtok(NULL, ","), k++) {
        unsigned long n = strtoul(op + 1, NULL, 10), pos = 0, j;
        char *c = strchr(op, ':');
        unsigned long h = 2166136261UL; WB_ULONG i; int ok = 1;
        if (c) pos = strtoul(c + 1, NULL, 10);
        if (op[0] == 'a' || op[0] == 'i') {
            unsigned char *blk = malloc(n ? n : 1);
            for (j = 0; j < n; j++) blk[j] = (unsigned char)((k * 31 + j * 7 + 1) & 0xff);
            if (op[0] == 'a') ok = wbxml_buffer_append_data(b, blk, (WB_ULONG)n);
            else { WBXMLBuffer *t = wbxml_buffer_create(blk, (WB_ULONG)n, 0); ok = t && wbxml_buffer_insert(b, t, (WB_ULONG)pos); if (t) wbxml_buffer_destroy(t); }
            free(blk);
        } else if (op[0] == 'd') {
            wbxml_buffer_delete(b, (WB_ULONG)pos, (WB_ULONG)n);
        }
        for (i = 0; i < wbxml_buffer_len(b); i++) { h ^= wbxml_buffer_get_cstr(b)[i]; h = (h * 16777619UL) & 0xffffffffUL; }
        printf("%s%u:%lu:%c%s", k ? " " : "", wbxml_buffer_len(b), h, wbxml_buffer_get_cstr(b)[wbxml_buffer_len(b)] == 0 ? 'Z' : 'z', ok ? "" : "!");
    }
    puts("");
    wbxml_buffer_destroy(b);
}

int main(void)
{
    static char line[1 << 20];
    static char *tok[4096];
    while (fgets(line, sizeof line, stdin)) {
        int nt = split(line, " \r\n", tok, 4096);
        if (nt == 0) { puts(""); }
        else if (!strcmp(tok[0], "BUF") && nt >= 2) do_buf(tok + 1, nt - 1);
        else if (!strcmp(tok[0], "LIST")) do_list(tok + 1, nt - 1);
        else if (!strcmp(tok[0], "BIG") && nt == 2) do_big(tok[1]);
        else puts("BADVERB");
        fflush(stdout);
    }
    return 0;
}
