/* W2X correspondence: the real WBXML -> XML conversion through the converter object.
 * Request:  W2X <forced-lang> <charset> <gen> <indent> <keepws> <hexdoc>
 * Response: R <code> ; <hex xml>   (+ " CONTRACT:<what>" when the output contract is broken)
 */
#include "hx.h"
#include <sys/mman.h>
#include <unistd.h>
#include "wbxml.h"
#include "wbxml_conv.h"

int main(void)
{
    char *line;
    long pg = sysconf(_SC_PAGESIZE);
    while ((line = hx_getline(stdin))) {
        char *t[8]; int nt = 0; char *p = strtok(line, " ");
        while (p && nt < 8) { t[nt++] = p; p = strtok(NULL, " "); }
        if (nt == 3 && !strcmp(t[0], "W2XN")) {
            /* optional arguments given as NULL: mode 0 = legacy entry point with params == NULL,
             * mode 1 = converter object with xml_len == NULL, mode 2 = legacy entry point with both NULL */
            size_t n; unsigned char *doc = hx_unhex(t[2], &n);
            WB_UTINY *xml = NULL; WB_ULONG xml_len = 0; WBXMLError ret;
            if (atoi(t[1]) == 0) {
                ret = n ? wbxml_conv_wbxml2xml_withlen(doc, (WB_ULONG)n, &xml, &xml_len, NULL) : WBXML_ERROR_BAD_PARAMETER;
            } else if (atoi(t[1]) == 2) {
                /* mode 2 = legacy entry point with xml_len == NULL as well (what the wbxml_conv_wbxml2xml() macro passes) */
                ret = n ? wbxml_conv_wbxml2xml_withlen(doc, (WB_ULONG)n, &xml, NULL, NULL) : WBXML_ERROR_BAD_PARAMETER;
                if (xml) xml_len = (WB_ULONG)strlen((char *)xml);
            } else {
                WBXMLConvWBXML2XML *conv = NULL;
                wbxml_conv_wbxml2xml_create(&conv);
                ret = n ? wbxml_conv_wbxml2xml_run(conv, doc, (WB_ULONG)n, &xml, NULL) : WBXML_ERROR_BAD_PARAMETER;
                wbxml_conv_wbxml2xml_destroy(conv);
                if (xml) xml_len = (WB_ULONG)strlen((char *)xml);
            }
            printf("R %d ; ", (int)ret);
            if (ret == WBXML_OK && xml) hx_out(stdout, xml, xml_len);
            printf("%s\n", (ret != WBXML_OK && xml != NULL) ? " CONTRACT:error-with-output" : "");
            if (xml) wbxml_free(xml);
            free(doc); free(line); continue;
        }
        if (nt != 7 || strcmp(t[0], "W2X")) { puts("BADVERB"); free(line); continue; }
        {
            size_t n; unsigned char *doc = hx_unhex(t[6], &n);
            /* the caller's input lives in a read-only mapping: a write to it faults */
            size_t maplen = ((n ? n : 1) + pg - 1) / pg * pg;
            unsigned char *ro = mmap(NULL, maplen, PROT_READ | PROT_WRITE, MAP_PRIVATE | MAP_ANONYMOUS, -1, 0);
            WBXMLConvWBXML2XML *conv = NULL;
            WB_UTINY *xml = (WB_UTINY *)0x1; WB_ULONG xml_len = 12345;
            WBXMLError ret;
            const char *contract = "";
            memcpy(ro, doc, n);
            mprotect(ro, maplen, PROT_READ);
            wbxml_conv_wbxml2xml_create(&conv);
            wbxml_conv_wbxml2xml_set_gen_type(conv, (WBXMLGenXMLType)atoi(t[3]));
            wbxml_conv_wbxml2xml_set_language(conv, (WBXMLLanguage)atoi(t[1]));
            wbxml_conv_wbxml2xml_set_charset(conv, (WBXMLCharsetMIBEnum)atoi(t[2]));
            wbxml_conv_wbxml2xml_set_indent(conv, (WB_UTINY)atoi(t[4]));
            if (atoi(t[5])) wbxml_conv_wbxml2xml_enable_preserve_whitespaces(conv);
            ret = wbxml_conv_wbxml2xml_run(conv, ro, (WB_ULONG)n, &xml, &xml_len);
            if (n == 0) { /* BAD_PARAMETER path leaves the out-parameters untouched */
                if (ret == WBXML_OK) contract = " CONTRACT:ok-on-empty";
                xml = NULL; xml_len = 0;
            }
            if (ret != WBXML_OK && (xml != NULL || xml_len != 0)) contract = " CONTRACT:error-with-output";
            if (ret == WBXML_OK && (xml == NULL || xml[xml_len] != 0)) contract = " CONTRACT:not-terminated";
            printf("R %d ; ", (int)ret);
            if (ret == WBXML_OK && xml) hx_out(stdout, xml, xml_len);
            printf("%s\n", contract);
            if (xml) wbxml_free(xml);
            wbxml_conv_wbxml2xml_destroy(conv);
            munmap(ro, maplen);
            free(doc);
        }
        free(line);
    }
    return 0;
}
