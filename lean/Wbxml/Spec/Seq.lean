/-
  C19 — the reference: a buffer is a plain byte string, a list is a plain sequence.

  Written from the header documentation of `wbxml_buffers.h` / `wbxml_lists.h`, not from the C
  function bodies: every operation is a short function on `List UInt8`.  The contents-level codecs
  whose algebra belongs to C11 (base64, multi-byte integers) are parameters (`Codec`).
-/
import Wbxml.Prim.Basic
namespace Wbxml.Spec.Seq
open Wbxml

/-- White space of the C locale. -/
def ws (c : UInt8) : Bool := c == 0x20 || c == 0x09 || c == 0x0A || c == 0x0B || c == 0x0C || c == 0x0D

/-- Bytes of a C-string argument. -/
def cstr (s : Bytes) : Bytes := s.takeWhile (· != 0)

/-- Each maximal white-space run becomes one space (`inRun` = the previous byte was white space). -/
def shrinkAux : Bool → Bytes → Bytes
  | _, [] => []
  | inRun, c :: cs =>
    if ws c then (if inRun then shrinkAux true cs else 0x20 :: shrinkAux true cs)
    else c :: shrinkAux false cs

def shrink (xs : Bytes) : Bytes := shrinkAux false xs

/-- Leading and trailing white space removed. -/
def strip (xs : Bytes) : Bytes := ((xs.dropWhile ws).reverse.dropWhile ws).reverse

def noSpaces (xs : Bytes) : Bytes := xs.filter (fun c => !ws c)

def removeTrailingZeros (xs : Bytes) : Bytes := (xs.reverse.dropWhile (· == 0)).reverse

/-- Maximal runs of non-white-space bytes, in order (`cur` = the word being collected). -/
def wordsAux : Bytes → Bytes → List Bytes
  | [], cur => if cur.isEmpty then [] else [cur]
  | c :: cs, cur =>
    if ws c then (if cur.isEmpty then wordsAux cs [] else cur :: wordsAux cs [])
    else wordsAux cs (cur ++ [c])

def words (xs : Bytes) : List Bytes := wordsAux xs []

/-- Lexicographic order on unsigned bytes, a proper prefix being smaller: −1, 0, 1. -/
def cmp : Bytes → Bytes → Int
  | [], [] => 0
  | [], _ :: _ => -1
  | _ :: _, [] => 1
  | a :: as, b :: bs => if a < b then -1 else if b < a then 1 else cmp as bs

/-- Offset of the first occurrence of `ys` in `xs`. -/
def firstMatch (ys : Bytes) : Bytes → Option Nat
  | [] => if ys.isEmpty then some 0 else none
  | x :: xs => if ys.isPrefixOf (x :: xs) then some 0 else (firstMatch ys xs).map (· + 1)

/-- First occurrence at or after `pos`; positions beyond the end are out of range. -/
def search (xs ys : Bytes) (pos : Nat) : Option Nat :=
  if pos > xs.length then none else (firstMatch ys (xs.drop pos)).map (· + pos)

/-- Value of one hex digit, 0 for anything else. -/
def hexVal8 (c : UInt8) : UInt8 :=
  if 0x30 ≤ c && c ≤ 0x39 then c - 0x30
  else if 0x61 ≤ c && c ≤ 0x66 then c - 0x57
  else if 0x41 ≤ c && c ≤ 0x46 then c - 0x37
  else 0

/-- Pairs of hex digits to bytes; an odd trailing digit is dropped. -/
def hexToBin : Bytes → Bytes
  | a :: b :: rest => (hexVal8 a * 16 ||| hexVal8 b) :: hexToBin rest
  | _ => []

def hexDigit8 (upper : Bool) (n : UInt8) : UInt8 :=
  if n < 10 then 0x30 + n else if upper then 0x37 + n else 0x57 + n

def binToHex (upper : Bool) (xs : Bytes) : Bytes :=
  xs.flatMap fun b => [hexDigit8 upper (b / 16), hexDigit8 upper (b % 16)]

/-- Contents-level codecs supplied by the codec component (C11 owns their laws). -/
structure Codec where
  b64Enc : Bytes → Bytes
  b64Dec : Bytes → Bytes
  mbUint : Nat → Bytes

/-- Pointer-like arguments: NULL or a byte string (for a second buffer, dynamic or static makes no
    difference to the reference). -/
inductive Arg where
  | null | dyn (bs : Bytes) | sta (bs : Bytes)
  deriving Repr, DecidableEq, Inhabited

def Arg.bytes : Arg → Option Bytes
  | .null => none | .dyn bs => some bs | .sta bs => some bs

inductive Op where
  | len | getChar (pos : Nat) | setChar (pos : Nat) (ch : UInt8) | getCstr | duplicate
  | insert (src : Arg) (pos : Nat) | insertCstr (s : Option Bytes) (pos : Nat)
  | insertSelf (pos : Nat) | appendSelf
  | append (src : Arg) | appendData (d : Option Bytes) | appendCstr (s : Option Bytes)
  | appendChar (ch : UInt8) | appendMb (v : Nat)
  | delete (pos n : Nat) | shrink | strip | noSpaces | rtz
  | compare (o : Arg) | compareCstr (s : Option Bytes)
  | splitWords | searchChar (ch : UInt8) (pos : Nat) | search (o : Arg) (pos : Nat)
  | searchCstr (s : Option Bytes) (pos : Nat) | onlyWs
  | hexToBin | binToHex (upper : Bool) | decB64 | encB64
  deriving Repr, DecidableEq, Inhabited

inductive Out where
  | bool (b : Bool) | nat (n : Nat) | optByte (o : Option UInt8) | optNat (o : Option Nat)
  | sign (i : Int) | bytes (bs : Bytes) | words (l : List Bytes) | unit
  deriving Repr, DecidableEq, Inhabited

/-- The reference object: its bytes and whether it is a static (immutable) buffer. -/
structure State where
  bytes : Bytes
  isStatic : Bool
  deriving Repr, DecidableEq, Inhabited

/-- Insertion of `d` at `pos`: refused for an empty `d` and for `pos` beyond the end. -/
def insertAt (xs : Bytes) (pos : Nat) (d : Bytes) : Bytes × Bool :=
  if d.isEmpty || pos > xs.length then (xs, false) else (xs.take pos ++ d ++ xs.drop pos, true)

/-- Insertion of an optional (possibly NULL) argument. -/
def insertArg (xs : Bytes) (d : Option Bytes) (pos : Nat) : Bytes × Bool :=
  match d with
  | none => (xs, false)
  | some d => insertAt xs pos d

/-- Comparison with an optional argument: anything is greater than NULL. -/
def cmpArg (xs : Bytes) (o : Option Bytes) : Int :=
  match o with
  | none => 1
  | some ys => cmp xs ys

/-- Search for an optional argument: NULL is never found. -/
def searchArg (xs : Bytes) (o : Option Bytes) (pos : Nat) : Option Nat :=
  match o with
  | none => none
  | some ys => search xs ys pos

/-- Appending: nothing to append is a success. -/
def appendBytes (xs : Bytes) (d : Option Bytes) : Bytes × Bool :=
  match d with
  | none => (xs, true)
  | some d => (xs ++ d, true)

/-- Deleting `n` bytes at `pos` (only called with `pos + n ≤ length`, see `Contract`). -/
def deleteAt (xs : Bytes) (pos n : Nat) : Bytes × Bool :=
  if pos ≥ xs.length || n = 0 then (xs, false) else (xs.take pos ++ xs.drop (pos + n), true)

/-- A mutating operation on the bytes: new bytes and the success flag. -/
def mutate (cd : Codec) (xs : Bytes) : Op → Option (Bytes × Bool)
  | .setChar pos ch => some (if pos < xs.length then (xs.set pos ch, true) else (xs, false))
  | .insert src pos => some (insertArg xs src.bytes pos)
  | .insertCstr s pos => some (insertArg xs (s.map cstr) pos)
  | .insertSelf pos => some (insertAt xs pos xs)
  | .appendSelf => some (xs ++ xs, true)
  | .append src => some (appendBytes xs src.bytes)
  | .appendData d => some (appendBytes xs d)
  | .appendCstr s => some (appendBytes xs (s.map cstr))
  | .appendChar ch => some (xs ++ [ch], true)
  | .appendMb v => some (xs ++ cd.mbUint v, true)
  | .delete pos n => some (deleteAt xs pos n)
  | .shrink => some (shrink xs, true)
  | .strip => some (strip xs, true)
  | .rtz => some (removeTrailingZeros xs, true)
  | .hexToBin => some (hexToBin xs, true)
  | .binToHex u => some (binToHex u xs, true)
  | .decB64 =>
    let s := noSpaces xs
    some (if (cd.b64Dec s).isEmpty then (s, false) else (cd.b64Dec s, true))
  | .encB64 => some (if xs.isEmpty then (xs, false) else (cd.b64Enc xs, true))
  | _ => none

/-- A query: the bytes are not changed. -/
def query (xs : Bytes) : Op → Out
  | .len => .nat xs.length
  | .getChar pos => .optByte xs[pos]?
  | .getCstr => .bytes xs
  | .duplicate => .bytes xs
  | .compare o => .sign (cmpArg xs o.bytes)
  | .compareCstr s => .sign (cmpArg xs (s.map cstr))
  | .splitWords => .words (words xs)
  | .searchChar ch pos => .optNat (search xs [ch] pos)
  | .search o pos => .optNat (searchArg xs o.bytes pos)
  | .searchCstr s pos => .optNat (searchArg xs (s.map cstr) pos)
  | .onlyWs => .bool (xs.all ws)
  | _ => .unit

/-- One operation on the reference object. A static object refuses every mutation. -/
def step (cd : Codec) (s : State) (op : Op) : State × Out :=
  match op with
  | .noSpaces => (if s.isStatic then s else { s with bytes := noSpaces s.bytes }, .unit)
  | op =>
    match mutate cd s.bytes op with
    | some (xs, ok) => if s.isStatic then (s, .bool false) else ({ s with bytes := xs }, .bool ok)
    | none => (s, query s.bytes op)

def run (cd : Codec) (s : State) : List Op → State × List Out
  | [] => (s, [])
  | op :: ops =>
    let (s1, o) := step cd s op
    let (s2, os) := run cd s1 ops
    (s2, o :: os)

/-- The one case outside the documented contract: a delete that starts inside the contents and
    extends beyond them (on a mutable object; a static one refuses before looking). -/
def excluded (s : State) : Op → Prop
  | .delete pos n => s.isStatic = false ∧ pos < s.bytes.length ∧ n ≠ 0 ∧ pos + n > s.bytes.length
  | _ => False

/-- A history stays inside the contract. -/
def Contract (cd : Codec) (s : State) : List Op → Prop
  | [] => True
  | op :: ops => ¬ excluded s op ∧ Contract cd (step cd s op).1 ops

/-! ### Lists -/

inductive LOp where
  | len | append (item : Nat) | insert (item : Nat) (pos : Nat) | get (idx : Nat) | extractFirst
  deriving Repr, DecidableEq, Inhabited

inductive LOut where
  | nat (n : Nat) | bool (b : Bool) | item (o : Option Nat)
  deriving Repr, DecidableEq, Inhabited

/-- Items are non-NULL pointers, here numbers ≠ 0; 0 is NULL and is refused. A position at or
    beyond the end inserts at the end (documented: "if position is greater than list length, just
    append it at tail"). -/
def lstep (xs : List Nat) : LOp → List Nat × LOut
  | .len => (xs, .nat xs.length)
  | .append it => if it = 0 then (xs, .bool false) else (xs ++ [it], .bool true)
  | .insert it pos =>
    if it = 0 then (xs, .bool false) else (xs.take pos ++ it :: xs.drop pos, .bool true)
  | .get idx => (xs, .item xs[idx]?)
  | .extractFirst => (xs.tail, .item xs.head?)

def lrun (xs : List Nat) : List LOp → List Nat × List LOut
  | [] => (xs, [])
  | op :: ops =>
    let (x1, o) := lstep xs op
    let (x2, os) := lrun x1 ops
    (x2, o :: os)

end Wbxml.Spec.Seq
