/-
  Character-data syntax of XML 1.0 (§2.4, §4.1, §4.6) for the subset the printer emits: the five
  predefined entity references and decimal character references for CR, LF and TAB.
  `unescape` is the reader's view of escaped character data.
-/
import Wbxml.Prim.Basic
namespace Wbxml.Spec

/-- Read escaped character data: `&lt; &gt; &amp; &quot; &apos; &#13; &#10; &#9;` are replaced by
    the character they denote; any other byte stands for itself. -/
def unescape : Bytes → Bytes
  | 38 :: 108 :: 116 :: 59 :: r => 60 :: unescape r                       -- &lt;
  | 38 :: 103 :: 116 :: 59 :: r => 62 :: unescape r                       -- &gt;
  | 38 :: 97 :: 109 :: 112 :: 59 :: r => 38 :: unescape r                 -- &amp;
  | 38 :: 113 :: 117 :: 111 :: 116 :: 59 :: r => 34 :: unescape r         -- &quot;
  | 38 :: 97 :: 112 :: 111 :: 115 :: 59 :: r => 39 :: unescape r          -- &apos;
  | 38 :: 35 :: 49 :: 51 :: 59 :: r => 13 :: unescape r                   -- &#13;
  | 38 :: 35 :: 49 :: 48 :: 59 :: r => 10 :: unescape r                   -- &#10;
  | 38 :: 35 :: 57 :: 59 :: r => 9 :: unescape r                          -- &#9;
  | b :: r => b :: unescape r
  | [] => []

/-- Bytes that may not appear literally in character data or in a double-quoted attribute value. -/
def isMarkup (b : UInt8) : Bool := b == 60 || b == 62 || b == 34 || b == 39

end Wbxml.Spec
