/-
  The WBXML 1.0–1.3 binary format as a grammar (`Spec.Doc`), its serialisation (`Spec.ser`) and
  the meaning the specification assigns to a document as a stream of parser events
  (`Spec.events`). Written from WAP-192-WBXML §5 (BNF below), independent of the structure of
  `wbxml_parser.c`:

      start      = version publicid charset strtbl body
      strtbl     = length *byte
      body       = *pi element *pi
      element    = ([switchPage] stag) [ 1*attribute END ] [ *content END ]
      content    = element | string | extension | entity | pi | opaque
      stag       = TAG | (literalTag index)
      attribute  = attrStart *attrValue
      attrStart  = ([switchPage] ATTRSTART) | ( LITERAL index )
      attrValue  = ([switchPage] ATTRVALUE) | string | extension | entity | opaque
      extension  = [switchPage] (( EXT_I termstr ) | ( EXT_T index ) | EXT)
      string     = inline | tableref        inline = STR_I termstr     tableref = STR_T index
      switchPage = SWITCH_PAGE pageindex    entity = ENTITY entcode    pi = PI attrStart *attrValue END
      opaque     = OPAQUE length *byte      publicid = mb_u_int32 | ( zero index )

  A `Doc` holds exactly the choices the grammar leaves open (every optional `switchPage` is an
  `Option Nat`, so required and redundant page switches are both expressible); `ser` is therefore
  context free. `events` threads the two code pages (tag space, attribute space) separately,
  resolves strings through the string table, concatenates attribute values and applies the
  languages' typed-content rules.
-/
import Wbxml.Model.Parser
import Wbxml.Model.Codec.MbUint
import Wbxml.Spec.Utf8
namespace Wbxml.Spec
open Wbxml Wbxml.Model

/-! ## The grammar -/

/-- `publicid = mb_u_int32 | (zero index)`. -/
inductive PubIdent where
  | num (id : Nat)
  | str (idx : Nat)
  deriving Repr, DecidableEq, Inhabited

/-- `version publicid charset strtbl`. The charset field exists for every version but 1.0
    (`version = 0`); the string table is given by its NUL-terminated entries. -/
structure Header where
  version : Nat
  pubid : PubIdent
  charset : Nat
  strtbl : List Bytes
  deriving Repr, DecidableEq, Inhabited

/-- `string = (STR_I termstr) | (STR_T index)`. -/
inductive Str where
  | inl (s : Bytes)
  | tbl (off : Nat)
  deriving Repr, DecidableEq, Inhabited

/-- `(EXT_I_k termstr) | (EXT_T_k index) | EXT_k`, `k < 3`. -/
inductive Ext where
  | inl (k : Nat) (s : Bytes)
  | tbl (k : Nat) (v : Nat)
  | tok (k : Nat)
  deriving Repr, DecidableEq, Inhabited

/-- `attrValue`. -/
inductive AVal where
  | tok (sw : Option Nat) (t : Nat)
  | str (s : Str)
  | entity (c : Nat)
  | opaque (d : Bytes)
  | ext (sw : Option Nat) (x : Ext)
  deriving Repr, DecidableEq, Inhabited

/-- `attrStart`. -/
inductive AStart where
  | tok (sw : Option Nat) (t : Nat)
  | lit (off : Nat)
  deriving Repr, DecidableEq, Inhabited

/-- `attribute = attrStart *attrValue` (also the inside of a `pi`). -/
structure Attribute where
  start : AStart
  vals : List AVal
  deriving Repr, DecidableEq, Inhabited

/-- `stag = TAG | (literalTag index)`; the flag bits are determined by the element. -/
inductive Tag where
  | tok (t : Nat)
  | lit (off : Nat)
  deriving Repr, DecidableEq, Inhabited

mutual
/-- `element`; `content = none` ⇒ content bit clear, `some []` ⇒ content bit set, no content. -/
inductive Elem where
  | mk (sw : Option Nat) (tag : Tag) (attrs : List Attribute) (content : Option (List Item))
/-- `content`. -/
inductive Item where
  | elem (e : Elem)
  | str (s : Str)
  | entity (c : Nat)
  | opaque (d : Bytes)
  | ext (sw : Option Nat) (x : Ext)
  | pi (a : Attribute)
end

instance : Inhabited Elem := ⟨.mk none (.tok 5) [] none⟩
instance : Inhabited Item := ⟨.entity 32⟩

/-- `start`; `pre`/`post` are the processing instructions around the root element. -/
structure Doc where
  hdr : Header
  pre : List Attribute
  root : Elem
  post : List Attribute
  deriving Inhabited

/-! ## Serialisation -/

/-- `mb_u_int32`. -/
abbrev mb (v : Nat) : Bytes := Codec.mbEncode v

def byte (n : Nat) : UInt8 := UInt8.ofNat n

/-- `[switchPage]`. -/
def serSw : Option Nat → Bytes
  | none => []
  | some p => [0x00, byte p]

def serStr : Str → Bytes
  | .inl s => 0x03 :: (s ++ [0x00])
  | .tbl off => 0x83 :: mb off

def serExt : Ext → Bytes
  | .inl k s => byte (0x40 + k) :: (s ++ [0x00])
  | .tbl k v => byte (0x80 + k) :: mb v
  | .tok k => [byte (0xC0 + k)]

def serOpaque (d : Bytes) : Bytes := 0xC3 :: (mb d.length ++ d)

def serAVal : AVal → Bytes
  | .tok sw t => serSw sw ++ [byte t]
  | .str s => serStr s
  | .entity c => 0x02 :: mb c
  | .opaque d => serOpaque d
  | .ext sw x => serSw sw ++ serExt x

def serAVals : List AVal → Bytes
  | [] => []
  | v :: vs => serAVal v ++ serAVals vs

def serAStart : AStart → Bytes
  | .tok sw t => serSw sw ++ [byte t]
  | .lit off => 0x04 :: mb off

def serAttr (a : Attribute) : Bytes := serAStart a.start ++ serAVals a.vals

def serAttrs : List Attribute → Bytes
  | [] => []
  | a :: as => serAttr a ++ serAttrs as

def serPi (a : Attribute) : Bytes := 0x43 :: (serAttr a ++ [0x01])

def serPis : List Attribute → Bytes
  | [] => []
  | a :: as => serPi a ++ serPis as

/-- Flag bits of a tag octet: `0x80` = has attributes, `0x40` = has content. -/
def tagFlags (hasAttrs hasContent : Bool) : Nat :=
  (if hasAttrs then 0x80 else 0) + (if hasContent then 0x40 else 0)

def serTag (flags : Nat) : Tag → Bytes
  | .tok t => [byte (t + flags)]
  | .lit off => byte (0x04 + flags) :: mb off

mutual
def serElem : Elem → Bytes
  | .mk sw tag attrs content =>
    serSw sw ++ (serTag (tagFlags (!attrs.isEmpty) content.isSome) tag ++
      ((if attrs.isEmpty then [] else serAttrs attrs ++ [0x01]) ++ serContent content))
def serContent : Option (List Item) → Bytes
  | none => []
  | some items => serItems items ++ [0x01]
def serItems : List Item → Bytes
  | [] => []
  | it :: rest => serItem it ++ serItems rest
def serItem : Item → Bytes
  | .elem e => serElem e
  | .str s => serStr s
  | .entity c => 0x02 :: mb c
  | .opaque d => serOpaque d
  | .ext sw x => serSw sw ++ serExt x
  | .pi a => serPi a
end

/-- The string table octets: every entry followed by its terminator. -/
def tblBytes : List Bytes → Bytes
  | [] => []
  | e :: es => e ++ 0x00 :: tblBytes es

def serPubid : PubIdent → Bytes
  | .num id => mb id
  | .str idx => 0x00 :: mb idx

def serHeader (h : Header) : Bytes :=
  byte h.version :: (serPubid h.pubid ++ ((if h.version = 0 then [] else mb h.charset) ++
    (mb (tblBytes h.strtbl).length ++ tblBytes h.strtbl)))

def serBody (d : Doc) : Bytes := serPis d.pre ++ (serElem d.root ++ serPis d.post)

/-- The octets of a document. -/
def ser (d : Doc) : Bytes := serHeader d.hdr ++ serBody d

/-! ## Meaning -/

/-- The two code pages in force (WBXML §5.8.1: one per code space, both initially 0). -/
structure Pages where
  tag : Nat := 0
  attr : Nat := 0
  deriving Repr, DecidableEq, Inhabited

/-- What the header fixes for the body: token tables, character set, string table octets. -/
structure Ctx where
  lang : Lang
  charset : Nat
  tbl : Bytes
  deriving Inhabited

/-- The string starting at octet `off` of the string table (up to its terminator). -/
def strAt (tbl : Bytes) (off : Nat) : Bytes := (tbl.drop off).takeWhile (· != 0)

/-- Page in force after an optional `switchPage`. -/
def swPage (sw : Option Nat) (cur : Nat) : Nat := sw.getD cur

def strText (c : Ctx) : Str → Bytes
  | .inl s => s
  | .tbl off => strAt c.tbl off

/-- Character data is reported only when there is some. -/
def charsEv (b : Bytes) : List Event := if b.isEmpty then [] else [.chars b]

/-- WML variable substitution syntax for the three extension families. -/
def wmlVarSuffix (k : Nat) : Bytes :=
  if k = 0 then b!":escape" else if k = 1 then b!":unesc" else b!":noesc"

def wmlVar (name : Bytes) (k : Nat) : Bytes := b!"$(" ++ name ++ wmlVarSuffix k ++ b!")"

/-- What an extension token denotes: WML variables (WML 1.x §14.3), Wireless Village extension
    values (`EXT_T_0` + index into the extension table); everything else carries no text. -/
def extText (c : Ctx) : Ext → Option Bytes
  | .inl k s => if isWml c.lang.id then some (wmlVar s k) else none
  | .tbl k v =>
    if isWml c.lang.id then some (wmlVar (strAt c.tbl v) k)
    else if isWv c.lang.id && k == 0 then
      match c.lang.exts with
      | some exts => (exts.find? (fun r => r.token == v)).map (·.name)
      | none => none
    else none
  | .tok _ => none

/-- Character entity: the UTF-8 form of the character. -/
def entityText (code : Nat) : Bytes := utf8 code

/-- Typed opaque content of an element, by the enclosing element's own (token) tag:
    Wireless Village integers and date-times, base64 for DRMREL `KeyValue` and SyncML `NextNonce`
    (the decoders are the T-codec functions whose agreement with RFC 4648 / the calendar
    specification is property C12). Returns `none` where the rule is undefined (empty base64
    input, a date-time that is not six octets, an integer beyond 32 bits). -/
def opaqueText (c : Ctx) (own : Option TagRow) (d : Bytes) : Option Bytes :=
  match decodeOpaqueContent c.lang.id own d with
  | .ok b => some b
  | .error _ => none

/-- Opaque attribute value: OTA settings carry binary data shown as base64. -/
def opaqueAttrText (c : Ctx) (d : Bytes) : Option Bytes :=
  match decodeOpaqueAttrValue c.lang.id d with
  | .ok b => some b
  | .error _ => none

/-- First row of the table with this (page, token) — the name a token stands for. -/
def tagRow (c : Ctx) (page t : Nat) : Option TagRow :=
  match c.lang.tags with
  | some tags => tags.find? (fun r => r.token == t && r.page == page)
  | none => none

def attrRow (c : Ctx) (page t : Nat) : Option AttrRow :=
  match c.lang.attrs with
  | some attrs => attrs.find? (fun r => r.token == t && r.page == page)
  | none => none

def valRow (c : Ctx) (page t : Nat) : Option ValRow :=
  match c.lang.values with
  | some vals => vals.find? (fun r => r.token == t && r.page == page)
  | none => none

/-- Text of one attribute value piece and the attribute page after it. -/
def avalText (c : Ctx) (ap : Nat) : AVal → Bytes × Nat
  | .tok sw t => (((valRow c (swPage sw ap) t).map (·.name)).getD [], swPage sw ap)
  | .str s => (strText c s, ap)
  | .entity code => (entityText code, ap)
  | .opaque d => ((opaqueAttrText c d).getD [], ap)
  | .ext sw x => ((extText c x).getD [], swPage sw ap)

def avalsText (c : Ctx) (ap : Nat) : List AVal → Bytes × Nat
  | [] => ([], ap)
  | v :: vs =>
    let r := avalText c ap v
    let rs := avalsText c r.2 vs
    (r.1 ++ rs.1, rs.2)

/-- Name and value prefix of an attribute start, and the attribute page after it. -/
def astartName (c : Ctx) (ap : Nat) : AStart → AName × Bytes × Nat
  | .tok sw t =>
    match attrRow c (swPage sw ap) t with
    | some r => (.token r, r.value.getD [], swPage sw ap)
    | none => (.literal unknownStr, [], swPage sw ap)
  | .lit off => (.literal (strAt c.tbl off), [], ap)

/-- SI `created` / `si-expires` and EMN `timestamp` are `%Datetime` attributes. -/
def isDatetimeAttr (c : Ctx) : AName → Bool
  | .token r =>
    (c.lang.id == 1301 && r.page == 0 && (r.token == 0x0a || r.token == 0x10)) ||
    (c.lang.id == 1701 && r.page == 0 && r.token == 0x05)
  | .literal _ => false

/-- An attribute's value: start-token prefix ++ pieces; a non-empty `%Datetime` value is shown
    as ISO-8601 text (`none` where that is undefined). -/
def attrValueText (c : Ctx) (name : AName) (raw : Bytes) : Option Bytes :=
  if !raw.isEmpty && isDatetimeAttr c name then
    match decodeDatetime raw with
    | .ok b => some b
    | .error _ => none
  else some raw

/-- The value buffer as the handler receives it: a non-empty value carries one trailing NUL. -/
def withNul (v : Bytes) : Bytes := if v.isEmpty then v else v ++ [0]

def evAttr (c : Ctx) (ap : Nat) (a : Attribute) : Attr × Nat :=
  let st := astartName c ap a.start
  let vs := avalsText c st.2.2 a.vals
  ({ name := st.1, value := withNul ((attrValueText c st.1 (st.2.1 ++ vs.1)).getD []) }, vs.2)

def evAttrs (c : Ctx) (ap : Nat) : List Attribute → List Attr × Nat
  | [] => ([], ap)
  | a :: as =>
    let r := evAttr c ap a
    let rs := evAttrs c r.2 as
    (r.1 :: rs.1, rs.2)

/-- A processing instruction: target = attribute name, data = its value (never `%Datetime`-typed). -/
def evPi (c : Ctx) (ap : Nat) (a : Attribute) : Event × Nat :=
  let st := astartName c ap a.start
  let vs := avalsText c st.2.2 a.vals
  (.pi st.1.xmlName (withNul (st.2.1 ++ vs.1)), vs.2)

def evPis (c : Ctx) (ap : Nat) : List Attribute → List Event × Nat
  | [] => ([], ap)
  | a :: as =>
    let r := evPi c ap a
    let rs := evPis c r.2 as
    (r.1 :: rs.1, rs.2)

/-- The name of an element and, for a token tag, its table row. -/
def tagName (c : Ctx) (tp : Nat) : Tag → Name × Option TagRow
  | .tok t =>
    match tagRow c tp t with
    | some r => (.token r, some r)
    | none => (.literal unknownStr, none)
  | .lit off => (.literal (strAt c.tbl off), none)

mutual
/-- Events of an element and the code pages after it. -/
def evElem (c : Ctx) (pg : Pages) : Elem → List Event × Pages
  | .mk sw tag attrs content =>
    let tp := swPage sw pg.tag
    let nm := tagName c tp tag
    let as := evAttrs c pg.attr attrs
    let body := evContent c nm.2 ⟨tp, as.2⟩ content
    (.startElt nm.1 as.1 :: (body.1 ++ [.endElt nm.1]), body.2)
def evContent (c : Ctx) (own : Option TagRow) (pg : Pages) : Option (List Item) → List Event × Pages
  | none => ([], pg)
  | some items => evItems c own pg items
def evItems (c : Ctx) (own : Option TagRow) (pg : Pages) : List Item → List Event × Pages
  | [] => ([], pg)
  | it :: rest =>
    let r := evItem c own pg it
    let rs := evItems c own r.2 rest
    (r.1 ++ rs.1, rs.2)
def evItem (c : Ctx) (own : Option TagRow) (pg : Pages) : Item → List Event × Pages
  | .elem e => evElem c pg e
  | .str s => (charsEv (strText c s), pg)
  | .entity code => (charsEv (entityText code), pg)
  | .opaque d => (charsEv ((opaqueText c own d).getD []), pg)
  | .ext sw x => (charsEv ((extText c x).getD []), ⟨swPage sw pg.tag, pg.attr⟩)
  | .pi a => let r := evPi c pg.attr a; ([r.1], ⟨pg.tag, r.2⟩)
end

/-! ### Header -/

/-- The character set the header announces: the charset field (absent in version 1.0, `0` =
    unknown) and otherwise the transport's (`metaCharset`), defaulting to UTF-8. -/
def headerCharset (cfg : PCfg) (h : Header) : Nat :=
  if h.version ≠ 0 ∧ h.charset ≠ 0 then h.charset
  else if cfg.metaCharset ≠ 0 then cfg.metaCharset else 106

/-- The language the header selects: a forced language wins; otherwise the first entry of the
    main table with the numeric public identifier (`1` = unknown selects nothing), or whose
    textual identifier equals (ASCII case-insensitively) the string-table entry referred to. -/
def headerLang (cfg : PCfg) (h : Header) : Option Lang :=
  if cfg.langForced ≠ 0 then cfg.main.find? (fun l => l.id == cfg.langForced)
  else match h.pubid with
    | .num id => if id = 1 then none else cfg.main.find? (fun l => l.pub.wbxmlId == id)
    | .str idx =>
      cfg.main.find? (fun l => match l.pub.xmlId with
        | some x => caseEq x (strAt (tblBytes h.strtbl) idx)
        | none => false)

def headerCtx (cfg : PCfg) (h : Header) (l : Lang) : Ctx :=
  { lang := l, charset := headerCharset cfg h, tbl := tblBytes h.strtbl }

/-- The event stream the specification assigns to a document. -/
def events (cfg : PCfg) (d : Doc) : List Event :=
  match headerLang cfg d.hdr with
  | none => []
  | some l =>
    let c := headerCtx cfg d.hdr l
    let p1 := evPis c 0 d.pre
    let r := evElem c ⟨0, p1.2⟩ d.root
    let p2 := evPis c r.2.attr d.post
    .startDoc c.charset l.id :: (p1.1 ++ (r.1 ++ (p2.1 ++ [.endDoc])))

/-! ## Well-formedness

  Decidable (`Bool`-valued) side conditions under which the meaning above is defined. Every
  conjunct excludes a shape at which the grammar or a referenced standard assigns no meaning;
  `DESIGN_NOTES/C04_proofs.md` records, conjunct by conjunct, what the real parser does there. -/

/-- The only character sets for which strings can be delivered (US-ASCII, UTF-8). -/
def csOk (c : Ctx) : Bool := c.charset == 3 || c.charset == 106

/-- Facts about the string table that the header guarantees: its length fits an `mb_u_int32`
    and a non-empty table ends with a terminator. -/
def Ctx.ok (c : Ctx) : Bool :=
  decide (c.tbl.length < 4294967296) && (c.tbl.isEmpty || c.tbl.getLast? == some 0)

def nulFree (s : Bytes) : Bool := s.all (· != 0)

def wfSw : Option Nat → Bool
  | none => true
  | some p => decide (p < 256)

/-- Tag tokens: 0x05–0x3F (the low six bits of the tag octet, global tokens excluded). -/
def isTagTok (t : Nat) : Bool := decide (5 ≤ t) && decide (t < 0x40)

/-- Attribute start tokens: below 0x80 and not a global token (0x00–0x04, 0x40–0x44). -/
def isAttrStartTok (t : Nat) : Bool :=
  (decide (5 ≤ t) && decide (t < 0x40)) || (decide (0x45 ≤ t) && decide (t < 0x80))

/-- Attribute value tokens: 0x80 and above and not a global token (0x80–0x84, 0xC0–0xC4). -/
def isAttrValueTok (t : Nat) : Bool :=
  (decide (0x85 ≤ t) && decide (t < 0xC0)) || (decide (0xC5 ≤ t) && decide (t < 0x100))

def wfStr (c : Ctx) : Str → Bool
  | .inl s => csOk c && nulFree s
  | .tbl off => csOk c && decide (off < c.tbl.length)

def wfExt (c : Ctx) : Ext → Bool
  | .inl k s => decide (k < 3) && isWml c.lang.id && csOk c && nulFree s
  | .tbl k v =>
    decide (k < 3) &&
    (if isWml c.lang.id then csOk c && decide (v < c.tbl.length)
     else isWv c.lang.id && k == 0 && c.lang.exts.isSome && decide (v < 4294967296))
  | .tok k => decide (k < 3)

def wfEntity (code : Nat) : Bool := decide (isScalar code) && code != 0

def wfAVal (c : Ctx) (ap : Nat) : AVal → Bool
  | .tok sw t => wfSw sw && isAttrValueTok t && (valRow c (swPage sw ap) t).isSome
  | .str s => wfStr c s
  | .entity code => wfEntity code
  | .opaque d => decide (d.length < 4294967296) && (opaqueAttrText c d).isSome
  | .ext sw x => wfSw sw && wfExt c x

def wfAVals (c : Ctx) (ap : Nat) : List AVal → Bool
  | [] => true
  | v :: vs => wfAVal c ap v && wfAVals c (avalText c ap v).2 vs

def wfAStart (c : Ctx) (ap : Nat) : AStart → Bool
  | .tok sw t => wfSw sw && isAttrStartTok t && (attrRow c (swPage sw ap) t).isSome
  | .lit off => csOk c && decide (off < c.tbl.length)

/-- Start and pieces of an attribute or processing instruction. -/
def wfPi (c : Ctx) (ap : Nat) (a : Attribute) : Bool :=
  wfAStart c ap a.start && wfAVals c (astartName c ap a.start).2.2 a.vals

def wfAttr (c : Ctx) (ap : Nat) (a : Attribute) : Bool :=
  wfPi c ap a &&
  (let st := astartName c ap a.start
   (attrValueText c st.1 (st.2.1 ++ (avalsText c st.2.2 a.vals).1)).isSome)

def wfAttrs (c : Ctx) (ap : Nat) : List Attribute → Bool
  | [] => true
  | a :: as => wfAttr c ap a && wfAttrs c (evAttr c ap a).2 as

def wfPis (c : Ctx) (ap : Nat) : List Attribute → Bool
  | [] => true
  | a :: as => wfPi c ap a && wfPis c (evPi c ap a).2 as

def wfTag (c : Ctx) (tp : Nat) : Tag → Bool
  | .tok t => isTagTok t && (tagRow c tp t).isSome
  | .lit off => csOk c && decide (off < c.tbl.length)

/-- The typed-content slot the parser keeps (`current_tag`): set by a token tag, kept by a
    literal tag. -/
def slotOfTag (own slot : Option TagRow) : Tag → Option TagRow
  | .tok _ => own
  | .lit _ => slot

/-- … and cleared whenever an element ends. -/
def slotAfter (slot : Option TagRow) : Item → Option TagRow
  | .elem _ => none
  | _ => slot

mutual
/-- `slot` = the tag whose typed-content rule the parser's single `current_tag` slot would apply
    here; an opaque item must get from it what its own element's tag gives (`wfItem`). -/
def wfElem (c : Ctx) (slot : Option TagRow) (pg : Pages) : Elem → Bool
  | .mk sw tag attrs content =>
    wfSw sw && wfTag c (swPage sw pg.tag) tag && wfAttrs c pg.attr attrs &&
    wfContent c (tagName c (swPage sw pg.tag) tag).2
      (slotOfTag (tagName c (swPage sw pg.tag) tag).2 slot tag)
      ⟨swPage sw pg.tag, (evAttrs c pg.attr attrs).2⟩ content
def wfContent (c : Ctx) (own slot : Option TagRow) (pg : Pages) : Option (List Item) → Bool
  | none => true
  | some items => wfItems c own slot pg items
def wfItems (c : Ctx) (own slot : Option TagRow) (pg : Pages) : List Item → Bool
  | [] => true
  | it :: rest => wfItem c own slot pg it && wfItems c own (slotAfter slot it) (evItem c own pg it).2 rest
def wfItem (c : Ctx) (own slot : Option TagRow) (pg : Pages) : Item → Bool
  | .elem e => wfElem c slot pg e
  | .str s => wfStr c s
  | .entity code => wfEntity code
  | .opaque d =>
    decide (d.length < 4294967296) && (opaqueText c own d).isSome &&
    (opaqueText c slot d == opaqueText c own d)
  | .ext sw x => wfSw sw && wfExt c x
  | .pi a => wfPi c pg.attr a
end

def wfPubid (cfg : PCfg) (h : Header) : Bool :=
  match h.pubid with
  | .num id => decide (0 < id) && decide (id < 4294967296)
  | .str idx =>
    decide (idx < 4294967295) &&
    (cfg.langForced != 0 ||
      (decide (idx < (tblBytes h.strtbl).length) &&
       (headerCharset cfg h == 3 || headerCharset cfg h == 106)))

def wfHeader (cfg : PCfg) (h : Header) : Bool :=
  decide (h.version < 256) && wfPubid cfg h &&
  (h.version == 0 || (decide (h.charset < 4294967296) && cfg.charsets.contains (headerCharset cfg h))) &&
  decide ((tblBytes h.strtbl).length < 4294967296)

def Doc.wf (cfg : PCfg) (d : Doc) : Bool :=
  wfHeader cfg d.hdr &&
  match headerLang cfg d.hdr with
  | none => false
  | some l =>
    let c := headerCtx cfg d.hdr l
    let p1 := evPis c 0 d.pre
    let r := evElem c ⟨0, p1.2⟩ d.root
    wfPis c 0 d.pre && wfElem c none ⟨0, p1.2⟩ d.root && wfPis c r.2.attr d.post

/-- Well-formed documents over the languages of `cfg.main`. -/
def Doc.WF (cfg : PCfg) (d : Doc) : Prop := d.wf cfg = true

instance (cfg : PCfg) (d : Doc) : Decidable (d.WF cfg) := by unfold Doc.WF; infer_instance

end Wbxml.Spec
