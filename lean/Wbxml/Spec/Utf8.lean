/-
  UTF-8 as defined by RFC 3629 §3 / Unicode 3.9 (Table 3-6), written from the definition:

      Char. number range  |        UTF-8 octet sequence
      0000 0000-0000 007F | 0xxxxxxx
      0000 0080-0000 07FF | 110xxxxx 10xxxxxx
      0000 0800-0000 FFFF | 1110xxxx 10xxxxxx 10xxxxxx
      0001 0000-0010 FFFF | 11110xxx 10xxxxxx 10xxxxxx 10xxxxxx

  "Fill in the bits marked x from the bits of the character number, expressed in binary, placing the
  lowest-order bit in the rightmost position of the last octet."  A 6-bit field `k` places from the
  right is `c / 64^k % 64`; the leading field is what remains (`c / 64^k`).
  Independent of the C code (no loop, no mask table).
-/
import Wbxml.Prim.Basic
namespace Wbxml.Spec
open Wbxml

/-- Unicode scalar values: U+0000..U+10FFFF without the surrogates U+D800..U+DFFF. -/
def isScalar (c : Nat) : Prop := c < 0xD800 ∨ (0xE000 ≤ c ∧ c < 0x110000)

instance (c : Nat) : Decidable (isScalar c) := by unfold isScalar; infer_instance

/-- A continuation octet `10xxxxxx` carrying the 6-bit field `x`. -/
def cont (x : Nat) : UInt8 := UInt8.ofNat (0x80 + x % 64)

/-- The UTF-8 octet sequence of the character number `c` (meaningful for `c < 0x110000`). -/
def utf8 (c : Nat) : Bytes :=
  if c < 0x80 then [UInt8.ofNat c]
  else if c < 0x800 then [UInt8.ofNat (0xC0 + c / 64), cont c]
  else if c < 0x10000 then [UInt8.ofNat (0xE0 + c / 4096), cont (c / 64), cont c]
  else [UInt8.ofNat (0xF0 + c / 262144), cont (c / 4096), cont (c / 64), cont c]

/-- Reading one UTF-8 sequence back (strict on lead/continuation patterns, no shortest-form or
    surrogate check): used only to validate `utf8` against itself (`utf8_decode`). -/
def utf8Decode : Bytes → Option Nat
  | [a] => if a.toNat < 0x80 then some a.toNat else none
  | [a, b] =>
    if 0xC0 ≤ a.toNat ∧ a.toNat < 0xE0 ∧ b.toNat / 64 = 2 then some ((a.toNat - 0xC0) * 64 + b.toNat % 64) else none
  | [a, b, c] =>
    if 0xE0 ≤ a.toNat ∧ a.toNat < 0xF0 ∧ b.toNat / 64 = 2 ∧ c.toNat / 64 = 2 then
      some (((a.toNat - 0xE0) * 64 + b.toNat % 64) * 64 + c.toNat % 64) else none
  | [a, b, c, d] =>
    if 0xF0 ≤ a.toNat ∧ a.toNat < 0xF8 ∧ b.toNat / 64 = 2 ∧ c.toNat / 64 = 2 ∧ d.toNat / 64 = 2 then
      some ((((a.toNat - 0xF0) * 64 + b.toNat % 64) * 64 + c.toNat % 64) * 64 + d.toNat % 64) else none
  | _ => none

end Wbxml.Spec
