/-
  Base 64 encoding as specified by RFC 4648 §4, written from the text:

    "The encoding process represents 24-bit groups of input bits as output strings of 4 encoded
     characters.  Proceeding from left to right, a 24-bit input group is formed by concatenating 3
     8-bit input groups.  These 24 bits are then treated as 4 concatenated 6-bit groups, each of
     which is translated into a single character in the base 64 alphabet. […] Each 6-bit group is
     used as an index into an array of 64 printable characters. […]
     When fewer than 24 input bits are available in an input group, bits with value zero are added
     (on the right) to form an integral number of 6-bit groups.  Padding at the end of the data is
     performed using the '=' character: (1) the final quantum is an integral multiple of 24 bits: no
     padding; (2) exactly 8 bits: two characters followed by two '='; (3) exactly 16 bits: three
     characters followed by one '='."

  The definition below is a bit stream cut into 6-bit groups; it does not look at octet triples.
-/
import Wbxml.Prim.Basic
namespace Wbxml.Spec.Rfc4648
open Wbxml

/-- Table 1: The Base 64 Alphabet (value 0 … 63). -/
def alphabet : List UInt8 :=
  b!"ABCDEFGHIJKLMNOPQRSTUVWXYZabcdefghijklmnopqrstuvwxyz0123456789+/"

/-- `(pad) =` -/
def pad : UInt8 := 61

/-- The eight bits of an octet, most significant first. -/
def octetBits (b : UInt8) : List Bool :=
  [b.toNat.testBit 7, b.toNat.testBit 6, b.toNat.testBit 5, b.toNat.testBit 4,
   b.toNat.testBit 3, b.toNat.testBit 2, b.toNat.testBit 1, b.toNat.testBit 0]

/-- The input as a stream of bits, left to right. -/
def bitStream (bs : Bytes) : List Bool := bs.flatMap octetBits

/-- The number denoted by a group of bits, most significant first. -/
def value (g : List Bool) : Nat := g.foldl (fun n b => 2 * n + b.toNat) 0

/-- Cut a bit stream into 6-bit groups; a short final group gets zero bits added on the right. -/
def groups6 : List Bool → List (List Bool)
  | b0 :: b1 :: b2 :: b3 :: b4 :: b5 :: rest => [b0, b1, b2, b3, b4, b5] :: groups6 rest
  | [] => []
  | short => [(short ++ [false, false, false, false, false]).take 6]

/-- The alphabet character of a 6-bit group. -/
def charOf (g : List Bool) : UInt8 := (alphabet[value g]?).getD pad

/-- Padding: none for a multiple of 24 input bits, `==` after a final 8 bits, `=` after a final 16. -/
def padding (nOctets : Nat) : Bytes :=
  match nOctets % 3 with
  | 0 => []
  | 1 => [pad, pad]
  | _ => [pad]

/-- RFC 4648 base64 of an octet string. -/
def encode (bs : Bytes) : Bytes := (groups6 (bitStream bs)).map charOf ++ padding bs.length

end Wbxml.Spec.Rfc4648
