/-
  Calendar date-times and their textual forms, written from the standards the property appeals to
  (independent of the C structure):

  * `canon`  — the SI/EMN `%Datetime` form  `YYYY-MM-DDThh:mm:ssZ`  ([WAP-167 SI] §8.2.2, ISO 8601 extended, UTC)
  * `basic`  — the Wireless-Village form     `YYYYMMDDThhmmss[z]`   ([OMA-WV-CSP DataTypes] §4.3, ISO 8601 basic,
               one-letter military zone designator A–Z without J; `Z` = UTC)
  * `bcd`    — SI §8.2.2: every two digits of YYYYMMDDhhmmss packed in one octet, trailing zero octets omitted
  * `readBasic` — a reader for the WV form that accepts `hhmm` and `hhmmss` (absent seconds = 00), used to
               say "the same value" for Wireless-Village date-times.
  Core Lean only.
-/
import Wbxml.Prim.Basic
namespace Wbxml.Spec.Calendar
open Wbxml

structure DateTime where
  year : Nat
  month : Nat
  day : Nat
  hour : Nat
  minute : Nat
  second : Nat
  deriving Repr, DecidableEq, Inhabited

/-- Proleptic Gregorian leap-year rule. -/
def isLeap (y : Nat) : Bool := (y % 4 == 0 && y % 100 != 0) || y % 400 == 0

def daysInMonth (y m : Nat) : Nat :=
  if m = 2 then (if isLeap y then 29 else 28)
  else if m = 4 ∨ m = 6 ∨ m = 9 ∨ m = 11 then 30
  else if 1 ≤ m ∧ m ≤ 12 then 31 else 0

/-- A calendar date-time with a four-digit year. -/
def DateTime.Valid (d : DateTime) : Prop :=
  d.year ≤ 9999 ∧ 1 ≤ d.month ∧ d.month ≤ 12 ∧ 1 ≤ d.day ∧ d.day ≤ daysInMonth d.year d.month ∧
  d.hour ≤ 23 ∧ d.minute ≤ 59 ∧ d.second ≤ 59

instance (d : DateTime) : Decidable d.Valid := by unfold DateTime.Valid; exact inferInstance

theorem daysInMonth_le (y m : Nat) : daysInMonth y m ≤ 31 := by
  unfold daysInMonth; repeat' split
  all_goals omega

/-- ASCII digit of `n mod 10`. -/
def dig (n : Nat) : UInt8 := UInt8.ofNat (48 + n % 10)

/-- Two / four decimal digits, most significant first (`n mod 100`, `n mod 10000`). -/
def d2 (n : Nat) : Bytes := [dig (n / 10), dig n]
def d4 (n : Nat) : Bytes := [dig (n / 1000), dig (n / 100), dig (n / 10), dig n]

/-- `YYYY-MM-DDThh:mm:ssZ` -/
def canon (d : DateTime) : Bytes :=
  d4 d.year ++ [0x2D] ++ d2 d.month ++ [0x2D] ++ d2 d.day ++ [0x54] ++
  d2 d.hour ++ [0x3A] ++ d2 d.minute ++ [0x3A] ++ d2 d.second ++ [0x5A]

/-- The fourteen digits `YYYYMMDDhhmmss`. -/
def digits14 (d : DateTime) : Bytes :=
  d4 d.year ++ d2 d.month ++ d2 d.day ++ d2 d.hour ++ d2 d.minute ++ d2 d.second

/-- One BCD octet for a two-digit number. -/
def bcd (n : Nat) : UInt8 := UInt8.ofNat (16 * (n / 10 % 10) + n % 10)

/-- SI §8.2.2 before omission of trailing zero octets: seven BCD octets. -/
def bcd7 (d : DateTime) : Bytes :=
  [bcd (d.year / 100), bcd (d.year % 100), bcd d.month, bcd d.day, bcd d.hour, bcd d.minute, bcd d.second]

/-- The date-time denoted by the first `k` octets of the BCD form (omitted octets are zero fields). -/
def truncTo (d : DateTime) (k : Nat) : DateTime :=
  { d with hour := if 5 ≤ k then d.hour else 0,
           minute := if 6 ≤ k then d.minute else 0,
           second := if 7 ≤ k then d.second else 0 }

/-- Number of octets SI §8.2.2 keeps: trailing zero octets are omitted (the day octet is never zero). -/
def keptOctets (d : DateTime) : Nat :=
  if d.second ≠ 0 then 7 else if d.minute ≠ 0 then 6 else if d.hour ≠ 0 then 5 else 4

/-- Military time-zone designators: `A`–`Z` without `J`. -/
def isZone (z : UInt8) : Bool := 0x41 ≤ z && z ≤ 0x5A && z != 0x4A

/-- `YYYYMMDDThhmmss` + optional zone letter. -/
def basic (d : DateTime) (z : Option UInt8) : Bytes :=
  d4 d.year ++ d2 d.month ++ d2 d.day ++ [0x54] ++ d2 d.hour ++ d2 d.minute ++ d2 d.second ++ z.toList

/-- The same with the seconds omitted when they are zero (both are ISO 8601 basic forms of one instant). -/
def basicShort (d : DateTime) (z : Option UInt8) : Bytes :=
  d4 d.year ++ d2 d.month ++ d2 d.day ++ [0x54] ++ d2 d.hour ++ d2 d.minute ++
  (if d.second = 0 then [] else d2 d.second) ++ z.toList

def digVal (c : UInt8) : Option Nat := if 0x30 ≤ c ∧ c ≤ 0x39 then some (c.toNat - 48) else none

def num2 (a b : UInt8) : Option Nat := do
  let x ← digVal a
  let y ← digVal b
  pure (10 * x + y)

/-- Reader for the Wireless-Village basic form: `YYYYMMDDThhmm[ss][z]`. -/
def readBasic (s : Bytes) : Option (DateTime × Option UInt8) :=
  match s with
  | y1 :: y2 :: y3 :: y4 :: m1 :: m2 :: d1 :: d2' :: 0x54 :: h1 :: h2 :: n1 :: n2 :: rest => do
    let yh ← num2 y1 y2
    let yl ← num2 y3 y4
    let mo ← num2 m1 m2
    let dd ← num2 d1 d2'
    let hh ← num2 h1 h2
    let mi ← num2 n1 n2
    let mk (ss : Nat) (z : Option UInt8) : DateTime × Option UInt8 :=
      (⟨100 * yh + yl, mo, dd, hh, mi, ss⟩, z)
    match rest with
    | [] => some (mk 0 none)
    | [z] => if isZone z then some (mk 0 (some z)) else none
    | [s1, s2] => do let ss ← num2 s1 s2; some (mk ss none)
    | [s1, s2, z] => do let ss ← num2 s1 s2; if isZone z then some (mk ss (some z)) else none
    | _ => none
  | _ => none

end Wbxml.Spec.Calendar
